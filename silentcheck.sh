#!/bin/bash
# usage: silentcheck.sh <patch...>  -- apply each behaviour-preserving variant to a scratch copy, build, run the suite,
# and run ALL properties' rules on it with BIN (default /verif/bin/samlverif). Maintenance aid, not a registered check.
export GOFLAGS=-mod=mod GOPROXY=off GOSUMDB=off GOTOOLCHAIN=local
BIN=${BIN:-/verif/bin/samlverif}
for pf in "$@"; do
  w=$(mktemp -d /tmp/silent.XXXXXX)
  rsync -a --exclude .git /repo/ $w/
  if ! (cd $w && patch -p1 -s < $pf >/dev/null 2>&1); then echo "$(basename $pf): PATCH-FAILED"; rm -rf $w; continue; fi
  if ! (cd $w && go build ./... 2>&1 | head -5); then :; fi
  if ! (cd $w && go build ./... >/dev/null 2>&1); then echo "$(basename $pf): BUILD-FAILED"; rm -rf $w; continue; fi
  t=$(cd $w && go test -vet=off -count=1 ./... 2>&1 | grep -E "^(FAIL|---)" | head -2 | tr '\n' ' ')
  out=$($BIN -repo $w -prop all -noevidence 2>&1 | grep "^VIOLATED\|^UNDECIDED\|^ERROR" | cut -c1-260)
  echo "== $(basename $pf): suite=[${t:-green}]"
  [ -n "$out" ] && echo "$out"
  rm -rf $w
done
