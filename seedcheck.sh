#!/bin/bash
# usage: seedcheck.sh <prop> <seed-dir> <seeded-id> <pkg-dir-for-demo (relative, e.g. . or samlidp)> [extra go test flags]
# Confirms a seeded change in a scratch worktree of /repo (demo passes without, suite passes with, demo fails with),
# runs the static check of <prop> (and optionally others) against the changed tree, and files it under /verif/seeded/<id>/.
set -u
prop=$1; sd=$2; id=$3; pkg=${4:-.}; shift 4 || true
extra="$*"
export GOFLAGS=-mod=mod GOPROXY=off GOSUMDB=off GOTOOLCHAIN=local GOWORK=off
wt=/tmp/seedwt-$id
git -C /repo worktree remove --force $wt 2>/dev/null
git -C /repo worktree add -q $wt HEAD || exit 2
demo=$(ls $sd/*_test.go | head -1)
cp $demo $wt/$pkg/zz_seed_demo_test.go
cd $wt
echo "--- demo on unchanged tree (must pass)"
go test -vet=off -count=1 $extra -run 'Seed|Demo|C[0-9][0-9]' ./$pkg 2>&1 | tail -3; r0=${PIPESTATUS[0]}
git apply $sd/patch.diff 2>/dev/null || patch -p1 -s -F3 < $sd/patch.diff || { echo "PATCH DOES NOT APPLY"; exit 2; }
echo "--- demo on changed tree (must fail)"
go test -vet=off -count=1 $extra -run 'Seed|Demo|C[0-9][0-9]' ./$pkg 2>&1 | tail -6; r1=${PIPESTATUS[0]}
rm -f $wt/$pkg/zz_seed_demo_test.go
echo "--- full suite on changed tree (must pass)"
go test -vet=off -count=1 ./... 2>&1 | grep -v "no test files" | tail -6; r2=${PIPESTATUS[0]}
echo "--- static checks on changed tree"
for p in $prop ${ALSO:-}; do
  ${BIN:-/verif/bin/samlverif} -repo $wt -prop $p -noevidence 2>&1 | grep "^VIOLATED\|^UNDECIDED\|^==" | cut -c1-300
done
echo "RESULT demo_unchanged=$r0 demo_changed=$r1 suite_changed=$r2"
mkdir -p /verif/seeded/$id
cp $sd/patch.diff /verif/seeded/$id/patch.diff
cp $demo /verif/seeded/$id/$(basename $demo)
cp $sd/README.md /verif/seeded/$id/README.md 2>/dev/null
cd /; git -C /repo worktree remove --force $wt
