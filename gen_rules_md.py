#!/usr/bin/env python3
"""Fills Appendix B of DESIGN.md from the evidence files (rule, decides, instances, min)."""
import json, glob, os, re
HERE = os.path.dirname(os.path.abspath(__file__))
rows = []
for f in sorted(glob.glob(os.path.join(HERE, "evidence", "C??.json"))):
    ev = json.load(open(f))
    for r in ev["coverage"]["rules"]:
        rows.append("| %s | %s | %d | %d |" % (r["rule"], r["decides"].replace("|", "\\|"), r["instances"], r["min_instances"]))
out = "| rule | decides | instances | min |\n|---|---|---|---|\n" + "\n".join(rows) + "\n"
p = os.path.join(HERE, "DESIGN.md")
s = open(p).read()
s = re.sub(r"<!-- RULES:BEGIN -->.*<!-- RULES:END -->", "<!-- RULES:BEGIN -->\n" + out.replace("\\", "\\\\") + "<!-- RULES:END -->", s, flags=re.S)
open(p, "w").write(s)
print("rules:", len(rows))
