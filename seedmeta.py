#!/usr/bin/env python3
import json, sys, os
# usage: seedmeta.py <id> <property> <detected_by comma list or -> <needs text> [expect_rule]
sid, prop, det, needs = sys.argv[1:5]
rule = sys.argv[5] if len(sys.argv) > 5 else None
d = "/verif/seeded/" + sid
m = {
  "id": sid, "property": prop,
  "breaks": "property %s (see README.md in this directory, written by the sub-agent that produced the change)" % prop,
  "needs_to_manifest": needs,
  "confirmed": "seedcheck.sh in a scratch worktree of /repo HEAD: demonstration passes on the unchanged tree, fails with patch.diff applied; `go test -vet=off -count=1 ./...` passes with patch.diff applied",
  "detected_by": [x for x in det.split(",") if x and x != "-"],
  "expect_rule": rule,
  "files": sorted(os.listdir(d)),
}
json.dump(m, open(d + "/meta.json", "w"), indent=1)
print("wrote", d + "/meta.json")
