#!/bin/bash
# usage: variantcheck.sh <patch> <prop...>  -- apply a variant to a scratch copy and list what the given properties report
export GOFLAGS=-mod=mod GOPROXY=off GOSUMDB=off GOTOOLCHAIN=local GOWORK=off
pt=$1; shift
wt=/tmp/varwt-$$
rm -rf $wt; mkdir -p $wt; (cd /repo && git archive HEAD | tar -x -C $wt)
(cd $wt && (patch -p1 -s -F3 < $pt || echo "PATCH DOES NOT APPLY"))
for p in "$@"; do ${BIN:-/verif/bin/samlverif} -repo $wt -prop $p -noevidence 2>&1 | grep "^VIOLATED\|^UNDECIDED" | cut -c1-260; done
rm -rf $wt
