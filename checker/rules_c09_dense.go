package main

import (
	"fmt"
	"go/types"

	"golang.org/x/tools/go/ssa"
)

// checkDenseFill: C09.dense. A slice of pointers (or interfaces) that a function on the consuming paths sizes up front
// with make([]*T, n) and fills by index in a loop has every element stored: no iteration of the loop can reach the
// loop's back edge without passing through the indexed store (an iteration that leaves by `continue` leaves a nil element
// in a list whose consumers - the certificate store of the signature library, the range loops over it - dereference every
// element). A return out of the loop is no iteration that leaves a hole.
func checkDenseFill(r *Report, p *Prog, fns []*ssa.Function, rule string) {
	// the expected number of such slices is whatever the tree holds (a list grown by append has none): the scan itself is
	// the instance that keeps the rule from passing without having looked
	r.OK(rule, "consuming paths scanned for pointer slices sized up front", "-", fmt.Sprintf("%d functions scanned", len(fns)))
	for _, fn := range fns {
		if fn.Blocks == nil {
			continue
		}
		for _, b := range fn.Blocks {
			for _, in := range b.Instrs {
				mk, ok := in.(*ssa.MakeSlice)
				if !ok {
					continue
				}
				st, ok := mk.Type().Underlying().(*types.Slice)
				if !ok {
					continue
				}
				switch st.Elem().Underlying().(type) {
				case *types.Pointer, *types.Interface:
				default:
					continue
				}
				if c, isC := mk.Len.(*ssa.Const); isC && c.Value != nil && c.Int64() == 0 {
					continue // grown by append: no element exists before it is stored
				}
				// the indexed stores into it
				var stores []*ssa.Store
				for _, ref := range *mk.Referrers() {
					ia, ok := ref.(*ssa.IndexAddr)
					if !ok {
						continue
					}
					for _, r2 := range *ia.Referrers() {
						if s, ok := r2.(*ssa.Store); ok && s.Addr == ssa.Value(ia) {
							stores = append(stores, s)
						}
					}
				}
				if len(stores) == 0 {
					continue
				}
				storeBlocks := map[*ssa.BasicBlock]bool{}
				for _, s := range stores {
					storeBlocks[s.Block()] = true
				}
				for _, s := range stores {
					sb := s.Block()
					// nearest enclosing loop header: a dominator of the store's block with a predecessor it dominates
					var hdr *ssa.BasicBlock
					for d := sb; d != nil; d = d.Idom() {
						for _, pb := range d.Preds {
							if d.Dominates(pb) && (blockReaches(sb, pb) || sb == pb) {
								hdr = d
							}
						}
						if hdr != nil {
							break
						}
					}
					if hdr == nil {
						continue // a straight-line store
					}
					// a cycle through the header that avoids every storing block
					hole := false
					seen := map[*ssa.BasicBlock]bool{}
					var dfs func(x *ssa.BasicBlock)
					dfs = func(x *ssa.BasicBlock) {
						if hole || seen[x] || storeBlocks[x] || !hdr.Dominates(x) {
							return
						}
						seen[x] = true
						for _, sx := range x.Succs {
							if sx == hdr {
								hole = true
								return
							}
							dfs(sx)
						}
					}
					if !storeBlocks[hdr] {
						for _, sx := range hdr.Succs {
							dfs(sx)
						}
					}
					r.Fn(p.FnName(fn))
					r.Check(!hole, rule, fmt.Sprintf("%s: every element of the %s made up front is stored", p.FnName(fn), mk.Type().String()), p.InstrPos(s),
						"every iteration of the filling loop passes through the indexed store",
						"an iteration of the filling loop can reach the next one without storing its element: the slice keeps a nil element, which its consumers dereference (a nil certificate among the trust roots panics in the signature library before any signature is verified)")
				}
			}
		}
	}
}
