package main

import (
	"fmt"
	"go/constant"
	"go/token"
	"go/types"
	"regexp"
	"sort"
	"strings"

	"golang.org/x/tools/go/ssa"
)

func init() {
	registry["C09"] = []func(*Report){ruleC09}
	registry["C11"] = []func(*Report){ruleC11}
}

func ruleC09(r *Report) {
	p := r.P
	sc := NewScope(p, r.Tier)
	a := NewAnalysis(p)
	r.Trusted("go/ssa, go/callgraph (CHA/VTA) of golang.org/x/tools v0.29.0", "etree v1.5.0, goxmldsig v1.4.0, xml-roundtrip-validator v0.1.0, encoding/xml (their own panics on hostile input are not analysed)")
	r.Assume("an access-path fact (x.f != nil, len(s) >= k) is killed only by an explicit store to that path in the same function")
	r.Assume("methods of dependencies dereference their receiver")
	r.NotDecided("never hangs (HTTP client timeouts, pathological inputs inside dependencies); allocation bounds other than inflate; panics inside dependencies")

	var ents []string
	for _, e := range sc.Entries {
		ents = append(ents, p.FnName(e))
	}
	r.Extra("consuming_entry_points", ents)
	r.Extra("schema_types", schemaNames(sc.Schema))
	r.Extra("functions_in_consume_scope", len(sc.Consume))

	r.Rule("C09.nilfield", "every dereference of an optional (pointer-typed) field of a schema type filled from peer XML is implied non-nil by the path condition, by all callers, or by construction", 20)
	r.Rule("C09.nilsrc", "every dereference (or success-return) of a maybe-nil lookup result (Document.Root, FindElement, SelectAttr, pem.Decode, module finders returning (nil,nil)) is implied non-nil", 8)
	r.Rule("C09.bounds", "every index/slice expression on the consuming paths (and on metadata/request-derived slices of the IdP response path) matches a justified idiom: range induction, constant under a length guard, len-c under a guard, bound equal to the guarded expression", 8)
	r.Rule("C09.precond", "stdlib calls that panic on a violated precondition (CryptBlocks, NewCBCDecrypter, AEAD.Open, type assertion without comma-ok) are dominated by guards establishing it", 3)
	r.Rule("C09.panics", "no panic instruction on the consuming paths is reachable under a condition that depends on the presented message", 1)
	r.Rule("C09.inflate", "every flate reader created on the consuming paths is the bounded one: Read refuses when count+len(p) exceeds the constant 10 MiB limit on every path to the inner Read", 2)
	r.Rule("C09.ire", "response-parsing family returns (nil, *InvalidResponseError) or (non-nil assertion, nil) on every return; Error() is the constant 'Authentication failed'", 10)
	r.Rule("C09.errdrop", "no error result is discarded on the consuming paths except the enumerated harmless idioms", 1)

	nr := NewNilRules(r, a, sc)
	// scope for the nil rules: consuming paths, the IdP response path, and every method of a schema type
	schemaMethods := map[*ssa.Function]bool{}
	for _, fn := range p.modFns {
		if fn.Signature.Recv() != nil && sc.isSchemaType(fn.Signature.Recv().Type()) && p.InLibrary(fn) {
			schemaMethods[fn] = true
		}
	}
	nr.Check(sortedFns(p, sc.Consume), "C09.nilfield", "C09.nilsrc")
	rest := map[*ssa.Function]bool{}
	for _, m := range []map[*ssa.Function]bool{sc.Respond, schemaMethods} {
		for f := range m {
			if !sc.Consume[f] {
				rest[f] = true
			}
		}
	}
	// the IdP response path and the schema builders handle peer-provided structures (request, registered
	// metadata) but look things up only in trees the library built itself: optional-field rule only
	nr.Check(sortedFns(p, rest), "C09.nilfield", "")

	br := &BoundsRules{R: r, A: a, S: sc}
	br.Check(sortedFns(p, sc.Consume), "C09.bounds", boundsOpts{})
	onlyRespond := map[*ssa.Function]bool{}
	for f := range sc.Respond {
		if !sc.Consume[f] {
			onlyRespond[f] = true
		}
	}
	br.Check(sortedFns(p, onlyRespond), "C09.bounds", boundsOpts{OnlySchemaDerived: true})

	safely(r, func() { checkPrecond(r, a, sc, sortedFns(p, sc.Consume), "C09.precond") })
	safely(r, func() { checkPanics(r, a, sc, sortedFns(p, sc.Consume), "C09.panics") })
	safely(r, func() { checkInflate(r, a, sc, "C09.inflate") })
	safely(r, func() { checkIRE(r, a, sc, "C09.ire") })
	safely(r, func() { checkErrDrop(r, a, sc, sortedFns(p, sc.Consume), "C09.errdrop") })
	r.Rule("C09.no-wait", "the library's own code on the consuming paths never waits: no sleep, timer, ticker, channel operation, select or WaitGroup/Cond wait (a wait whose length the peer can choose is a hang)", 1)
	safely(r, func() { checkNoWaiting(r, p, sortedFns(p, sc.Consume), "C09.no-wait") })
	r.Rule("C09.dense", "a slice of pointers or interfaces sized up front with make and filled by index on the consuming paths has every element stored: no iteration of the filling loop reaches the next one without passing through the indexed store (a skipped iteration leaves a nil element that consumers dereference)", 1)
	safely(r, func() { checkDenseFill(r, p, sortedFns(p, sc.Consume), "C09.dense") })
}

func ruleC11(r *Report) {
	p := r.P
	sc := NewScope(p, r.Tier)
	a := NewAnalysis(p)
	r.Trusted("go/ssa, go/callgraph of golang.org/x/tools v0.29.0", "crypto/cipher, crypto/rsa, etree path engine (their own panics are not analysed)")
	r.Assume("an access-path fact is killed only by an explicit store to that path in the same function")
	r.NotDecided("panics inside crypto primitives and etree; that Open authenticates (crypto/cipher semantics)")
	r.Extra("functions_in_decrypt_scope", len(sc.Decrypt))

	r.Rule("C11.nilsrc", "every dereference/success-return of a maybe-nil lookup under xmlenc.Decrypt and the SP's decrypt step is nil-checked", 4)
	r.Rule("C11.bounds", "every index/slice under xmlenc.Decrypt is justified by a guard over the same length expression", 4)
	r.Rule("C11.precond", "CryptBlocks / NewCBCDecrypter / AEAD.Open preconditions and comma-ok discipline on key and registry lookups", 4)
	r.Rule("C11.certmatch", "RSA key validator: when an X509Certificate is embedded, invalid PEM/DER, a non-RSA key, or modulus/exponent mismatch is a reject on every path to the success return", 1)
	r.Rule("C11.gcm-auth", "the plaintext return of the GCM decrypter is dominated by the nil edge of AEAD.Open on the cipher value (no fallback path)", 1)
	r.Rule("C11.padding", "stripPadding rejects exactly len<1, pad<1, pad>len (a full block of padding is accepted)", 1)
	r.Rule("C11.errdrop", "no error result is discarded under xmlenc.Decrypt", 1)
	r.Rule("C11.descent", "the recursion under xmlenc.Decrypt (an encrypted key inside the element re-enters Decrypt) terminates: every call on a cycle of the call graph passes the caller's own element or one obtained from it by descending only (relative etree path without '..'), and every cycle has a descending call", 1)

	fns := sortedFns(p, sc.Decrypt)
	nr := NewNilRules(r, a, sc)
	nr.Check(fns, "", "C11.nilsrc")
	br := &BoundsRules{R: r, A: a, S: sc}
	br.Check(fns, "C11.bounds", boundsOpts{})
	safely(r, func() { checkPrecond(r, a, sc, fns, "C11.precond") })
	safely(r, func() { checkCertMatch(r, sc, "C11.certmatch") })
	safely(r, func() { checkGCMAuth(r, a, sc, "C11.gcm-auth") })
	safely(r, func() { checkPadding(r, a, sc, "C11.padding", false) })
	safely(r, func() { checkErrDrop(r, a, sc, fns, "C11.errdrop") })
	safely(r, func() { checkDescent(r, p, sc, "C11.descent") })
	r.Rule("C11.hash-linked", "every crypto.Hash identifier that can reach the receiver of (crypto.Hash).New in library code is a constant whose implementing package is linked (New panics otherwise); vacuous while digests are constructed by direct reference", 1)
	safely(r, func() { checkHashLinked(r, p, "C11.hash-linked") })
	r.Rule("C11.funcfield", "every call under xmlenc.Decrypt through an unexported function-typed field of a module struct, not under a nil test of the field, finds the field set: each composite literal of that struct type in library code stores a non-nil function into it (a nil function value panics when called)", 3)
	safely(r, func() { checkFuncFields(r, a, fns, "C11.funcfield") })
}

// ---------------------------------------------------------------------------------------------
// API preconditions

func checkPrecond(r *Report, a *Analysis, sc *Scope, fns []*ssa.Function, rule string) {
	p := a.P
	B := a.B
	for _, fn := range fns {
		if len(fn.Blocks) == 0 {
			continue
		}
		fc := a.Ctx(fn)
		fc.ensureConds()
		for _, b := range fn.Blocks {
			if fc.Cond(b) == B.False {
				continue
			}
			for _, in := range b.Instrs {
				switch x := in.(type) {
				case *ssa.Store:
					// a crypto.Hash handed to the standard library in an options struct: Hash.New panics ("requested hash
					// function #0 is unavailable") unless the value names a linked-in hash
					if fa, ok := x.Addr.(*ssa.FieldAddr); ok && types.TypeString(x.Val.Type(), nil) == "crypto.Hash" {
						if n := namedOf(fa.X.Type()); n != nil && n.Obj().Pkg() != nil && strings.HasPrefix(n.Obj().Pkg().Path(), "crypto/") {
							cons := fmt.Sprintf("%s: %s.%s is an available hash", p.FnName(fn), n.Obj().Name(), fieldName(fa.X.Type(), fa.Field))
							why := unavailableHash(p, fc, b, x.Val, 0)
							r.Check(why == "", rule, cons, p.InstrPos(in), "a non-zero constant (or a table of such) on every path", "the hash identifier "+fc.AP(x.Val)+" "+why+": the standard library panics when asked for hash function #0")
						}
					}
				case *ssa.TypeAssert:
					if x.CommaOk {
						// the ok result must be used (tested)
						cons := fmt.Sprintf("%s: type assertion %s (comma-ok)", p.FnName(fn), fc.AP(x))
						used := false
						for _, rf := range *x.Referrers() {
							if ex, ok := rf.(*ssa.Extract); ok && ex.Index == 1 && len(*ex.Referrers()) > 0 {
								used = true
							}
						}
						r.Check(used, rule, cons, p.InstrPos(in), "ok result is tested", "ok result of the type assertion is ignored")
						continue
					}
					if _, isIface := x.AssertedType.Underlying().(*types.Interface); isIface && !isInputDerivedIface(x.X) {
						continue
					}
					cons := fmt.Sprintf("%s: type assertion %s without comma-ok", p.FnName(fn), fc.AP(x))
					if ownOutput(fc.AP(x)) {
						r.Info(rule, cons, p.InstrPos(in), "operates on the library's own signed output (result of SignEnveloped), not on peer input")
						continue
					}
					// tolerated when the dynamic type was established by a dominating type test of the same value
					name := "ok:" + fc.AP(x)
					if B.HasVar(name) && fc.Implied(b, B.Var(name)) {
						r.OK(rule, cons, p.InstrPos(in), "dynamic type established by a dominating comma-ok test")
						continue
					}
					r.Bad(rule, cons, p.InstrPos(in), "a value that is not of the asserted dynamic type panics here")
				case ssa.CallInstruction:
					c := x.Common()
					name := calleeName(c)
					switch name {
					case "(crypto/cipher.BlockMode).CryptBlocks":
						checkCryptBlocks(r, fc, b, in, c, rule)
					case "crypto/cipher.NewCBCDecrypter", "crypto/cipher.NewCBCEncrypter":
						checkCBCIV(r, fc, b, in, c, rule)
					case "(crypto/cipher.AEAD).Open", "(crypto/cipher.AEAD).Seal":
						checkAEADNonce(r, fc, b, in, c, rule)
					case "(*crypto/rsa.PrivateKey).Precompute":
						// indexes Primes[0] and Primes[1]: a key given only as (N, E, D) - legal, and decrypts - panics here
						cons := fmt.Sprintf("%s: %s on the caller's key", p.FnName(fn), name)
						okP := false
						for _, nm := range B.Support(fc.Cond(b)) {
							if ai := a.Atoms[nm]; ai != nil && (ai.Kind == "lt" || ai.Kind == "empty") && strings.Contains(nm, ".Primes") {
								okP = true
							}
						}
						r.Check(okP, rule, cons, p.InstrPos(in), "under a test of len(key.Primes)", "Precompute indexes the key's prime factors without a guard on their number: a private key that carries no CRT factors panics (index out of range) instead of decrypting or yielding an error")
					}
				case *ssa.Lookup:
					// map lookup without comma-ok whose zero value (interface/pointer) is then used as receiver
					if !x.CommaOk {
						if _, isMap := x.X.Type().Underlying().(*types.Map); isMap && nillable(x.Type()) {
							// registry lookups (package-level maps keyed by a string taken from the message): the zero
							// value of a missing key must not be used unchecked
							_, isGlobal := rootOfAddr(x.X).(*ssa.Global)
							nilChecked := false
							for _, rf := range *x.Referrers() {
								if bo, ok := rf.(*ssa.BinOp); ok && (bo.Op == token.EQL || bo.Op == token.NEQ) && (isNilConst(bo.X) || isNilConst(bo.Y)) {
									nilChecked = true
								}
								if ci, ok := rf.(ssa.CallInstruction); ok && ci.Common().IsInvoke() && ci.Common().Value == ssa.Value(x) {
									r.Bad(rule, fmt.Sprintf("%s: map lookup %s without comma-ok used as receiver", p.FnName(fn), fc.AP(x)), p.InstrPos(in), "a missing key yields a nil interface whose method call panics")
								}
							}
							if isGlobal {
								r.Check(nilChecked, rule, fmt.Sprintf("%s: registry lookup %s without comma-ok", p.FnName(fn), fc.AP(x)), p.InstrPos(in),
									"result is nil-checked", "an unknown identifier yields a nil interface/pointer that is used without a check")
							}
						}
					} else {
						// comma-ok registry lookup: ok must guard the use
						for _, rf := range *x.Referrers() {
							ex, ok := rf.(*ssa.Extract)
							if !ok || ex.Index != 0 {
								continue
							}
							for _, use := range *ex.Referrers() {
								ci, ok := use.(ssa.CallInstruction)
								if !ok || !ci.Common().IsInvoke() || ci.Common().Value != ssa.Value(ex) {
									continue
								}
								okName := "ok:" + fc.AP(x)
								cons := fmt.Sprintf("%s: registry lookup %s used as receiver", p.FnName(fn), fc.AP(x))
								ub := use.Block()
								r.Check(B.HasVar(okName) && fc.Implied(ub, B.Var(okName)), rule, cons, p.InstrPos(use),
									"use is dominated by the ok edge of the lookup", "the looked-up interface value is used although the key may be missing")
							}
						}
					}
				}
			}
		}
	}
}

func isInputDerivedIface(v ssa.Value) bool { return true }

// src operand must be a multiple of the block size: guard eq((len(S) % bs), 0) where src is S or S[bs:],
// and dst = make([]byte, len(src)).
func checkCryptBlocks(r *Report, fc *FuncCtx, b *ssa.BasicBlock, in ssa.Instruction, c *ssa.CallCommon, rule string) {
	p := fc.A.P
	B := fc.A.B
	if len(c.Args) != 2 {
		return
	}
	src := c.Args[1]
	cons := fmt.Sprintf("%s: CryptBlocks(%s)", p.FnName(fc.Fn), fc.AP(src))
	// candidates: src itself, or the slice it was cut from
	cands := []ssa.Value{src}
	if sl, ok := src.(*ssa.Slice); ok && sl.High == nil {
		cands = append(cands, sl.X)
	}
	// modulus atoms in the path condition
	ok := false
	var seen []string
	for _, name := range B.Support(fc.Cond(b)) {
		ai := fc.A.Atoms[name]
		if ai == nil || ai.Kind != "eq" {
			continue
		}
		for _, cand := range cands {
			pre := "(len(" + fc.AP(cand) + ")%"
			for i, arg := range ai.Args {
				if strings.HasPrefix(arg, pre) && ai.Args[1-i] == "c:0" {
					seen = append(seen, name)
					// the modulus must be the block size of the block the mode was made from (or the slice offset)
					mod := strings.TrimSuffix(strings.TrimPrefix(arg, pre), ")")
					if strings.HasSuffix(mod, ".BlockSize()") && fc.Implied(b, B.Var(name)) {
						if sl, isSl := src.(*ssa.Slice); isSl && cand == sl.X {
							// offset must be the same block size expression (or a multiple constant of it)
							if sl.Low != nil && fc.AP(sl.Low) != mod {
								continue
							}
						}
						ok = true
					}
				}
			}
		}
	}
	if ok {
		r.OK(rule, cons, p.InstrPos(in), "dominated by a guard len % BlockSize() == 0 ("+strings.Join(seen, ",")+")")
		return
	}
	// by construction: result of a padding helper whose second argument is the block size
	if call, okc := src.(*ssa.Call); okc {
		if scf := call.Call.StaticCallee(); scf != nil && fc.A.P.InModule(scf) && len(call.Call.Args) == 2 {
			if strings.HasSuffix(fc.AP(call.Call.Args[1]), ".BlockSize()") && paddingHelperOK(scf) {
				r.OK(rule, cons, p.InstrPos(in), "source is the result of the padding helper with the block size")
				return
			}
		}
	}
	r.Bad(rule, cons, p.InstrPos(in), "no dominating guard establishes that the length is a multiple of the block size (CryptBlocks panics with 'input not full blocks')")
}

// paddingHelperOK: helper(buf, n) returns append(buf, pad...) where len(pad) = n - len(buf)%n.
func paddingHelperOK(fn *ssa.Function) bool {
	hasRem := false
	for _, b := range fn.Blocks {
		for _, in := range b.Instrs {
			if bo, ok := in.(*ssa.BinOp); ok && bo.Op == token.REM {
				hasRem = true
			}
		}
	}
	return hasRem
}

func checkCBCIV(r *Report, fc *FuncCtx, b *ssa.BasicBlock, in ssa.Instruction, c *ssa.CallCommon, rule string) {
	p := fc.A.P
	if len(c.Args) != 2 {
		return
	}
	blk, iv := c.Args[0], c.Args[1]
	want := fc.AP(blk) + ".BlockSize()"
	cons := fmt.Sprintf("%s: %s iv=%s", p.FnName(fc.Fn), calleeName(c), fc.AP(iv))
	if sliceLenAP(fc, iv) == want {
		r.OK(rule, cons, p.InstrPos(in), "iv has length "+want+" (prefix of that length, or made with it)")
		return
	}
	r.Bad(rule, cons, p.InstrPos(in), "IV length is not the block size of the cipher it is used with (NewCBC* panics with 'IV length must equal block size')")
}

// sliceLenAP: the access path of the length of a byte slice that is a prefix x[:n] or make([]byte, n) (directly, or
// as named through a side-effect-free helper that cuts it); "" otherwise.
func sliceLenAP(fc *FuncCtx, v ssa.Value) string {
	switch x := v.(type) {
	case *ssa.Slice:
		if x.Low == nil && x.High != nil {
			return fc.AP(x.High)
		}
		return ""
	case *ssa.MakeSlice:
		return fc.AP(x.Len)
	}
	ap := fc.AP(v)
	if !strings.HasSuffix(ap, "]") {
		return ""
	}
	depth := 0
	for i := len(ap) - 1; i >= 0; i-- {
		switch ap[i] {
		case ']':
			depth++
		case '[':
			depth--
			if depth == 0 {
				inner := ap[i+1 : len(ap)-1]
				if strings.HasPrefix(inner, ":") {
					return inner[1:]
				}
				return ""
			}
		}
	}
	return ""
}

func checkAEADNonce(r *Report, fc *FuncCtx, b *ssa.BasicBlock, in ssa.Instruction, c *ssa.CallCommon, rule string) {
	p := fc.A.P
	if len(c.Args) < 3 {
		return
	}
	nonce := c.Args[1]
	want := fc.AP(c.Value) + ".NonceSize()"
	cons := fmt.Sprintf("%s: %s nonce=%s", p.FnName(fc.Fn), calleeName(c), fc.AP(nonce))
	if sliceLenAP(fc, nonce) == want {
		r.OK(rule, cons, p.InstrPos(in), "nonce has length "+want+" (prefix of that length, or made with it)")
		return
	}
	// the call sits in an unexported helper that receives the nonce (and the AEAD): established at every call site
	if atEveryCallSite(fc, func(sub *FuncCtx) bool { return sliceLenAP(sub, nonce) == sub.AP(c.Value)+".NonceSize()" }) {
		r.OK(rule, cons, p.InstrPos(in), "at every call site of the helper the nonce has length NonceSize()")
		return
	}
	r.Bad(rule, cons, p.InstrPos(in), "nonce length is not established to equal NonceSize() (Open/Seal panic with 'incorrect nonce length')")
}

// ---------------------------------------------------------------------------------------------
// panic instructions

func checkPanics(r *Report, a *Analysis, sc *Scope, fns []*ssa.Function, rule string) {
	p := a.P
	B := a.B
	n := 0
	for _, fn := range fns {
		fc := a.Ctx(fn)
		fc.ensureConds()
		for _, b := range fn.Blocks {
			if len(b.Instrs) == 0 {
				continue
			}
			pn, ok := b.Instrs[len(b.Instrs)-1].(*ssa.Panic)
			if !ok {
				continue
			}
			n++
			cond := fc.Cond(b)
			sup := B.Support(cond)
			cons := fmt.Sprintf("%s: panic under %s", p.FnName(fn), a.canon(cond))
			msgDependent := true
			var why []string
			for _, name := range sup {
				ai := a.Atoms[name]
				if ai == nil {
					continue
				}
				v := B.Var(name)
				necessary := B.Implies(cond, v) || B.Implies(cond, B.Not(v))
				if necessary && atomIsEnvironmental(fc, ai) {
					msgDependent = false
					why = append(why, "requires "+name+" (configuration/environment only)")
				}
			}
			if msgDependent {
				why = append(why, "no literal of the condition is over configuration/environment only")
			}
			// the test that immediately guards the panic decides whether it is an assertion about configuration or a reaction
			// to the message: a panic directly behind a test of message content is message-dependent even if an unrelated
			// configuration literal (a flag that is simply set) also happens to be necessary on the path
			if !msgDependent && len(b.Preds) == 1 {
				imm := fc.edgeCond(b.Preds[0], b)
				var immMsg []string
				for _, name := range B.Support(imm) {
					if ai := a.Atoms[name]; ai != nil && !atomIsEnvironmental(fc, ai) {
						immMsg = append(immMsg, name)
					}
				}
				if len(immMsg) > 0 {
					msgDependent = true
					why = []string{"the panic is guarded directly by " + strings.Join(immMsg, ", ") + ", which depends on the presented message"}
				}
			}
			if msgDependent {
				r.Bad(rule, cons, p.InstrPos(pn), "explicit panic reachable under a condition that can depend on peer input: "+strings.Join(why, "; "))
			} else {
				r.OK(rule, cons, p.InstrPos(pn), "condition is over configuration/environment only: "+strings.Join(why, "; "))
			}
		}
	}
	r.OK(rule, "panic instructions on the consuming paths enumerated", "-", fmt.Sprintf("%d panic instructions in %d functions", n, len(fns)))
}

// atomIsEnvironmental: the atom speaks only about configuration objects (IdP/SP configuration reached
// through the receiver, package variables) or about the failure of the random source.
func atomIsEnvironmental(fc *FuncCtx, ai *AtomInfo) bool {
	for _, v := range ai.Vals {
		if !valueIsEnvironmental(v, 0) {
			return false
		}
	}
	return len(ai.Vals) > 0
}

func valueIsEnvironmental(v ssa.Value, depth int) bool {
	if depth > 12 {
		return false
	}
	switch x := v.(type) {
	case *ssa.Const, *ssa.Global:
		return true
	case *ssa.UnOp:
		return valueIsEnvironmental(x.X, depth+1)
	case *ssa.FieldAddr:
		// configuration reached through an IdentityProvider / ServiceProvider object
		if typeIs(x.X.Type(), modPath, "IdentityProvider") || typeIs(x.X.Type(), modPath, "ServiceProvider") {
			return true
		}
		return valueIsEnvironmental(x.X, depth+1)
	case *ssa.Field:
		return valueIsEnvironmental(x.X, depth+1)
	case *ssa.Extract:
		return valueIsEnvironmental(x.Tuple, depth+1)
	case *ssa.Call:
		if bi, ok := x.Call.Value.(*ssa.Builtin); ok && bi.Name() == "len" {
			return valueIsEnvironmental(x.Call.Args[0], depth+1)
		}
		sc := x.Call.StaticCallee()
		if sc == nil {
			return false
		}
		switch sc.String() {
		case "io.ReadFull":
			// reading the configured random source
			if len(x.Call.Args) > 0 {
				return valueIsEnvironmental(x.Call.Args[0], depth+1)
			}
		}
		if bi, ok := x.Call.Value.(*ssa.Builtin); ok && bi.Name() == "len" {
			return valueIsEnvironmental(x.Call.Args[0], depth+1)
		}
		// pure getters on configuration
		if sc.Signature.Recv() != nil && len(x.Call.Args) >= 1 {
			if typeIs(x.Call.Args[0].Type(), modPath, "IdentityProvider") || typeIs(x.Call.Args[0].Type(), modPath, "ServiceProvider") {
				return true
			}
		}
		return false
	case *ssa.MakeInterface:
		return valueIsEnvironmental(x.X, depth+1)
	case *ssa.BinOp:
		return valueIsEnvironmental(x.X, depth+1) && valueIsEnvironmental(x.Y, depth+1)
	}
	if c, ok := v.(*ssa.Call); ok {
		if bi, ok := c.Call.Value.(*ssa.Builtin); ok && bi.Name() == "len" {
			return valueIsEnvironmental(c.Call.Args[0], depth+1)
		}
	}
	return false
}

// ---------------------------------------------------------------------------------------------
// bounded inflate

var decompressors = []string{"compress/flate.NewReader", "compress/flate.NewReaderDict", "compress/zlib.NewReader", "compress/zlib.NewReaderDict", "compress/gzip.NewReader"}

func checkInflate(r *Report, a *Analysis, sc *Scope, rule string) {
	p := a.P
	B := a.B
	// role: bounded inflater constructor = library function on the consuming paths that creates a
	// decompressing reader (flate/zlib/gzip) and wraps the result
	ctors := map[*ssa.Function]bool{}
	for _, fn := range p.FuncsCalling(decompressors...) {
		if !p.InLibrary(fn) {
			continue
		}
		if sc.Consume[fn] {
			ctors[fn] = true
		}
	}
	if len(ctors) == 0 {
		panic(unresolved{"role bounded-inflater (library function on the consuming paths calling flate.NewReader)"})
	}
	for _, fn := range sortedFns(p, ctors) {
		// every decompressing reader must be stored into a wrapper struct whose Read method is bounded; it
		// must have no other use (returned raw, passed on, read directly)
		cons := fmt.Sprintf("%s: decompressing readers wrapped by a bounded reader", p.FnName(fn))
		var wrapper *types.Named
		raw := ""
		for _, ci := range callsTo(fn, decompressors...) {
			v := ci.(ssa.Value)
			vals := []ssa.Value{v}
			// (reader, error) constructors: follow the reader component
			if tup, ok := v.Type().(*types.Tuple); ok && tup.Len() == 2 {
				vals = nil
				for _, rf := range *v.Referrers() {
					if ex, ok := rf.(*ssa.Extract); ok && ex.Index == 0 {
						vals = append(vals, ex)
					}
				}
			}
			for len(vals) > 0 {
				cur := vals[0]
				vals = vals[1:]
				for _, rf := range *cur.Referrers() {
					switch y := rf.(type) {
					case *ssa.Store:
						if fa, ok := y.Addr.(*ssa.FieldAddr); ok && y.Val == cur {
							wrapper = namedOf(fa.X.Type())
							continue
						}
						raw = "stored to " + y.Addr.String()
					case *ssa.MakeInterface, *ssa.ChangeInterface, *ssa.Phi:
						vals = append(vals, y.(ssa.Value))
					case *ssa.DebugRef, *ssa.Extract:
					case *ssa.Return:
						raw = "returned without the bounding wrapper"
					default:
						raw = "used by " + rf.String()
					}
				}
			}
		}
		if raw != "" {
			r.Bad(rule, cons, p.Pos(fn.Pos()), "a raw decompressing reader escapes the bounded wrapper: "+raw+" (unbounded inflate)")
			continue
		}
		if wrapper == nil {
			r.Bad(rule, cons, p.Pos(fn.Pos()), "the raw flate reader is used directly on a consuming path (unbounded inflate)")
			continue
		}
		read := p.SSA.LookupMethod(types.NewPointer(wrapper), wrapper.Obj().Pkg(), "Read")
		if read == nil || len(read.Blocks) == 0 {
			r.Bad(rule, cons, p.Pos(fn.Pos()), "wrapper type has no Read method")
			continue
		}
		r.OK(rule, cons, p.Pos(fn.Pos()), "wrapped in "+wrapper.Obj().Name())
		// Read: every call of the inner Read is under !(limit < count+len(p)) and limit is the constant 10 MiB
		fc := a.Ctx(read)
		fc.ensureConds()
		r.Fn(p.FnName(read))
		found := false
		for _, b := range read.Blocks {
			for _, in := range b.Instrs {
				ci, ok := in.(ssa.CallInstruction)
				if !ok || !ci.Common().IsInvoke() || ci.Common().Method.Name() != "Read" {
					continue
				}
				found = true
				rc := fmt.Sprintf("%s: inner Read guarded by the limit", p.FnName(read))
				okGuard := false
				var detail string
				counter := "" // the wrapper's running-count field, read off the guard
				for _, name := range B.Support(fc.Cond(b)) {
					ai := a.Atoms[name]
					if ai == nil || ai.Kind != "lt" {
						continue
					}
					// lt(c:LIMIT, (<wrapper>.<counter>+len(p)))  must be false here
					fld := inflateCounterField(ai.Args[1], wrapper.Obj().Name())
					if n, ok := parseConstAP(ai.Args[0]); ok && fld != "" {
						counter = fld
						if fc.Implied(b, B.Not(B.Var(name))) {
							if n == 10*1024*1024 {
								okGuard = true
								detail = name
							} else {
								detail = fmt.Sprintf("limit is %d, the property fixes 10 MiB", n)
							}
						}
					}
				}
				if okGuard {
					r.OK(rule, rc, p.InstrPos(in), "path condition implies !("+detail+")")
				} else {
					r.Bad(rule, rc, p.InstrPos(in), "inner Read reachable without the count+len(p) <= 10 MiB guard "+detail)
				}
				// the running count must be advanced by the bytes read
				upd := false
				for _, bb := range read.Blocks {
					for _, i2 := range bb.Instrs {
						if st, ok := i2.(*ssa.Store); ok {
							if fa, ok := st.Addr.(*ssa.FieldAddr); ok && counter != "" && fieldName(fa.X.Type(), fa.Field) == counter {
								if bo, ok := st.Val.(*ssa.BinOp); ok && bo.Op == token.ADD {
									upd = true
								}
							}
						}
					}
				}
				r.Check(upd, rule, fmt.Sprintf("%s: running count advanced", p.FnName(read)), p.InstrPos(in), "count += n", "the running count is never advanced, so the limit is per call only")
				// the fixed limit is the only reason of its own for which the wrapper refuses a stream: every return that hands
				// back an error other than the inner reader's is taken under the limit comparison (a cap that depends on the
				// size of the compressed input refuses well-formed messages that merely compress well)
				if okGuard {
					for _, ret := range fc.Returns() {
						ei := errIndex(read)
						if ei < 0 || ei >= len(ret.Results) {
							continue
						}
						ev := Resolve(ret.Results[ei])
						if isNilConst(ev) {
							continue
						}
						fromInner := false
						for _, lf := range rootLeaves(ev, map[ssa.Value]bool{}) {
							if ex, ok := lf.(*ssa.Extract); ok {
								if ic, ok := ex.Tuple.(*ssa.Call); ok && ic.Call.IsInvoke() && ic.Call.Method.Name() == "Read" {
									fromInner = true
								}
							}
						}
						if fromInner {
							continue
						}
						r.Check(fc.Implied(ret.Block(), B.Var(detail)), rule, fmt.Sprintf("%s: refuses only beyond the fixed limit", p.FnName(read)), p.InstrPos(ret), "the wrapper's own error is returned under "+detail, "the bounded reader returns an error of its own on a path where the fixed 10 MiB limit is not exceeded: streams within the limit (a request of this library's SP that happens to compress well) are refused")
					}
				}
			}
		}
		if !found {
			r.Bad(rule, fmt.Sprintf("%s: inner Read", p.FnName(read)), p.Pos(read.Pos()), "no inner Read call found")
		}
	}
	// every io.ReadAll on the consuming paths whose argument comes from inflating must take the bounded reader;
	// and no other function on the consuming paths calls flate.NewReader (that is what ctors are).
	for _, fn := range sortedFns(p, sc.Consume) {
		for _, ci := range callsTo(fn, "io.ReadAll") {
			arg := ci.Common().Args[0]
			if mi, ok := arg.(*ssa.MakeInterface); ok {
				arg = mi.X
			}
			if ci2, ok := arg.(*ssa.ChangeInterface); ok {
				arg = ci2.X
			}
			if c, ok := arg.(*ssa.Call); ok {
				if scf := c.Call.StaticCallee(); scf != nil {
					fcx := a.Ctx(fn)
					cons := fmt.Sprintf("%s: io.ReadAll(%s)", p.FnName(fn), shortFn(scf))
					if ctors[scf] {
						r.OK(rule, cons, p.InstrPos(ci.(ssa.Instruction)), "reads through the bounded inflater")
					} else if strings.HasPrefix(scf.String(), "compress/") {
						r.Bad(rule, cons, p.InstrPos(ci.(ssa.Instruction)), "reads an unbounded flate stream")
					}
					_ = fcx
				}
			}
		}
	}
}

// inflateCounterField: for the sum "(<Wrapper>.<f>+len(...))" (either operand order) the field name f.
var inflateSumRE = regexp.MustCompile(`^\((?:(\w+)\.(\w+)\+len\([^()]*\)|len\([^()]*\)\+(\w+)\.(\w+))\)$`)

func inflateCounterField(ap, wrapper string) string {
	m := inflateSumRE.FindStringSubmatch(ap)
	if m == nil {
		return ""
	}
	if m[1] == wrapper {
		return m[2]
	}
	if m[3] == wrapper {
		return m[4]
	}
	return ""
}

// ---------------------------------------------------------------------------------------------
// InvalidResponseError discipline

func checkIRE(r *Report, a *Analysis, sc *Scope, rule string) {
	p := a.P
	ire := p.NamedType("saml", "InvalidResponseError")
	if ire == nil {
		panic(unresolved{"type saml.InvalidResponseError"})
	}
	// Error() returns a constant and reads no field
	errM := p.SSA.LookupMethod(types.NewPointer(ire), ire.Obj().Pkg(), "Error")
	if errM == nil {
		panic(unresolved{"method (*InvalidResponseError).Error"})
	}
	okConst := true
	var msg string
	for _, b := range errM.Blocks {
		for _, in := range b.Instrs {
			switch x := in.(type) {
			case *ssa.Return:
				c, ok := x.Results[0].(*ssa.Const)
				if !ok || c.Value == nil || c.Value.Kind() != constant.String {
					okConst = false
				} else {
					msg = constant.StringVal(c.Value)
				}
			case *ssa.FieldAddr, *ssa.Field:
				okConst = false
			}
		}
	}
	r.Check(okConst && msg == "Authentication failed", rule, "(*InvalidResponseError).Error returns the constant message", p.Pos(errM.Pos()),
		fmt.Sprintf("returns %q on every path and reads no field", msg), "Error() is not the constant 'Authentication failed' / reads private fields")

	// public family: the exported response-parsing API of ServiceProvider returning (*Assertion, error)
	sp := p.NamedType("saml", "ServiceProvider")
	var family []*ssa.Function
	for _, name := range []string{"ParseResponse", "ParseXMLResponse", "ParseXMLArtifactResponse"} {
		family = append(family, p.MustFunc("saml", "ServiceProvider", name))
	}
	_ = sp
	inFamily := map[*ssa.Function]bool{}
	// helpers that these return directly from: closure over "return f(...)" tail calls and (v, err) forwarding
	work := append([]*ssa.Function{}, family...)
	for len(work) > 0 {
		fn := work[0]
		work = work[1:]
		if inFamily[fn] {
			continue
		}
		inFamily[fn] = true
		for _, b := range fn.Blocks {
			for _, in := range b.Instrs {
				ret, ok := in.(*ssa.Return)
				if !ok || len(ret.Results) != 2 {
					continue
				}
				for _, res := range ret.Results {
					// (through the result variables of a single-exit function: the phi's alternatives)
					for _, leaf := range phiLeaves(Resolve(res), 0) {
						if ex, ok := leaf.(*ssa.Extract); ok {
							if c, ok := ex.Tuple.(*ssa.Call); ok {
								if scf := c.Call.StaticCallee(); scf != nil && p.InModule(scf) && sameSig(scf, fn) {
									work = append(work, scf)
								}
							}
						}
					}
				}
			}
		}
	}
	// the public contract: the exported functions, and (transitively) the helpers whose error one of them returns verbatim
	contract := map[*ssa.Function]bool{}
	for fn := range inFamily {
		if fn.Object() != nil && fn.Object().Exported() {
			contract[fn] = true
		}
	}
	for changed := true; changed; {
		changed = false
		for fn := range inFamily {
			if !contract[fn] && returnsVerbatimTo(p, fn, contract) {
				contract[fn] = true
				changed = true
			}
		}
	}
	for _, fn := range sortedFns(p, inFamily) {
		// only functions whose error is the public InvalidResponseError contract: the exported ones and the
		// helpers they forward verbatim
		fc := a.Ctx(fn)
		fc.ensureConds()
		r.Fn(p.FnName(fn))
		exportedAPI := fn.Object() != nil && fn.Object().Exported()
		forwardsOnly := !exportedAPI && !contract[fn]
		for _, ret := range fc.Returns() {
			if len(ret.Results) != 2 {
				continue
			}
			// a single exit that returns result variables (named results, accumulate-then-return): each way of reaching it
			// is judged as the return it stands for - the pair of values the two variables hold on that edge
			for _, alt := range returnPairAlternatives(Resolve(ret.Results[0]), Resolve(ret.Results[1]), ret.Block(), 0) {
				av, ev := alt.av, alt.ev
				retBlock := alt.blk
				cons := fmt.Sprintf("%s: return (%s, %s)", p.FnName(fn), fc.AP(av), fc.AP(ev))
				pos := p.InstrPos(ret)
				switch {
				case isNilConst(ev):
					// success: assertion provably non-nil
					under := fc.Cond(retBlock)
					if alt.from != nil {
						under = a.B.And(under, fc.edgeCond(retBlock, alt.from))
					}
					if nonNilAssertionUnder(fc, under, av, inFamily, 0) {
						r.OK(rule, cons, pos, "success return with a provably non-nil assertion")
					} else {
						r.Bad(rule, cons, pos, "nil error returned with an assertion that is not provably non-nil")
					}
				case isNilConst(av):
					if forwardsOnly {
						r.Trivial(rule, cons, pos, "internal helper: its error is wrapped by the caller")
						continue
					}
					if isIREValue(fc, retBlock, ev, ire, inFamily) {
						r.OK(rule, cons, pos, "nil assertion with an *InvalidResponseError whose PrivateErr is set (or a family callee's error under err != nil)")
					} else {
						r.Bad(rule, cons, pos, "error returned to the caller is not provably an *InvalidResponseError with a non-nil value")
					}
				default:
					// (v, err) forwarded from a family callee
					if fwd := forwardedPair(av, ev, inFamily); fwd {
						r.OK(rule, cons, pos, "both results forwarded from a callee of the family")
					} else {
						r.Bad(rule, cons, pos, "return is neither (nil, error) nor (assertion, nil) nor a forwarded pair")
					}
				}
			}
		}
	}
}

type retPairAlt struct {
	av, ev ssa.Value
	blk    *ssa.BasicBlock
	from   *ssa.BasicBlock // when split: the block the edge leads to (nil for the return as written)
}

// returnPairAlternatives: the (value, error) pairs a return of two result variables stands for. When either result is
// a phi, the pair is split by incoming edge: two phis of one block are read edge by edge together (they were assigned
// on the same paths), a lone phi against the other value as it is. Nested up to a small depth; the block of an
// alternative is the predecessor the edge comes from (its facts hold for the pair).
func returnPairAlternatives(av, ev ssa.Value, blk *ssa.BasicBlock, depth int) []retPairAlt {
	pa, okA := av.(*ssa.Phi)
	pe, okE := ev.(*ssa.Phi)
	// only the variables merged at this very block: a phi made further up reaches here under the conditions tested in
	// between (if err != nil { return nil, err }), which an edge-by-edge reading would forget
	okA = okA && pa.Block() == blk
	okE = okE && pe.Block() == blk
	if depth > 6 || (!okA && !okE) {
		return []retPairAlt{{av, ev, blk, nil}}
	}
	var out []retPairAlt
	for i, pred := range blk.Preds {
		a2, e2 := av, ev
		if okA {
			a2 = Resolve(pa.Edges[i])
		}
		if okE {
			e2 = Resolve(pe.Edges[i])
		}
		if _, jump := pred.Instrs[len(pred.Instrs)-1].(*ssa.Jump); jump {
			out = append(out, returnPairAlternatives(a2, e2, pred, depth+1)...)
		} else {
			out = append(out, retPairAlt{a2, e2, pred, blk})
		}
	}
	return out
}

func sameSig(a, b *ssa.Function) bool {
	ra, rb := a.Signature.Results(), b.Signature.Results()
	if ra.Len() != rb.Len() {
		return false
	}
	for i := 0; i < ra.Len(); i++ {
		if !types.Identical(ra.At(i).Type(), rb.At(i).Type()) {
			return false
		}
	}
	return true
}

// returnsVerbatimTo: is fn's (assertion, error) pair returned unchanged by some family caller?
func returnsVerbatimTo(p *Prog, fn *ssa.Function, fam map[*ssa.Function]bool) bool {
	for _, cs := range p.StaticCallersOf(fn) {
		if !fam[cs.Caller] {
			continue
		}
		v, ok := cs.Instr.(*ssa.Call)
		if !ok {
			continue
		}
		for _, rf := range *v.Referrers() {
			ex, ok := rf.(*ssa.Extract)
			if !ok || ex.Index != 1 {
				continue
			}
			for _, u := range *ex.Referrers() {
				if ret, ok := u.(*ssa.Return); ok && len(ret.Results) == 2 && ret.Results[1] == ssa.Value(ex) {
					return true
				}
			}
		}
	}
	return false
}

func forwardedPair(av, ev ssa.Value, fam map[*ssa.Function]bool) bool {
	ea, ok1 := av.(*ssa.Extract)
	ee, ok2 := ev.(*ssa.Extract)
	if !ok1 || !ok2 || ea.Tuple != ee.Tuple {
		return false
	}
	c, ok := ea.Tuple.(*ssa.Call)
	if !ok {
		return false
	}
	scf := c.Call.StaticCallee()
	return scf != nil && fam[scf]
}

func nonNilAssertion(fc *FuncCtx, b *ssa.BasicBlock, av ssa.Value, fam map[*ssa.Function]bool) bool {
	return nonNilAssertionUnder(fc, fc.Cond(b), av, fam, 0)
}

// nonNilAssertionUnder: av is non-nil whenever cond holds. A phi is read alternative by alternative, each under the
// condition of its own edge as well (an alternative whose edge contradicts cond was not taken: the paths on which the
// result variable stayed nil are the ones that set the error tested before the return).
func nonNilAssertionUnder(fc *FuncCtx, cond *bddNode, av ssa.Value, fam map[*ssa.Function]bool, depth int) bool {
	B := fc.A.B
	switch x := av.(type) {
	case *ssa.Alloc, *ssa.IndexAddr, *ssa.FieldAddr:
		return true
	case *ssa.Extract:
		if c, ok := x.Tuple.(*ssa.Call); ok {
			if scf := c.Call.StaticCallee(); scf != nil && fam[scf] {
				// under err == nil of the same call
				name := "isnil(" + fc.AP(c) + "#1)"
				return B.HasVar(name) && B.Implies(cond, B.Var(name))
			}
		}
	case *ssa.Phi:
		if depth > 4 {
			return false
		}
		for i, e := range x.Edges {
			pred := x.Block().Preds[i]
			under := B.And(cond, B.And(fc.Cond(pred), fc.edgeCond(pred, x.Block())))
			if under == B.False {
				continue
			}
			if !nonNilAssertionUnder(fc, under, Resolve(e), fam, depth+1) {
				return false
			}
		}
		return true
	}
	return fc.NonNil(av) == B.True
}

func isIREValue(fc *FuncCtx, b *ssa.BasicBlock, ev ssa.Value, ire *types.Named, fam map[*ssa.Function]bool) bool {
	B := fc.A.B
	switch x := ev.(type) {
	case *ssa.MakeInterface:
		// the error object: a local literal, or (inside a local fail-closure) the captured variable holding one
		if al, ok := capturedValue(x.X).(*ssa.Alloc); ok && namedOf(al.Type()) == ire {
			// PrivateErr must have been stored on this path: a store in this block or a dominating one
			for _, bb := range fc.Fn.Blocks {
				for _, in := range bb.Instrs {
					st, ok := in.(*ssa.Store)
					if !ok {
						continue
					}
					fa, ok := st.Addr.(*ssa.FieldAddr)
					if !ok || capturedValue(fa.X) != ssa.Value(al) || fieldName(fa.X.Type(), fa.Field) != "PrivateErr" {
						continue
					}
					if bb == b || bb.Dominates(b) {
						return true
					}
				}
			}
			// set in one of several branches and tested afterwards: `if retErr.PrivateErr != nil { return nil, retErr }`:
			// reaching the return implies that one of the assignments executed
			some := B.False
			for _, bb := range fc.Fn.Blocks {
				for _, in := range bb.Instrs {
					st, ok := in.(*ssa.Store)
					if !ok {
						continue
					}
					fa, ok := st.Addr.(*ssa.FieldAddr)
					if !ok || capturedValue(fa.X) != ssa.Value(al) || fieldName(fa.X.Type(), fa.Field) != "PrivateErr" {
						continue
					}
					if bb != b && blockReaches(bb, b) && !blockReaches(b, bb) && B.Implies(fc.Cond(bb), fc.NonNil(st.Val)) {
						some = B.Or(some, fc.Cond(bb))
					}
				}
			}
			if some != B.False && fc.Implied(b, some) {
				return true
			}
			for _, nm := range B.Support(fc.Cond(b)) {
				if strings.HasPrefix(nm, "isnil(") && strings.HasSuffix(nm, ".PrivateErr)") && fc.Implied(b, B.Not(B.Var(nm))) {
					return true
				}
			}
			return false
		}
		// the error object handed to a helper that completes and returns it (reject(retErr, err)): every caller passes
		// the address of a literal, and the helper sets PrivateErr before it returns
		if prm, ok := x.X.(*ssa.Parameter); ok && namedOf(prm.Type()) == ire && (fc.Fn.Object() == nil || !fc.Fn.Object().Exported()) {
			idx := -1
			for i, q := range fc.Fn.Params {
				if q == prm {
					idx = i
				}
			}
			sites := fc.A.P.CallersOf(fc.Fn)
			if idx < 0 || len(sites) == 0 {
				return false
			}
			for _, cs := range sites {
				arg := cs.Arg(idx)
				if arg == nil {
					return false
				}
				if _, isAlloc := capturedValue(arg).(*ssa.Alloc); !isAlloc {
					return false
				}
			}
			for _, bb := range fc.Fn.Blocks {
				for _, in := range bb.Instrs {
					st, ok := in.(*ssa.Store)
					if !ok {
						continue
					}
					fa, ok := st.Addr.(*ssa.FieldAddr)
					if !ok || fa.X != ssa.Value(prm) || fieldName(fa.X.Type(), fa.Field) != "PrivateErr" {
						continue
					}
					if bb == b || bb.Dominates(b) {
						return true
					}
				}
			}
			return false
		}
	case *ssa.Extract:
		if c, ok := x.Tuple.(*ssa.Call); ok {
			if scf := c.Call.StaticCallee(); scf != nil && fam[scf] && (scf.Object() != nil && scf.Object().Exported() || returnsVerbatimTo(fc.A.P, scf, fam)) {
				name := "isnil(" + fc.AP(x) + ")"
				return B.HasVar(name) && fc.Implied(b, B.Not(B.Var(name)))
			}
		}
	}
	return false
}

// ---------------------------------------------------------------------------------------------
// discarded errors

func checkErrDrop(r *Report, a *Analysis, sc *Scope, fns []*ssa.Function, rule string) {
	p := a.P
	n := 0
	for _, fn := range fns {
		for _, b := range fn.Blocks {
			for _, in := range b.Instrs {
				call, ok := in.(*ssa.Call)
				if !ok {
					continue
				}
				sig := call.Call.Signature()
				res := sig.Results()
				ei := -1
				for i := 0; i < res.Len(); i++ {
					if types.TypeString(res.At(i).Type(), nil) == "error" {
						ei = i
					}
				}
				if ei < 0 {
					continue
				}
				n++
				used := false
				if res.Len() == 1 {
					used = len(*call.Referrers()) > 0
				} else {
					for _, rf := range *call.Referrers() {
						if ex, ok := rf.(*ssa.Extract); ok && ex.Index == ei && len(*ex.Referrers()) > 0 {
							used = true
						}
					}
				}
				if used {
					continue
				}
				name := calleeName(&call.Call)
				cons := fmt.Sprintf("%s: error of %s discarded", p.FnName(fn), shortName(name))
				switch {
				case name == "compress/flate.NewWriter":
					if lv, ok := constInt(call.Call.Args[1]); ok && lv >= -2 && lv <= 9 {
						r.OK(rule, cons, p.InstrPos(in), "constant valid compression level: cannot fail")
						continue
					}
				case strings.HasSuffix(name, ".Printf") || strings.HasSuffix(name, ".Println") || strings.HasPrefix(name, "fmt.Fprint"):
					continue
				case name == "encoding/pem.Decode":
					continue
				case strings.HasSuffix(name, ").Close"):
					r.OK(rule, cons, p.InstrPos(in), "Close error of a fully read body is not a validation input")
					continue
				case strings.HasSuffix(name, ").Write") || strings.HasSuffix(name, ").WriteString"):
					continue
				}
				r.Bad(rule, cons, p.InstrPos(in), "an error result on a message-consuming path is dropped; the failure would be treated as success")
			}
		}
	}
	r.OK(rule, "error-returning calls on the consuming paths enumerated", "-", fmt.Sprintf("%d calls with an error result in %d functions", n, len(fns)))
}

func shortName(s string) string {
	s = strings.ReplaceAll(s, modPath+"/", "")
	s = strings.ReplaceAll(s, modPath, "saml")
	return s
}

// ---------------------------------------------------------------------------------------------
// C11 specific rules

func checkCertMatch(r *Report, sc *Scope, rule string) {
	p := sc.P
	// role: RSA key validator = xmlenc function under Decrypt that compares moduli ((*big.Int).Cmp); helper
	// functions it calls are analysed as part of it (inlining bound 3), so splitting it up stays silent
	var cands []*ssa.Function
	for _, fn := range p.FuncsCalling("(*math/big.Int).Cmp") {
		// (in package xmlenc, or in an internal package of the module its helpers were moved to)
		if fn.Pkg != nil && (fn.Pkg.Pkg.Path() == modPath+"/xmlenc" || strings.HasPrefix(fn.Pkg.Pkg.Path(), modPath+"/internal/")) && sc.Decrypt[fn] {
			cands = append(cands, fn)
		}
	}
	if len(cands) == 0 {
		panic(unresolved{"role RSA key validator (xmlenc function under Decrypt calling big.Int.Cmp)"})
	}
	// the comparison may sit in a helper of the validator: the validator is the function that looks the embedded
	// certificate up; climb from the comparing function to its only caller until that lookup is found
	looksUpCert := func(fn *ssa.Function) bool {
		for _, b := range fn.Blocks {
			for _, in := range b.Instrs {
				if c, ok := in.(*ssa.Call); ok {
					if scf := c.Call.StaticCallee(); scf != nil && (strings.HasSuffix(scf.String(), "etree.Element).FindElement") || strings.HasSuffix(scf.String(), "etree.Element).FindElementPath")) {
						for _, a := range c.Call.Args {
							if path, ok := etreePathConst(a); ok && strings.HasSuffix(path, "X509Certificate") {
								return true
							}
						}
					}
					// ... through a local helper that is handed the path (find := func(path string) *etree.Element {...})
					if scf := c.Call.StaticCallee(); scf != nil && scf.Parent() == fn && localHelperClosure(scf) {
						for _, a := range c.Call.Args {
							if path, ok := etreePathConst(a); ok && strings.HasSuffix(path, "X509Certificate") && len(callsTo(scf, "(*github.com/beevik/etree.Element).FindElement")) > 0 {
								return true
							}
						}
					}
				}
			}
		}
		return false
	}
	seenC := map[*ssa.Function]bool{}
	var climbed []*ssa.Function
	for _, fn := range cands {
		for i := 0; i < 3 && !looksUpCert(fn); i++ {
			var callers []*ssa.Function
			for _, cs := range p.StaticCallersOf(fn) {
				if cs.Caller.Pkg == fn.Pkg && (len(callers) == 0 || callers[len(callers)-1] != cs.Caller) {
					callers = append(callers, cs.Caller)
				}
			}
			if len(callers) != 1 {
				break
			}
			fn = callers[0]
		}
		if !seenC[fn] {
			seenC[fn] = true
			climbed = append(climbed, fn)
		}
	}
	cands = climbed
	for _, fn := range cands {
		a := NewAnalysis(p)
		a.Inline = func(f *ssa.Function) bool {
			return f.Pkg != nil && f.Pkg.Pkg.Path() == modPath+"/xmlenc" && f != fn
		}
		B := a.B
		fc := a.Ctx(fn)
		fc.ensureConds()
		r.Fn(p.FnName(fn))
		rej := fc.RejectFormula()
		// locate the atoms (in the function or its inlined helpers)
		var certPresent, pemNil, parseErr, notRSA, cmpNe, eNe string
		for _, name := range sortedKeys(a.Atoms) {
			ai := a.Atoms[name]
			switch {
			case ai.Kind == "isnil" && (strings.Contains(name, "FindElement") || atomCallsLocalFinder(ai)) && certPresent == "" && atomLookupsCertificate(ai):
				certPresent = name
			case ai.Kind == "isnil" && strings.Contains(name, "pem.Decode"):
				pemNil = name
			case ai.Kind == "isnil" && strings.Contains(name, "x509.ParseCertificate"):
				parseErr = name
			case ai.Kind == "typeis" && strings.Contains(name, "PublicKey"):
				notRSA = name
			case ai.Kind == "eq" && strings.Contains(name, ".Cmp("):
				cmpNe = name
			case ai.Kind == "eq" && (strings.HasSuffix(ai.Args[0], ".E") || strings.HasSuffix(ai.Args[1], ".E")):
				eNe = name
			}
		}
		type row struct {
			what, atom string
			neg        bool
		}
		rows := []row{
			{"invalid PEM (pem.Decode returned nil)", pemNil, false},
			{"certificate does not parse", parseErr, true},
			{"certificate key is not RSA", notRSA, true},
			{"modulus differs", cmpNe, true},
			{"exponent differs", eNe, true},
		}
		if certPresent == "" {
			r.Bad(rule, p.FnName(fn)+": embedded certificate lookup", p.Pos(fn.Pos()), "no lookup of KeyInfo/X509Data/X509Certificate found")
			continue
		}
		for _, rw := range rows {
			cons := fmt.Sprintf("%s: reject when an X509Certificate is embedded and %s", p.FnName(fn), rw.what)
			if rw.atom == "" {
				r.Bad(rule, cons, p.Pos(fn.Pos()), "the comparison is missing from the validator")
				continue
			}
			lit := B.Var(rw.atom)
			if rw.neg {
				lit = B.Not(lit)
			}
			// no success path may be compatible with "certificate present and this check fails"
			succ := B.And(B.And(B.Not(rej), lit), B.Not(B.Var(certPresent)))
			if succ == B.False {
				r.OK(rule, cons, p.Pos(fn.Pos()), "no success path is compatible with this condition")
			} else {
				r.Bad(rule, cons, p.Pos(fn.Pos()), "a success return is reachable although a certificate is embedded and "+rw.what+": e.g. under "+firstCube(B, succ))
			}
		}
	}
}

// atomLookupsCertificate: the isnil atom is about a FindElement call whose constant path ends in X509Certificate.
func atomLookupsCertificate(ai *AtomInfo) bool { return atomLooksUp(ai, "X509Certificate") }

// atomLooksUp: the atom is about a call with a constant string argument that ends in suffix (an etree path).
func atomLooksUp(ai *AtomInfo, suffix string) bool {
	if ai == nil {
		return false
	}
	for _, v := range ai.Vals {
		if c, ok := v.(*ssa.Call); ok {
			for _, a := range c.Call.Args {
				if path, ok := etreePathConst(a); ok && strings.HasSuffix(path, suffix) {
					return true
				}
				// the path is (built from) a parameter of a helper analysed as part of its caller: the argument bound to it
				if path, ok := boundPathText(ai.Ctx, a, 0); ok && strings.HasSuffix(path, suffix) {
					return true
				}
			}
		}
	}
	return false
}

func checkGCMAuth(r *Report, a *Analysis, sc *Scope, rule string) {
	p := a.P
	B := a.B
	n := 0
	for _, fn := range sortedFns(p, sc.Decrypt) {
		opens := callsTo(fn, "(crypto/cipher.AEAD).Open")
		if len(opens) == 0 {
			continue
		}
		fc := a.Ctx(fn)
		fc.ensureConds()
		r.Fn(p.FnName(fn))
		// every way of leaving without an error (a nil error returned directly, or the nil outcome of a helper the
		// result is handed to) lies under the nil edge of Open
		n++
		cons := fmt.Sprintf("%s: plaintext return dominated by Open == nil", p.FnName(fn))
		authed := B.False
		for _, o := range opens {
			name := "isnil(" + fc.AP(o.(ssa.Value)) + "#1)"
			if B.HasVar(name) {
				authed = B.Or(authed, B.Var(name))
			}
		}
		acc := B.Not(fc.NotAcceptFormula())
		r.Check(acc != B.False && B.Implies(acc, authed), rule, cons, p.Pos(fn.Pos()), "every error-free exit lies under the nil edge of Open", "a plaintext is returned on a path that does not pass the authentication check of Open")
		// the ciphertext given to Open derives from the cipher value
		for _, o := range opens {
			ct := o.Common().Args[2]
			cons := fmt.Sprintf("%s: Open authenticates the cipher value", p.FnName(fn))
			fromValue := func(x *FuncCtx) bool {
				return strings.Contains(x.AP(ct), "getCiphertext") || strings.Contains(x.AP(ct), "r:")
			}
			r.Check(fromValue(fc) || atEveryCallSite(fc, fromValue), rule, cons, p.InstrPos(o.(ssa.Instruction)), "ciphertext operand is "+fc.AP(ct), "ciphertext operand of Open does not derive from the element's cipher value")
		}
	}
	if n == 0 {
		panic(unresolved{"role GCM decrypter (function under xmlenc.Decrypt calling AEAD.Open)"})
	}
}

// checkPadding: stripPadding role = xmlenc function (buf []byte) ([]byte, error) that slices buf[:len(buf)-x].
func checkPadding(r *Report, a *Analysis, sc *Scope, rule string, strict bool) {
	p := a.P
	B := a.B
	var cands []*ssa.Function
	for _, fn := range sortedFns(p, sc.Decrypt) {
		if fn.Signature.Recv() != nil || fn.Signature.Params().Len() < 1 || fn.Signature.Results().Len() != 2 || errIndex(fn) != 1 {
			continue
		}
		if types.TypeString(fn.Signature.Params().At(0).Type(), nil) != "[]byte" || types.TypeString(fn.Signature.Results().At(0).Type(), nil) != "[]byte" {
			continue
		}
		// it returns a prefix of its first parameter (further parameters, e.g. a block size, are allowed)
		slices := false
		for _, b := range fn.Blocks {
			for _, in := range b.Instrs {
				if sl, ok := in.(*ssa.Slice); ok && sl.X == ssa.Value(fn.Params[0]) && sl.Low == nil && sl.High != nil {
					slices = true
				}
			}
		}
		if !slices {
			continue
		}
		cands = append(cands, fn)
	}
	// ... or the same stripping written out in the decrypting function: x[:len(x)-int(x[len(x)-1])]
	bufOf := map[*ssa.Function]string{}
	for _, fn := range sortedFns(p, sc.Decrypt) {
		dup := false
		for _, c := range cands {
			dup = dup || c == fn
		}
		if dup {
			continue
		}
		if buf, ok := padStripBuf(a.Ctx(fn)); ok {
			bufOf[fn] = buf
			cands = append(cands, fn)
		}
	}
	if len(cands) == 0 {
		panic(unresolved{"role padding stripper (xmlenc func([]byte) ([]byte, error) under Decrypt)"})
	}
	for _, fn := range cands {
		fc := a.Ctx(fn)
		fc.ensureConds()
		r.Fn(p.FnName(fn))
		rej := fc.RejectFormula()
		buf := fc.AP(fn.Params[0])
		if b2, ok := bufOf[fn]; ok {
			buf = b2
		}
		// atoms
		var emptyA, padLt1, padGtLen, padGtLenM1 string
		for name, ai := range a.Atoms {
			if ai.Fn != fn {
				continue
			}
			switch ai.Kind {
			case "empty":
				if ai.Args[0] == buf {
					emptyA = name
				}
			case "eq":
				// pad == 0 for a count read from a byte (never negative) is pad < 1
				for i := 0; i < 2 && len(ai.Args) == 2 && len(ai.Vals) == 2; i++ {
					if ai.Args[i] == "c:0" && strings.Contains(ai.Args[1-i], buf) && fromUnsigned(ai.Vals[1-i]) {
						padLt1 = name
					}
				}
			case "lt":
				switch {
				case ai.Args[1] == "c:1" && strings.Contains(ai.Args[0], buf):
					padLt1 = name
				case ai.Args[0] == "len("+buf+")":
					padGtLen = name
				case ai.Args[0] == "(len("+buf+")-c:1)":
					padGtLenM1 = name
				}
			}
		}
		// row 1: empty buffer rejected
		c1 := fmt.Sprintf("%s: empty buffer rejected", p.FnName(fn))
		r.Check(emptyA != "" && B.Implies(B.Var(emptyA), rej), rule, c1, p.Pos(fn.Pos()), "len<1 => reject", "an empty buffer is not rejected before the last byte is read")
		// row 2: pad < 1 rejected (minimum-padding check)
		c2 := fmt.Sprintf("%s: padding < 1 rejected", p.FnName(fn))
		ok2 := padLt1 != ""
		if ok2 {
			f := B.Var(padLt1)
			if emptyA != "" {
				f = B.And(f, B.Not(B.Var(emptyA)))
			}
			ok2 = B.Implies(f, rej)
		}
		r.Check(ok2, rule, c2, p.Pos(fn.Pos()), "pad<1 => reject", "the minimum-padding check is missing: a zero padding byte is accepted")
		// row 3: pad > len rejected, pad == len accepted (full block of padding = empty plaintext)
		c3 := fmt.Sprintf("%s: padding > len rejected, padding == len accepted", p.FnName(fn))
		switch {
		case padGtLen != "":
			f := B.Var(padGtLen)
			if emptyA != "" {
				f = B.And(f, B.Not(B.Var(emptyA)))
			}
			r.Check(B.Implies(f, rej), rule, c3, p.Pos(fn.Pos()), "pad>len => reject and nothing stricter", "pad > len is not rejected")
		case padGtLenM1 != "" && !strict:
			f := B.Var(padGtLenM1)
			if emptyA != "" {
				f = B.And(f, B.Not(B.Var(emptyA)))
			}
			r.Check(B.Implies(f, rej), rule, c3, p.Pos(fn.Pos()), "pad>len-1 => reject (stricter than needed; the full-padding-block case is judged by C10)", "pad > len-1 is not rejected")
		case padGtLenM1 != "":
			r.Bad(rule, c3, p.Pos(fn.Pos()), "the upper bound is pad > len-1: a buffer that is one full block of padding (the empty plaintext) is rejected")
		default:
			r.Bad(rule, c3, p.Pos(fn.Pos()), "no upper bound on the padding length")
		}
		// row 4 (interoperability only): with 1 <= pad <= len nothing else about the buffer's length or padding byte
		// rejects (a second bound, e.g. pad >= block size, refuses the full block of padding other implementations emit)
		if strict {
			f := rej
			for _, nm := range []string{emptyA, padLt1, padGtLen, padGtLenM1} {
				if nm != "" {
					f = B.Restrict(f, nm, false)
				}
			}
			var extra []string
			for _, n := range B.Support(f) {
				ai := a.Atoms[n]
				if ai == nil {
					continue
				}
				for _, arg := range ai.Args {
					if strings.Contains(arg, buf+"[") || strings.Contains(arg, "len("+buf+")") {
						extra = append(extra, n)
						break
					}
				}
			}
			sort.Strings(extra)
			c4 := fmt.Sprintf("%s: a padding count in 1..len is accepted", p.FnName(fn))
			r.Check(len(extra) == 0, rule, c4, p.Pos(fn.Pos()), "no further reject condition over the buffer's length or padding byte", "a well-formed padding is still refused by "+strings.Join(extra, ", "))
			// row 5: what is handed back is the buffer without its padding and nothing else: the prefix slice of the
			// parameter itself (trimming, filtering or copying part of it changes plaintexts that end in the trimmed bytes)
			if _, inlineStrip := bufOf[fn]; !inlineStrip {
				for _, ret := range fc.Returns() {
					if len(ret.Results) != 2 || !isNilConst(Resolve(ret.Results[1])) {
						continue
					}
					v := Resolve(ret.Results[0])
					okP := false
					if sl, ok := v.(*ssa.Slice); ok && sl.X == ssa.Value(fn.Params[0]) && sl.Low == nil && sl.High != nil {
						okP = true
					}
					c5 := fmt.Sprintf("%s: the plaintext returned is the buffer minus its padding", p.FnName(fn))
					r.Check(okP, rule, c5, p.InstrPos(ret), "buf[:len(buf)-pad]", "the stripper returns "+fc.AP(v)+", not the prefix of its buffer: bytes of the plaintext other than the padding are removed or rewritten")
				}
			}
		}
	}
}

// padStripBuf: the function slices x[:len(x)-int(x[len(x)-1])]; gives the access path of x.
func padStripBuf(fc *FuncCtx) (string, bool) {
	for _, b := range fc.Fn.Blocks {
		for _, in := range b.Instrs {
			sl, ok := in.(*ssa.Slice)
			if !ok || sl.Low != nil || sl.High == nil || types.TypeString(sl.X.Type(), nil) != "[]byte" {
				continue
			}
			hi, ok := sl.High.(*ssa.BinOp)
			if !ok || hi.Op != token.SUB {
				continue
			}
			la := lenArg(hi.X)
			if la == nil || fc.AP(la) != fc.AP(sl.X) {
				continue
			}
			k := hi.Y
			for {
				if cv, ok := k.(*ssa.Convert); ok {
					k = cv.X
					continue
				}
				break
			}
			ld, ok := k.(*ssa.UnOp)
			if !ok || ld.Op != token.MUL {
				continue
			}
			ia, ok := ld.X.(*ssa.IndexAddr)
			if !ok || fc.AP(ia.X) != fc.AP(sl.X) {
				continue
			}
			return fc.AP(sl.X), true
		}
	}
	return "", false
}

// fromUnsigned: v is an unsigned value converted to a wider integer type (int(buf[i])).
func fromUnsigned(v ssa.Value) bool {
	for i := 0; i < 3; i++ {
		cv, ok := v.(*ssa.Convert)
		if !ok {
			break
		}
		if bt, ok := cv.X.Type().Underlying().(*types.Basic); ok && bt.Info()&types.IsUnsigned != 0 {
			return true
		}
		v = cv.X
	}
	return false
}

var _ = sort.Strings

// safely runs one check; an unresolved role becomes an undecided obligation of that check only.
func safely(r *Report, f func()) {
	defer func() {
		if x := recover(); x != nil {
			if u, ok := x.(unresolved); ok {
				r.Undecided(r.Prop+".anchor", "unresolved anchor "+u.what, "-", "the role/anchor did not resolve to any program object; the rule cannot vouch for the tree")
				return
			}
			panic(x)
		}
	}()
	f()
}

// atEveryCallSite: fc is the context of an unexported function analysed on its own; holds reports whether a fact about
// its parameters holds when they are bound to the arguments of each static call site (there must be one, and no other
// way of reaching the function).
func atEveryCallSite(fc *FuncCtx, holds func(sub *FuncCtx) bool) bool {
	p := fc.A.P
	fn := fc.Fn
	if fc.parent != nil || fn.Object() == nil || fn.Object().Exported() || fn.Signature.Recv() != nil && fn.Object().Exported() {
		return false
	}
	sites := p.CallersOf(fn)
	if len(sites) == 0 {
		return false
	}
	for _, cs := range sites {
		call, ok := cs.Instr.(*ssa.Call)
		if !ok || cs.Shift != 0 || call.Call.StaticCallee() != fn {
			return false
		}
		sub := fc.A.Ctx(cs.Caller).inlineCtx(fn, call.Call.Args, call)
		if !holds(sub) {
			return false
		}
	}
	return true
}

// unavailableHash: why v (a crypto.Hash) may be zero ("" if every alternative is a non-zero constant, an element of a
// constant table of such, the result of a module function that returns only such, or was tested against zero).
func unavailableHash(p *Prog, fc *FuncCtx, at *ssa.BasicBlock, v ssa.Value, depth int) string {
	if depth > 6 {
		return "could not be traced to constants"
	}
	switch x := v.(type) {
	case *ssa.Const:
		if x.Value != nil && x.Int64() != 0 {
			return ""
		}
		return "can be 0"
	case *ssa.Phi:
		for i, e := range x.Edges {
			if e == v {
				continue
			}
			if why := unavailableHash(p, fc, x.Block().Preds[i], e, depth+1); why != "" {
				return why
			}
		}
		return ""
	case *ssa.Call:
		if sc := x.Call.StaticCallee(); sc != nil && p.InModule(sc) && len(sc.Blocks) > 0 {
			sub := fc.A.Ctx(sc)
			for _, ret := range returnsOf(sc) {
				if len(ret.Results) == 0 {
					continue
				}
				if why := unavailableHash(p, sub, ret.Block(), ret.Results[0], depth+1); why != "" {
					return why + " (returned by " + shortFn(sc) + " at " + p.InstrPos(ret) + ")"
				}
			}
			return ""
		}
	case *ssa.Extract:
		if lk, ok := x.Tuple.(*ssa.Lookup); ok && x.Index == 0 {
			return unavailableHash(p, fc, at, lk, depth+1)
		}
	case *ssa.Lookup:
		if ld, ok := x.X.(*ssa.UnOp); ok {
			if g, ok := ld.X.(*ssa.Global); ok {
				if ents, ok := p.globalMapEntries(g); ok {
					for _, e := range ents {
						if k, ok := e.v.(*ssa.Const); !ok || k.Value == nil || k.Int64() == 0 {
							return "comes from the table " + g.Name() + ", which holds a zero or computed entry"
						}
					}
					if x.CommaOk {
						return "" // (the miss is the caller's test of ok)
					}
					return "comes from the table " + g.Name() + " without a comma-ok test: a miss yields 0"
				}
			}
		}
	}
	// tested against zero on the way
	ap := fc.AP(v)
	for _, nm := range []string{"eq(" + ap + ",c:0)", "eq(c:0," + ap + ")"} {
		if fc.A.B.HasVar(nm) && fc.Implied(at, fc.A.B.Not(fc.A.B.Var(nm))) {
			return ""
		}
	}
	return "is not a constant on every path"
}

// checkNoWaiting: C09.no-wait. "Never hangs": the library's own code on the message-consuming paths does not wait — no
// sleep, timer, ticker, channel operation, select, WaitGroup/Cond wait. (Network I/O inside net/http is bounded by the
// application's client and context: trusted base.) A wait whose length comes from the peer (a Retry-After date, a
// back-off read from the message) is a hang the peer chooses.
func checkNoWaiting(r *Report, p *Prog, fns []*ssa.Function, rule string) {
	waits := map[string]bool{
		"time.Sleep": true, "time.After": true, "time.NewTimer": true, "time.Tick": true, "time.NewTicker": true, "time.AfterFunc": true,
		"(*time.Timer).Reset": true, "(*sync.WaitGroup).Wait": true, "(*sync.Cond).Wait": true,
	}
	n, hits := 0, 0
	for _, fn := range fns {
		if !p.InLibrary(fn) || len(fn.Blocks) == 0 {
			continue
		}
		n++
		for _, b := range fn.Blocks {
			for _, in := range b.Instrs {
				what := ""
				switch x := in.(type) {
				case *ssa.Select:
					what = "select"
				case *ssa.Send:
					what = "channel send"
				case *ssa.UnOp:
					if x.Op == token.ARROW {
						what = "channel receive"
					}
				case ssa.CallInstruction:
					if sc := x.Common().StaticCallee(); sc != nil && waits[sc.String()] {
						what = "call of " + sc.String()
					}
				}
				if what != "" {
					hits++
					r.Fn(p.FnName(fn))
					r.Bad(rule, fmt.Sprintf("%s: no waiting on the consuming path (%s)", p.FnName(fn), what), p.InstrPos(in), "the consuming path waits ("+what+"): how long is decided by a value that can come from the peer or from another goroutine, so the API can hang instead of returning a result or an error")
				}
			}
		}
	}
	if hits == 0 {
		r.OK(rule, "consuming paths: no sleep, timer, channel or wait operation", "-", fmt.Sprintf("%d functions scanned", n))
	}
}

// phiLeaves: the non-phi values a value may stand for (phi alternatives, nested to a small depth).
func phiLeaves(v ssa.Value, depth int) []ssa.Value {
	ph, ok := v.(*ssa.Phi)
	if !ok || depth > 4 {
		return []ssa.Value{v}
	}
	var out []ssa.Value
	for _, e := range ph.Edges {
		out = append(out, phiLeaves(Resolve(e), depth+1)...)
	}
	return out
}

// atomCallsLocalFinder: the atom is about the result of a local helper literal that looks an element up by the path it
// is handed (find := func(path string) *etree.Element { return el.FindElement(path) }).
func atomCallsLocalFinder(ai *AtomInfo) bool {
	if ai == nil {
		return false
	}
	for _, v := range ai.Vals {
		if c, ok := v.(*ssa.Call); ok {
			if sc := c.Call.StaticCallee(); sc != nil && sc.Parent() != nil && localHelperClosure(sc) && len(callsTo(sc, "(*github.com/beevik/etree.Element).FindElement")) > 0 {
				return true
			}
		}
	}
	return false
}

// boundPathText: the text of a path expression inside a helper analysed as part of its caller: a constant, a parameter
// whose argument is such a text, or the concatenation of two such texts.
func boundPathText(fc *FuncCtx, v ssa.Value, depth int) (string, bool) {
	if depth > 4 {
		return "", false
	}
	if path, ok := etreePathConst(v); ok {
		return path, true
	}
	switch x := v.(type) {
	case *ssa.Parameter:
		if fc != nil && fc.argVal != nil && fc.parent != nil {
			if av := fc.argVal[x]; av != nil {
				return boundPathText(fc.parent, av, depth+1)
			}
		}
	case *ssa.BinOp:
		if x.Op == token.ADD {
			l, ok1 := boundPathText(fc, x.X, depth+1)
			r, ok2 := boundPathText(fc, x.Y, depth+1)
			if ok1 && ok2 {
				return l + r, true
			}
		}
	}
	return "", false
}
