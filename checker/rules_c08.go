package main

import (
	"fmt"
	"go/token"
	"go/types"
	"os"
	"sort"
	"strings"

	"golang.org/x/tools/go/ssa"
)

func init() {
	registry["C08"] = []func(*Report){ruleC08}
}

func ruleC08(r *Report) {
	p := r.P
	sc := NewScope(p, r.Tier)
	r.Trusted("crypto/rsa OAEP, crypto/aes, crypto/cipher (confidentiality of the primitives)", "etree v1.5.0", "go/ssa of golang.org/x/tools v0.29.0")
	r.NotDecided("that only the SP's private key decrypts (RSA-OAEP/AES semantics); that no user datum appears elsewhere in the emitted bytes beyond the structural 'only the ciphertext element is added' rule")
	r.Rule("C08.downgrade", "the assertion is emitted in clear only when the certificate selector returned exactly os.ErrNotExist; every other selector error is a reject; the selector returns ErrNotExist only when no descriptor supplied a certificate string, and a descriptor that advertises an encryption certificate is skipped under no condition other than its use attribute and the presence of certificate data", 2)
	r.Rule("C08.only-ciphertext", "the cleartext assertion object is read only by the function that signs/encrypts it; the response literal leaves its own Assertion/EncryptedAssertion fields unset; the EncryptedAssertion element receives exactly one child, the Encrypt result over the serialised signed tree", 2)
	r.Rule("C08.fresh", "content-encryption key, IV and nonce buffers are fresh make([]byte, n) buffers of the cipher's own size whose only writer is io.ReadFull on the package's RandReader with the error checked before use", 1)
	r.Rule("C08.sp-same-checks", "on the SP the decrypted assertion goes to the same assertion parser with the caller's own context, the decrypted bytes pass the round-trip validator before parsing, and every failure of decrypting/validating/parsing is an error", 3)
	r.Rule("C08.cert-index", "no index into an empty certificate list while selecting the encryption certificate", 1)

	checkDowngrade(r, p)
	checkOnlyCiphertext(r, p)
	checkFresh(r, p, "C08.fresh")
	checkSPSameChecks(r, p, sc)
	// bounds in the selector
	a := NewAnalysis(p)
	br := &BoundsRules{R: r, A: a, S: sc}
	sel, _ := encCertSelector(p)
	br.Check(append([]*ssa.Function{sel}, stringHelpersOf(p, sel)...), "C08.cert-index", boundsOpts{OnlySchemaDerived: true})
	// "undecryptable or malformed ciphertext is a validation failure": under the SP's decrypt step nothing indexes,
	// slices or dereferences without a guard (C11.bounds, C11.nilsrc and C11.padding, borrowed) - a panic is not a
	// validation failure, and anyone can encrypt to the SP's public certificate
	r.Rule("C08.malformed", "malformed ciphertext is an error on the SP, not a panic: every index/slice and every maybe-nil lookup under xmlenc.Decrypt and the SP's decrypt step is guarded, and the padding stripper rejects exactly len<1, pad<1, pad>len (C11.bounds/nilsrc/padding, borrowed)", 6)
	for _, from := range []string{"C11.bounds", "C11.nilsrc", "C11.padding"} {
		from := from
		r.borrow(from, "C08.malformed", func() {
			a2 := NewAnalysis(p)
			fns := sortedFns(p, sc.Decrypt)
			switch from {
			case "C11.bounds":
				(&BoundsRules{R: r, A: a2, S: sc}).Check(fns, "C11.bounds", boundsOpts{})
			case "C11.nilsrc":
				NewNilRules(r, a2, sc).Check(fns, "", "C11.nilsrc")
			case "C11.padding":
				checkPadding(r, a2, sc, "C11.padding", false)
			}
		})
	}
	r.Rule("C08.cipher", "the block ciphers the root package (where the IdP picks the assertion cipher) refers to are ciphers whose Encrypt/Decrypt pair passes the C10 framing and flow obligations on this tree (xmlenc.GCM's encrypter does not: known findings)", 1)
	safely(r, func() { checkAssertionCipher(r, p, "C08.cipher") })
	r.Rule("C08.the-certificate", "the certificate the selector hands to the encrypter is the one x509.ParseCertificate made of the selected descriptor's data: every non-nil *x509.Certificate the selector (with its helpers) returns or stores into its result is the first result of crypto/x509.ParseCertificate, not a pick among several parsed certificates or a certificate from elsewhere (the content must open with the SP's own key and no other)", 1)
	safely(r, func() { checkTheCertificate(r, p, sel, "C08.the-certificate") })
	r.Rule("C08.current-key", "the encryption certificate is a function of the metadata registered now: the selector and the helpers it is split into read no package-level variable that the library writes at run time (a cache keyed by entity ID keeps encrypting to a key the SP has retired)", 1)
	checkNoProcessStateFor(r, p, sel, "C08.current-key", "the encryption certificate does not depend on state the library keeps between calls",
		"the certificate selection consults", "assertions keep being encrypted to the certificate seen first after the SP registered a new one, so the SP's current key cannot open them and the retired key can")
}

// encCertSelector: role = the IdpAuthnRequest method returning (*x509.Certificate, error) that reads KeyDescriptors.
// When the selection is written out in the emitting function itself, that function is the selector (inline == true).
func encCertSelector(p *Prog) (sel *ssa.Function, inline bool) {
	for _, fn := range p.modFns {
		if !p.InLibrary(fn) || !isMethodOf(fn, "IdpAuthnRequest") || fn.Signature.Results().Len() != 2 {
			continue
		}
		if !typeIs(fn.Signature.Results().At(0).Type(), "crypto/x509", "Certificate") {
			continue
		}
		return fn, false
	}
	// the same selector as a plain function of the request, or handing back (certificate, err) as one result struct
	for _, fn := range p.modFns {
		if !p.InLibrary(fn) || fn.Pkg == nil || fn.Pkg.Pkg.Path() != modPath || len(fn.Blocks) == 0 {
			continue
		}
		takesReq := false
		for _, prm := range fn.Params {
			if typeIs(prm.Type(), modPath, "IdpAuthnRequest") {
				takesReq = true
			}
		}
		if !takesReq {
			continue
		}
		res := fn.Signature.Results()
		if res.Len() == 2 && errIndex(fn) == 1 && typeIs(res.At(0).Type(), "crypto/x509", "Certificate") {
			return fn, false
		}
		if _, hasErr := errComponent(fn); hasErr && res.Len() == 1 {
			if st := unexportedStruct(res.At(0).Type()); st != nil {
				for k := 0; k < st.NumFields(); k++ {
					if typeIs(st.Field(k).Type(), "crypto/x509", "Certificate") {
						return fn, false
					}
				}
			}
		}
	}
	// ... or as a function of the registered descriptor alone: a root-package function returning (certificate, error)
	// that (with its helpers) reads key descriptors
	for _, fn := range p.modFns {
		if !p.InLibrary(fn) || fn.Pkg == nil || fn.Pkg.Pkg.Path() != modPath || len(fn.Blocks) == 0 {
			continue
		}
		res := fn.Signature.Results()
		if res.Len() != 2 || errIndex(fn) != 1 || !typeIs(res.At(0).Type(), "crypto/x509", "Certificate") {
			continue
		}
		for _, h := range helperRegion(p, fn, 2) {
			for _, b := range h.Blocks {
				for _, in := range b.Instrs {
					if fa, ok := in.(*ssa.FieldAddr); ok && fieldName(fa.X.Type(), fa.Field) == "KeyDescriptors" {
						return fn, false
					}
				}
			}
		}
	}
	mk := p.MustFunc("saml", "IdpAuthnRequest", "MakeAssertionEl")
	if len(methodCallsOn(mk, "crypto/x509.ParseCertificate")) > 0 {
		return mk, true
	}
	panic(unresolved{"role encryption-certificate selector (IdpAuthnRequest method returning (*x509.Certificate, error), or the certificate parsed in MakeAssertionEl itself)"})
}

// isCertString: v is (a choice among) certificate strings read from key descriptors, possibly selected by a string helper.
func isCertString(fc *FuncCtx, v ssa.Value, depth int, seen map[ssa.Value]bool) bool {
	if v == nil || seen[v] || depth > 3 {
		return false
	}
	seen[v] = true
	switch x := v.(type) {
	case *ssa.Phi:
		for _, e := range x.Edges {
			if isCertString(fc, e, depth, seen) {
				return true
			}
		}
		return false
	case *ssa.Call:
		if sc := x.Call.StaticCallee(); sc != nil && len(sc.Blocks) > 0 && fc.A.P.InLibrary(sc) && sc.Signature.Results().Len() == 1 && isStringType(sc.Signature.Results().At(0).Type()) {
			sub := fc.A.Ctx(sc)
			for _, ret := range sub.Returns() {
				if isCertString(sub, ret.Results[0], depth+1, seen) {
					return true
				}
			}
		}
	}
	return strings.Contains(fc.AP(v), "X509Certificates")
}

func checkDowngrade(r *Report, p *Prog) {
	rule := "C08.downgrade"
	mk := p.MustFunc("saml", "IdpAuthnRequest", "MakeAssertionEl")
	sel, inlineSel := encCertSelector(p)
	// whether a key is advertised is a fact of the registered metadata, not of the moment: the selector and the helpers
	// it scans through compare no instants and read no clock (metadata past its validUntil "publishing no keys" is a
	// silent fall back to clear text)
	{
		bad := ""
		for _, f := range helperRegion(p, sel, 2) {
			af := NewAnalysis(p)
			ff := af.Ctx(f)
			ff.ensureConds()
			for _, b := range f.Blocks {
				for _, nm := range af.B.Support(ff.Cond(b)) {
					if ai := af.Atoms[nm]; ai != nil && ai.Kind == "before" {
						bad = firstNonEmpty(bad, p.FnName(f)+" tests "+nm)
					}
				}
				for _, in := range b.Instrs {
					for _, op := range in.Operands(nil) {
						if op == nil || *op == nil {
							continue
						}
						if g, ok := (*op).(*ssa.Global); ok && g.Pkg != nil && strings.HasPrefix(g.Pkg.Pkg.Path(), modPath) && (g.Name() == "TimeNow" || g.Name() == "Clock") {
							bad = firstNonEmpty(bad, p.FnName(f)+" reads "+g.Name()+" at "+p.InstrPos(in))
						}
					}
				}
			}
		}
		r.Check(bad == "", rule, p.FnName(sel)+": the advertised key does not depend on the time of the request", p.Pos(sel.Pos()), "no instant is compared and no clock is read in the selector and its helpers", "the certificate selection depends on time ("+bad+"): for some request times an SP that advertises an encryption key is treated as having none, and its assertion leaves in clear")
	}
	a := NewAnalysis(p)
	B := a.B
	fc := a.Ctx(mk)
	fc.ensureConds()
	r.Fn(p.FnName(mk))
	// the selector call
	var selCall *ssa.Call
	for _, b := range mk.Blocks {
		for _, in := range b.Instrs {
			if c, ok := in.(*ssa.Call); ok && c.Call.StaticCallee() == sel {
				selCall = c
			}
		}
	}
	if selCall == nil && !inlineSel {
		r.Bad(rule, p.FnName(mk)+": certificate selector consulted", p.Pos(mk.Pos()), "the function that emits the assertion never asks for the SP's encryption certificate")
		return
	}
	var errAP, nilA, notExistA string
	var certCalls []*ssa.Call // inline form: the decode/parse calls whose failure must stop the response
	if inlineSel {
		// "no encryption key" is the emptiness of the chosen certificate string; "a certificate was selected" is
		// the success of x509.ParseCertificate
		_ = fc.NotAcceptFormula()
		var names []string
		for name := range a.Atoms {
			names = append(names, name)
		}
		sort.Strings(names)
		for _, name := range names {
			ai := a.Atoms[name]
			if ai.Kind == "empty" && len(ai.Vals) > 0 && isCertString(fc, ai.Vals[0], 0, map[ssa.Value]bool{}) {
				// the last test of the choice: the one the cleartext store is guarded by
				notExistA = name
				for _, b := range mk.Blocks {
					_ = b
				}
			}
		}
		for _, c := range methodCallsOn(mk, "crypto/x509.ParseCertificate") {
			nilA = "isnil(" + fc.AP(c) + "#1)"
			certCalls = append(certCalls, c)
		}
		certCalls = append(certCalls, methodCallsOn(mk, "(*encoding/base64.Encoding).DecodeString")...)
	} else {
		errAP = fc.AP(selCall) + "#1"
		if ei, ok := errComponent(sel); ok && ei < 0 {
			errAP = fc.AP(selCall) + "." + fieldName(selCall.Type(), -ei-1)
		}
		nilA = "isnil(" + errAP + ")"
		for name, ai := range a.Atoms {
			if ai.Kind == "eq" && strings.Contains(name, errAP) && strings.Contains(name, "os.ErrNotExist") {
				notExistA = name
			}
		}
	}
	// stores to AssertionEl: plaintext stores (value is an Assertion.Element() build) vs ciphertext; looked for in the
	// function and the helpers it is split into
	rg := NewRegion(p, mk, 2)
	elems := rg.Calls("(*" + modPath + ".Assertion).Element")
	rg.Each(func(x RI) {
		st, ok := x.I.(*ssa.Store)
		if !ok {
			return
		}
		fa, ok := st.Addr.(*ssa.FieldAddr)
		if !ok || fieldName(fa.X.Type(), fa.Field) != "AssertionEl" || !typeIs(fa.X.Type(), modPath, "IdpAuthnRequest") {
			return
		}
		// condition of the store in terms of the emitting function: its position there, and (for a store inside a
		// helper) the helper's own path condition
		top := rg.SiteIn(rg.top, x)
		if top == nil {
			return
		}
		cnd := fc.Cond(top.Block())
		if x.C != rg.top {
			hfc := a.Ctx(st.Parent())
			hfc.ensureConds()
			cnd = B.And(cnd, hfc.Cond(st.Block()))
		}
		plain := false
		for _, e := range elems {
			if rg.IsFrom(RV{V: st.Val, C: x.C}, e) {
				plain = true
			}
		}
		if plain {
			cons := p.FnName(mk) + ": cleartext assertion emitted only when the selector said 'no encryption key' (os.ErrNotExist)"
			ok2 := notExistA != "" && B.Implies(cnd, B.Var(notExistA))
			if inlineSel {
				// any test "the chosen certificate string is empty" the store is guarded by
				ok2 = false
				for _, name := range B.Support(cnd) {
					ai := a.Atoms[name]
					if ai != nil && ai.Kind == "empty" && len(ai.Vals) > 0 && isCertString(fc, ai.Vals[0], 0, map[ssa.Value]bool{}) && B.Implies(cnd, B.Var(name)) {
						ok2 = true
					}
				}
			}
			why := "the cleartext assertion is emitted under " + a.canon(cnd)
			r.Check(ok2, rule, cons, p.InstrPos(st), "guard err == os.ErrNotExist", why)
		} else {
			cons := p.FnName(mk) + ": ciphertext emitted only when a certificate was selected"
			r.Check(B.HasVar(nilA) && B.Implies(cnd, B.Var(nilA)), rule, cons, p.InstrPos(st), "guard err == nil", "the encrypted branch runs although the selector failed")
		}
	})
	// any other selector error is a reject
	if inlineSel {
		rej := fc.RejectFormula()
		for _, c := range certCalls {
			nm := "isnil(" + fc.AP(c) + "#1)"
			okR := B.HasVar(nm) && B.Implies(B.And(B.Not(B.Var(nm)), fc.Cond(c.Block())), rej)
			r.Check(okR, rule, p.FnName(mk)+": a selector error other than ErrNotExist is reported", p.InstrPos(c), "err != nil => reject",
				"a certificate error (undecodable or unparsable certificate) does not stop the response")
		}
		if len(certCalls) == 0 {
			r.Bad(rule, p.FnName(mk)+": selector error handling", p.Pos(mk.Pos()), "no certificate is parsed")
		}
	} else if B.HasVar(nilA) && notExistA != "" {
		rej := fc.RejectFormula()
		other := B.And(B.Not(B.Var(nilA)), B.Not(B.Var(notExistA)))
		other = B.And(other, fc.Cond(selCall.Block()))
		r.Check(B.Implies(B.And(other, reachedAfter(fc, selCall)), rej), rule, p.FnName(mk)+": a selector error other than ErrNotExist is reported", p.InstrPos(selCall), "err != nil && err != ErrNotExist => reject",
			"a certificate error (undecodable or unparsable certificate) does not stop the response: "+firstCube(B, B.And(other, B.Not(rej))))
	} else {
		r.Bad(rule, p.FnName(mk)+": selector error handling", p.InstrPos(selCall), "the selector's error is not compared with nil and os.ErrNotExist")
	}

	// the selector itself
	a2 := NewAnalysis(p)
	B2 := a2.B
	fs := a2.Ctx(sel)
	fs.ensureConds()
	r.Fn(p.FnName(sel))
	for _, ret := range fs.Returns() {
		if inlineSel {
			break
		}
		var ev ssa.Value
		if ei, okE := errComponent(sel); okE {
			if rc := retComponent(ret, ei); rc != nil {
				ev = Resolve(rc)
			}
		}
		if ev == nil {
			continue
		}
		ld, ok := ev.(*ssa.UnOp)
		if !ok {
			continue
		}
		g, ok := ld.X.(*ssa.Global)
		if !ok || g.Name() != "ErrNotExist" {
			continue
		}
		// must be under "no certificate string was found": empty(<the accumulated cert string>)
		okE := false
		if os.Getenv("SAMLVERIF_DEBUG") != "" {
			fmt.Printf("DEBUG c08 errnotexist cond support: %v\n", B2.Support(fs.Cond(ret.Block())))
		}
		for _, name := range B2.Support(fs.Cond(ret.Block())) {
			ai := a2.Atoms[name]
			if ai != nil && ai.Kind == "empty" && (strings.HasPrefix(ai.Args[0], "phi#") || strings.HasPrefix(ai.Args[0], "firstSet(")) && fs.Implied(ret.Block(), B2.Var(name)) {
				okE = true
			}
		}
		// ... or under "the descriptor publishes no key descriptor at all" (an early return before the scan)
		if !okE {
			for _, name := range B2.Support(fs.Cond(ret.Block())) {
				ai := a2.Atoms[name]
				if ai == nil || !fs.Implied(ret.Block(), B2.Var(name)) {
					continue
				}
				j := strings.Join(ai.Args, " ")
				if (ai.Kind == "eq" && strings.Contains(j, "c:0") && strings.Contains(j, "len(") || ai.Kind == "empty") && strings.Contains(j, "KeyDescriptors") && !strings.Contains(j, "KeyDescriptors[") {
					okE = true
				}
			}
		}
		// ... or, when the search is made by helpers that hand back (certificate, found): the return is reached only when
		// no call of such a helper found one (its condition contradicts the condition of every "found" return)
		if !okE {
			nFound := 0
			contradictsAll := true
			for _, b := range sel.Blocks {
				for _, in := range b.Instrs {
					c, ok := in.(*ssa.Call)
					if !ok || c.Call.StaticCallee() == nil {
						continue
					}
					h := c.Call.StaticCallee()
					res := h.Signature.Results()
					if !p.InLibrary(h) || len(h.Blocks) == 0 || res.Len() != 2 || !isStringType(res.At(0).Type()) || !isBoolType(res.At(1).Type()) {
						continue
					}
					sub := fs.inlineCtx(h, c.Call.Args, c)
					sub.ensureConds()
					for _, hr := range sub.Returns() {
						if k, isC := hr.Results[1].(*ssa.Const); isC && k.Value != nil && k.Value.ExactString() == "true" {
							nFound++
							if B2.And(fs.Cond(ret.Block()), sub.AbsCond(hr.Block())) != B2.False {
								contradictsAll = false
							}
						}
					}
				}
			}
			okE = nFound > 0 && contradictsAll
		}
		r.Check(okE, rule, p.FnName(sel)+": ErrNotExist only when no certificate string was found", p.InstrPos(ret), "under certStr == \"\"", "os.ErrNotExist is returned on a path that is not 'no certificate found' (for instance on a decode/parse failure): the caller then sends the assertion in clear")
		// ... and that return is not reachable after a decode/parse call
		for _, name := range B2.Support(fs.Cond(ret.Block())) {
			if strings.Contains(name, "DecodeString#") || strings.Contains(name, "ParseCertificate#") {
				r.Bad(rule, p.FnName(sel)+": ErrNotExist after a certificate error", p.InstrPos(ret), "os.ErrNotExist is returned on a path that depends on "+name)
			}
		}
	}
	// skip conditions of descriptors: the assignments of the certificate string are guarded only by the use
	// attribute and the presence of certificate data
	n := 0
	judge := func(fn *ssa.Function, fcx *FuncCtx, ap string, at *ssa.BasicBlock) {
		n++
		cnd := fcx.AbsCond(at)
		// what was already decided when the scan started is not a condition of the scan
		base := B2.True
		if hs := loopHeadersOf(at); len(hs) > 0 && inlineSel {
			outer := hs[0]
			for _, h := range hs {
				if underLoop(h, outer) && h != outer {
					continue
				}
				if underLoop(outer, h) || h.Index < outer.Index {
					outer = h
				}
			}
			base = fcx.Cond(outer)
		}
		var extra []string
		for _, name := range B2.Support(cnd) {
			ai := a2.Atoms[name]
			if ai == nil {
				continue
			}
			if base != B2.True && (B2.Implies(base, B2.Var(name)) || B2.Implies(base, B2.Not(B2.Var(name)))) {
				continue
			}
			j := strings.Join(ai.Args, " ")
			if strings.Contains(j, ".Use") || strings.Contains(j, "X509Certificates") || strings.HasPrefix(ai.Args[0], "phi#") || strings.HasPrefix(ai.Args[0], "p:") && fn != sel {
				continue
			}
			// "nothing chosen so far" (the result of an earlier scan is empty) is the fallback's own condition
			if ai.Kind == "empty" && len(ai.Vals) > 0 && isCertString(fs, ai.Vals[0], 0, map[ssa.Value]bool{}) {
				continue
			}
			// "the list of key descriptors is not empty" (an early return for an SP that publishes no key at all): a
			// descriptor that is scanned comes from a non-empty list anyway
			if strings.Contains(j, "KeyDescriptors") && !strings.Contains(j, "KeyDescriptors[") && (ai.Kind == "empty" || ai.Kind == "eq" && strings.Contains(j, "len(") && strings.Contains(j, "c:0")) && B2.Implies(cnd, B2.Not(B2.Var(name))) {
				continue
			}
			extra = append(extra, name)
		}
		cons := fmt.Sprintf("%s: certificate taken from a key descriptor [%s]", p.FnName(fn), ap)
		r.Check(len(extra) == 0, rule, cons, p.InstrPos(at.Instrs[len(at.Instrs)-1]), "guarded only by use and certificate presence", "a descriptor that carries an encryption certificate can be skipped depending on "+strings.Join(extra, ", ")+": the response then silently falls back to cleartext")
		// ... and it is taken only when it is not empty (an empty certificate must never become, or replace, the choice:
		// a later descriptor with a usable certificate would be lost and the response would fall back to cleartext), from
		// a descriptor whose use is "encryption" or unspecified
		impliedLit := func(lit string, positive bool) bool {
			for _, name := range B2.Support(cnd) {
				ai := a2.Atoms[name]
				if ai == nil {
					continue
				}
				if name == lit {
					if positive && B2.Implies(cnd, B2.Var(name)) || !positive && B2.Implies(cnd, B2.Not(B2.Var(name))) {
						return true
					}
				}
				// the same literal inside the condition of a search over the descriptors ("some descriptor satisfies ...")
				if ai.Kind == "exists" && B2.Implies(cnd, B2.Var(name)) {
					want := lit
					if !positive {
						want = "!" + lit
					}
					for _, part := range strings.Split(strings.TrimSuffix(strings.TrimPrefix(name, "exists{"), "}"), " & ") {
						if part == want {
							return true
						}
					}
				}
			}
			return false
		}
		nonEmpty := impliedLit("empty("+ap+")", false)
		c2 := fmt.Sprintf("%s: an empty certificate is never chosen [%s]", p.FnName(fn), ap)
		r.Check(nonEmpty, rule, c2, p.InstrPos(at.Instrs[len(at.Instrs)-1]), "taken under Data != \"\"", "the certificate string is taken without checking that it is not empty: an empty <X509Certificate> in one descriptor hides a usable certificate in a later one, the selector reports 'no encryption key' and the assertion leaves in clear")
		useAP := strings.TrimSuffix(ap, ".KeyInfo.X509Data.X509Certificates[0].Data") + ".Use"
		if i := strings.Index(ap, ".KeyInfo."); i >= 0 {
			useAP = ap[:i] + ".Use"
		}
		okUse := impliedLit("empty("+useAP+")", true)
		for _, name := range B2.Support(cnd) {
			ai := a2.Atoms[name]
			if ai != nil && ai.Kind == "eq" && strings.Contains(name, useAP) && strings.Contains(name, `c:"encryption"`) && impliedLit(name, true) {
				okUse = true
			}
			if ai != nil && ai.Kind == "exists" && B2.Implies(cnd, B2.Var(name)) && strings.Contains(name, useAP) && strings.Contains(name, `c:"encryption"`) && !strings.Contains(name, "!eq(") {
				okUse = true
			}
		}
		c3 := fmt.Sprintf("%s: certificate taken only from an encryption or unspecified-use descriptor [%s]", p.FnName(fn), ap)
		r.Check(okUse, rule, c3, p.InstrPos(at.Instrs[len(at.Instrs)-1]), "under use == \"encryption\" or use == \"\"", "a certificate is taken from a descriptor whatever its use: a signing-only key becomes the encryption key (for an SP whose signing key cannot decrypt, the response fails or is unreadable)")
	}
	type scanUnit struct {
		fn  *ssa.Function
		fcx *FuncCtx
	}
	scan := []scanUnit{{sel, a2.Ctx(sel)}}
	// a helper that scans on the selector's behalf is read at each of its call sites (a predicate it is handed is then the
	// literal the selector passes)
	helperSet := map[*ssa.Function]bool{}
	for _, h := range stringHelpersOf(p, sel) {
		helperSet[h] = true
	}
	fs.ensureConds()
	for _, b := range sel.Blocks {
		for _, in := range b.Instrs {
			if c, ok := in.(*ssa.Call); ok && c.Call.StaticCallee() != nil && helperSet[c.Call.StaticCallee()] {
				scan = append(scan, scanUnit{c.Call.StaticCallee(), fs.inlineCtx(c.Call.StaticCallee(), c.Call.Args, c)})
			}
		}
	}
	for _, su := range scan {
		fn, fcx := su.fn, su.fcx
		fcx.ensureConds()
		r.Fn(p.FnName(fn))
		for _, b := range fn.Blocks {
			for _, in := range b.Instrs {
				switch x := in.(type) {
				case *ssa.Phi:
					if !isStringType(x.Type()) {
						continue
					}
					for i, e := range x.Edges {
						if ap := fcx.AP(e); strings.Contains(ap, "X509Certificates") {
							judge(fn, fcx, ap, x.Block().Preds[i])
						}
					}
				case *ssa.Return:
					if fn != sel && (len(x.Results) == 1 || len(x.Results) == 2 && isBoolType(x.Results[1].Type())) {
						if _, isPhi := x.Results[0].(*ssa.Phi); !isPhi {
							if ap := fcx.AP(x.Results[0]); strings.Contains(ap, "X509Certificates") {
								judge(fn, fcx, ap, b)
							}
						}
					}
				}
			}
		}
		// a scan over the key descriptors is abandoned only with a certificate in hand: no exit from the loop body
		// (return or break) delivers the empty string or leaves the running choice unchanged
		for _, b := range fn.Blocks {
			hs := loopHeadersOf(b)
			if len(hs) == 0 {
				continue
			}
			overDescriptors := false
			for _, h := range hs {
				for _, in := range h.Instrs {
					if bo, ok := in.(*ssa.BinOp); ok && bo.Op == token.LSS {
						if la := lenArg(bo.Y); la != nil && strings.Contains(fcx.AP(la), "KeyDescriptors") {
							overDescriptors = true
						}
					}
				}
			}
			if !overDescriptors {
				continue
			}
			// a break: an edge from a block of the loop body to a block outside the loop. What it delivers is the string the
			// target returns, or the edge's operand of the string phi that merges there
			for _, h := range hs {
				if b == h {
					continue
				}
				for _, sx := range b.Succs {
					if underLoop(h, sx) || sx == h {
						continue
					}
					empty := false
					if rt, ok := sx.Instrs[len(sx.Instrs)-1].(*ssa.Return); ok && len(rt.Results) >= 1 && isStringType(rt.Results[0].Type()) && isEmptyStringConst(rt.Results[0]) {
						empty = true
					}
					for _, in2 := range sx.Instrs {
						ph, isPhi := in2.(*ssa.Phi)
						if !isPhi {
							break
						}
						if !isStringType(ph.Type()) {
							continue
						}
						for i, pb := range sx.Preds {
							if pb == b && isEmptyStringConst(ph.Edges[i]) {
								empty = true
							}
						}
					}
					if empty {
						r.Bad(rule, fmt.Sprintf("%s: the scan over the key descriptors ends only with a certificate or at the last descriptor", p.FnName(fn)), p.InstrPos(b.Instrs[len(b.Instrs)-1]), "the loop is left by a break that delivers \"\": the first descriptor of the wanted use that carries no certificate ends the search, later descriptors with a certificate are never looked at, and the response falls back to cleartext")
					}
				}
			}
			if rt, ok := b.Instrs[len(b.Instrs)-1].(*ssa.Return); ok && fn != sel && len(rt.Results) >= 1 && isEmptyStringConst(rt.Results[0]) {
				r.Bad(rule, fmt.Sprintf("%s: the scan over the key descriptors ends only with a certificate or at the last descriptor", p.FnName(fn)), p.InstrPos(rt), "the function returns \"\" from inside the loop: the first descriptor of the wanted use that carries no certificate ends the search, later descriptors with a certificate are never looked at, and the response falls back to cleartext")
			}
		}
	}
	if n == 0 {
		r.Undecided(rule, p.FnName(sel)+": certificate string assignments", p.Pos(sel.Pos()), "no assignment from X509Certificates found")
	}
	// priority: a certificate of a descriptor with unspecified use is taken only after the scan for use="encryption"
	// descriptors is complete. Structurally: an encryption-use assignment and an unspecified-use assignment never merge
	// inside a loop that contains both (two loops, or one loop that keeps the fallback in a separate variable until it ends).
	type certLeaf struct {
		phi   *ssa.Phi
		edge  int
		class string
		ap    string
	}
	var leaves []certLeaf
	for _, b := range sel.Blocks {
		for _, in := range b.Instrs {
			ph, ok := in.(*ssa.Phi)
			if !ok || !isStringType(ph.Type()) {
				continue
			}
			for i, e := range ph.Edges {
				ap := fs.AP(e)
				if !strings.Contains(ap, "X509Certificates") {
					continue
				}
				cnd := fs.Cond(ph.Block().Preds[i])
				class := "other"
				for _, name := range B2.Support(cnd) {
					ai := a2.Atoms[name]
					if ai == nil || !(ai.Kind == "eq" || ai.Kind == "empty") || !strings.Contains(strings.Join(ai.Args, " "), ".Use") {
						continue
					}
					v := B2.Var(name)
					switch {
					case ai.Kind == "empty" && B2.Implies(cnd, v) && class != "encryption":
						class = "unspecified"
					case strings.Contains(name, `c:"encryption"`) && B2.Implies(cnd, v):
						class = "encryption"
					case strings.Contains(name, `c:""`) && B2.Implies(cnd, v) && class != "encryption":
						class = "unspecified"
					}
				}
				leaves = append(leaves, certLeaf{ph, i, class, ap})
				if os.Getenv("SAMLVERIF_DEBUG") != "" {
					fmt.Printf("DEBUG leaf %s class=%s cond=%s\n", ap, class, B2.String(cnd))
				}
			}
		}
	}
	nPairs := 0
	for _, e := range leaves {
		if e.class != "encryption" {
			continue
		}
		for _, u := range leaves {
			if u.class != "unspecified" {
				continue
			}
			nPairs++
			// the first phi both values flow into
			merge := firstCommonPhi(e.phi, u.phi)
			inLoop := false
			if merge != nil {
				for _, h := range loopHeadersOf(e.phi.Block().Preds[e.edge]) {
					for _, h2 := range loopHeadersOf(u.phi.Block().Preds[u.edge]) {
						if h == h2 && underLoop(h, merge.Block()) {
							inLoop = true
						}
					}
				}
			}
			r.Check(!inLoop, rule, fmt.Sprintf("%s: use=\"encryption\" descriptors take precedence over unspecified use", p.FnName(sel)), p.Pos(sel.Pos()), "the two choices merge only after the scan for encryption descriptors has ended", "an unspecified-use certificate and an encryption-use certificate are chosen in the same pass: an earlier descriptor without use wins over a later use=\"encryption\" one, so the IdP encrypts to a key the SP did not designate for encryption")
		}
	}
	if nPairs == 0 {
		r.Info(rule, p.FnName(sel)+": precedence of encryption-use descriptors", p.Pos(sel.Pos()), "no pair of (encryption, unspecified) certificate choices recognised; nothing to order")
	}
}

// loopHeadersOf: headers of the loops b lies under: b belongs to the natural loop, or is dominated by the loop's body
// entry (a block that leaves the loop by return/break after having been entered from the body still counts as "in" it).
func loopHeadersOf(b *ssa.BasicBlock) []*ssa.BasicBlock {
	var out []*ssa.BasicBlock
	for _, h := range b.Parent().Blocks {
		if underLoop(h, b) {
			out = append(out, h)
		}
	}
	return out
}

func underLoop(h, b *ssa.BasicBlock) bool {
	if inNaturalLoop(h, b) {
		return true
	}
	for _, s := range h.Succs {
		if s != h && inNaturalLoop(h, s) && (s == b || s.Dominates(b)) {
			return true
		}
	}
	return false
}

// inNaturalLoop: h is a loop header (has a back edge) and b belongs to its natural loop.
func inNaturalLoop(h, b *ssa.BasicBlock) bool {
	var latches []*ssa.BasicBlock
	for _, p := range h.Preds {
		if isBackEdge(p, h) {
			latches = append(latches, p)
		}
	}
	if len(latches) == 0 {
		return false
	}
	if b == h {
		return true
	}
	if !h.Dominates(b) {
		return false
	}
	// b reaches a latch without passing through h
	seen := map[*ssa.BasicBlock]bool{h: true}
	var dfs func(x *ssa.BasicBlock) bool
	dfs = func(x *ssa.BasicBlock) bool {
		for _, l := range latches {
			if x == l {
				return true
			}
		}
		if seen[x] {
			return false
		}
		seen[x] = true
		for _, s := range x.Succs {
			if dfs(s) {
				return true
			}
		}
		return false
	}
	return dfs(b)
}

// firstCommonPhi: the first phi (in flow order from a) that both a and b flow into through phi edges; a or b themselves count.
func firstCommonPhi(a, b *ssa.Phi) *ssa.Phi {
	reach := func(start *ssa.Phi) (map[*ssa.Phi]bool, []*ssa.Phi) {
		seen := map[*ssa.Phi]bool{}
		var order []*ssa.Phi
		work := []*ssa.Phi{start}
		for len(work) > 0 {
			x := work[0]
			work = work[1:]
			if seen[x] {
				continue
			}
			seen[x] = true
			order = append(order, x)
			for _, ref := range *x.Referrers() {
				if ph, ok := ref.(*ssa.Phi); ok {
					work = append(work, ph)
				}
			}
		}
		return seen, order
	}
	sb, _ := reach(b)
	_, oa := reach(a)
	for _, x := range oa {
		if sb[x] {
			return x
		}
	}
	return nil
}

// reachedAfter: True (placeholder for readability: the call's own block condition is already conjoined).
func reachedAfter(fc *FuncCtx, c *ssa.Call) *bddNode { return fc.A.B.True }

func checkOnlyCiphertext(r *Report, p *Prog) {
	rule := "C08.only-ciphertext"
	mk := p.MustFunc("saml", "IdpAuthnRequest", "MakeAssertionEl")
	rg := NewRegion(p, mk, 2) // the sign/encrypt function with the helpers it is split into
	// readers of IdpAuthnRequest.Assertion
	n := 0
	for _, fn := range p.modFns {
		if !p.InLibrary(fn) {
			continue
		}
		for _, b := range fn.Blocks {
			for _, in := range b.Instrs {
				fa, ok := in.(*ssa.FieldAddr)
				if !ok || !typeIs(fa.X.Type(), modPath, "IdpAuthnRequest") || fieldName(fa.X.Type(), fa.Field) != "Assertion" {
					continue
				}
				reads := false
				for _, rf := range *fa.Referrers() {
					if _, ok := rf.(*ssa.UnOp); ok {
						reads = true
					}
				}
				if !reads {
					continue
				}
				n++
				r.Check(rg.in[fn], rule, fmt.Sprintf("%s: reads the cleartext assertion object", p.FnName(fn)), p.InstrPos(in), "the sign/encrypt function", "the cleartext assertion is read outside the function that signs and encrypts it (it could be serialised into the response in clear)")
			}
		}
	}
	if n == 0 {
		r.Undecided(rule, "readers of IdpAuthnRequest.Assertion", "-", "none found")
	}
	// the EncryptedAssertion element has exactly one child: the Encrypt result over the signed tree
	{
		elems := rg.Calls("(*" + modPath + ".Assertion).Element")
		rg.Each(func(x RI) {
			st, ok := x.I.(*ssa.Store)
			if !ok {
				return
			}
			fa, ok := st.Addr.(*ssa.FieldAddr)
			if !ok || fieldName(fa.X.Type(), fa.Field) != "AssertionEl" || !typeIs(fa.X.Type(), modPath, "IdpAuthnRequest") {
				return
			}
			for _, e := range elems {
				if rg.IsFrom(RV{V: st.Val, C: x.C}, e) {
					return // the signed tree itself (unencrypted branch)
				}
			}
			okE, why := false, "no rebuilt signed tree found"
			// the signed tree: a build of the assertion (that it is the one after the Signature was stored is C06.signed)
			for _, e := range elems {
				if ok2, w2 := encryptedFrom(rg, RV{V: st.Val, C: x.C}, e); ok2 {
					okE, why = true, ""
				} else if why == "no rebuilt signed tree found" {
					why = w2
				}
			}
			r.Check(okE, rule, p.FnName(mk)+": the EncryptedAssertion holds only the ciphertext of the signed tree", p.InstrPos(st), "one child: Encrypt(cert, bytes of the signed tree)", why)
		})
	}
	mr := p.MustFunc("saml", "IdpAuthnRequest", "MakeResponse")
	lf := litFields(mr, modPath, "Response")
	for _, f := range []string{"Assertion", "EncryptedAssertion"} {
		r.Check(len(lf[f]) == 0, rule, fmt.Sprintf("%s: Response.%s left unset", p.FnName(mr), f), p.Pos(mr.Pos()), "only req.AssertionEl is added to the tree", "the response object carries the assertion a second time through its own "+f+" field")
	}
	// exactly what is added to the response tree
	a := NewAnalysis(p)
	fc := a.Ctx(mr)
	for _, c := range methodCallsOn(mr, "(*"+etreePath+".Element).AddChild") {
		ap := fc.AP(c.Call.Args[1])
		r.Check(strings.HasSuffix(ap, "IdpAuthnRequest.AssertionEl"), rule, p.FnName(mr)+": child added to the response tree", p.InstrPos(c), ap, "something other than req.AssertionEl is added to the response tree: "+ap)
	}
}

// checkFresh: role-based: every MakeSlice buffer that is used as a key/IV/nonce.
func checkFresh(r *Report, p *Prog, rule string) {
	n := 0
	for _, fn := range p.modFns {
		if !p.InLibrary(fn) || !inPkg(fn, modPath+"/xmlenc") {
			continue
		}
		a := NewAnalysis(p)
		_ = a.B
		fc := a.Ctx(fn)
		for _, b := range fn.Blocks {
			for _, in := range b.Instrs {
				c, ok := in.(*ssa.Call)
				if !ok {
					continue
				}
				var buf ssa.Value
				what, size := "", ""
				switch {
				case calleeIs(c, "crypto/cipher.NewCBCEncrypter"):
					buf, what, size = c.Call.Args[1], "CBC IV", fc.AP(c.Call.Args[0])+".BlockSize()"
				case c.Call.IsInvoke() && c.Call.Method.Name() == "Encrypt" && typeIs(c.Call.Value.Type(), modPath+"/xmlenc", "BlockCipher"):
					if mi, ok := c.Call.Args[0].(*ssa.MakeInterface); ok {
						buf, what, size = mi.X, "content-encryption key", fc.AP(c.Call.Value)+".KeySize()"
					}
				}
				if buf == nil {
					continue
				}
				n++
				fc.ensureConds()
				r.Fn(p.FnName(fn))
				cons := fmt.Sprintf("%s: %s is fresh random data", p.FnName(fn), what)
				got, why := freshRandom(p, a, fc, buf, c, b, 0)
				switch {
				case why != "":
					r.Bad(rule, cons, p.InstrPos(in), why)
				case got != size:
					r.Bad(rule, cons, p.InstrPos(in), fmt.Sprintf("buffer length is %s, expected %s", got, size))
				default:
					r.OK(rule, cons, p.InstrPos(in), "make(size) filled by io.ReadFull(RandReader, buf), error checked before use")
				}
			}
		}
	}
	if n < 2 {
		r.Undecided(rule, "key/IV buffers", "-", fmt.Sprintf("found %d, expected the CBC IV and the RSA key-transport content key", n))
	}
}

// freshRandom: buf, used by call `use` in block ub of fc.Fn, is a freshly allocated buffer completely filled from
// xmlenc.RandReader by io.ReadFull with the read error checked before the use, and written by nothing else. Accepted
// forms: make([]byte, n); a prefix x[:n] of a fresh make whose other writers only touch x[n:]; the result of a module
// helper that returns such a buffer of its size parameter (used under the helper's nil error). Returns the access path
// of the length and "" / a reason.
func freshRandom(p *Prog, a *Analysis, fc *FuncCtx, buf ssa.Value, use *ssa.Call, ub *ssa.BasicBlock, depth int) (string, string) {
	B := a.B
	fc.ensureConds()
	checkFill := func(region ssa.Value, ms *ssa.MakeSlice) (string, *ssa.Call) {
		// writers of the allocation
		var fill *ssa.Call
		bad := ""
		var scan func(v ssa.Value, isRegion bool, d int)
		scan = func(v ssa.Value, isRegion bool, d int) {
			if v.Referrers() == nil || d > 3 {
				return
			}
			for _, rf := range *v.Referrers() {
				switch y := rf.(type) {
				case *ssa.Call:
					if y == use {
						continue
					}
					if calleeIs(y, "io.ReadFull") && y.Call.Args[1] == v {
						if !isRegion {
							continue // fills some other part of the allocation
						}
						if strings.HasSuffix(fc.AP(y.Call.Args[0]), "xmlenc.RandReader") {
							fill = y
						} else {
							bad = "filled from " + fc.AP(y.Call.Args[0])
						}
						continue
					}
					// a helper (also a local function literal) that does nothing with the buffer but that fill and hands the
					// error back: fillRandom := func(buf []byte) error { _, err := io.ReadFull(RandReader, buf); return err }
					if isRegion && randomFillHelper(fc, y, v) {
						fill = y
						continue
					}
					if bi, ok := y.Call.Value.(*ssa.Builtin); ok {
						if bi.Name() == "copy" && y.Call.Args[0] == v && (isRegion || v == ssa.Value(ms)) {
							bad = "overwritten by copy()"
						}
						continue
					}
					cn := calleeName(&y.Call)
					if isRegion && (strings.HasSuffix(cn, ".Read") || strings.HasSuffix(cn, "ReadAtLeast") || strings.HasSuffix(cn, "rand.Read")) {
						bad = "filled by " + cn + " (a read that may return fewer bytes than the buffer holds, or a source other than RandReader)"
					}
					// any other call only reads the buffer (key wrapping, cipher construction), or writes a disjoint part
				case *ssa.Slice:
					// same window as the region: another name for it; a window starting where the region ends: disjoint
					same := fc.AP(y) == fc.AP(region)
					scan(y, same, d+1)
				case *ssa.MakeInterface, *ssa.DebugRef:
				case *ssa.IndexAddr:
					if isRegion || v == ssa.Value(ms) {
						bad = "written element-wise"
					}
				}
			}
		}
		scan(ms, region == ssa.Value(ms), 0)
		if bad == "" && fill == nil {
			bad = "never filled from the random source"
		}
		return bad, fill
	}
	switch x := buf.(type) {
	case *ssa.MakeSlice:
		bad, fill := checkFill(x, x)
		if bad != "" {
			return "", "the buffer is " + bad
		}
		if !fillSucceeded(fc, fill, ub) {
			return "", "the buffer is used although reading the random source may have failed"
		}
		return fc.AP(x.Len), ""
	case *ssa.Slice:
		ms, ok := x.X.(*ssa.MakeSlice)
		if !ok || x.Low != nil || x.High == nil {
			return "", "the buffer is not a freshly allocated buffer (or a prefix of one): " + fc.AP(buf)
		}
		bad, fill := checkFill(x, ms)
		if bad != "" {
			return "", "the buffer is " + bad
		}
		if !fillSucceeded(fc, fill, ub) {
			return "", "the buffer is used although reading the random source may have failed"
		}
		return fc.AP(x.High), ""
	case *ssa.Extract:
		call, ok := x.Tuple.(*ssa.Call)
		if !ok || x.Index != 0 || depth > 1 {
			break
		}
		sc := call.Call.StaticCallee()
		if sc == nil || !p.InModule(sc) || len(sc.Blocks) == 0 || errIndex(sc) != 1 {
			break
		}
		// the helper: every success return hands back a buffer that is fresh and random in the helper itself
		hfc := a.Ctx(sc)
		hfc.ensureConds()
		size := ""
		n := 0
		for _, ret := range hfc.Returns() {
			if !isNilConst(Resolve(ret.Results[1])) {
				continue
			}
			n++
			got, why := freshRandom(p, a, hfc, Resolve(ret.Results[0]), nil, ret.Block(), depth+1)
			if why != "" {
				return "", "through " + shortFn(sc) + ": " + why
			}
			// the helper's size must be one of its parameters: bind it to the argument
			for i, prm := range sc.Params {
				if hfc.AP(prm) == got && i < len(call.Call.Args) {
					got = fc.AP(call.Call.Args[i])
				}
			}
			if size != "" && size != got {
				return "", "through " + shortFn(sc) + ": returns buffers of different sizes"
			}
			size = got
		}
		if n == 0 {
			break
		}
		nm := "isnil(" + fc.AP(call) + "#1)"
		if !(B.HasVar(nm) && fc.Implied(ub, B.Var(nm))) {
			return "", "the buffer is used although " + shortFn(sc) + " may have failed"
		}
		return size, ""
	}
	return "", "the buffer is not a freshly allocated buffer filled from the random source: " + fc.AP(buf)
}

func checkSPSameChecks(r *Report, p *Prog, sc *Scope) {
	rule := "C08.sp-same-checks"
	sr := findSigRoles(p)
	var dec *ssa.Function
	for f := range sr.Decrypt {
		dec = f
	}
	if dec == nil {
		panic(unresolved{"role SP decrypt step"})
	}
	a := NewAnalysis(p)
	B := a.B
	fc := a.Ctx(dec)
	fc.ensureConds()
	r.Fn(p.FnName(dec))
	rej := fc.NotAcceptFormula()
	for _, b := range dec.Blocks {
		for _, in := range b.Instrs {
			c, ok := in.(*ssa.Call)
			if !ok {
				continue
			}
			scf := c.Call.StaticCallee()
			if scf == nil {
				continue
			}
			name := scf.String()
			if !(name == modPath+"/xmlenc.Decrypt" || strings.HasSuffix(name, "xml-roundtrip-validator.Validate") || strings.HasSuffix(name, "Document).ReadFromBytes") || sr.Finders[scf]) {
				continue
			}
			ev := errResultValue(c)
			if ev == nil {
				continue
			}
			nm := "isnil(" + fc.AP(ev) + ")"
			fail := B.And(fc.Cond(b), B.Not(B.Var(nm)))
			r.Check(B.HasVar(nm) && B.Implies(fail, rej), rule, fmt.Sprintf("%s: failure of %s is an error", p.FnName(dec), shortFn(scf)), p.InstrPos(in), "err != nil => reject", "the decrypt step continues although "+shortFn(scf)+" failed")
		}
	}
	checkXRV(r, sc, rule, helperRegion(p, dec, 2)) // the step and the unexported helpers it is split into
	// same parser, same context: the function that calls the decrypt step forwards to the assertion parser
	m := &spModel{P: p}
	one := funcsUnmarshallingInto(p, "Assertion")
	for _, f := range one {
		if isMethodOf(f, "ServiceProvider") {
			m.AssertFn = f
		}
	}
	if m.AssertFn == nil {
		panic(unresolved{"role assertion parser"})
	}
	// (a caller that is only a shell around the step - a method kept for its callers that forwards to the function
	// doing the work - is looked through: the callers of the shell are the callers of the step)
	sites := p.StaticCallersOf(dec)
	for round := 0; round < 2; round++ {
		var next []callSite
		for _, cs := range sites {
			if c, isCall := cs.Instr.(*ssa.Call); isCall && handsBackResultsOf(cs.Caller, c) && len(p.StaticCallersOf(cs.Caller)) > 0 {
				next = append(next, p.StaticCallersOf(cs.Caller)...)
			} else {
				next = append(next, cs)
			}
		}
		sites = next
	}
	for _, cs := range sites {
		caller := cs.Caller
		cfc := a.Ctx(caller)
		cfc.ensureConds()
		ok := false
		for _, c2 := range p.StaticCallersOf(m.AssertFn) {
			if c2.Caller != caller {
				continue
			}
			// element argument is the decrypt result under err == nil; other arguments are the caller's own parameters
			args := c2.Instr.Common().Args
			okArgs := true
			for i, ar := range args {
				if i == 0 {
					continue
				}
				if typeIs(ar.Type(), etreePath, "Element") {
					nm := "isnil(" + cfc.AP(cs.Instr.(ssa.Value)) + "#1)"
					if !(derivesFrom(ar, cs.Instr.(ssa.Value), 0) && B.HasVar(nm) && cfc.Implied(c2.Instr.(ssa.Instruction).Block(), B.Var(nm))) {
						okArgs = false
					}
					continue
				}
				if _, isParam := ar.(*ssa.Parameter); !isParam && !isSigReqType(ar.Type()) {
					// (the signature token may be a phi: its provenance is C01.sigtoken's subject)
					okArgs = false
				}
			}
			if okArgs {
				ok = true // (the caller may also hand other, plaintext, elements to the parser)
			}
		}
		r.Check(ok, rule, fmt.Sprintf("%s: decrypted element goes to the common assertion parser with the caller's own context", p.FnName(caller)), p.InstrPos(cs.Instr.(ssa.Instruction)), "parseAssertion(decrypted, ids, now, token) under err == nil", "the decrypted assertion is not handed to the common assertion parser with the caller's request IDs, time and signature token")
	}
}

// stringHelpersOf: library functions returning a single string that fn calls directly (a selection loop factored out).
func stringHelpersOf(p *Prog, fn *ssa.Function) []*ssa.Function {
	var out []*ssa.Function
	seen := map[*ssa.Function]bool{}
	for _, b := range fn.Blocks {
		for _, in := range b.Instrs {
			c, ok := in.(*ssa.Call)
			if !ok || c.Call.StaticCallee() == nil {
				continue
			}
			h := c.Call.StaticCallee()
			// (a helper that hands back the certificate string, alone or with a "found" flag)
			res := h.Signature.Results()
			okSig := res.Len() == 1 && isStringType(res.At(0).Type()) || res.Len() == 2 && isStringType(res.At(0).Type()) && isBoolType(res.At(1).Type())
			if seen[h] || !p.InLibrary(h) || len(h.Blocks) == 0 || !okSig {
				continue
			}
			seen[h] = true
			out = append(out, h)
		}
	}
	return out
}

// checkAssertionCipher: C08.cipher. "Recoverable with the SP's private key": the block cipher the IdP encrypts assertions
// with is one whose Encrypt/Decrypt pair agrees on this tree. The framing and flow obligations of C10 are evaluated on a
// scratch report; a cipher type for which any of them fails (including the recorded known findings: GCM.Encrypt seals a
// zero buffer and prepends no nonce) must not be referenced from the root package, where the IdP chooses its cipher.
func checkAssertionCipher(r *Report, p *Prog, rule string) {
	scratch := NewReport("C10", r.Tier, p, nil)
	safely(scratch, func() { checkC10Framing(scratch, p) })
	badKind := map[string]string{}
	for _, o := range scratch.Obls {
		if o.Verdict != "violated" && o.Verdict != "undecided" {
			continue
		}
		for _, k := range []string{"CBC", "GCM"} {
			if strings.Contains(o.Construct, "xmlenc."+k) {
				badKind[k] = firstNonEmpty(badKind[k], o.Rule+": "+o.Construct)
			}
		}
	}
	kindOf := map[string]string{} // exported xmlenc cipher variable -> type name
	for _, a := range exportedAlgorithms(p) {
		if a.Kind == "CBC" || a.Kind == "GCM" {
			kindOf[a.Name] = a.Kind
		}
	}
	// variables exportedAlgorithms could not read (built from a table): the dynamic type stored by the initialiser
	if xp := p.SPkg[xmlencPath]; xp != nil {
		typeKind := func(t types.Type) string {
			if pt, ok := t.(*types.Pointer); ok {
				t = pt.Elem()
			}
			if nm, ok := t.(*types.Named); ok && nm.Obj().Pkg() != nil && nm.Obj().Pkg().Path() == xmlencPath && (nm.Obj().Name() == "CBC" || nm.Obj().Name() == "GCM") {
				return nm.Obj().Name()
			}
			return ""
		}
		for name, m := range xp.Members {
			g, ok := m.(*ssa.Global)
			if !ok || g.Object() == nil || !g.Object().Exported() || kindOf[name] != "" {
				continue
			}
			if k := typeKind(g.Type().(*types.Pointer).Elem()); k != "" {
				kindOf[name] = k
				continue
			}
			if initFn := xp.Func("init"); initFn != nil {
				for _, b := range initFn.Blocks {
					for _, in := range b.Instrs {
						if st, ok := in.(*ssa.Store); ok && st.Addr == ssa.Value(g) {
							if mi, ok := st.Val.(*ssa.MakeInterface); ok {
								if k := typeKind(mi.X.Type()); k != "" {
									kindOf[name] = k
								}
							}
						}
					}
				}
			}
		}
	}
	n := 0
	use := ""
	scan := func(fn *ssa.Function) {
		for _, b := range fn.Blocks {
			for _, in := range b.Instrs {
				for _, op := range in.Operands(nil) {
					if op == nil || *op == nil {
						continue
					}
					g, ok := (*op).(*ssa.Global)
					if !ok || g.Pkg == nil || g.Pkg.Pkg.Path() != xmlencPath {
						continue
					}
					k, isCipher := kindOf[g.Name()]
					if !isCipher {
						continue
					}
					if nameOnlyUse(in) {
						continue // xmlenc.X.Algorithm(): the identifier, not the cipher
					}
					n++
					if why, bad := badKind[k]; bad {
						use = firstNonEmpty(use, fmt.Sprintf("xmlenc.%s (a %s) is referenced at %s, and %s fails on this tree", g.Name(), k, p.InstrPos(in), why))
					}
				}
			}
		}
	}
	for _, fn := range p.modFns {
		if p.InLibrary(fn) && fn.Pkg != nil && fn.Pkg.Pkg.Path() == modPath {
			scan(fn)
		}
	}
	if pk := p.SPkg[modPath]; pk != nil {
		if initFn := pk.Func("init"); initFn != nil {
			scan(initFn)
		}
	}
	r.Check(n > 0 && use == "", rule, "the IdP encrypts assertions only with ciphers whose Encrypt and Decrypt agree", "-", fmt.Sprintf("%d references to xmlenc block ciphers in the root package, all to sound ones", n), "the IdP can select a block cipher whose encrypter does not produce what its decrypter reads: "+use+" — the SP cannot recover such an assertion")
}

// nameOnlyUse: the instruction loads a cipher variable only to ask for its Algorithm() or KeySize().
func nameOnlyUse(in ssa.Instruction) bool {
	v, ok := in.(ssa.Value)
	if !ok || v.Referrers() == nil || len(*v.Referrers()) == 0 {
		return false
	}
	for _, ref := range *v.Referrers() {
		c, ok := ref.(ssa.CallInstruction)
		if !ok {
			return false
		}
		com := c.Common()
		name := ""
		if com.IsInvoke() {
			if com.Value != v {
				return false
			}
			name = com.Method.Name()
		} else if f := com.StaticCallee(); f != nil && len(com.Args) > 0 && com.Args[0] == v && f.Signature.Recv() != nil {
			name = f.Name()
			for _, a := range com.Args[1:] {
				if a == v {
					return false
				}
			}
		} else {
			return false
		}
		if name != "Algorithm" && name != "KeySize" {
			return false
		}
	}
	return true
}

// fillSucceeded: block ub is reached only when the fill reported no error (the error result of io.ReadFull, or the only
// result of a fill helper, read through the helper).
func fillSucceeded(fc *FuncCtx, fill *ssa.Call, ub *ssa.BasicBlock) bool {
	B := fc.A.B
	if fill.Call.Signature().Results().Len() == 1 {
		return fc.Implied(ub, B.Not(fc.NonNil(fill)))
	}
	nm := "isnil(" + fc.AP(fill) + "#1)"
	return B.HasVar(nm) && fc.Implied(ub, B.Var(nm))
}

// randomFillHelper: call hands buf to an unexported module function or local function literal whose body fills that
// parameter with io.ReadFull from the package's RandReader, uses it for nothing else, and returns that call's error.
func randomFillHelper(fc *FuncCtx, call *ssa.Call, buf ssa.Value) bool {
	sc := call.Call.StaticCallee()
	if sc == nil || len(sc.Blocks) == 0 || !fc.A.P.InLibrary(sc) || (sc.Object() != nil && sc.Object().Exported()) {
		return false
	}
	res := sc.Signature.Results()
	if res.Len() != 1 || types.TypeString(res.At(0).Type(), nil) != "error" {
		return false
	}
	k := -1
	for i, a := range call.Call.Args {
		if a == buf {
			k = i
		}
	}
	// (a function literal is called with its own parameters only: the captured variables are not arguments)
	if k < 0 || k >= len(sc.Params) {
		return false
	}
	prm := sc.Params[k]
	if prm.Referrers() == nil {
		return false
	}
	var fill *ssa.Call
	for _, rf := range *prm.Referrers() {
		switch y := rf.(type) {
		case *ssa.DebugRef:
		case *ssa.Call:
			if !calleeIs(y, "io.ReadFull") || y.Call.Args[1] != ssa.Value(prm) || fill != nil {
				return false
			}
			fill = y
		default:
			return false
		}
	}
	if fill == nil {
		return false
	}
	sub := fc.A.Ctx(sc)
	if !strings.HasSuffix(sub.AP(outOfLiteral(fill.Call.Args[0])), "RandReader") && !strings.HasSuffix(sub.AP(fill.Call.Args[0]), "RandReader") {
		return false
	}
	ret := singleReturn(sc)
	if ret == nil {
		return false
	}
	ex, ok := Resolve(ret.Results[0]).(*ssa.Extract)
	return ok && ex.Tuple == ssa.Value(fill) && ex.Index == 1
}

// checkTheCertificate: see C08.the-certificate.
func checkTheCertificate(r *Report, p *Prog, sel *ssa.Function, rule string) {
	isCert := func(t types.Type) bool { return typeIs(t, "crypto/x509", "Certificate") }
	type cand struct {
		v  ssa.Value
		at string
	}
	var cands []cand
	for _, fn := range helperRegion(p, sel, 3) {
		for _, b := range fn.Blocks {
			for _, in := range b.Instrs {
				switch x := in.(type) {
				case *ssa.Return:
					if fn != sel {
						continue // a helper's returns are followed from the selector's values
					}
					for _, v := range x.Results {
						if isCert(v.Type()) {
							cands = append(cands, cand{v, p.InstrPos(in)})
						}
					}
				case *ssa.Store:
					if fa, ok := x.Addr.(*ssa.FieldAddr); ok && isCert(x.Val.Type()) && unexportedStruct(derefType(fa.X.Type())) != nil {
						cands = append(cands, cand{x.Val, p.InstrPos(in)})
					}
				case ssa.CallInstruction:
					// the selection written out in the emitting function: the certificate handed to the encrypter
					if sc := x.Common().StaticCallee(); sc != nil && !strings.HasPrefix(sc.String(), "crypto/x509.") && (!p.InModule(sc) || sc.Pkg != fn.Pkg) {
						for _, a := range x.Common().Args {
							if mi, ok := a.(*ssa.MakeInterface); ok {
								a = mi.X
							}
							if isCert(a.Type()) {
								cands = append(cands, cand{a, p.InstrPos(in)})
							}
						}
					}
				}
			}
		}
	}
	n := 0
	for _, c := range cands {
		bad := ""
		seen := map[ssa.Value]bool{}
		var walk func(v ssa.Value, depth int)
		walk = func(v ssa.Value, depth int) {
			if v == nil || seen[v] || bad != "" {
				return
			}
			seen[v] = true
			if depth > 4 {
				bad = "too deep to follow"
				return
			}
			switch x := v.(type) {
			case *ssa.Const:
				return
			case *ssa.Phi:
				for _, e := range x.Edges {
					walk(e, depth)
				}
			case *ssa.UnOp:
				if al, ok := x.X.(*ssa.Alloc); ok && x.Op == token.MUL {
					for _, rf := range *al.Referrers() {
						if st, ok := rf.(*ssa.Store); ok && st.Addr == ssa.Value(al) {
							walk(st.Val, depth)
						}
					}
					return
				}
				if fa, ok := x.X.(*ssa.FieldAddr); ok && x.Op == token.MUL && unexportedStruct(derefType(fa.X.Type())) != nil {
					return // a result struct's field: its stores are candidates themselves
				}
				bad = "loaded from " + x.X.String() + " (" + x.X.Type().String() + ")"
			case *ssa.Field:
				if unexportedStruct(x.X.Type()) != nil {
					return
				}
				bad = "a field of " + x.X.Type().String()
			case *ssa.Extract:
				call, ok := x.Tuple.(*ssa.Call)
				if !ok {
					bad = "result of " + x.Tuple.String()
					return
				}
				sc := call.Call.StaticCallee()
				switch {
				case sc != nil && sc.String() == "crypto/x509.ParseCertificate" && x.Index == 0:
					n++
				case sc != nil && p.InModule(sc) && len(sc.Blocks) > 0:
					for _, ret := range returnsOf(sc) {
						if x.Index < len(ret.Results) {
							walk(ret.Results[x.Index], depth+1)
						}
					}
				default:
					bad = "result of " + call.Call.Value.String()
				}
			case *ssa.Call:
				sc := x.Call.StaticCallee()
				if sc != nil && p.InModule(sc) && len(sc.Blocks) > 0 {
					for _, ret := range returnsOf(sc) {
						if len(ret.Results) == 1 {
							walk(ret.Results[0], depth+1)
						}
					}
					return
				}
				bad = "result of " + x.Call.Value.String()
			case *ssa.Parameter:
				// a helper's parameter: judged at the selector's own values
				if x.Parent() != sel {
					return
				}
				bad = "a parameter of the selector"
			default:
				bad = fmt.Sprintf("%s (%T)", v.String(), v)
			}
		}
		walk(c.v, 0)
		r.Check(bad == "", rule, fmt.Sprintf("%s: certificate value at %s", p.FnName(sel), c.at), c.at, "the first result of x509.ParseCertificate", "the certificate is "+bad+", not the one certificate x509.ParseCertificate made of the selected descriptor's data: the assertion can be encrypted to a key other than the SP's own")
	}
	if n == 0 {
		r.Undecided(rule, p.FnName(sel)+": certificate values", p.Pos(sel.Pos()), "no certificate value of the selector resolves to x509.ParseCertificate")
	}
}

// handsBackResultsOf: fn is a shell around call: a single block whose only call is this one and whose return hands back
// exactly the call's results, in order (the arguments may be fn's parameters or fields of its receiver).
func handsBackResultsOf(fn *ssa.Function, call *ssa.Call) bool {
	if len(fn.Blocks) != 1 {
		return false
	}
	var ret *ssa.Return
	for _, in := range fn.Blocks[0].Instrs {
		switch x := in.(type) {
		case *ssa.Call:
			if x != call {
				return false
			}
		case *ssa.Return:
			ret = x
		case *ssa.Defer, *ssa.Go, *ssa.Store, *ssa.MapUpdate, *ssa.Send, *ssa.Panic:
			return false
		}
	}
	if ret == nil {
		return false
	}
	if len(ret.Results) == 1 {
		return ret.Results[0] == ssa.Value(call)
	}
	for k, rv := range ret.Results {
		ex, ok := rv.(*ssa.Extract)
		if !ok || ex.Tuple != ssa.Value(call) || ex.Index != k {
			return false
		}
	}
	return len(ret.Results) > 0
}

// checkNoKeyOutcome: the IdP answers an SP that publishes no encryption certificate in clear. The emitter recognises
// that outcome by comparing the selector's error with os.ErrNotExist; unless it does so with errors.Is, every return of
// the selector on the "no certificate string was found" path hands back the sentinel itself (a wrapped or different
// error is treated as a failure, and such an SP gets no response at all).
func checkNoKeyOutcome(r *Report, p *Prog, rule string) {
	sel, inline := encCertSelector(p)
	if inline {
		r.OK(rule, p.FnName(sel)+": the selection is written out in the emitting function", p.Pos(sel.Pos()), "no selector error to compare")
		return
	}
	usesIs := false
	for _, cs := range p.StaticCallersOf(sel) {
		if len(callsTo(cs.Caller, "errors.Is")) > 0 {
			usesIs = true
		}
	}
	isSentinel := func(v ssa.Value) bool {
		if ci, ok := v.(*ssa.ChangeInterface); ok {
			v = ci.X
		}
		if ld, ok := v.(*ssa.UnOp); ok {
			if g, ok := ld.X.(*ssa.Global); ok && g.Name() == "ErrNotExist" {
				return true
			}
		}
		return false
	}
	n := 0
	// the selector and the helpers it is split into: every error value that is made of the sentinel
	for _, fn := range helperRegion(p, sel, 2) {
		a := NewAnalysis(p)
		fs := a.Ctx(fn)
		r.Fn(p.FnName(fn))
		for _, b := range fn.Blocks {
			for _, in := range b.Instrs {
				c, ok := in.(*ssa.Call)
				if !ok || c.Call.StaticCallee() == nil {
					continue
				}
				nm := c.Call.StaticCallee().String()
				if nm != "fmt.Errorf" && nm != "errors.Join" {
					continue
				}
				wraps := false
				for _, v := range varargValues(c) {
					if isSentinel(v) {
						wraps = true
					}
				}
				if !wraps {
					continue
				}
				n++
				r.Check(usesIs, rule, p.FnName(fn)+": 'no encryption certificate' is reported as os.ErrNotExist itself", p.InstrPos(in), "the emitter tests with errors.Is",
					"the selector hands back "+fs.AP(c)+", an error made of os.ErrNotExist, instead of the sentinel itself; the emitter compares by identity, treats it as a failure, and an SP without an encryption key gets no response")
			}
		}
		// the sentinel itself returned, or assigned to the result variable
		for _, b := range fn.Blocks {
			for _, in := range b.Instrs {
				ld, ok := in.(*ssa.UnOp)
				if !ok || !isSentinel(ld) || ld.Referrers() == nil {
					continue
				}
				for _, rf := range *ld.Referrers() {
					switch rf.(type) {
					case *ssa.Return, *ssa.Store, *ssa.Phi:
						n++
						r.OK(rule, p.FnName(fn)+": 'no encryption certificate' is reported as os.ErrNotExist itself", p.InstrPos(ld), "the sentinel the emitter compares with")
					}
				}
			}
		}
	}
	if n == 0 {
		// the selector never hands back the sentinel: fine when the emitter does not wait for it either (the outcome is
		// signalled otherwise, e.g. by a nil certificate); otherwise nothing ever takes the emitter's clear-text branch
		waits := false
		for _, cs := range p.StaticCallersOf(sel) {
			for _, b := range cs.Caller.Blocks {
				for _, in := range b.Instrs {
					for _, op := range in.Operands(nil) {
						if op != nil && *op != nil && isSentinel(*op) {
							waits = true
						}
					}
				}
			}
		}
		r.Check(!waits, rule, p.FnName(sel)+": the 'no certificate found' outcome", p.Pos(sel.Pos()), "neither side uses os.ErrNotExist for it", "the emitter compares the selector's error with os.ErrNotExist, which the selector never returns: an SP without an encryption key gets no response")
	}
}
