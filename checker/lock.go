package main

// Lock-set analysis: abstract lock = (struct type, mutex field). Forward dataflow per function with
// must-held (intersection) and may-held (union) sets; a deferred unlock keeps the lock to every exit.

import (
	"go/types"
	"sort"
	"strings"

	"golang.org/x/tools/go/callgraph"
	"golang.org/x/tools/go/ssa"
)

type lockMode int

const (
	modeR lockMode = 1
	modeW lockMode = 2
)

type lockState map[string]lockMode // lock id -> strongest mode held

func (s lockState) clone() lockState {
	o := lockState{}
	for k, v := range s {
		o[k] = v
	}
	return o
}

func intersect(a, b lockState) lockState {
	o := lockState{}
	for k, v := range a {
		if w, ok := b[k]; ok {
			if w < v {
				v = w
			}
			o[k] = v
		}
	}
	return o
}

func union(a, b lockState) lockState {
	o := a.clone()
	for k, v := range b {
		if o[k] < v {
			o[k] = v
		}
	}
	return o
}

func eqState(a, b lockState) bool {
	if len(a) != len(b) {
		return false
	}
	for k, v := range a {
		if b[k] != v {
			return false
		}
	}
	return true
}

type lockOp struct {
	Lock    string
	Acquire bool
	Mode    lockMode
}

func isMutexType(t types.Type) bool {
	return typeIs(t, "sync", "RWMutex") || typeIs(t, "sync", "Mutex")
}

// lockOpOf recognises m.Lock/RLock/Unlock/RUnlock on a mutex that is a struct field.
func lockOpOf(c *ssa.CallCommon) (lockOp, bool) {
	sc := c.StaticCallee()
	if sc == nil || sc.Signature.Recv() == nil || len(c.Args) == 0 {
		return lockOp{}, false
	}
	if !isMutexType(sc.Signature.Recv().Type()) {
		return lockOp{}, false
	}
	var op lockOp
	switch sc.Name() {
	case "Lock":
		op = lockOp{Acquire: true, Mode: modeW}
	case "RLock":
		op = lockOp{Acquire: true, Mode: modeR}
	case "Unlock":
		op = lockOp{Acquire: false, Mode: modeW}
	case "RUnlock":
		op = lockOp{Acquire: false, Mode: modeR}
	default:
		return lockOp{}, false
	}
	op.Lock = lockIdent(c.Args[0])
	return op, true
}

// lockIdent: abstract identity of the mutex operand: "Type.field" for a field, else the global/local name.
func lockIdent(v ssa.Value) string {
	switch x := v.(type) {
	case *ssa.FieldAddr:
		n := namedOf(x.X.Type())
		tn := "?"
		if n != nil {
			tn = n.Obj().Name()
		}
		return tn + "." + fieldName(x.X.Type(), x.Field)
	case *ssa.Global:
		return "global." + x.Name()
	case *ssa.UnOp:
		return lockIdent(x.X)
	}
	return "?" + v.Name()
}

type lockFacts struct {
	fn       *ssa.Function
	mustAt   map[ssa.Instruction]lockState
	mayAt    map[ssa.Instruction]lockState
	deferred map[string]bool // locks with a deferred release somewhere in fn
	exitMay  map[*ssa.Return]lockState
	direct   map[string]lockMode // locks acquired directly by fn
}

type LockAnalysis struct {
	P         *Prog
	cg        *callgraph.Graph
	facts     map[*ssa.Function]*lockFacts
	entry     map[*ssa.Function]lockState
	entryBusy map[*ssa.Function]bool
	summary   map[*ssa.Function]map[string]lockMode
}

func NewLockAnalysis(p *Prog, cgKind string) *LockAnalysis {
	return &LockAnalysis{P: p, cg: p.CallGraph(cgKind), facts: map[*ssa.Function]*lockFacts{}, entry: map[*ssa.Function]lockState{}, entryBusy: map[*ssa.Function]bool{}}
}

// entryMust: locks certainly held on entry = intersection over all static call sites, for functions
// that are only ever called statically from the module (unexported, never used as a value).
func (la *LockAnalysis) entryMust(fn *ssa.Function) lockState {
	if s, ok := la.entry[fn]; ok {
		return s
	}
	if la.entryBusy[fn] {
		return lockState{}
	}
	la.entryBusy[fn] = true
	defer delete(la.entryBusy, fn)
	res := lockState{}
	exported := fn.Object() != nil && fn.Object().Exported()
	if fn.Parent() == nil && !exported && !la.usedAsValue(fn) {
		sites := la.P.StaticCallersOf(fn)
		first := true
		for _, cs := range sites {
			f := la.Facts(cs.Caller)
			st := f.mustAt[cs.Instr.(ssa.Instruction)]
			if first {
				res = st.clone()
				first = false
			} else {
				res = intersect(res, st)
			}
		}
		if first {
			res = lockState{}
		}
	}
	la.entry[fn] = res
	return res
}

func (la *LockAnalysis) usedAsValue(fn *ssa.Function) bool {
	refs := fn.Referrers()
	_ = refs
	// go/ssa does not keep referrers for functions; scan the module once.
	for _, f := range la.P.modFns {
		for _, b := range f.Blocks {
			for _, in := range b.Instrs {
				for _, op := range in.Operands(nil) {
					if *op == ssa.Value(fn) {
						if ci, ok := in.(ssa.CallInstruction); ok && ci.Common().Value == ssa.Value(fn) {
							// direct call position: check it is not also an argument
							isArg := false
							for _, a := range ci.Common().Args {
								if a == ssa.Value(fn) {
									isArg = true
								}
							}
							if !isArg {
								continue
							}
						}
						return true
					}
				}
			}
		}
	}
	return false
}

func (la *LockAnalysis) Facts(fn *ssa.Function) *lockFacts {
	if f, ok := la.facts[fn]; ok {
		return f
	}
	f := &lockFacts{fn: fn, mustAt: map[ssa.Instruction]lockState{}, mayAt: map[ssa.Instruction]lockState{},
		deferred: map[string]bool{}, exitMay: map[*ssa.Return]lockState{}, direct: map[string]lockMode{}}
	la.facts[fn] = f
	if len(fn.Blocks) == 0 {
		return f
	}
	entry := la.entryMust(fn)
	inMust := map[*ssa.BasicBlock]lockState{}
	inMay := map[*ssa.BasicBlock]lockState{}
	outMust := map[*ssa.BasicBlock]lockState{}
	outMay := map[*ssa.BasicBlock]lockState{}
	visited := map[*ssa.BasicBlock]bool{}
	transfer := func(b *ssa.BasicBlock, must, may lockState, record bool) (lockState, lockState) {
		must, may = must.clone(), may.clone()
		for _, in := range b.Instrs {
			if record {
				f.mustAt[in] = must.clone()
				f.mayAt[in] = may.clone()
			}
			switch x := in.(type) {
			case *ssa.Defer:
				if op, ok := lockOpOf(&x.Call); ok && !op.Acquire {
					f.deferred[op.Lock] = true
				}
			case *ssa.Call:
				if op, ok := lockOpOf(&x.Call); ok {
					if op.Acquire {
						if must[op.Lock] < op.Mode {
							must[op.Lock] = op.Mode
						}
						if may[op.Lock] < op.Mode {
							may[op.Lock] = op.Mode
						}
						if f.direct[op.Lock] < op.Mode {
							f.direct[op.Lock] = op.Mode
						}
					} else {
						delete(must, op.Lock)
						delete(may, op.Lock)
					}
				}
			case *ssa.Return:
				if record {
					f.exitMay[x] = may.clone()
				}
			}
		}
		return must, may
	}
	// iterate to fixpoint
	blocks := fn.Blocks
	for iter := 0; iter < 50; iter++ {
		changed := false
		for _, b := range blocks {
			var must, may lockState
			if b == blocks[0] {
				must, may = entry.clone(), entry.clone()
			} else {
				first := true
				may = lockState{}
				for _, p := range b.Preds {
					if !visited[p] {
						continue
					}
					if first {
						must = outMust[p].clone()
						first = false
					} else {
						must = intersect(must, outMust[p])
					}
					may = union(may, outMay[p])
				}
				if first {
					continue // not yet reachable
				}
			}
			om, oy := transfer(b, must, may, false)
			if !visited[b] || !eqState(om, outMust[b]) || !eqState(oy, outMay[b]) {
				changed = true
			}
			visited[b] = true
			inMust[b], inMay[b] = must, may
			outMust[b], outMay[b] = om, oy
		}
		if !changed {
			break
		}
	}
	for _, b := range blocks {
		if visited[b] {
			transfer(b, inMust[b], inMay[b], true)
		}
	}
	return f
}

// Summary: locks fn may acquire, directly or through callees (call graph incl. interface dispatch).
func (la *LockAnalysis) Summary(fn *ssa.Function) map[string]lockMode {
	if la.summary == nil {
		la.summary = map[*ssa.Function]map[string]lockMode{}
		// direct
		for f := range la.P.allFns {
			if !la.P.InModule(f) {
				continue
			}
			d := la.Facts(f).direct
			m := map[string]lockMode{}
			for k, v := range d {
				m[k] = v
			}
			la.summary[f] = m
		}
		// propagate to fixpoint over call edges between module functions (static calls and interface
		// dispatch resolved by the call graph to module methods). Paths that leave the module are not
		// followed: CHA resolves every func-value call in the standard library to every function of
		// that signature, which would manufacture re-entry paths that do not exist.
		changed := true
		for changed {
			changed = false
			for _, f := range la.P.modFns {
				n := la.cg.Nodes[f]
				if n == nil {
					continue
				}
				for _, e := range n.Out {
					if !la.P.InModule(e.Callee.Func) {
						continue
					}
					cs := la.summary[e.Callee.Func]
					if len(cs) == 0 {
						continue
					}
					m := la.summary[f]
					if m == nil {
						m = map[string]lockMode{}
						la.summary[f] = m
					}
					for k, v := range cs {
						if m[k] < v {
							m[k] = v
							changed = true
						}
					}
				}
			}
		}
	}
	return la.summary[fn]
}

// Callees of a call instruction according to the call graph, module functions only... plus any
// function (dependencies included) so summaries through dependencies are seen.
func (la *LockAnalysis) Callees(in ssa.CallInstruction) []*ssa.Function {
	n := la.cg.Nodes[in.Parent()]
	if n == nil {
		return nil
	}
	var out []*ssa.Function
	for _, e := range n.Out {
		if e.Site == in {
			out = append(out, e.Callee.Func)
		}
	}
	sort.Slice(out, func(i, j int) bool { return out[i].String() < out[j].String() })
	return out
}

func modeName(m lockMode) string {
	if m == modeW {
		return "W"
	}
	return "R"
}

func stateString(s lockState) string {
	var parts []string
	for k, v := range s {
		parts = append(parts, k+":"+modeName(v))
	}
	sort.Strings(parts)
	return "{" + strings.Join(parts, ",") + "}"
}
