package main

import (
	"fmt"
	"go/constant"
	"go/token"
	"go/types"
	"os"
	"reflect"
	"sort"
	"strings"

	"golang.org/x/tools/go/ssa"
)

func init() {
	registry["C15"] = []func(*Report){ruleC15}
}

func ruleC15(r *Report) {
	p := r.P
	r.Trusted("encoding/xml (alias-struct decoding), time.Parse/Format/Round, math.Round, strconv, regexp", "go/ssa of golang.org/x/tools v0.29.0")
	r.NotDecided("the numerical round trip itself over all int64 durations and all instants (value-level); fixed point of EntityDescriptor values; the set of lexical forms time.Parse admits")
	r.Rule("C15.alias-pairs", "for every type with alias-struct MarshalXML/UnmarshalXML the shadow fields (name, XML tag, type) of the two auxiliary structs are identical, MarshalXML initialises each shadow from the real field and UnmarshalXML copies each shadow back on its success path", 20)
	r.Rule("C15.trunc", "on the Duration text paths no floating-point value is converted to an integer except through math.Round (truncation and float accessors are inexact for decimal fractions)", 1)
	r.Rule("C15.ms", "RelaxedTime marshals Round(Millisecond).UTC() in the fixed layout; every parse arm stores exactly Round(Millisecond) of the instant time.Parse returned under err == nil (no re-labelling of zones, no other transformation); text matching no layout is an error; Duration parsing rejects non-matching text", 6)

	r.Rule("C15.units", "the unit tables of the xsd:duration writer and reader agree: the reader scales the submatch that the pattern ties to each designator (Y, M, D / H, M, S) by that designator's unit and adds it to the result, the writer emits (d % higher unit) / unit for H, M, S and nine fraction digits of d % second, in integer arithmetic on |d|, with the sign carried by the (-?) group", 11)
	r.Rule("C15.field-local", "the endpoint location normaliser used after decoding returns its argument or the empty string, and each call site stores the result back into the very field the argument was read from", 2)
	safely(r, func() { checkFieldLocal(r, p) })
	// "metadata the library generates re-parses": every location url.URL.String() can produce for a standard binding
	// passes the check made on parsing - the checker parses the URL and compares the *parsed* scheme (C14.endpoint, borrowed)
	r.Rule("C15.endpoint-check", "the endpoint check made on parsing accepts what the generators emit: for the five standard bindings the location is judged by url.Parse and the parsed scheme (http/https), and returned unchanged (C14.endpoint, borrowed)", 4)
	r.borrow("C14.endpoint", "C15.endpoint-check", func() { checkEndpointTypes(r, p) })
	r.Rule("C15.tags", "in every struct type reachable from EntityDescriptor/EntitiesDescriptor all fields are exported, none is tagged xml:\"-\", and no two fields of one struct map to the same XML name and kind (encoding/xml silently drops conflicting fields)", 13)
	safely(r, func() { checkXMLTags(r, p) })
	checkAliasPairs(r, p)
	safely(r, func() { checkDecodersPure(r, p, "C15.alias-pairs", func(string) bool { return true }) })
	safely(r, func() { checkDurationUnits(r, p) })
	checkTrunc(r, p)
	checkRelaxedTime(r, p)
}

type shadowField struct{ Name, Type, Tag string }

// auxStruct: the anonymous struct with an embedded *Alias field built in fn.
func auxStruct(fn *ssa.Function) (*ssa.Alloc, *types.Struct, []shadowField) {
	for _, b := range fn.Blocks {
		for _, in := range b.Instrs {
			al, ok := in.(*ssa.Alloc)
			if !ok {
				continue
			}
			st, ok := derefType(al.Type()).Underlying().(*types.Struct)
			if !ok {
				continue
			}
			hasAlias := false
			var fs []shadowField
			for i := 0; i < st.NumFields(); i++ {
				f := st.Field(i)
				if f.Embedded() {
					hasAlias = true
					continue
				}
				fs = append(fs, shadowField{f.Name(), types.TypeString(f.Type(), func(pk *types.Package) string { return pk.Name() }), st.Tag(i)})
			}
			if hasAlias {
				sort.Slice(fs, func(i, j int) bool { return fs[i].Name < fs[j].Name })
				return al, st, fs
			}
		}
	}
	return nil, nil, nil
}

func checkAliasPairs(r *Report, p *Prog) {
	rule := "C15.alias-pairs"
	pk := p.ByPath[modPath]
	sc := pk.Types.Scope()
	n := 0
	// the metadata roots and the duration/instant types are marshalled by value (xml.Marshal(ed); Duration and RelaxedTime
	// fields of structs that are themselves passed by value): encoding/xml finds a pointer-receiver marshaller only on
	// addressable values and otherwise falls back, silently, to the default field encoding (raw nanoseconds, unrounded
	// RFC3339Nano), which the library's own reader refuses
	for _, mt := range []struct{ typ, method string }{
		{"EntityDescriptor", "MarshalXML"}, {"EntitiesDescriptor", "MarshalXML"}, {"Duration", "MarshalText"}, {"RelaxedTime", "MarshalText"},
	} {
		tn, _ := sc.Lookup(mt.typ).(*types.TypeName)
		if tn == nil {
			continue
		}
		named, _ := tn.Type().(*types.Named)
		if named == nil {
			continue
		}
		cons := fmt.Sprintf("%s.%s is found when the value is marshalled by value", mt.typ, mt.method)
		sel := p.SSA.MethodSets.MethodSet(named).Lookup(pk.Types, mt.method)
		if sel == nil {
			if psel := p.SSA.MethodSets.MethodSet(types.NewPointer(named)).Lookup(pk.Types, mt.method); psel != nil {
				r.Bad(rule, cons, p.Pos(psel.Obj().Pos()), "the method has a pointer receiver: a "+mt.typ+" marshalled by value (a top-level value, a field of a struct passed by value) is written in the default encoding, not the xsd text form, and does not re-parse")
			} else {
				r.Bad(rule, cons, "-", "the type has no "+mt.method+" method")
			}
			continue
		}
		r.OK(rule, cons, p.Pos(sel.Obj().Pos()), "value receiver")
	}
	for _, name := range sc.Names() {
		tn, ok := sc.Lookup(name).(*types.TypeName)
		if !ok {
			continue
		}
		named, ok := tn.Type().(*types.Named)
		if !ok {
			continue
		}
		var mfn, ufn *ssa.Function
		for _, T := range []types.Type{named, types.NewPointer(named)} {
			ms := p.SSA.MethodSets.MethodSet(T)
			if sel := ms.Lookup(pk.Types, "MarshalXML"); sel != nil && mfn == nil {
				mfn = p.SSA.MethodValue(sel)
			}
			if sel := ms.Lookup(pk.Types, "UnmarshalXML"); sel != nil && ufn == nil {
				ufn = p.SSA.MethodValue(sel)
			}
		}
		if mfn == nil || ufn == nil || mfn.Synthetic != "" && mfn.Syntax() == nil {
			continue
		}
		mal, _, mfs := auxStruct(mfn)
		ual, _, ufs := auxStruct(ufn)
		if mal == nil || ual == nil || (len(mfs) == 0 && len(ufs) == 0) {
			continue
		}
		n++
		r.Fn(p.FnName(mfn))
		r.Fn(p.FnName(ufn))
		cons := fmt.Sprintf("%s: shadow fields of MarshalXML and UnmarshalXML agree", name)
		same := len(mfs) == len(ufs)
		if same {
			for i := range mfs {
				if mfs[i] != ufs[i] {
					same = false
				}
			}
		}
		r.Check(same, rule, cons, p.Pos(ufn.Pos()), fmt.Sprintf("%d shadow fields with identical names, types and tags", len(mfs)), fmt.Sprintf("marshal shadows %v, unmarshal shadows %v", mfs, ufs))
		am, au := NewAnalysis(p), NewAnalysis(p)
		fu := au.Ctx(ufn)
		fu.ensureConds()
		// each method with the unexported helpers it is split into (a conversion helper shared by the pair)
		rgM, rgU := NewRegion(p, mfn, 2), NewRegion(p, ufn, 2)
		for _, sf := range mfs {
			// marshal: aux.F <- conversion of recv.F (possibly through a local for pointer shadows, or a helper's result)
			okM := false
			var gotM []string
			for _, b := range mfn.Blocks {
				for _, in := range b.Instrs {
					st, ok := in.(*ssa.Store)
					if !ok {
						continue
					}
					fa, ok := st.Addr.(*ssa.FieldAddr)
					if !ok || fa.X != ssa.Value(mal) || fieldName(fa.X.Type(), fa.Field) != sf.Name {
						continue
					}
					for _, lf := range rgM.Origins(RV{V: st.Val, C: rgM.top}) {
						lfc := rgM.Ctx(am, lf.C)
						ap := lfc.AP(lf.V)
						if al, isA := lf.V.(*ssa.Alloc); isA {
							if iv := initStore(al); iv != nil {
								ap = lfc.AP(iv)
							}
						}
						if isRealField(ap, name, sf.Name) {
							okM = true
						}
						gotM = append(gotM, ap)
					}
				}
			}
			r.Check(okM, rule, fmt.Sprintf("%s.MarshalXML: shadow %s initialised from the real field", name, sf.Name), p.Pos(mfn.Pos()), "aux."+sf.Name+" <- m."+sf.Name, "the shadow field "+sf.Name+" is not filled from the value's own "+sf.Name+" (filled from "+strings.Join(gotM, ", ")+"): the attribute is marshalled from something else or not at all")
			// unmarshal: recv.F <- conversion of aux.F on the success path
			okU := false
			why := "the decoded " + sf.Name + " is never copied back into the value"
			rgU.Each(func(x RI) {
				st, ok := x.I.(*ssa.Store)
				if !ok {
					return
				}
				b := st.Block()
				fa, ok := st.Addr.(*ssa.FieldAddr)
				if !ok || fieldName(fa.X.Type(), fa.Field) != sf.Name {
					return
				}
				// the object written is the receiver of UnmarshalXML
				isRecv := false
				for _, o := range rgU.Origins(RV{V: rootOfAddr(fa.X), C: x.C}) {
					if o.V == ssa.Value(ufn.Params[0]) && o.C == rgU.top {
						isRecv = true
					}
				}
				if !isRecv {
					return
				}
				xfc := rgU.Ctx(au, x.C)
				xfc.ensureConds()
				src := false
				var leaves []RV
				for _, lf := range rgU.Origins(RV{V: st.Val, C: x.C}) {
					// a local of a helper that holds the converted value (t := time.Time(*p); m.F = &t): follow
					// what it was initialised with back into the decoder
					if al, isA := lf.V.(*ssa.Alloc); isA && lf.C != rgU.top {
						if iv := initStore(al); iv != nil {
							leaves = append(leaves, rgU.Origins(RV{V: unwrapConv(iv), C: lf.C})...)
							continue
						}
					}
					leaves = append(leaves, lf)
				}
				for _, lf := range leaves {
					lfc := rgU.Ctx(au, lf.C)
					ap := lfc.AP(lf.V)
					lv := lf.V
					if al, isA := lv.(*ssa.Alloc); isA {
						if iv := initStore(al); iv != nil {
							ap = lfc.AP(iv)
						}
					}
					base := rootOfAddr(unwrapConv(lv))
					if os.Getenv("SAMLVERIF_DEBUG") != "" {
						fmt.Printf("DEBUG alias leaf %T %s base %T %s\n", lv, lv.Name(), base, base.Name())
					}
					for k := 0; k < 4; k++ {
						// through the loads: a field read of the struct, and a pointer variable that holds the address of
						// the shadow struct (aux := &decoded)
						if pal, isA := base.(*ssa.Alloc); isA && base != ssa.Value(ual) {
							if _, isPtrVar := pal.Type().Underlying().(*types.Pointer).Elem().Underlying().(*types.Pointer); isPtrVar {
								if iv := initStore(pal); iv != nil {
									base = rootOfAddr(iv)
									continue
								}
							}
							break
						}
						ld, isLd := base.(*ssa.UnOp)
						if !isLd || ld.Op != token.MUL {
							break
						}
						if pal, isA := ld.X.(*ssa.Alloc); isA {
							iv := initStore(pal)
							if iv == nil {
								break
							}
							base = rootOfAddr(iv)
							continue
						}
						nb := rootOfAddr(ld.X)
						if nb == ssa.Value(ld) {
							break
						}
						base = nb
					}
					if lf.C == rgU.top && (strings.Contains(ap, "."+sf.Name) && base == ssa.Value(ual) || strings.HasSuffix(ap, fu.AP(ual)+"."+sf.Name)) {
						src = true
					}
				}
				if !src {
					if os.Getenv("SAMLVERIF_DEBUG") != "" {
						for _, lf := range rgU.Origins(RV{V: st.Val, C: x.C}) {
							fmt.Printf("DEBUG alias FAIL %s leaf %T %s top=%v ual=%s ap=%s\n", name, lf.V, lf.V.Name(), lf.C == rgU.top, ual.Name(), rgU.Ctx(au, lf.C).AP(lf.V))
						}
					}
					why = "m." + sf.Name + " is assigned from " + xfc.AP(st.Val) + ", not from the decoded shadow field"
					return
				}
				// on the success path of DecodeElement
				dec := false
				cnd := xfc.AbsCond(b)
				for _, nm := range au.B.Support(cnd) {
					if strings.HasPrefix(nm, "isnil(") && strings.Contains(nm, "DecodeElement#") && au.B.Implies(cnd, au.B.Var(nm)) {
						dec = true
					}
				}
				if dec {
					okU = true
				} else {
					why = "the copy back is not on the success path of DecodeElement"
				}
			})
			r.Check(okU, rule, fmt.Sprintf("%s.UnmarshalXML: shadow %s copied back", name, sf.Name), p.Pos(ufn.Pos()), "m."+sf.Name+" <- aux."+sf.Name, why)
		}
	}
	if n < 5 {
		r.Undecided(rule, "alias-struct pairs", "-", fmt.Sprintf("found %d types with alias-struct Marshal/Unmarshal pairs", n))
	}
}

// isRealField: ap names <Type>[#recv].<Field> (optionally dereferenced).
func isRealField(ap, typ, field string) bool {
	ap = strings.TrimSuffix(strings.TrimSuffix(ap, ".*"), "*")
	i := strings.LastIndex(ap, ".")
	if i < 0 || ap[i+1:] != field {
		return false
	}
	root := ap[:i]
	if j := strings.Index(root, "#"); j >= 0 {
		root = root[:j]
	}
	return root == typ || strings.HasSuffix(root, "."+typ) || strings.HasSuffix(root, ":"+typ)
}

func unwrapConv(v ssa.Value) ssa.Value {
	for i := 0; i < 6; i++ {
		switch x := v.(type) {
		case *ssa.ChangeType:
			v = x.X
		case *ssa.Convert:
			v = x.X
		case *ssa.UnOp:
			v = x.X
		case *ssa.FieldAddr:
			return x.X
		default:
			return v
		}
	}
	return v
}

func checkTrunc(r *Report, p *Prog) {
	rule := "C15.trunc"
	dur := p.NamedType("saml", "Duration")
	if dur == nil {
		panic(unresolved{"type saml.Duration"})
	}
	var fns []*ssa.Function
	for _, T := range []types.Type{dur, types.NewPointer(dur)} {
		ms := p.SSA.MethodSets.MethodSet(T)
		for i := 0; i < ms.Len(); i++ {
			if f := p.SSA.MethodValue(ms.At(i)); f != nil && p.InLibrary(f) && (f.Name() == "MarshalText" || f.Name() == "UnmarshalText") {
				fns = append(fns, f)
			}
		}
	}
	// helpers they call inside the module
	seen := map[*ssa.Function]bool{}
	for i := 0; i < len(fns); i++ {
		f := fns[i]
		if seen[f] {
			continue
		}
		seen[f] = true
		for _, b := range f.Blocks {
			for _, in := range b.Instrs {
				if c, ok := in.(*ssa.Call); ok && c.Call.StaticCallee() != nil && p.InLibrary(c.Call.StaticCallee()) && !seen[c.Call.StaticCallee()] {
					fns = append(fns, c.Call.StaticCallee())
				}
			}
		}
	}
	n := 0
	for f := range seen {
		a := NewAnalysis(p)
		fc := a.Ctx(f)
		r.Fn(p.FnName(f))
		for _, b := range f.Blocks {
			for _, in := range b.Instrs {
				cv, ok := in.(*ssa.Convert)
				if !ok {
					continue
				}
				from, ok1 := cv.X.Type().Underlying().(*types.Basic)
				to, ok2 := cv.Type().Underlying().(*types.Basic)
				if !ok1 || !ok2 || from.Info()&types.IsFloat == 0 || to.Info()&types.IsInteger == 0 {
					continue
				}
				n++
				cons := fmt.Sprintf("%s: float-to-integer conversion of %s", p.FnName(f), fc.AP(cv.X))
				okR := false
				if c, isC := cv.X.(*ssa.Call); isC && (calleeIs(c, "math.Round") || calleeIs(c, "math.RoundToEven")) {
					okR = true
				}
				r.Check(okR, rule, cons, p.InstrPos(in), "operand is math.Round(...)", "a floating-point quantity is truncated to an integer: decimal fractions (and values just below a carry) come out one unit off")
			}
		}
	}
	r.OK(rule, "float-to-integer conversions on the Duration text paths enumerated", "-", fmt.Sprintf("%d conversions in %d functions", n, len(seen)))
}

func checkRelaxedTime(r *Report, p *Prog) {
	rule := "C15.ms"
	rt := p.NamedType("saml", "RelaxedTime")
	if rt == nil {
		panic(unresolved{"type saml.RelaxedTime"})
	}
	// marshalling: String()/MarshalText produce Format(layout) of Round(ms).UTC()
	str := p.MustFunc("saml", "RelaxedTime", "String")
	a := NewAnalysis(p)
	fc := a.Ctx(str)
	r.Fn(p.FnName(str))
	// canonical: v is Format(xsd layout) of the instant's Round(Millisecond).UTC() and nothing else
	var canonicalIn func(v ssa.Value, bind map[*ssa.Parameter]ssa.Value, depth int) (bool, string)
	canonical := func(v ssa.Value) (bool, string) { return canonicalIn(v, nil, 0) }
	canonicalIn = func(v ssa.Value, bind map[*ssa.Parameter]ssa.Value, depth int) (bool, string) {
		for {
			if cv, ok := v.(*ssa.Convert); ok {
				v = cv.X
				continue
			}
			break
		}
		c, ok := v.(*ssa.Call)
		// the text produced by a method of the same type with one return, handed the receiver itself (String and
		// MarshalText sharing appendText(buf)): what that method returns, with its parameters bound
		if ok && depth < 2 {
			if sc := c.Call.StaticCallee(); sc != nil && p.InLibrary(sc) && sc.Signature.Recv() != nil && namedOf(sc.Signature.Recv().Type()) == rt && len(c.Call.Args) > 0 {
				if _, isRecv := Resolve(c.Call.Args[0]).(*ssa.Parameter); isRecv {
					if ret := singleReturn(sc); ret != nil && len(ret.Results) == 1 {
						nb := map[*ssa.Parameter]ssa.Value{}
						for i, q := range sc.Params {
							if i < len(c.Call.Args) {
								nb[q] = c.Call.Args[i]
							}
						}
						return canonicalIn(Resolve(ret.Results[0]), nb, depth+1)
					}
				}
			}
		}
		bufOK := func(bv ssa.Value) bool {
			if q, isP := bv.(*ssa.Parameter); isP && bind[q] != nil {
				bv = bind[q]
			}
			return emptyByteSlice(bv)
		}
		if !ok || !(calleeIs(c, "(time.Time).Format") || calleeIs(c, "(time.Time).AppendFormat") && bufOK(c.Call.Args[1])) {
			return false, "not a time.Time.Format result"
		}
		layout, _ := constStr(c.Call.Args[len(c.Call.Args)-1])
		chain := timeChain(c.Call.Args[0])
		detail := fmt.Sprintf("Format(%q) of %s", layout, strings.Join(chain, "."))
		hasRound, hasUTC, other := false, false, false
		for _, s := range chain[1:] {
			switch s {
			case "Round(1ms)":
				hasRound = true
			case "UTC()":
				hasUTC = true
			default:
				other = true
			}
		}
		return hasRound && hasUTC && !other && strings.HasPrefix(layout, "2006-01-02T15:04:05") && strings.HasSuffix(layout, "Z07:00"), detail
	}
	okS := false
	detail := ""
	for _, ret := range fc.Returns() {
		okS, detail = canonical(Resolve(ret.Results[0]))
	}
	r.Check(okS, rule, p.FnName(str)+": marshals Round(Millisecond).UTC() in the xsd:dateTime layout", p.Pos(str.Pos()), detail, "marshalling is "+detail)
	mt := p.MustFunc("saml", "RelaxedTime", "MarshalText")
	okM := false
	for _, c := range methodCallsOn(mt, "("+modPath+".RelaxedTime).String") {
		_ = c
		okM = true
	}
	if !okM {
		// the same canonical expression written out in place
		for _, ret := range a.Ctx(mt).Returns() {
			if okC, _ := canonical(Resolve(ret.Results[0])); okC {
				okM = true
			}
		}
	}
	r.Check(okM, rule, p.FnName(mt)+": text form is String()", p.Pos(mt.Pos()), "MarshalText -> String", "MarshalText does not use the canonical String() form")

	// parsing
	um := p.MustFunc("saml", "RelaxedTime", "UnmarshalText")
	a2 := NewAnalysis(p)
	B := a2.B
	fu := a2.Ctx(um)
	fu.ensureConds()
	r.Fn(p.FnName(um))
	nArms := 0
	for _, b := range um.Blocks {
		for _, in := range b.Instrs {
			st, ok := in.(*ssa.Store)
			if !ok || st.Addr != ssa.Value(um.Params[0]) {
				continue
			}
			v := st.Val
			for {
				if ct, ok := v.(*ssa.ChangeType); ok {
					v = ct.X
					continue
				}
				break
			}
			// the instant may come back in a field of a helper's result struct ({instant, err}): what the helper's one
			// successful return puts into that field
			var viaResult *resultFieldInfo
			if ri := structResultFieldInfo(p, v); ri != nil {
				viaResult = ri
				v = ri.val
				for {
					if ct, ok := v.(*ssa.ChangeType); ok {
						v = ct.X
						continue
					}
					break
				}
			}
			cons := fmt.Sprintf("%s: value stored at %s", p.FnName(um), p.InstrPos(in))
			if _, isConst := v.(*ssa.Const); isConst || isZeroTime(v) {
				// the empty text -> zero instant arm
				okE := false
				for _, nm := range B.Support(fu.Cond(b)) {
					if strings.HasPrefix(nm, "empty(") && fu.Implied(b, B.Var(nm)) {
						okE = true
					}
				}
				r.Check(okE, rule, cons+" (zero instant)", p.InstrPos(in), "only for empty text", "the zero instant is stored for non-empty text")
				continue
			}
			nArms++
			chain := timeChain(v)
			okA := len(chain) == 2 && chain[1] == "Round(1ms)" && strings.HasPrefix(chain[0], "time.Parse")
			why := "the stored instant is " + strings.Join(chain, ".") + " (expected time.Parse(...) followed only by Round(Millisecond))"
			// the layouts may be tried by an unexported helper that hands back what time.Parse returned
			if !okA && len(chain) == 2 && chain[1] == "Round(1ms)" {
				if ex, ok := timeChainBase(v).(*ssa.Extract); ok && ex.Index == 0 {
					if hc, ok := ex.Tuple.(*ssa.Call); ok && hc.Call.StaticCallee() != nil && p.InLibrary(hc.Call.StaticCallee()) && hc.Call.StaticCallee().Pkg == um.Pkg {
						if whyH := parseHelperOK(p, r, rule, hc.Call.StaticCallee()); whyH == "" {
							okA = true
						} else {
							why = "through " + shortFn(hc.Call.StaticCallee()) + ": " + whyH
						}
					}
				}
			}
			// nested fallbacks sharing one tail: every value that reaches the merged variable is the result of a
			// time.Parse call, and comes through edges taken only when that very call reported no error
			if ph, isPhi := timeChainBase(v).(*ssa.Phi); !okA && isPhi && len(chain) == 2 && chain[1] == "Round(1ms)" {
				okAll, n := true, 0
				var walk func(x ssa.Value, cond *bddNode, seen map[ssa.Value]bool)
				walk = func(x ssa.Value, cond *bddNode, seen map[ssa.Value]bool) {
					if seen[x] {
						return
					}
					seen[x] = true
					if q, ok := x.(*ssa.Phi); ok {
						for i, e := range q.Edges {
							pb := q.Block().Preds[i]
							walk(e, B.And(cond, B.And(fu.Cond(pb), fu.edgeCond(pb, q.Block()))), seen)
						}
						return
					}
					if cond == B.False {
						return
					}
					n++
					ex, ok := x.(*ssa.Extract)
					if !ok || ex.Index != 0 {
						okAll = false
						why = "a value that is not the result of time.Parse (" + fu.AP(x) + ") reaches the stored instant"
						return
					}
					pc, ok := ex.Tuple.(*ssa.Call)
					if !ok || pc.Call.StaticCallee() == nil || !(calleeName(&pc.Call) == "time.Parse" || calleeName(&pc.Call) == "time.ParseInLocation") {
						okAll = false
						why = "a value that is not the result of time.Parse (" + fu.AP(x) + ") reaches the stored instant"
						return
					}
					nm := "isnil(" + fu.AP(ex.Tuple) + "#1)"
					if !(B.HasVar(nm) && B.Implies(cond, B.Var(nm))) {
						okAll = false
						why = "the value parsed at " + p.InstrPos(pc) + " is stored although time.Parse reported an error"
					}
				}
				walk(ph, fu.Cond(b), map[ssa.Value]bool{})
				if okAll && n > 0 {
					r.Check(true, rule, cons, p.InstrPos(in), fmt.Sprintf("%d parse results merged, then Round(1ms)", n), "")
					continue
				}
			}
			if okA {
				// under err == nil of that very Parse call
				base := timeChainBase(v)
				if ex, ok := base.(*ssa.Extract); ok && viaResult != nil {
					// the helper: the return that sets the instant is reached only under Parse's err == nil, and every
					// other return reports a non-nil error in the struct; the caller: stores under that error field == nil
					if why2 := resultArmOK(p, fu, b, viaResult, ex); why2 != "" {
						okA = false
						why = why2
					}
				} else if ok {
					nm := "isnil(" + fu.AP(ex.Tuple) + "#1)"
					if !(B.HasVar(nm) && fu.Implied(b, B.Var(nm))) {
						okA = false
						why = "the parsed value is stored although time.Parse reported an error"
					}
				}
			}
			r.Check(okA, rule, cons, p.InstrPos(in), strings.Join(chain, "."), why)
		}
	}
	r.Check(nArms >= 1, rule, p.FnName(um)+": a parsed instant is stored", p.Pos(um.Pos()), fmt.Sprintf("%d parse arms", nArms), "no parse arm stores a value")
	// layouts: constants at the call, or the elements of a package-level table written only by its initialiser
	var layouts []string
	okL := true
	whyL := ""
	var parseCalls, pilCalls []*ssa.Call
	for _, f := range helperRegion(p, um, 2) {
		parseCalls = append(parseCalls, methodCallsOn(f, "time.Parse")...)
		pilCalls = append(pilCalls, methodCallsOn(f, "time.ParseInLocation")...)
	}
	for _, c := range pilCalls {
		// equivalent to time.Parse only for time.UTC
		isUTC := false
		if ld, ok := c.Call.Args[2].(*ssa.UnOp); ok {
			if g, ok := ld.X.(*ssa.Global); ok && g.Pkg != nil && g.Pkg.Pkg.Path() == "time" && g.Name() == "UTC" {
				isUTC = true
			}
		}
		r.Check(isUTC, rule, p.FnName(um)+": zone-less text is read as UTC", p.InstrPos(c), "ParseInLocation(..., time.UTC)", "instants written without a zone designator are interpreted in "+fu.AP(c.Call.Args[2])+" instead of UTC: every validity window slides by the host's UTC offset")
		parseCalls = append(parseCalls, c)
	}
	for _, c := range parseCalls {
		if l, ok := constStr(c.Call.Args[0]); ok {
			layouts = append(layouts, l)
			continue
		}
		// the layout is a parameter (or the receiver, of a named string type) of an unexported helper: the constants its
		// call sites pass
		if ls, ok := paramConstStrings(p, c.Call.Args[0]); ok {
			layouts = append(layouts, ls...)
			continue
		}
		ls, ok := tableStrings(p, c.Call.Args[0])
		if !ok {
			okL = false
			whyL = "a layout at " + p.InstrPos(c) + " is neither a constant nor an element of a constant package-level table"
			continue
		}
		layouts = append(layouts, ls...)
	}
	sort.Strings(layouts)
	layouts = uniqStrings(layouts)
	zoned, zoneless := false, false
	zonedAny, zonelessAny := false, false
	for _, l := range layouts {
		body := strings.TrimPrefix(l, "2006-01-02T15:04:05")
		if body == l {
			okL, whyL = false, fmt.Sprintf("layout %q is not an xsd:dateTime layout", l)
			continue
		}
		z := strings.HasSuffix(body, "Z07:00")
		frac := strings.TrimSuffix(body, "Z07:00")
		if frac != "" && strings.Trim(frac[1:], "9") != "" && strings.Trim(frac[1:], "0") != "" || frac != "" && frac[0] != '.' && frac[0] != ',' {
			okL, whyL = false, fmt.Sprintf("layout %q is not an xsd:dateTime layout", l)
			continue
		}
		// time.Parse reads a fraction of any length where the layout has none or has 9s; a fraction written with 0s
		// must be present with exactly that many digits
		anyFrac := frac == "" || strings.Trim(frac[1:], "9") == ""
		if z {
			zoned = true
			zonedAny = zonedAny || anyFrac
		} else {
			zoneless = true
			zonelessAny = zonelessAny || anyFrac
		}
	}
	if okL && !(zoned && zoneless) {
		okL, whyL = false, fmt.Sprintf("layouts %q do not cover both the RFC 3339 form and the zone-less form", layouts)
	}
	if okL && !(zonedAny && zonelessAny) {
		okL, whyL = false, fmt.Sprintf("layouts %q read a fraction of any length (or none) only for one of the two forms: the other has fixed-width '.000' layouts only, so instants written without a fraction, or with another number of digits, are refused", layouts)
	}
	r.Check(okL, rule, p.FnName(um)+": layouts", p.Pos(um.Pos()), strings.Join(layouts, " | "), whyL)
	// non-matching text is an error: every return is nil only after a store
	for _, ret := range fu.Returns() {
		ev := Resolve(ret.Results[0])
		if isNilConst(ev) {
			stored := false
			for _, in := range ret.Block().Instrs {
				if st, ok := in.(*ssa.Store); ok && st.Addr == ssa.Value(um.Params[0]) {
					stored = true
				}
			}
			r.Check(stored, rule, fmt.Sprintf("%s: nil only after an instant was stored [%s]", p.FnName(um), p.InstrPos(ret)), p.InstrPos(ret), "store in the returning block", "success is reported without any layout having matched")
			continue
		}
		cons := fmt.Sprintf("%s: text matching no layout is an error", p.FnName(um))
		if fu.NonNil(ev) == B.True || B.Implies(fu.Cond(ret.Block()), fu.NonNil(ev)) {
			r.OK(rule, cons, p.InstrPos(ret), "returns a parse error that is non-nil on this path")
			continue
		}
		// accumulated through a loop: every leaf is an error value, nil only as the initial value of a loop variable
		direct, viaLoop := errLeaves(ev)
		if direct {
			r.Bad(rule, cons, p.InstrPos(ret), "the fall-through return can be nil")
		} else if viaLoop {
			r.Info(rule, cons, p.InstrPos(ret), "the returned error is accumulated in a loop; non-nil provided the layout table is not empty (not decided)")
		} else {
			r.OK(rule, cons, p.InstrPos(ret), "every value that can be returned is an error produced by a failed call")
		}
	}
	// Duration: non-matching text rejected
	du := p.MustFunc("saml", "Duration", "UnmarshalText")
	a3 := NewAnalysis(p)
	// the parse may sit in unexported helpers of the package
	a3.Inline = func(f *ssa.Function) bool {
		return f.Pkg == du.Pkg && f != du && p.InLibrary(f) && (f.Object() == nil || !f.Object().Exported()) && errIndex(f) >= 0
	}
	t := NewTable(r, a3, du)
	var matchNil string
	for _, ai := range t.atomsIn() {
		if ai.Kind == "isnil" && strings.Contains(ai.Name, "FindStringSubmatch") && !strings.Contains(ai.Name, "[") {
			if matchNil == "" || len(ai.Name) < len(matchNil) {
				matchNil = ai.Name
			}
		}
	}
	if matchNil == "" {
		t.Row(rule, "the text does not match the xsd:duration pattern", a3.B.True, "match == nil test")
	} else {
		when := t.V(matchNil)
		for _, ai := range t.atomsIn() {
			if ai.Kind == "isnil" && len(ai.Args) > 0 && strings.HasPrefix(ai.Args[0], "p:") {
				when = a3.B.And(when, a3.B.Not(t.V(ai.Name)))
			}
		}
		t.Row(rule, "the text does not match the xsd:duration pattern", when)
	}
}

// parseHelperOK: every success return (nil error) of the helper hands back, unchanged, the instant a time.Parse /
// ParseInLocation call of the helper returned, on a path where that call's error is nil; its failure returns carry an
// error produced by a failed call. Returns "" or the reason.
func parseHelperOK(p *Prog, r *Report, rule string, h *ssa.Function) string {
	if errIndex(h) != 1 || len(h.Blocks) == 0 {
		return "not a (time.Time, error) helper"
	}
	a := NewAnalysis(p)
	fc := a.Ctx(h)
	fc.ensureConds()
	r.Fn(p.FnName(h))
	n := 0
	for _, ret := range fc.Returns() {
		ev := Resolve(ret.Results[1])
		if !isNilConst(ev) {
			if fc.NonNil(ev) == a.B.True || a.B.Implies(fc.Cond(ret.Block()), fc.NonNil(ev)) {
				continue
			}
			if direct, _ := errLeaves(ev); direct {
				return "a failure return can carry a nil error"
			}
			continue
		}
		n++
		chain := timeChain(ret.Results[0])
		if len(chain) != 1 || !strings.HasPrefix(chain[0], "time.Parse") {
			return "a success return hands back " + strings.Join(chain, ".") + ", not what time.Parse returned"
		}
		ex, ok := timeChainBase(ret.Results[0]).(*ssa.Extract)
		if !ok {
			return "a success return is not the result of a parse call"
		}
		nm := "isnil(" + fc.AP(ex.Tuple) + "#1)"
		if !(a.B.HasVar(nm) && fc.Implied(ret.Block(), a.B.Var(nm))) {
			return "the parsed value is returned although time.Parse reported an error"
		}
	}
	if n == 0 {
		return "no success return"
	}
	return ""
}

func isZeroTime(v ssa.Value) bool {
	if ld, ok := v.(*ssa.UnOp); ok {
		if al, ok := ld.X.(*ssa.Alloc); ok {
			return initStore(al) == nil && typeIs(al.Type(), "time", "Time")
		}
	}
	return false
}

// timeChain renders v as base.Method(args)... for methods of time.Time; base is the first non-method value.
func timeChain(v ssa.Value) []string { return timeChainN(v, 2) }

func timeChainN(v ssa.Value, depthLeft int) []string {
	var rev []string
	cur := v
	for i := 0; i < 8; i++ {
		switch x := cur.(type) {
		case *ssa.ChangeType:
			cur = x.X
			continue
		case *ssa.Convert:
			cur = x.X
			continue
		case *ssa.Call:
			sc := x.Call.StaticCallee()
			if sc != nil && sc.Signature.Recv() != nil && typeIs(sc.Signature.Recv().Type(), "time", "Time") {
				arg := ""
				if len(x.Call.Args) == 2 {
					if k, ok := constInt(x.Call.Args[1]); ok {
						switch k {
						case 1000000:
							arg = "1ms"
						default:
							arg = fmt.Sprintf("%dns", k)
						}
					} else {
						arg = "?"
					}
				} else if len(x.Call.Args) > 2 {
					arg = "..."
				}
				rev = append(rev, sc.Name()+"("+arg+")")
				cur = x.Call.Args[0]
				continue
			}
			if sc != nil && len(sc.Blocks) > 0 && sc.Pkg != nil && strings.HasPrefix(sc.Pkg.Pkg.Path(), modPath) && len(x.Call.Args) == 1 && depthLeft > 0 {
				// a module helper that is itself a chain over its only parameter
				var rets []*ssa.Return
				for _, b := range sc.Blocks {
					if rt, ok := b.Instrs[len(b.Instrs)-1].(*ssa.Return); ok {
						rets = append(rets, rt)
					}
				}
				if len(rets) == 1 && len(rets[0].Results) == 1 {
					inner := timeChainN(rets[0].Results[0], depthLeft-1)
					if len(inner) > 0 && inner[0] == "recv" {
						for j := len(inner) - 1; j >= 1; j-- {
							rev = append(rev, inner[j])
						}
						cur = x.Call.Args[0]
						continue
					}
				}
			}
			if sc != nil {
				rev = append(rev, shortFn(sc)+"(...)")
				cur = nil
			}
		case *ssa.Extract:
			if c, ok := x.Tuple.(*ssa.Call); ok && c.Call.StaticCallee() != nil {
				rev = append(rev, shortFn(c.Call.StaticCallee())+"#0")
				cur = nil
			}
		case *ssa.Parameter:
			rev = append(rev, "recv")
			cur = nil
		case *ssa.UnOp:
			cur = x.X
			continue
		}
		if cur == nil {
			break
		}
		if _, ok := cur.(*ssa.Call); !ok {
			if _, ok2 := cur.(*ssa.Extract); !ok2 {
				if _, ok3 := cur.(*ssa.Parameter); !ok3 {
					rev = append(rev, "?"+cur.Name())
					break
				}
			}
		}
	}
	out := make([]string, len(rev))
	for i := range rev {
		out[i] = rev[len(rev)-1-i]
	}
	if len(out) == 0 {
		out = []string{"?"}
	}
	return out
}

func timeChainBase(v ssa.Value) ssa.Value {
	cur := v
	for i := 0; i < 8; i++ {
		switch x := cur.(type) {
		case *ssa.ChangeType:
			cur = x.X
		case *ssa.Convert:
			cur = x.X
		case *ssa.Call:
			sc := x.Call.StaticCallee()
			if sc != nil && sc.Signature.Recv() != nil && typeIs(sc.Signature.Recv().Type(), "time", "Time") {
				cur = x.Call.Args[0]
			} else if sc != nil && len(sc.Blocks) > 0 && len(x.Call.Args) == 1 && typeIs(x.Call.Args[0].Type(), "time", "Time") {
				cur = x.Call.Args[0]
			} else {
				return cur
			}
		default:
			return cur
		}
	}
	return cur
}

// ---- C15.units: the writer's and the reader's unit tables of xsd:duration agree ----

type reGroup struct {
	Body   string
	Letter string // upper-case literal directly after the group's closing parenthesis, if any
}

// regexpGroups: capture groups of pattern in order (index 1..).
func regexpGroups(pat string) []reGroup {
	type open struct {
		start int
		cap   int // group number, 0 for non-capturing
	}
	var st []open
	groups := []reGroup{{}}
	for i := 0; i < len(pat); i++ {
		switch pat[i] {
		case '\\':
			i++
		case '[':
			for i < len(pat) && pat[i] != ']' {
				if pat[i] == '\\' {
					i++
				}
				i++
			}
		case '(':
			if strings.HasPrefix(pat[i:], "(?") {
				st = append(st, open{i, 0})
			} else {
				groups = append(groups, reGroup{})
				st = append(st, open{i, len(groups) - 1})
			}
		case ')':
			if len(st) == 0 {
				return nil
			}
			o := st[len(st)-1]
			st = st[:len(st)-1]
			if o.cap > 0 {
				g := &groups[o.cap]
				g.Body = pat[o.start+1 : i]
				if i+1 < len(pat) && pat[i+1] >= 'A' && pat[i+1] <= 'Z' && strings.Contains(g.Body, `\d`) {
					g.Letter = string(pat[i+1])
				}
			}
		}
	}
	return groups
}

// globalRegexp: the constant pattern a package-level *regexp.Regexp is compiled from.
func globalRegexp(p *Prog, g *ssa.Global) (string, bool) {
	init := g.Pkg.Func("init")
	if init == nil {
		return "", false
	}
	pat, n := "", 0
	for _, b := range init.Blocks {
		for _, in := range b.Instrs {
			st, ok := in.(*ssa.Store)
			if !ok || st.Addr != ssa.Value(g) {
				continue
			}
			n++
			if c, ok := st.Val.(*ssa.Call); ok && calleeIs(c, "regexp.MustCompile") {
				pat, _ = constStr(c.Call.Args[0])
			}
		}
	}
	if n != 1 || pat == "" {
		return "", false
	}
	// no other function writes it
	for _, fn := range p.modFns {
		if fn == init {
			continue
		}
		for _, b := range fn.Blocks {
			for _, in := range b.Instrs {
				if st, ok := in.(*ssa.Store); ok && st.Addr == ssa.Value(g) {
					return "", false
				}
			}
		}
	}
	return pat, true
}

func varargValues(c *ssa.Call) []ssa.Value {
	if len(c.Call.Args) == 0 {
		return nil
	}
	sl, ok := c.Call.Args[len(c.Call.Args)-1].(*ssa.Slice)
	if !ok {
		return nil
	}
	al, ok := sl.X.(*ssa.Alloc)
	if !ok {
		return nil
	}
	m := map[int64]ssa.Value{}
	for _, ref := range *al.Referrers() {
		ia, ok := ref.(*ssa.IndexAddr)
		if !ok {
			continue
		}
		k, _ := constInt(ia.Index)
		for _, r2 := range *ia.Referrers() {
			if st, ok := r2.(*ssa.Store); ok && st.Addr == ssa.Value(ia) {
				v := st.Val
				if mi, ok := v.(*ssa.MakeInterface); ok {
					v = mi.X
				}
				m[k] = v
			}
		}
	}
	var out []ssa.Value
	for i := int64(0); i < int64(len(m)); i++ {
		out = append(out, m[i])
	}
	return out
}

func stripConv(v ssa.Value) ssa.Value {
	for {
		switch x := v.(type) {
		case *ssa.ChangeType:
			v = x.X
		case *ssa.Convert:
			v = x.X
		default:
			return v
		}
	}
}

func constNum(v ssa.Value) (float64, bool) {
	c, ok := v.(*ssa.Const)
	if !ok || c.Value == nil {
		return 0, false
	}
	switch c.Value.Kind() {
	case constant.Int, constant.Float:
		f, _ := constant.Float64Val(constant.ToFloat(c.Value))
		return f, true
	}
	return 0, false
}

// arithReach: dst is computed from src through arithmetic, phis, conversions and the rounding helper.
func arithReach(dst, src ssa.Value, seen map[ssa.Value]bool) bool {
	if dst == src {
		return true
	}
	if seen[dst] {
		return false
	}
	seen[dst] = true
	switch x := dst.(type) {
	case *ssa.BinOp:
		return arithReach(x.X, src, seen) || arithReach(x.Y, src, seen)
	case *ssa.Phi:
		for _, e := range x.Edges {
			if arithReach(e, src, seen) {
				return true
			}
		}
	case *ssa.ChangeType:
		return arithReach(x.X, src, seen)
	case *ssa.Convert:
		return arithReach(x.X, src, seen)
	case *ssa.Call:
		if calleeIs(x, "math.Round") {
			return arithReach(x.Call.Args[0], src, seen)
		}
	}
	return false
}

const (
	nsSecond = 1e9
	nsMinute = 60 * nsSecond
	nsHour   = 60 * nsMinute
	nsDay    = 24 * nsHour
)

func checkDurationUnits(r *Report, p *Prog) {
	rule := "C15.units"
	um := p.MustFunc("saml", "Duration", "UnmarshalText")
	mt := p.MustFunc("saml", "Duration", "MarshalText")
	pos := p.Pos(um.Pos())

	// ---- reader table ----
	type rdKey struct{ class, letter string }
	reader := map[rdKey][]float64{}
	patterns := map[*ssa.Global]string{}
	var finalStore *ssa.Store
	for _, b := range um.Blocks {
		for _, in := range b.Instrs {
			if st, ok := in.(*ssa.Store); ok && st.Addr == ssa.Value(um.Params[0]) {
				if _, isC := st.Val.(*ssa.Const); !isC {
					finalStore = st
				}
			}
		}
	}
	groupOf := func(v ssa.Value) (*ssa.Global, int64, bool) {
		// v = *(&match[i]) with match = G.FindStringSubmatch(...)
		ld, ok := v.(*ssa.UnOp)
		if !ok {
			return nil, 0, false
		}
		ia, ok := ld.X.(*ssa.IndexAddr)
		if !ok {
			return nil, 0, false
		}
		i, ok := constInt(ia.Index)
		if !ok {
			return nil, 0, false
		}
		c, ok := ia.X.(*ssa.Call)
		if !ok || !calleeIs(c, "(*regexp.Regexp).FindStringSubmatch") {
			return nil, 0, false
		}
		gl, ok := c.Call.Args[0].(*ssa.UnOp)
		if !ok {
			return nil, 0, false
		}
		g, ok := gl.X.(*ssa.Global)
		return g, i, ok
	}
	classOf := func(gs []reGroup) string {
		set := ""
		for _, g := range gs {
			set += g.Letter
		}
		switch set {
		case "YMD":
			return "date"
		case "HMS":
			return "time"
		}
		return "?" + set
	}
	nMul := 0
	for _, b := range um.Blocks {
		for _, in := range b.Instrs {
			bo, ok := in.(*ssa.BinOp)
			if !ok || bo.Op != token.MUL {
				continue
			}
			var k float64
			var other ssa.Value
			if f, ok := constNum(bo.Y); ok {
				k, other = f, bo.X
			} else if f, ok := constNum(bo.X); ok {
				k, other = f, bo.Y
			} else {
				continue
			}
			o := stripConv(other)
			ex, ok := o.(*ssa.Extract)
			if !ok {
				continue
			}
			pc, ok := ex.Tuple.(*ssa.Call)
			if !ok || !(calleeIs(pc, "strconv.Atoi") || calleeIs(pc, "strconv.ParseFloat") || calleeIs(pc, "strconv.ParseInt") || calleeIs(pc, "strconv.ParseUint")) {
				continue
			}
			g, gi, ok := groupOf(pc.Call.Args[0])
			cons := fmt.Sprintf("%s: component scaled by %g at %s", p.FnName(um), k, p.InstrPos(in))
			if !ok {
				r.Undecided(rule, cons, p.InstrPos(in), "the parsed text is not a constant-index submatch of a package-level regular expression")
				continue
			}
			pat, ok := patterns[g]
			if !ok {
				pat, ok = globalRegexp(p, g)
				if !ok {
					r.Undecided(rule, cons, p.InstrPos(in), "the pattern of "+g.Name()+" is not a single constant")
					continue
				}
				patterns[g] = pat
			}
			gs := regexpGroups(pat)
			if gs == nil || int(gi) >= len(gs) {
				r.Bad(rule, cons, p.InstrPos(in), fmt.Sprintf("submatch index %d is outside the %d groups of %s", gi, len(gs)-1, g.Name()))
				continue
			}
			nMul++
			key := rdKey{classOf(gs), gs[gi].Letter}
			reader[key] = append(reader[key], k)
			if finalStore != nil {
				r.Check(arithReach(finalStore.Val, bo, map[ssa.Value]bool{}), rule, fmt.Sprintf("%s: %s component %s is accumulated into the result", p.FnName(um), key.class, key.letter), p.InstrPos(in), "flows into the stored duration", "the parsed component is computed but never added to the result")
			}
			// the fractional seconds group admits a fraction only where the reader parses a float
			if calleeIs(pc, "strconv.Atoi") && strings.Contains(gs[gi].Body, `\.`) {
				r.Bad(rule, cons, p.InstrPos(in), "group "+gs[gi].Body+" admits a fraction but is parsed as an integer")
			}
		}
	}
	want := map[rdKey]float64{
		{"date", "Y"}: 365 * nsDay, {"date", "M"}: 30 * nsDay, {"date", "D"}: nsDay,
		{"time", "H"}: nsHour, {"time", "M"}: nsMinute, {"time", "S"}: nsSecond,
	}
	var keys []rdKey
	for k := range want {
		keys = append(keys, k)
	}
	sort.Slice(keys, func(i, j int) bool { return keys[i].class+keys[i].letter < keys[j].class+keys[j].letter })
	for _, k := range keys {
		got := reader[k]
		cons := fmt.Sprintf("%s: unit of the %s component %s", p.FnName(um), k.class, k.letter)
		r.Check(len(got) == 1 && got[0] == want[k], rule, cons, pos, fmt.Sprintf("%g ns", want[k]), fmt.Sprintf("the reader scales this component by %v ns, expected exactly one scaling by %g ns", got, want[k]))
	}
	for k := range reader {
		if _, ok := want[k]; !ok {
			r.Bad(rule, fmt.Sprintf("%s: component %s/%s", p.FnName(um), k.class, k.letter), pos, "a parsed component that belongs to no designator of the xsd:duration grammar")
		}
	}
	// sign
	if finalStore == nil {
		r.Bad(rule, p.FnName(um)+": result stored", pos, "no non-constant store of the result")
	} else {
		okSign := false
		var walk func(v ssa.Value, d int)
		walk = func(v ssa.Value, d int) {
			if d > 4 {
				return
			}
			switch x := v.(type) {
			case *ssa.ChangeType:
				walk(x.X, d+1)
			case *ssa.Convert:
				walk(x.X, d+1)
			case *ssa.BinOp:
				if x.Op == token.MUL {
					for _, op := range []ssa.Value{x.X, x.Y} {
						if ph, ok := op.(*ssa.Phi); ok && len(ph.Edges) == 2 {
							a, ok1 := constNum(ph.Edges[0])
							b, ok2 := constNum(ph.Edges[1])
							if ok1 && ok2 && a*b == -1 && a+b == 0 {
								// the -1 edge is taken exactly when the sign group is "-"
								for i, e := range ph.Edges {
									if f, _ := constNum(e); f == -1 {
										pb := ph.Block().Preds[i]
										if len(pb.Preds) == 1 {
											if iff, ok := pb.Preds[0].Instrs[len(pb.Preds[0].Instrs)-1].(*ssa.If); ok {
												if eq, ok := iff.Cond.(*ssa.BinOp); ok && eq.Op == token.EQL && pb.Preds[0].Succs[0] == pb {
													s, _ := constStr(eq.Y)
													if g, gi, ok := groupOf(eq.X); ok && s == "-" {
														if pat, ok := patterns[g]; ok {
															gs := regexpGroups(pat)
															if int(gi) < len(gs) && gs[gi].Body == "-?" {
																okSign = true
															}
														}
													}
												}
											}
										}
									}
								}
							}
						}
					}
				}
			}
		}
		walk(finalStore.Val, 0)
		r.Check(okSign, rule, p.FnName(um)+": the result is multiplied by -1 exactly when the sign group matched \"-\"", p.InstrPos(finalStore), "sign * out with sign = -1 iff match[sign] == \"-\"", "the stored duration is not sign*out with the sign taken from the (-?) group: negative durations do not round-trip")
	}

	// ---- writer table ----
	type wr struct {
		quo, rem float64
		pos      string
	}
	writer := map[string]wr{}
	var absPhi ssa.Value
	decomp := func(v ssa.Value) (base ssa.Value, quo, rem float64, ok bool) {
		v = stripConv(v)
		bo, isB := v.(*ssa.BinOp)
		if !isB {
			return nil, 0, 0, false
		}
		if bo.Op == token.QUO {
			q, okc := constNum(bo.Y)
			if !okc {
				return nil, 0, 0, false
			}
			inner := stripConv(bo.X)
			if ib, ok := inner.(*ssa.BinOp); ok && ib.Op == token.REM {
				rm, okr := constNum(ib.Y)
				if !okr {
					return nil, 0, 0, false
				}
				return stripConv(ib.X), q, rm, true
			}
			return inner, q, 0, true
		}
		if bo.Op == token.REM {
			rm, okr := constNum(bo.Y)
			if !okr {
				return nil, 0, 0, false
			}
			return stripConv(bo.X), 0, rm, true
		}
		return nil, 0, 0, false
	}
	for _, c := range methodCallsOn(mt, "fmt.Sprintf") {
		f, _ := constStr(c.Call.Args[0])
		vals := varargValues(c)
		cons := fmt.Sprintf("%s: Sprintf(%q)", p.FnName(mt), f)
		if len(vals) != 1 {
			r.Undecided(rule, cons, p.InstrPos(c), "not a single-operand format")
			continue
		}
		base, q, rm, ok := decomp(vals[0])
		if !ok {
			r.Bad(rule, cons, p.InstrPos(c), "the formatted operand is not an integer quotient/remainder of the duration by constant units")
			continue
		}
		if absPhi == nil {
			absPhi = base
		} else if absPhi != base {
			r.Bad(rule, cons, p.InstrPos(c), "the components are not all taken from the same (absolute) duration value")
		}
		key := ""
		switch f {
		case "%dH":
			key = "H"
		case "%dM":
			key = "M"
		case "%d", "%dS":
			key = "S"
		case ".%09d":
			key = "frac"
		default:
			r.Bad(rule, cons, p.InstrPos(c), "a format that is not one of the designators %dH, %dM, %d(S), .%09d")
			continue
		}
		writer[key] = wr{q, rm, p.InstrPos(c)}
		if key == "frac" {
			// trailing zeros only may be trimmed
			okTrim := false
			for _, ref := range *c.Referrers() {
				if tc, ok := ref.(*ssa.Call); ok && calleeIs(tc, "strings.TrimRight") {
					if s, _ := constStr(tc.Call.Args[1]); s == "0" {
						okTrim = true
					}
				} else if _, isB := ref.(*ssa.BinOp); isB {
					okTrim = true // untrimmed is exact as well
				}
			}
			r.Check(okTrim, rule, cons+": only trailing zeros are trimmed", p.InstrPos(c), "TrimRight(..., \"0\")", "the fraction digits are post-processed by something other than trimming trailing zeros")
		}
	}
	wantW := map[string]wr{"H": {nsHour, 0, ""}, "M": {nsMinute, nsHour, ""}, "S": {nsSecond, nsMinute, ""}, "frac": {0, nsSecond, ""}}
	for _, k := range []string{"H", "M", "S", "frac"} {
		w, ok := writer[k]
		cons := fmt.Sprintf("%s: component %s", p.FnName(mt), k)
		ww := wantW[k]
		r.Check(ok && w.quo == ww.quo && w.rem == ww.rem, rule, cons, p.Pos(mt.Pos()), fmt.Sprintf("(d %% %g) / %g", ww.rem, ww.quo), fmt.Sprintf("the writer emits (d %% %g) / %g [present=%v], expected (d %% %g) / %g", w.rem, w.quo, ok, ww.rem, ww.quo))
		if k != "frac" && ok {
			rk := reader[rdKey{"time", k}]
			r.Check(len(rk) == 1 && rk[0] == w.quo, rule, fmt.Sprintf("writer and reader agree on the unit of %s", k), w.pos, fmt.Sprintf("%g ns on both sides", w.quo), fmt.Sprintf("writer divides by %g ns, reader multiplies by %v ns", w.quo, rk))
		}
	}
	// absolute value and sign prefix: phi(d, -d) with the negated edge taken under d < 0 and the "-" prefix added there
	okAbs := false
	unsignedMag := false
	negPos := p.Pos(mt.Pos())
	isParam := func(v ssa.Value) bool { return stripConv(v) == ssa.Value(mt.Params[0]) }
	if ph, ok := absPhi.(*ssa.Phi); ok && len(ph.Edges) == 2 {
		for i, e := range ph.Edges {
			if !isParam(ph.Edges[1-i]) {
				continue
			}
			isNeg := false
			var negT types.Type
			switch x := e.(type) {
			case *ssa.BinOp: // d * -1
				if f, _ := constNum(x.Y); x.Op == token.MUL && f == -1 && isParam(x.X) {
					isNeg, negT = true, x.Type()
				}
			case *ssa.UnOp: // -d
				if x.Op == token.SUB && isParam(x.X) {
					isNeg, negT = true, x.Type()
				}
			}
			if !isNeg {
				continue
			}
			if in, ok := e.(ssa.Instruction); ok {
				negPos = p.InstrPos(in)
			}
			if bt, ok := negT.Underlying().(*types.Basic); ok && bt.Info()&types.IsUnsigned != 0 {
				unsignedMag = true
			}
			// taken under d < 0 and the "-" prefix is added in the same block
			pb := ph.Block().Preds[i]
			// the negated edge is taken exactly under d < 0 (whichever way the test is written)
			neg := false
			{
				an := NewAnalysis(p)
				fcn := an.Ctx(mt)
				fcn.ensureConds()
				reach := an.B.And(fcn.Cond(pb), fcn.edgeCond(pb, ph.Block()))
				for _, nm := range an.B.Support(reach) {
					ai := an.Atoms[nm]
					if ai == nil || ai.Kind != "lt" || len(ai.Vals) != 2 {
						continue
					}
					if z, okz := constNum(ai.Vals[1]); okz && z == 0 && isParam(ai.Vals[0]) && an.B.Implies(reach, an.B.Var(nm)) {
						// and the other edge under its negation
						po := ph.Block().Preds[1-i]
						other := an.B.And(fcn.Cond(po), fcn.edgeCond(po, ph.Block()))
						if an.B.Implies(other, an.B.Not(an.B.Var(nm))) {
							neg = true
						}
					}
				}
			}
			// the "-" prefix is added on that branch only: "-" + x in the block, or a text phi at the merge whose
			// operand from this branch starts with "-" and whose other operand does not
			pre := false
			for _, in := range pb.Instrs {
				if cat, ok := in.(*ssa.BinOp); ok && cat.Op == token.ADD {
					if s, _ := constStr(cat.X); s == "-" {
						pre = true
					}
				}
			}
			for _, in := range ph.Block().Instrs {
				tp, ok := in.(*ssa.Phi)
				if !ok || !isStringType(tp.Type()) || len(tp.Edges) != 2 {
					continue
				}
				mine, okm := constStr(tp.Edges[i])
				theirs, oko := constStr(tp.Edges[1-i])
				if okm && oko && strings.HasPrefix(mine, "-") && !strings.HasPrefix(theirs, "-") && strings.TrimPrefix(mine, "-") == theirs {
					pre = true
				}
			}
			okAbs = neg && pre
		}
	}
	r.Check(unsignedMag, rule, p.FnName(mt)+": the magnitude of a negative duration is taken in unsigned arithmetic", negPos, "-uint64(d)", "the duration is negated in signed 64-bit arithmetic: the minimum duration has no positive counterpart, stays negative, and is written as \"-PT\", which does not parse")
	r.Check(okAbs, rule, p.FnName(mt)+": negative durations are written as \"-\" followed by the components of -d", p.Pos(mt.Pos()), "d<0: d*=-1 and \"-\" prefix on the same branch", "the components are not taken from |d| with a \"-\" prefix exactly when d < 0")
	// no floating point on the writer side
	nf := 0
	for _, b := range mt.Blocks {
		for _, in := range b.Instrs {
			if v, ok := in.(ssa.Value); ok {
				if bt, ok := v.Type().Underlying().(*types.Basic); ok && bt.Info()&types.IsFloat != 0 {
					nf++
					r.Bad(rule, fmt.Sprintf("%s: floating-point value %s", p.FnName(mt), v.Name()), p.InstrPos(in), "the writer computes a component in floating point; the decomposition is exact only in integer arithmetic")
				}
			}
		}
	}
	r.Check(nf == 0, rule, p.FnName(mt)+": integer arithmetic only", p.Pos(mt.Pos()), "no floating-point value", fmt.Sprintf("%d floating-point values", nf))
	_ = nMul
}

// ---- C15.field-local: post-decode normalisation writes a field only from the same field ----

// checkNormaliserIdentity: the endpoint-location normaliser returns its argument unchanged, or the empty string, on success.
func checkNormaliserIdentity(r *Report, p *Prog, nf *ssa.Function, rule string) {
	_, locIdx := endpointParamRoles(p, nf)
	a := NewAnalysis(p)
	fc := a.Ctx(nf)
	for _, ret := range fc.Returns() {
		if !isNilConst(Resolve(ret.Results[1])) {
			continue
		}
		okR := true
		var got []string
		for _, lf := range rootLeaves(Resolve(ret.Results[0]), map[ssa.Value]bool{}) {
			if lf == ssa.Value(nf.Params[locIdx]) || isEmptyStringConst(lf) {
				continue
			}
			if al, ok := lf.(*ssa.Alloc); ok {
				// a spilled parameter
				all := true
				for _, ref := range *al.Referrers() {
					if st, ok := ref.(*ssa.Store); ok && st.Addr == ssa.Value(al) && st.Val != ssa.Value(nf.Params[locIdx]) && !isEmptyStringConst(st.Val) {
						all = false
					}
				}
				if all {
					continue
				}
			}
			okR = false
			got = append(got, fc.AP(lf))
		}
		r.Check(okR, rule, fmt.Sprintf("%s: a successful result is the location itself or empty [%s]", p.FnName(nf), p.InstrPos(ret)), p.InstrPos(ret), "returns the parameter or \"\"", "returns "+strings.Join(got, ", ")+": an accepted endpoint location is rewritten when metadata is parsed, so re-parsed metadata no longer carries the URL its owner insists on")
	}
}

// endpointNormalisers: module functions (string, string) -> (string, error) called (transitively) by an UnmarshalXML method.
func endpointNormalisers(p *Prog) map[*ssa.Function]bool {
	norm := map[*ssa.Function]bool{}
	for _, fn := range p.modFns {
		if fn.Name() != "UnmarshalXML" || fn.Signature.Recv() == nil || !p.InLibrary(fn) {
			continue
		}
		seen := map[*ssa.Function]bool{fn: true}
		work := []*ssa.Function{fn}
		for len(work) > 0 {
			f := work[0]
			work = work[1:]
			for _, b := range f.Blocks {
				for _, in := range b.Instrs {
					c, ok := in.(*ssa.Call)
					if !ok || c.Call.StaticCallee() == nil || !p.InLibrary(c.Call.StaticCallee()) {
						continue
					}
					sc := c.Call.StaticCallee()
					sg := sc.Signature
					if sg.Recv() == nil && sg.Params().Len() == 2 && sg.Results().Len() == 2 && isStringType(sg.Params().At(0).Type()) && isStringType(sg.Params().At(1).Type()) && isStringType(sg.Results().At(0).Type()) && returnsError(sg) {
						norm[sc] = true
					} else if !seen[sc] && sc.Name() != "UnmarshalXML" {
						seen[sc] = true
						work = append(work, sc)
					}
				}
			}
		}
	}
	return norm
}

func checkFieldLocal(r *Report, p *Prog) {
	rule := "C15.field-local"
	// the normalisers: module functions (string, string) -> (string, error) called by an UnmarshalXML method
	norm := endpointNormalisers(p)
	if len(norm) == 0 {
		panic(unresolved{"endpoint location normaliser (func(string,string)(string,error) called from UnmarshalXML)"})
	}
	for _, nf := range sortedFns(p, norm) {
		r.Fn(p.FnName(nf))
		bindIdx, locIdx := endpointParamRoles(p, nf)
		checkNormaliserIdentity(r, p, nf, rule)
		// every binding the package itself names keeps its location: the normaliser compares its binding parameter with
		// each exported binding constant (anything it does not recognise is blanked)
		{
			at := NewAnalysis(p)
			at.Inline = func(f *ssa.Function) bool { return p.InLibrary(f) && isPredicate(f) }
			tb := NewTable(r, at, nf)
			seenB := map[string]bool{}
			var prefixes []string
			for _, ai := range tb.atomsIn() {
				if ai.Kind == "call" && len(ai.Args) == 3 && ai.Args[0] == "strings.HasPrefix" && ai.Args[1] == "p:"+nf.Params[bindIdx].Name() && strings.HasPrefix(ai.Args[2], `c:"`) {
					prefixes = append(prefixes, strings.Trim(strings.TrimPrefix(ai.Args[2], "c:"), `"`))
				}
				if ai.Kind != "eq" {
					continue
				}
				for i, ar := range ai.Args {
					if ar == "p:"+nf.Params[bindIdx].Name() && strings.HasPrefix(ai.Args[1-i], `c:"`) {
						seenB[strings.Trim(strings.TrimPrefix(ai.Args[1-i], "c:"), `"`)] = true
					}
				}
			}
			sc := p.ByPath[modPath].Types.Scope()
			for _, nm := range sc.Names() {
				c, ok := sc.Lookup(nm).(*types.Const)
				if !ok || !c.Exported() || c.Val().Kind() != constant.String {
					continue
				}
				v := constant.StringVal(c.Val())
				if !strings.Contains(v, ":bindings:") {
					continue
				}
				for _, pf := range prefixes {
					if strings.HasPrefix(v, pf) {
						seenB[v] = true
					}
				}
				r.Check(seenB[v], rule, fmt.Sprintf("%s: endpoints of binding %s keep their location", p.FnName(nf), nm), p.Pos(nf.Pos()), "compared with the binding parameter", "the normaliser never compares its binding with "+nm+" ("+v+"): endpoints of that binding fall into the unknown-binding arm and their http(s) locations are blanked on every parse")
			}
		}
		// every call stores the result back into the field the argument was read from
		for _, cs := range p.StaticCallersOf(nf) {
			c, ok := cs.Instr.(*ssa.Call)
			if !ok {
				continue
			}
			caller := c.Parent()
			r.Fn(p.FnName(caller))
			ac := NewAnalysis(p)
			cc := ac.Ctx(caller)
			src := strings.TrimSuffix(strings.TrimSuffix(cc.AP(c.Call.Args[locIdx]), ".*"), "*")
			var dsts []string
			for _, ref := range *c.Referrers() {
				ex, ok := ref.(*ssa.Extract)
				if !ok || ex.Index != 0 {
					continue
				}
				for _, r2 := range *ex.Referrers() {
					st, ok := r2.(*ssa.Store)
					if !ok || st.Val != ssa.Value(ex) {
						continue
					}
					if al, ok := st.Addr.(*ssa.Alloc); ok {
						// result kept in a local: where does the local (or its address) go?
						for _, r3 := range *al.Referrers() {
							switch y := r3.(type) {
							case *ssa.Store:
								if y.Val == ssa.Value(al) {
									dsts = append(dsts, addrAP(cc, y.Addr))
								}
							case *ssa.UnOp:
								for _, r4 := range *y.Referrers() {
									if s4, ok := r4.(*ssa.Store); ok && s4.Val == ssa.Value(y) {
										dsts = append(dsts, addrAP(cc, s4.Addr))
									}
								}
							}
						}
						continue
					}
					dsts = append(dsts, addrAP(cc, st.Addr))
				}
			}
			cons := fmt.Sprintf("%s: normalised %s is stored back into the same field", p.FnName(caller), shortSuffix(src))
			if len(dsts) == 0 {
				r.Info(rule, cons, p.InstrPos(c), "the normalised value is only compared, not stored (C14.endpoint judges whether every endpoint attribute is normalised)")
				continue
			}
			okD := true
			for _, d := range dsts {
				if d != src {
					okD = false
				}
			}
			r.Check(okD, rule, cons, p.InstrPos(c), "destination "+strings.Join(dsts, ", "), fmt.Sprintf("the value normalised from %s is stored into %v: one field is overwritten from another (or the result is dropped)", src, dsts))
		}
	}
}

// addrAP: the access path of the location addr points at.
func addrAP(fc *FuncCtx, addr ssa.Value) string {
	return strings.TrimSuffix(strings.TrimSuffix(fc.AP(addr), ".*"), "*")
}

// ---- C15.tags: encoding/xml drops fields silently in three situations; none may occur in the metadata types ----

type xmlKey struct{ mode, ns, name string }

func xmlFieldKey(st *types.Struct, i int) (xmlKey, bool) {
	f := st.Field(i)
	tag := reflect.StructTag(st.Tag(i)).Get("xml")
	if tag == "-" {
		return xmlKey{"skip", "", f.Name()}, true
	}
	name, opts := tag, ""
	if j := strings.Index(tag, ","); j >= 0 {
		name, opts = tag[:j], tag[j+1:]
	}
	mode := "element"
	for _, o := range strings.Split(opts, ",") {
		switch o {
		case "attr", "chardata", "cdata", "innerxml", "comment", "any":
			if mode == "any" && o == "attr" || mode == "attr" && o == "any" {
				mode = "anyattr"
			} else {
				mode = o
			}
		}
	}
	ns := ""
	if j := strings.LastIndex(name, " "); j >= 0 {
		ns, name = name[:j], name[j+1:]
	}
	if name == "" && (mode == "element" || mode == "attr") {
		name = f.Name()
	}
	return xmlKey{mode, ns, name}, false
}

// shadowAllowed: different-depth name clashes confirmed by reading; one named pair each.
var shadowAllowed = map[string]string{
	"IDPSSODescriptor: SSODescriptor.ArtifactResolutionServices / ArtifactResolutionServices": "the outer field shadows the embedded one for Go selectors and for encoding/xml alike (shallower wins, nothing is dropped from what the API exposes); the embedded field is reachable only by naming SSODescriptor explicitly and is never marshalled - recorded as an API quirk, not part of the value space the property ranges over",
}

func checkXMLTags(r *Report, p *Prog) {
	rule := "C15.tags"
	roots := []string{"EntityDescriptor", "EntitiesDescriptor"}
	seen := map[*types.Named]bool{}
	var order []*types.Named
	var add func(t types.Type)
	add = func(t types.Type) {
		switch x := t.(type) {
		case *types.Pointer:
			add(x.Elem())
		case *types.Slice:
			add(x.Elem())
		case *types.Named:
			if seen[x] || x.Obj().Pkg() == nil || x.Obj().Pkg().Path() != modPath {
				return
			}
			st, ok := x.Underlying().(*types.Struct)
			if !ok {
				return
			}
			seen[x] = true
			order = append(order, x)
			for i := 0; i < st.NumFields(); i++ {
				add(st.Field(i).Type())
			}
		}
	}
	for _, n := range roots {
		t := p.NamedType("saml", n)
		if t == nil {
			panic(unresolved{"type saml." + n})
		}
		add(t)
	}
	sort.Slice(order, func(i, j int) bool { return order[i].Obj().Name() < order[j].Obj().Name() })
	for _, n := range order {
		st := n.Underlying().(*types.Struct)
		pos := p.Pos(n.Obj().Pos())
		keys := map[xmlKey][]string{}
		var bad []string
		nf := 0
		var visit func(st *types.Struct, prefix string, depth int)
		visit = func(st *types.Struct, prefix string, depth int) {
			for i := 0; i < st.NumFields(); i++ {
				f := st.Field(i)
				if f.Name() == "XMLName" {
					continue
				}
				nf++
				if f.Embedded() && reflect.StructTag(st.Tag(i)).Get("xml") == "" && depth < 4 {
					// encoding/xml flattens untagged embedded structs
					if est, ok := derefType(f.Type()).Underlying().(*types.Struct); ok {
						visit(est, prefix+f.Name()+".", depth+1)
						continue
					}
				}
				k, skip := xmlFieldKey(st, i)
				if skip {
					bad = append(bad, prefix+f.Name()+" is tagged xml:\"-\"")
					continue
				}
				if !f.Exported() {
					bad = append(bad, prefix+f.Name()+" is unexported")
					continue
				}
				if k.mode == "element" || k.mode == "attr" {
					// encoding/xml: same mode, same name, and not two distinct non-empty namespaces => conflict;
					// at equal depth both are dropped, otherwise the deeper one is
					for ok, names := range keys {
						if ok.mode == k.mode && ok.name == k.name && !(ok.ns != "" && k.ns != "" && ok.ns != k.ns) {
							pair := n.Obj().Name() + ": " + names[0] + " / " + prefix + f.Name()
							if why, ok := shadowAllowed[pair]; ok && strings.Count(names[0], ".") != strings.Count(prefix+f.Name(), ".") {
								r.Info(rule, pair+" map to the same "+k.mode+" "+k.name, pos, why)
								continue
							}
							bad = append(bad, fmt.Sprintf("%s and %s both map to %s %q", names[0], prefix+f.Name(), k.mode, k.name))
						}
					}
				}
				keys[k] = append(keys[k], prefix+f.Name())
			}
		}
		visit(st, "", 0)
		r.Check(len(bad) == 0, rule, fmt.Sprintf("%s: every field is carried by encoding/xml", n.Obj().Name()), pos, fmt.Sprintf("%d fields (embedded structs flattened), exported, untagged \"-\", no two with the same XML name and kind", nf), strings.Join(bad, "; ")+": encoding/xml silently omits such fields, so the value does not survive a marshal/unmarshal generation")
	}
}

// tableStrings: v is an element of a package-level []string that only the package initialiser writes; returns its elements.
func tableStrings(p *Prog, v ssa.Value) ([]string, bool) {
	var g *ssa.Global
	seen := map[ssa.Value]bool{}
	var find func(v ssa.Value, d int)
	find = func(v ssa.Value, d int) {
		if d > 8 || seen[v] || g != nil {
			return
		}
		seen[v] = true
		switch x := v.(type) {
		case *ssa.UnOp:
			if gg, ok := x.X.(*ssa.Global); ok {
				g = gg
				return
			}
			find(x.X, d+1)
		case *ssa.IndexAddr:
			find(x.X, d+1)
		case *ssa.Index:
			find(x.X, d+1)
		case *ssa.Extract:
			find(x.Tuple, d+1)
		case *ssa.Next:
			find(x.Iter, d+1)
		case *ssa.Range:
			find(x.X, d+1)
		case *ssa.Phi:
			for _, e := range x.Edges {
				find(e, d+1)
			}
		}
	}
	find(v, 0)
	if g == nil {
		return nil, false
	}
	for _, fn := range p.modFns {
		if fn.Name() == "init" && fn.Pkg == g.Pkg {
			continue
		}
		for _, b := range fn.Blocks {
			for _, in := range b.Instrs {
				if st, ok := in.(*ssa.Store); ok && rootOfAddr(st.Addr) == ssa.Value(g) {
					return nil, false
				}
			}
		}
	}
	init := g.Pkg.Func("init")
	if init == nil {
		return nil, false
	}
	var out []string
	n := 0
	for _, b := range init.Blocks {
		for _, in := range b.Instrs {
			st, ok := in.(*ssa.Store)
			if !ok || st.Addr != ssa.Value(g) {
				continue
			}
			n++
			sl, ok := st.Val.(*ssa.Slice)
			if !ok {
				return nil, false
			}
			al, ok := sl.X.(*ssa.Alloc)
			if !ok {
				return nil, false
			}
			for _, ref := range *al.Referrers() {
				ia, ok := ref.(*ssa.IndexAddr)
				if !ok {
					continue
				}
				for _, r2 := range *ia.Referrers() {
					if s2, ok := r2.(*ssa.Store); ok && s2.Addr == ssa.Value(ia) {
						c, ok := constStr(s2.Val)
						if !ok {
							return nil, false
						}
						out = append(out, c)
					}
				}
			}
		}
	}
	if n == 0 {
		// an array variable: the initialiser stores its elements one by one
		if _, isArr := derefType(g.Type()).Underlying().(*types.Array); isArr {
			for _, b := range init.Blocks {
				for _, in := range b.Instrs {
					ia, ok := in.(*ssa.IndexAddr)
					if !ok || ia.X != ssa.Value(g) {
						continue
					}
					for _, r2 := range *ia.Referrers() {
						if s2, ok := r2.(*ssa.Store); ok && s2.Addr == ssa.Value(ia) {
							c, ok := constStr(s2.Val)
							if !ok {
								return nil, false
							}
							out = append(out, c)
						}
					}
				}
			}
			return out, len(out) > 0
		}
	}
	return out, n == 1 && len(out) > 0
}

// errLeaves: does the error value v have a nil leaf directly (direct) or only as the entry value of a loop-header phi (viaLoop)?
func errLeaves(v ssa.Value) (direct, viaLoop bool) {
	seen := map[ssa.Value]bool{}
	var walk func(v ssa.Value, loopEntry bool)
	walk = func(v ssa.Value, loopEntry bool) {
		if seen[v] {
			return
		}
		seen[v] = true
		switch x := v.(type) {
		case *ssa.Const:
			if x.IsNil() {
				if loopEntry {
					viaLoop = true
				} else {
					direct = true
				}
			}
		case *ssa.Phi:
			for i, e := range x.Edges {
				pred := x.Block().Preds[i]
				isHeader := false
				for _, pp := range x.Block().Preds {
					if isBackEdge(pp, x.Block()) {
						isHeader = true
					}
				}
				walk(e, isHeader && !isBackEdge(pred, x.Block()))
			}
		case *ssa.UnOp:
			if al, ok := x.X.(*ssa.Alloc); ok {
				for _, ref := range *al.Referrers() {
					if st, ok := ref.(*ssa.Store); ok && st.Addr == ssa.Value(al) {
						walk(st.Val, false)
					}
				}
			}
		}
	}
	walk(v, false)
	return
}

// emptyByteSlice: nil, or a slice made with constant length 0 (AppendFormat into it yields just the formatted text).
func emptyByteSlice(v ssa.Value) bool {
	switch x := v.(type) {
	case *ssa.Const:
		return x.IsNil()
	case *ssa.MakeSlice:
		k, ok := x.Len.(*ssa.Const)
		return ok && k.Value != nil && k.Int64() == 0
	case *ssa.Slice:
		// make([]byte, 0, K) with constant K: new [K]byte sliced [:0]
		if al, ok := x.X.(*ssa.Alloc); ok && al.Comment == "makeslice" && x.Low == nil {
			k, ok := x.High.(*ssa.Const)
			return ok && k.Value != nil && k.Int64() == 0
		}
	}
	return false
}

// structResultField: v reads a field of the struct a module function returned (directly, or through the local the result
// was assigned to); when exactly one return of that function gives the field a value other than its zero value, that
// value (in the callee). nil otherwise.
type resultFieldInfo struct {
	val  ssa.Value   // the value the successful return gives the field (in the callee)
	call *ssa.Call   // the call whose struct result is read
	al   *ssa.Alloc  // the caller's local holding the result (nil when read directly)
	ret  *ssa.Return // the callee's return that sets the field
}

func structResultField(p *Prog, v ssa.Value) ssa.Value {
	if i := structResultFieldInfo(p, v); i != nil {
		return i.val
	}
	return nil
}

func structResultFieldInfo(p *Prog, v ssa.Value) *resultFieldInfo {
	var call *ssa.Call
	var holder *ssa.Alloc
	fld := -1
	switch x := v.(type) {
	case *ssa.Field:
		call, _ = x.X.(*ssa.Call)
		fld = x.Field
	case *ssa.UnOp:
		if fa, ok := x.X.(*ssa.FieldAddr); ok && x.Op == token.MUL {
			if al, ok := fa.X.(*ssa.Alloc); ok {
				if sv := wholeStore(al); sv != nil {
					call, _ = sv.(*ssa.Call)
					fld = fa.Field
					holder = al
				}
			}
		}
	}
	if call == nil || fld < 0 {
		return nil
	}
	sc := call.Call.StaticCallee()
	if sc == nil || len(sc.Blocks) == 0 || !p.InLibrary(sc) || sc.Signature.Results().Len() != 1 {
		return nil
	}
	var found ssa.Value
	var foundRet *ssa.Return
	for _, ret := range returnsOf(sc) {
		alts := retAlts(ret, -fld-1)
		if len(alts) == 0 {
			// a field of struct type the returned literal does not mention: its zero value
			if len(ret.Results) == 1 {
				if ld, ok := ret.Results[0].(*ssa.UnOp); ok && ld.Op == token.MUL {
					if al, ok := ld.X.(*ssa.Alloc); ok && onlyFieldAccess(al) && literalFieldValue(al, []int{fld}, 0) == nil {
						continue
					}
				}
			}
			return nil
		}
		for _, a := range alts {
			if c, ok := a.v.(*ssa.Const); ok && (c.Value == nil || c.IsNil()) {
				continue
			}
			if isZeroTime(a.v) {
				continue
			}
			if found != nil && found != a.v {
				return nil
			}
			found, foundRet = a.v, ret
		}
	}
	if found == nil {
		return nil
	}
	return &resultFieldInfo{found, call, holder, foundRet}
}

// paramConstStrings: v is (a string conversion of) a parameter of an unexported module function all of whose static call
// sites pass a string constant for it: those constants.
func paramConstStrings(p *Prog, v ssa.Value) ([]string, bool) {
	for i := 0; i < 3; i++ {
		switch x := v.(type) {
		case *ssa.Convert:
			v = x.X
			continue
		case *ssa.ChangeType:
			v = x.X
			continue
		}
		break
	}
	prm, ok := v.(*ssa.Parameter)
	if !ok {
		return nil, false
	}
	fn := prm.Parent()
	if fn.Object() == nil || fn.Object().Exported() {
		return nil, false
	}
	idx := -1
	for i, q := range fn.Params {
		if q == prm {
			idx = i
		}
	}
	sites := p.StaticCallersOf(fn)
	if idx < 0 || len(sites) == 0 {
		return nil, false
	}
	var out []string
	for _, cs := range sites {
		arg := cs.Arg(idx)
		if arg == nil {
			return nil, false
		}
		s, ok := constStr(arg)
		if !ok {
			return nil, false
		}
		out = append(out, s)
	}
	return out, true
}

// resultArmOK: the caller stores, in block b, the instant field of the result struct described by ri, whose value comes
// from the time.Parse call of ex inside the helper. "" when (a) in the helper the return that sets the field is reached
// only under that call's err == nil, (b) every other return of the helper puts a non-nil error into the struct's error
// field, and (c) the caller's block is reached only under that error field == nil.
func resultArmOK(p *Prog, fu *FuncCtx, b *ssa.BasicBlock, ri *resultFieldInfo, ex *ssa.Extract) string {
	helper := ri.call.Call.StaticCallee()
	st, ok := helper.Signature.Results().At(0).Type().Underlying().(*types.Struct)
	if !ok {
		return "the helper's result is not a struct"
	}
	errFld := -1
	for i := 0; i < st.NumFields(); i++ {
		if types.TypeString(st.Field(i).Type(), nil) == "error" {
			errFld = i
		}
	}
	if errFld < 0 {
		return "the helper's result carries no error"
	}
	ha := NewAnalysis(p)
	hfc := ha.Ctx(helper)
	hfc.ensureConds()
	nm := "isnil(" + hfc.AP(ex.Tuple) + "#1)"
	if !(ha.B.HasVar(nm) && hfc.Implied(ri.ret.Block(), ha.B.Var(nm))) {
		return "in " + shortFn(helper) + " the parsed value is handed back although time.Parse reported an error"
	}
	for _, ret := range returnsOf(helper) {
		if ret == ri.ret {
			continue
		}
		alts := retAlts(ret, -errFld-1)
		if len(alts) == 0 {
			return "a return of " + shortFn(helper) + " could not be read"
		}
		for _, a := range alts {
			if hfc.NonNil(a.v) != ha.B.True && !ha.B.Implies(ha.B.And(hfc.Cond(ret.Block()), hfc.altCond(a)), hfc.NonNil(a.v)) {
				return shortFn(helper) + " can return without an instant and without an error"
			}
		}
	}
	// the caller's guard: isnil(<result>.err) implied at b
	B := fu.A.B
	for _, name := range B.Support(fu.Cond(b)) {
		ai := fu.A.Atoms[name]
		if ai == nil || ai.Kind != "isnil" || len(ai.Vals) == 0 || !fu.Implied(b, B.Var(name)) {
			continue
		}
		switch x := ai.Vals[0].(type) {
		case *ssa.UnOp:
			if fa, ok := x.X.(*ssa.FieldAddr); ok && fa.Field == errFld && ri.al != nil && fa.X == ssa.Value(ri.al) {
				return ""
			}
		case *ssa.Field:
			if x.Field == errFld && x.X == ssa.Value(ri.call) {
				return ""
			}
		}
	}
	return "the parsed value is stored although " + shortFn(helper) + " reported an error"
}

// checkDecodersPure: what an UnmarshalXML method of the root package stores into its receiver is a function of the element
// it decodes, and of nothing else. (a) the method and its unexported helpers read no clock (TimeNow, Clock), no random
// source and no package-level variable the library writes: a missing IssueInstant filled in with "now" is fresh by
// construction. (b) the receiver is handed, whole, to no module function: a post-decode step that completes the object
// (a group's validity copied into its members) makes parse(marshal(x)) differ from x. typeOK selects the types.
func checkDecodersPure(r *Report, p *Prog, rule string, typeOK func(string) bool) {
	written := moduleWrittenGlobals(p)
	n := 0
	for _, fn := range p.modFns {
		if !p.InLibrary(fn) || fn.Pkg == nil || fn.Pkg.Pkg.Path() != modPath || fn.Name() != "UnmarshalXML" || fn.Signature.Recv() == nil || len(fn.Params) == 0 {
			continue
		}
		nm := namedOf(fn.Signature.Recv().Type())
		if nm == nil || !typeOK(nm.Obj().Name()) {
			continue
		}
		n++
		r.Fn(p.FnName(fn))
		cons := p.FnName(fn) + ": the decoded value depends on the element only"
		bad := ""
		for _, f := range helperRegion(p, fn, 2) {
			for _, b := range f.Blocks {
				for _, in := range b.Instrs {
					for _, op := range in.Operands(nil) {
						if op == nil || *op == nil {
							continue
						}
						g, ok := (*op).(*ssa.Global)
						if !ok || g.Pkg == nil || !strings.HasPrefix(g.Pkg.Pkg.Path(), modPath) {
							continue
						}
						_, isW := written[g]
						if isW || g.Name() == "TimeNow" || g.Name() == "Clock" || g.Name() == "RandReader" {
							bad = firstNonEmpty(bad, "reads "+g.Name()+" at "+p.InstrPos(in))
						}
					}
					if c, ok := in.(ssa.CallInstruction); ok && f == fn {
						if sc := c.Common().StaticCallee(); sc != nil && p.InLibrary(sc) && sc.Name() != "UnmarshalXML" {
							for k, a := range c.Common().Args {
								if a == ssa.Value(fn.Params[0]) && k < len(sc.Params) {
									if at := receiverSelfCopy(p, sc, sc.Params[k], map[*ssa.Function]bool{}); at != "" {
										bad = firstNonEmpty(bad, "hands its receiver to "+shortFn(sc)+" at "+p.InstrPos(in)+", which fills one part of it from another ("+at+")")
									}
								}
							}
						}
						if c.Common().StaticCallee() != nil && (c.Common().StaticCallee().String() == "time.Now" || c.Common().StaticCallee().String() == "time.Since") {
							bad = firstNonEmpty(bad, "reads the wall clock at "+p.InstrPos(in))
						}
					}
				}
			}
		}
		if at := receiverSelfCopy(p, fn, fn.Params[0], map[*ssa.Function]bool{fn: true}); at != "" {
			bad = firstNonEmpty(bad, "fills one part of its receiver from another ("+at+")")
		}
		r.Check(bad == "", rule, cons, p.Pos(fn.Pos()), "no clock, random source or library-written state; no part of the receiver is filled from another part of it", "the decoder "+bad+": the value it produces is not what the element says (a default taken from the moment of parsing, or data copied in from elsewhere), so a generated document does not re-parse to an equal value and a check on the decoded field is satisfied by construction")
	}
	if n == 0 {
		r.Undecided(rule, "UnmarshalXML methods of the selected types", "-", "none found")
	}
}

// receiverSelfCopy finds, in fn and the library functions it hands the
// value to, a store whose address and whose value are both reached from the
// parameter recv: one part of the decoded value filled from another part.
func receiverSelfCopy(p *Prog, fn *ssa.Function, recv *ssa.Parameter, seen map[*ssa.Function]bool) string {
	memo := map[ssa.Value]int{}
	var rooted func(v ssa.Value) bool
	rooted = func(v ssa.Value) bool {
		if v == ssa.Value(recv) {
			return true
		}
		if s, ok := memo[v]; ok {
			return s == 2
		}
		memo[v] = 1
		res := false
		switch x := v.(type) {
		case *ssa.FieldAddr:
			res = rooted(x.X)
		case *ssa.IndexAddr:
			res = rooted(x.X)
		case *ssa.Field:
			res = rooted(x.X)
		case *ssa.Index:
			res = rooted(x.X)
		case *ssa.UnOp:
			res = rooted(x.X)
		case *ssa.Slice:
			res = rooted(x.X)
		case *ssa.Convert:
			res = rooted(x.X)
		case *ssa.ChangeType:
			res = rooted(x.X)
		case *ssa.MakeInterface:
			res = rooted(x.X)
		case *ssa.Lookup:
			res = rooted(x.X)
		case *ssa.Extract:
			res = rooted(x.Tuple)
		case *ssa.Next:
			res = rooted(x.Iter)
		case *ssa.Range:
			res = rooted(x.X)
		case *ssa.Phi:
			for _, e := range x.Edges {
				if rooted(e) {
					res = true
				}
			}
		}
		if res {
			memo[v] = 2
		}
		return res
	}
	for _, b := range fn.Blocks {
		for _, in := range b.Instrs {
			switch x := in.(type) {
			case *ssa.Store:
				if _, isAlloc := x.Addr.(*ssa.Alloc); isAlloc {
					continue
				}
				if rooted(x.Addr) && rooted(x.Val) {
					return p.InstrPos(in)
				}
			case ssa.CallInstruction:
				sc := x.Common().StaticCallee()
				if sc == nil || !p.InLibrary(sc) || seen[sc] || sc.Name() == "UnmarshalXML" {
					continue
				}
				for k, a := range x.Common().Args {
					if k < len(sc.Params) && rooted(a) && isPointerLike(a.Type()) {
						seen[sc] = true
						if at := receiverSelfCopy(p, sc, sc.Params[k], seen); at != "" {
							return at
						}
					}
				}
			}
		}
	}
	return ""
}

func isPointerLike(t types.Type) bool {
	switch t.Underlying().(type) {
	case *types.Pointer, *types.Slice, *types.Map:
		return true
	}
	return false
}
