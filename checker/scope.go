package main

import (
	"go/types"
	"sort"
	"strings"

	"golang.org/x/tools/go/ssa"
)

// Roles and scopes shared by several properties. Everything is resolved from program objects:
// exported API by its types.Object, unexported helpers by what they call.

type Scope struct {
	P       *Prog
	Consume map[*ssa.Function]bool // reachable from the message-consuming entry points (module edges only)
	Respond map[*ssa.Function]bool // IdP request->response path (consumes the request and registered metadata)
	Decrypt map[*ssa.Function]bool // reachable from xmlenc.Decrypt and the SP's decrypt step
	Schema  map[*types.Named]bool  // struct types reachable from xml.Unmarshal targets
	Entries []*ssa.Function
	cgKind  string
}

// cgKindFor: both tiers use the VTA-refined call graph. CHA resolves a call through a small interface (an "anything with
// an Element() method" parameter) to every implementer in the program, which pulls functions that only the other side
// of the protocol runs into the scope of the consuming-path rules.
func cgKindFor(tier string) string {
	return "vta"
}

func consumingEntryPoints(p *Prog) []*ssa.Function {
	var out []*ssa.Function
	add := func(pkg, recv, name string) {
		out = append(out, p.MustFunc(pkg, recv, name))
	}
	add("saml", "ServiceProvider", "ParseResponse")
	add("saml", "ServiceProvider", "ParseXMLResponse")
	add("saml", "ServiceProvider", "ParseXMLArtifactResponse")
	add("saml", "ServiceProvider", "ValidateLogoutResponseRequest")
	add("saml", "ServiceProvider", "ValidateLogoutResponseForm")
	add("saml", "ServiceProvider", "ValidateLogoutResponseRedirect")
	add("saml", "", "NewIdpAuthnRequest")
	add("saml", "IdpAuthnRequest", "Validate")
	add("samlsp", "", "ParseMetadata")
	add("samlsp", "", "FetchMetadata")
	add("xmlenc", "", "Decrypt")
	// role "metadata parser": library functions outside the root package that run the round-trip
	// validator on a document (samlsp.ParseMetadata, samlidp.getSPMetadata on the pinned tree)
	n := 0
	for _, fn := range p.FuncsCalling("github.com/mattermost/xml-roundtrip-validator.Validate") {
		if p.InLibrary(fn) && fn.Pkg != nil && fn.Pkg.Pkg.Path() != modPath {
			n++
			dup := false
			for _, o := range out {
				if o == fn {
					dup = true
				}
			}
			if !dup {
				out = append(out, fn)
			}
		}
	}
	if n < 2 {
		panic(unresolved{"role metadata-parser (library functions calling xrv.Validate outside package saml)"})
	}
	return out
}

func NewScope(p *Prog, tier string) *Scope {
	s := &Scope{P: p, cgKind: cgKindFor(tier)}
	s.Entries = consumingEntryPoints(p)
	s.Schema = schemaClosure(p)
	roots := append([]*ssa.Function{}, s.Entries...)
	// encoding/xml calls back into the module by reflection: the (Un)marshal methods of schema types
	for _, fn := range p.modFns {
		if fn.Signature.Recv() == nil {
			continue
		}
		switch fn.Name() {
		case "UnmarshalXML", "UnmarshalText", "UnmarshalXMLAttr":
			roots = append(roots, fn)
		}
	}
	s.Consume = p.ReachableModuleOnly(s.cgKind, roots...)
	s.Respond = p.ReachableModuleOnly(s.cgKind,
		p.MustFunc("saml", "IdentityProvider", "ServeSSO"),
		p.MustFunc("saml", "IdentityProvider", "ServeIDPInitiated"))
	var droots []*ssa.Function
	droots = append(droots, p.MustFunc("xmlenc", "", "Decrypt"))
	for _, fn := range p.FuncsCalling(modPath + "/xmlenc.Decrypt") {
		if p.InLibrary(fn) && fn.Pkg != nil && fn.Pkg.Pkg.Path() == modPath {
			droots = append(droots, fn) // the SP's decrypt step (pre-authentication)
		}
	}
	s.Decrypt = p.ReachableModuleOnly(s.cgKind, droots...)
	// restrict to library packages, drop test-support/example code
	for _, m := range []map[*ssa.Function]bool{s.Consume, s.Respond, s.Decrypt} {
		for f := range m {
			if !p.InLibrary(f) {
				delete(m, f)
			}
		}
	}
	return s
}

func sortedFns(p *Prog, m map[*ssa.Function]bool) []*ssa.Function {
	var out []*ssa.Function
	for f := range m {
		out = append(out, f)
	}
	sort.Slice(out, func(i, j int) bool { return p.FnName(out[i]) < p.FnName(out[j]) })
	return out
}

// schemaClosure: named struct types of the module reachable by field types from the targets of
// xml.Unmarshal / (*xml.Decoder).Decode* / the module's own unmarshal helpers.
func schemaClosure(p *Prog) map[*types.Named]bool {
	out := map[*types.Named]bool{}
	var add func(t types.Type)
	add = func(t types.Type) {
		switch x := t.(type) {
		case *types.Pointer:
			add(x.Elem())
		case *types.Slice:
			add(x.Elem())
		case *types.Array:
			add(x.Elem())
		case *types.Named:
			if out[x] || x.Obj().Pkg() == nil || !strings.HasPrefix(x.Obj().Pkg().Path(), modPath) {
				return
			}
			st, ok := x.Underlying().(*types.Struct)
			if !ok {
				return
			}
			out[x] = true
			for i := 0; i < st.NumFields(); i++ {
				add(st.Field(i).Type())
			}
		}
	}
	unmarshalers := map[string]bool{"encoding/xml.Unmarshal": true, "(*encoding/xml.Decoder).Decode": true, "(*encoding/xml.Decoder).DecodeElement": true}
	// module helpers that forward an interface{} target to xml.Unmarshal
	helpers := map[*ssa.Function]bool{}
	for _, fn := range p.modFns {
		for _, ci := range callsTo(fn, "encoding/xml.Unmarshal") {
			args := ci.Common().Args
			if len(args) == 2 {
				if _, ok := args[1].(*ssa.Parameter); ok {
					helpers[fn] = true
				}
			}
		}
	}
	for _, fn := range p.modFns {
		if !p.InLibrary(fn) {
			continue
		}
		for _, b := range fn.Blocks {
			for _, in := range b.Instrs {
				ci, ok := in.(ssa.CallInstruction)
				if !ok {
					continue
				}
				c := ci.Common()
				sc := c.StaticCallee()
				if sc == nil {
					continue
				}
				if !unmarshalers[sc.String()] && !helpers[sc] {
					continue
				}
				for _, a := range c.Args {
					if mi, ok := a.(*ssa.MakeInterface); ok {
						add(mi.X.Type())
					}
				}
			}
		}
	}
	return out
}

func (s *Scope) isSchemaType(t types.Type) bool {
	n := namedOf(t)
	return n != nil && s.Schema[n]
}

func schemaNames(m map[*types.Named]bool) []string {
	var out []string
	for n := range m {
		out = append(out, n.Obj().Name())
	}
	sort.Strings(out)
	return out
}

func fnSet(fs []*ssa.Function) map[*ssa.Function]bool {
	m := map[*ssa.Function]bool{}
	for _, f := range fs {
		m[f] = true
	}
	return m
}
