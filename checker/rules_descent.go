package main

// C11.descent: a termination argument for the recursion under xmlenc.Decrypt. Decryption of an element may decrypt an
// encrypted key found inside it, which re-enters Decrypt. The ranking function is the size of the subtree below the
// element argument: every call along a cycle of the call graph passes either the caller's own element parameter
// (rank unchanged) or an element obtained from it by descending (FindElement/SelectElement/ChildElements with a relative
// path that has no '..' step: rank strictly smaller), and every cycle contains a descending call. An element looked up
// from the document root, through a parent, by ID anywhere in the document, or taken from anything that is not the
// parameter has no rank, and a peer-built reference loop then recurses until the stack is exhausted (a fatal error that
// recover cannot catch).

import (
	"fmt"
	"go/constant"
	"go/token"
	"go/types"
	"sort"
	"strings"

	"golang.org/x/tools/go/ssa"
)

type descentClass int

const (
	descOther  descentClass = iota // no rank relation to the parameter element
	descSame                       // the parameter element itself
	descStrict                     // a strict descendant of the parameter element
	descNone                       // nil (no element)
)

func (c descentClass) String() string {
	return [...]string{"unrelated to the parameter element", "the parameter element itself", "a strict descendant", "nil"}[c]
}

func isElementPtr(v ssa.Value) bool { return typeIs(v.Type(), "github.com/beevik/etree", "Element") }

func isElementList(v ssa.Value) bool {
	sl, ok := v.Type().Underlying().(*types.Slice)
	return ok && typeIs(sl.Elem(), "github.com/beevik/etree", "Element")
}

// descendingPath: an etree path that selects only strict descendants of the element it is applied to.
func descendingPath(path string) bool {
	if path == "" || strings.HasPrefix(path, "/") {
		return false
	}
	steps := 0
	for _, seg := range strings.Split(path, "/") {
		switch seg {
		case "", ".":
		case "..":
			return false
		default:
			steps++
		}
	}
	return steps > 0
}

// weakest combines the classes of the alternatives of one value.
func weakest(a, b descentClass) descentClass {
	switch {
	case a == descNone:
		return b
	case b == descNone:
		return a
	case a == descOther || b == descOther:
		return descOther
	case a == descSame || b == descSame:
		return descSame
	}
	return descStrict
}

type descent struct {
	p   *Prog
	why string // the first construct that has no rank
}

// classify: how v relates to the *etree.Element parameters of fn; env gives, for an inlined helper, the class of each of
// its parameters in terms of the outer function.
func (d *descent) classify(fn *ssa.Function, v ssa.Value, env map[*ssa.Parameter]descentClass, depth int, seen map[ssa.Value]bool) descentClass {
	if depth > 12 {
		return descOther
	}
	if seen[v] {
		return descNone // a loop-carried value: decided by its other alternatives
	}
	seen[v] = true
	defer delete(seen, v)
	switch x := v.(type) {
	case *ssa.Const:
		if x.IsNil() {
			return descNone
		}
	case *ssa.Parameter:
		if env != nil {
			if c, ok := env[x]; ok {
				return c
			}
		}
		if x.Parent() == fn && isElementPtr(x) {
			return descSame
		}
	case *ssa.Phi:
		out := descNone
		for _, e := range x.Edges {
			out = weakest(out, d.classify(fn, e, env, depth+1, seen))
		}
		return out
	case *ssa.UnOp:
		if x.Op != token.MUL {
			break
		}
		switch y := x.X.(type) {
		case *ssa.IndexAddr:
			// an element of a list of descendants
			return d.listClass(fn, y.X, env, depth+1, seen)
		case *ssa.Alloc:
			if sv := wholeStore(y); sv != nil {
				return d.classify(fn, sv, env, depth+1, seen)
			}
			// a variable assigned on several paths
			out, n := descNone, 0
			for _, rf := range *y.Referrers() {
				if st, ok := rf.(*ssa.Store); ok && st.Addr == ssa.Value(y) {
					out = weakest(out, d.classify(fn, st.Val, env, depth+1, seen))
					n++
				} else if _, ok := rf.(*ssa.UnOp); !ok {
					if _, ok := rf.(*ssa.DebugRef); !ok {
						return descOther
					}
				}
			}
			if n > 0 {
				return out
			}
		}
	case *ssa.Index:
		return d.listClass(fn, x.X, env, depth+1, seen)
	case *ssa.Call:
		sc := x.Call.StaticCallee()
		if sc == nil {
			break
		}
		switch sc.String() {
		case "(*github.com/beevik/etree.Element).FindElement", "(*github.com/beevik/etree.Element).SelectElement", "(*github.com/beevik/etree.Element).FindElementPath":
			base := d.classify(fn, x.Call.Args[0], env, depth+1, seen)
			if base != descSame && base != descStrict {
				return base
			}
			if path, ok := etreePathConst(x.Call.Args[1]); ok {
				if sc.Name() == "SelectElement" || descendingPath(path) {
					return descStrict
				}
				d.note(fmt.Sprintf("path %q does not only descend", path), x)
				return descOther
			}
			d.note("element path is not a constant", x)
			return descOther
		}
		// a module helper that hands back an element: its returns, in terms of its own parameters
		if d.p.InModule(sc) && len(sc.Blocks) > 0 && sc.Signature.Results().Len() >= 1 {
			sub := map[*ssa.Parameter]descentClass{}
			for i, prm := range sc.Params {
				if i < len(x.Call.Args) && isElementPtr(prm) {
					sub[prm] = d.classify(fn, x.Call.Args[i], env, depth+1, seen)
				}
				// a list of elements handed to the helper: the class of its members
				if i < len(x.Call.Args) && isElementList(prm) {
					sub[prm] = d.listClass(fn, x.Call.Args[i], env, depth+1, seen)
				}
			}
			out := descNone
			any := false
			for _, ret := range returnsOf(sc) {
				if len(ret.Results) == 0 || !isElementPtr(ret.Results[0]) {
					return descOther
				}
				any = true
				out = weakest(out, d.classify(sc, ret.Results[0], sub, depth+1, map[ssa.Value]bool{}))
			}
			if any {
				return out
			}
		}
	case *ssa.Extract:
		if c, ok := x.Tuple.(*ssa.Call); ok && x.Index == 0 {
			return d.classify(fn, c, env, depth+1, seen)
		}
	}
	if in, ok := v.(ssa.Instruction); ok {
		d.note(v.String(), in)
	} else {
		d.why = firstNonEmpty(d.why, v.String())
	}
	return descOther
}

func firstNonEmpty(a, b string) string {
	if a != "" {
		return a
	}
	return b
}

func (d *descent) note(what string, in ssa.Instruction) {
	if d.why == "" {
		d.why = what + " at " + d.p.InstrPos(in)
	}
}

// listClass: the class of the members of an element list.
func (d *descent) listClass(fn *ssa.Function, list ssa.Value, env map[*ssa.Parameter]descentClass, depth int, seen map[ssa.Value]bool) descentClass {
	if prm, ok := list.(*ssa.Parameter); ok && env != nil {
		if c, ok := env[prm]; ok {
			return c
		}
	}
	c, ok := list.(*ssa.Call)
	if !ok || c.Call.StaticCallee() == nil {
		return descOther
	}
	switch c.Call.StaticCallee().String() {
	case "(*github.com/beevik/etree.Element).ChildElements", "(*github.com/beevik/etree.Element).SelectElements":
		base := d.classify(fn, c.Call.Args[0], env, depth+1, seen)
		if base == descSame || base == descStrict {
			return descStrict
		}
		return base
	case "(*github.com/beevik/etree.Element).FindElements":
		base := d.classify(fn, c.Call.Args[0], env, depth+1, seen)
		if base != descSame && base != descStrict {
			return base
		}
		if k, ok := c.Call.Args[1].(*ssa.Const); ok && k.Value != nil && k.Value.Kind() == constant.String && descendingPath(constant.StringVal(k.Value)) {
			return descStrict
		} else if ok && k.Value != nil && k.Value.Kind() == constant.String {
			d.note(fmt.Sprintf("path %q does not only descend", constant.StringVal(k.Value)), c)
		}
		return descOther
	}
	return descOther
}

func checkDescent(r *Report, p *Prog, sc *Scope, rule string) {
	g := p.CallGraph(sc.cgKind)
	var nodes []*ssa.Function
	for _, fn := range sortedFns(p, sc.Decrypt) {
		if p.InLibrary(fn) && len(fn.Blocks) > 0 {
			nodes = append(nodes, fn)
		}
	}
	in := map[*ssa.Function]bool{}
	for _, f := range nodes {
		in[f] = true
	}
	type edge struct {
		from, to *ssa.Function
		site     ssa.CallInstruction
	}
	var edges []edge
	succ := map[*ssa.Function][]*ssa.Function{}
	for _, f := range nodes {
		n := g.Nodes[f]
		if n == nil {
			continue
		}
		seen := map[string]bool{}
		for _, e := range n.Out {
			if e.Callee == nil || e.Callee.Func == nil || e.Site == nil || !in[e.Callee.Func] {
				continue
			}
			k := fmt.Sprintf("%p/%p", e.Site, e.Callee.Func)
			if seen[k] {
				continue
			}
			seen[k] = true
			edges = append(edges, edge{f, e.Callee.Func, e.Site})
			succ[f] = append(succ[f], e.Callee.Func)
		}
	}
	reach := func(from *ssa.Function, via func(a, b *ssa.Function) bool) map[*ssa.Function]bool {
		seen := map[*ssa.Function]bool{}
		work := []*ssa.Function{from}
		for len(work) > 0 {
			f := work[len(work)-1]
			work = work[:len(work)-1]
			for _, t := range succ[f] {
				if !seen[t] && (via == nil || via(f, t)) {
					seen[t] = true
					work = append(work, t)
				}
			}
		}
		return seen
	}
	reachOf := map[*ssa.Function]map[*ssa.Function]bool{}
	for _, f := range nodes {
		reachOf[f] = reach(f, nil)
	}
	sort.SliceStable(edges, func(i, j int) bool {
		if edges[i].from != edges[j].from {
			return edges[i].from.String() < edges[j].from.String()
		}
		return edges[i].site.Pos() < edges[j].site.Pos()
	})
	// the calls that lie on a cycle, each classified
	same := map[[2]*ssa.Function]bool{}
	n := 0
	for _, e := range edges {
		if !reachOf[e.to][e.from] {
			continue // not on a cycle
		}
		n++
		r.Fn(p.FnName(e.from))
		cons := fmt.Sprintf("%s: recursive call of %s passes a smaller element", p.FnName(e.from), shortFn(e.to))
		var arg ssa.Value
		cnt := 0
		for _, a := range e.site.Common().Args {
			if isElementPtr(a) {
				arg = a
				cnt++
			}
		}
		if cnt != 1 {
			r.Bad(rule, cons, p.InstrPos(e.site.(ssa.Instruction)), fmt.Sprintf("the call on the cycle has %d element arguments: no ranking argument", cnt))
			continue
		}
		d := &descent{p: p}
		cl := d.classify(e.from, arg, nil, 0, map[ssa.Value]bool{})
		switch cl {
		case descStrict, descNone:
			r.OK(rule, cons, p.InstrPos(e.site.(ssa.Instruction)), "argument is "+cl.String()+" of the caller's element")
		case descSame:
			same[[2]*ssa.Function{e.from, e.to}] = true
			r.OK(rule, cons, p.InstrPos(e.site.(ssa.Instruction)), "argument is the caller's own element (rank unchanged; a descending call must follow on every cycle)")
		default:
			r.Bad(rule, cons, p.InstrPos(e.site.(ssa.Instruction)), "the element handed to the recursive call is not obtained from the caller's element by descending only ("+d.why+"): a reference loop in the document recurses without bound")
		}
	}
	// no cycle made of rank-preserving calls only
	for _, f := range nodes {
		onSame := reach(f, func(a, b *ssa.Function) bool { return same[[2]*ssa.Function{a, b}] })
		if onSame[f] {
			r.Bad(rule, fmt.Sprintf("%s: every cycle through it descends", p.FnName(f)), p.Pos(f.Pos()), "a cycle of calls passes the same element round and round")
		}
	}
	if n == 0 {
		// no recursion at all under Decrypt: nothing to rank (nested keys are then not supported; not this rule's business)
		r.OK(rule, "xmlenc.Decrypt: no recursive call in the decrypt scope", p.Pos(p.MustFunc("xmlenc", "", "Decrypt").Pos()), "the call graph under Decrypt is acyclic")
	}
}

// hashImpl: the package whose init registers the implementation of each crypto.Hash identifier; (crypto.Hash).New panics
// for an identifier whose package is not linked into the program.
var hashImpl = map[int64][]string{
	1: {"golang.org/x/crypto/md4"}, 2: {"crypto/md5"}, 3: {"crypto/sha1"}, 4: {"crypto/sha256"}, 5: {"crypto/sha256"},
	6: {"crypto/sha512"}, 7: {"crypto/sha512"}, 8: {}, 9: {"golang.org/x/crypto/ripemd160"},
	10: {"crypto/sha3", "golang.org/x/crypto/sha3"}, 11: {"crypto/sha3", "golang.org/x/crypto/sha3"},
	12: {"crypto/sha3", "golang.org/x/crypto/sha3"}, 13: {"crypto/sha3", "golang.org/x/crypto/sha3"},
	14: {"crypto/sha512"}, 15: {"crypto/sha512"}, 16: {"golang.org/x/crypto/blake2s"},
	17: {"golang.org/x/crypto/blake2b"}, 18: {"golang.org/x/crypto/blake2b"}, 19: {"golang.org/x/crypto/blake2b"},
}

// checkHashLinked: C11.hash-linked. Every crypto.Hash identifier that can be the receiver of (crypto.Hash).New in the
// library is a constant whose implementing package is among the program's packages. The receiver is traced field-based
// (every store to the same struct field in the module), through phis, globals, module callees and parameters. A receiver
// that cannot be traced to constants is reported as such.
func checkHashLinked(r *Report, p *Prog, rule string) {
	linked := func(k int64) (bool, string) {
		for _, path := range hashImpl[k] {
			if p.SSA.ImportedPackage(path) != nil {
				return true, path
			}
		}
		return false, strings.Join(hashImpl[k], " or ")
	}
	var trace func(v ssa.Value, seen map[ssa.Value]bool, depth int) string
	fieldStores := func(st *types.Struct, idx int) []ssa.Value {
		var out []ssa.Value
		for _, fn := range p.modFns {
			for _, b := range fn.Blocks {
				for _, in := range b.Instrs {
					s, ok := in.(*ssa.Store)
					if !ok {
						continue
					}
					fa, ok := s.Addr.(*ssa.FieldAddr)
					if !ok || fa.Field != idx {
						continue
					}
					if pt, ok := fa.X.Type().Underlying().(*types.Pointer); ok && types.Identical(pt.Elem().Underlying(), st) {
						out = append(out, s.Val)
					}
				}
			}
		}
		return out
	}
	trace = func(v ssa.Value, seen map[ssa.Value]bool, depth int) string {
		if seen[v] {
			return ""
		}
		seen[v] = true
		if depth > 8 {
			return "could not be traced to constants"
		}
		switch x := v.(type) {
		case *ssa.Const:
			if x.Value == nil {
				return "can be 0, for which New panics"
			}
			k := x.Int64()
			if ok, where := linked(k); !ok {
				return fmt.Sprintf("can be crypto.Hash(%d), whose implementation (%s) is not linked into the program", k, where)
			}
			return ""
		case *ssa.Phi:
			for _, e := range x.Edges {
				if why := trace(e, seen, depth+1); why != "" {
					return why
				}
			}
			return ""
		case *ssa.ChangeType:
			return trace(x.X, seen, depth+1)
		case *ssa.Convert:
			return trace(x.X, seen, depth+1)
		case *ssa.Field:
			if st, ok := x.X.Type().Underlying().(*types.Struct); ok {
				for _, s := range fieldStores(st, x.Field) {
					if why := trace(s, seen, depth+1); why != "" {
						return why
					}
				}
				return ""
			}
		case *ssa.UnOp:
			if x.Op != token.MUL {
				break
			}
			switch a := x.X.(type) {
			case *ssa.FieldAddr:
				if pt, ok := a.X.Type().Underlying().(*types.Pointer); ok {
					if st, ok := pt.Elem().Underlying().(*types.Struct); ok {
						vals := fieldStores(st, a.Field)
						for _, s := range vals {
							if why := trace(s, seen, depth+1); why != "" {
								return why
							}
						}
						if len(vals) == 0 {
							return "is a field no module code assigns (0, for which New panics)"
						}
						return ""
					}
				}
			case *ssa.Global:
				n := 0
				for _, fn := range p.modFns {
					for _, b := range fn.Blocks {
						for _, in := range b.Instrs {
							if s, ok := in.(*ssa.Store); ok && s.Addr == ssa.Value(a) {
								n++
								if why := trace(s.Val, seen, depth+1); why != "" {
									return why
								}
							}
						}
					}
				}
				if n > 0 {
					return ""
				}
			}
		case *ssa.Call:
			if sc := x.Call.StaticCallee(); sc != nil && p.InModule(sc) && len(sc.Blocks) > 0 {
				for _, ret := range returnsOf(sc) {
					if len(ret.Results) > 0 {
						if why := trace(ret.Results[0], seen, depth+1); why != "" {
							return why
						}
					}
				}
				return ""
			}
		case *ssa.Parameter:
			fn := x.Parent()
			idx := -1
			for i, pa := range fn.Params {
				if pa == x {
					idx = i
				}
			}
			sites := p.CallersOf(fn)
			if idx >= 0 && len(sites) > 0 {
				for _, cs := range sites {
					args := cs.Instr.Common().Args
					j := idx - cs.Shift
					if cs.Instr.Common().IsInvoke() || j < 0 || j >= len(args) {
						return "could not be traced to constants"
					}
					if why := trace(args[j], seen, depth+1); why != "" {
						return why
					}
				}
				return ""
			}
			if fn.Object() != nil && fn.Object().Exported() {
				return "" // the caller's choice: outside the library
			}
		}
		return "could not be traced to constants"
	}
	n := 0
	for _, fn := range p.modFns {
		if !p.InLibrary(fn) {
			continue
		}
		for _, b := range fn.Blocks {
			for _, in := range b.Instrs {
				c, ok := in.(ssa.CallInstruction)
				if !ok {
					continue
				}
				sc := c.Common().StaticCallee()
				if sc == nil || sc.Name() != "New" || sc.Signature.Recv() == nil || len(c.Common().Args) == 0 {
					continue
				}
				if nm, ok := sc.Signature.Recv().Type().(*types.Named); !ok || nm.Obj().Pkg() == nil || nm.Obj().Pkg().Path() != "crypto" || nm.Obj().Name() != "Hash" {
					continue
				}
				n++
				why := trace(c.Common().Args[0], map[ssa.Value]bool{}, 0)
				r.Check(why == "", rule, "(crypto.Hash).New in "+shortFn(fn)+" is asked only for linked digests", p.InstrPos(in), "every identifier that reaches the receiver is a constant whose implementing package is part of the program", "the receiver "+why+": New panics (\"requested hash function is unavailable\") instead of the operation returning an error")
			}
		}
	}
	if n == 0 {
		r.Check(true, rule, "the library never asks package crypto for a digest by identifier", "-", "no call of (crypto.Hash).New in library code: digests are constructed by direct reference to their packages, which links them", "")
	}
}
