package main

// A small hash-consed reduced ordered binary decision diagram. It is used only to
// normalise the guards that already occur in the analysed code (propositional
// combination of atoms); no program path is enumerated and nothing is searched.

import (
	"sort"
	"strings"
)

type bddNode struct {
	v      int // variable index; -1 for terminals
	lo, hi *bddNode
}

type BDD struct {
	True, False *bddNode
	uniq        map[[3]uintptr]*bddNode
	ids         map[*bddNode]uintptr
	nextID      uintptr
	names       []string       // variable index -> atom name
	index       map[string]int // atom name -> variable index
	andMemo     map[[2]uintptr]*bddNode
	notMemo     map[*bddNode]*bddNode
}

func NewBDD() *BDD {
	b := &BDD{
		uniq:    map[[3]uintptr]*bddNode{},
		ids:     map[*bddNode]uintptr{},
		index:   map[string]int{},
		andMemo: map[[2]uintptr]*bddNode{},
		notMemo: map[*bddNode]*bddNode{},
	}
	b.True = &bddNode{v: -1}
	b.False = &bddNode{v: -1}
	b.ids[b.False] = 0
	b.ids[b.True] = 1
	b.nextID = 2
	return b
}

func (b *BDD) mk(v int, lo, hi *bddNode) *bddNode {
	if lo == hi {
		return lo
	}
	k := [3]uintptr{uintptr(v), b.ids[lo], b.ids[hi]}
	if n, ok := b.uniq[k]; ok {
		return n
	}
	n := &bddNode{v: v, lo: lo, hi: hi}
	b.ids[n] = b.nextID
	b.nextID++
	b.uniq[k] = n
	return n
}

// Var returns the diagram for the atom with the given name.
func (b *BDD) Var(name string) *bddNode {
	i, ok := b.index[name]
	if !ok {
		i = len(b.names)
		b.names = append(b.names, name)
		b.index[name] = i
	}
	return b.mk(i, b.False, b.True)
}

func (b *BDD) HasVar(name string) bool { _, ok := b.index[name]; return ok }

func (b *BDD) Not(x *bddNode) *bddNode {
	if x == b.True {
		return b.False
	}
	if x == b.False {
		return b.True
	}
	if r, ok := b.notMemo[x]; ok {
		return r
	}
	r := b.mk(x.v, b.Not(x.lo), b.Not(x.hi))
	b.notMemo[x] = r
	return r
}

func (b *BDD) And(x, y *bddNode) *bddNode {
	if x == b.False || y == b.False {
		return b.False
	}
	if x == b.True {
		return y
	}
	if y == b.True {
		return x
	}
	if x == y {
		return x
	}
	ix, iy := b.ids[x], b.ids[y]
	if ix > iy {
		ix, iy = iy, ix
		x, y = y, x
	}
	k := [2]uintptr{ix, iy}
	if r, ok := b.andMemo[k]; ok {
		return r
	}
	var r *bddNode
	switch {
	case x.v == y.v:
		r = b.mk(x.v, b.And(x.lo, y.lo), b.And(x.hi, y.hi))
	case x.v < y.v:
		r = b.mk(x.v, b.And(x.lo, y), b.And(x.hi, y))
	default:
		r = b.mk(y.v, b.And(x, y.lo), b.And(x, y.hi))
	}
	b.andMemo[k] = r
	return r
}

func (b *BDD) Or(x, y *bddNode) *bddNode  { return b.Not(b.And(b.Not(x), b.Not(y))) }
func (b *BDD) Imp(x, y *bddNode) *bddNode { return b.Or(b.Not(x), y) }
func (b *BDD) Iff(x, y *bddNode) *bddNode { return b.And(b.Imp(x, y), b.Imp(y, x)) }

// Implies reports whether x => y is a tautology.
func (b *BDD) Implies(x, y *bddNode) bool { return b.And(x, b.Not(y)) == b.False }

// Restrict fixes variable name to val.
func (b *BDD) Restrict(x *bddNode, name string, val bool) *bddNode {
	i, ok := b.index[name]
	if !ok {
		return x
	}
	memo := map[*bddNode]*bddNode{}
	var rec func(n *bddNode) *bddNode
	rec = func(n *bddNode) *bddNode {
		if n.v < 0 || n.v > i {
			return n
		}
		if r, ok := memo[n]; ok {
			return r
		}
		var r *bddNode
		if n.v == i {
			if val {
				r = n.hi
			} else {
				r = n.lo
			}
		} else {
			r = b.mk(n.v, rec(n.lo), rec(n.hi))
		}
		memo[n] = r
		return r
	}
	return rec(x)
}

// Exists quantifies the variable away.
func (b *BDD) Exists(x *bddNode, name string) *bddNode {
	return b.Or(b.Restrict(x, name, false), b.Restrict(x, name, true))
}

// Support returns the atom names the diagram depends on (sorted).
func (b *BDD) Support(x *bddNode) []string {
	seen := map[*bddNode]bool{}
	vs := map[int]bool{}
	var rec func(n *bddNode)
	rec = func(n *bddNode) {
		if n.v < 0 || seen[n] {
			return
		}
		seen[n] = true
		vs[n.v] = true
		rec(n.lo)
		rec(n.hi)
	}
	rec(x)
	var out []string
	for v := range vs {
		out = append(out, b.names[v])
	}
	sort.Strings(out)
	return out
}

// Cubes returns the diagram as a list of conjunctions (paths to True); each cube is a
// sorted list of literals ("atom" or "!atom"). Used for printing and for canonical
// naming of sub-formulas; bounded by max cubes.
func (b *BDD) Cubes(x *bddNode, max int) [][]string {
	var out [][]string
	var cur []string
	var rec func(n *bddNode) bool
	rec = func(n *bddNode) bool {
		if n == b.False {
			return true
		}
		if n == b.True {
			c := append([]string(nil), cur...)
			sort.Strings(c)
			out = append(out, c)
			return len(out) < max
		}
		cur = append(cur, "!"+b.names[n.v])
		if !rec(n.lo) {
			return false
		}
		cur[len(cur)-1] = b.names[n.v]
		if !rec(n.hi) {
			return false
		}
		cur = cur[:len(cur)-1]
		return true
	}
	rec(x)
	return out
}

// String gives a canonical (sorted DNF) rendering.
func (b *BDD) String(x *bddNode) string {
	if x == b.True {
		return "true"
	}
	if x == b.False {
		return "false"
	}
	cs := b.Cubes(x, 64)
	var parts []string
	for _, c := range cs {
		parts = append(parts, strings.Join(c, " & "))
	}
	sort.Strings(parts)
	if len(parts) == 1 {
		return parts[0]
	}
	return "(" + strings.Join(parts, ") | (") + ")"
}
