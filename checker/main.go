package main

import (
	"flag"
	"fmt"
	"os"
	"runtime/debug"
	"sort"
	"strings"
	"time"

	"golang.org/x/tools/go/ssa"
)

func main() {
	var (
		repo   = flag.String("repo", "/repo", "repository to analyse")
		prop   = flag.String("prop", "", "property id (C01..C20) or 'all'")
		tier   = flag.String("tier", "quick", "quick|thorough")
		outDir = flag.String("out", "/verif/evidence", "evidence directory")
		known  = flag.String("known", "/verif/known_findings.txt", "known findings file")
		dump   = flag.String("dump", "", "debug: dump path conditions of the functions whose name contains this string")
		inline = flag.Bool("inline", false, "debug: inline module callees when dumping")
		list   = flag.Bool("list", false, "list rules")
		noEv   = flag.Bool("noevidence", false, "do not write evidence (used by the mutant driver)")
	)
	flag.Parse()
	t0 := time.Now()

	defer func() {
		if r := recover(); r != nil {
			if ie, ok := r.(infraError); ok {
				fmt.Printf("ERROR property=%s %s\n", *prop, ie.msg)
				os.Exit(2)
			}
			fmt.Printf("ERROR property=%s checker panic: %v\n%s\n", *prop, r, debug.Stack())
			os.Exit(2)
		}
	}()

	if *list {
		for _, id := range sortedKeys(registry) {
			fmt.Println(id)
		}
		return
	}

	p := Load(*repo, "")
	if *dump != "" {
		dumpFuncs(p, *dump, *inline)
		return
	}
	if *prop == "" {
		fmt.Println("usage: samlverif -prop Cxx [-tier quick|thorough]")
		os.Exit(2)
	}
	props := []string{*prop}
	if *prop == "all" {
		props = sortedKeys(registry)
	}
	kf := loadKnown(*known)
	exit := 0
	for _, id := range props {
		rf, ok := registry[id]
		if !ok {
			fmt.Printf("ERROR property=%s unknown property\n", id)
			os.Exit(2)
		}
		t1 := time.Now()
		r := NewReport(id, *tier, p, kf)
		runRules(r, rf)
		if *tier == "thorough" {
			// second configuration: 32-bit build constraints (covers build-tagged files)
			runThoroughExtras(r, rf, *repo)
		}
		wall := time.Since(t1).Seconds()
		if len(props) == 1 {
			wall = time.Since(t0).Seconds() // includes loading, type-checking and SSA construction
		}
		code := r.Finish(*outDir, wall, !*noEv)
		if code > exit {
			exit = code
		}
	}
	os.Exit(exit)
}

func dumpFuncs(p *Prog, pat string, inline bool) {
	a := NewAnalysis(p)
	if inline {
		a.Inline = func(f *ssa.Function) bool { return p.InModule(f) }
	}
	for _, fn := range p.modFns {
		if !strings.Contains(p.FnName(fn), pat) {
			continue
		}
		fc := a.Ctx(fn)
		fmt.Printf("== %s\n", p.FnName(fn))
		for _, b := range fn.Blocks {
			fmt.Printf("  b%d %s: %s\n", b.Index, b.Comment, a.B.String(fc.Cond(b)))
		}
		for _, r := range fc.Returns() {
			var rs []string
			for _, v := range r.Results {
				rs = append(rs, fc.AP(v))
			}
			fmt.Printf("  return@b%d (%s) [%s]\n", r.Block().Index, p.InstrPos(r), strings.Join(rs, ", "))
		}
		fmt.Printf("  REJECT: %s\n", a.canon(fc.RejectFormula()))
	}
	var names []string
	for n := range a.Atoms {
		names = append(names, n)
	}
	sort.Strings(names)
	fmt.Println("atoms:")
	for _, n := range names {
		fmt.Println("  ", n)
	}
}
