package main

import (
	"fmt"
	"go/token"
	"go/types"
	"os"
	"reflect"
	"regexp"
	"sort"
	"strings"

	"golang.org/x/tools/go/ssa"
)

func init() {
	registry["C07"] = []func(*Report){ruleC07}
}

func ruleC07(r *Report) {
	p := r.P
	r.Trusted("goxmldsig v1.4.0 (exclusive c14n, SignEnveloped, Validate)", "etree v1.5.0 writer with CanonicalText/CanonicalAttrVal", "encoding/xml decoder", "go/ssa of golang.org/x/tools v0.29.0")
	r.NotDecided("the round trip itself (that the SP accepts and returns equal strings) over all XML 1.0 characters, signature methods and key types; exclusive-c14n and etree escaping correctness for every code point; encryption round trip (structural part under C08/C10)")
	r.Rule("C07.schema", "writer/reader table agreement: every Element() builder names its element, attributes, character data and children exactly as the xml struct tags of the same type (and of the field holding the child) read them back, namespaces included", 60)
	r.Rule("C07.verbatim", "string-typed fields are emitted as the field itself (no function of it); other kinds only through the fixed formatters (timeFormat, strconv); an emission is guarded by nothing but the emptiness of the same field", 60)
	r.Rule("C07.order", "every slice field of a builder type is emitted by one range loop over that field that adds the element of each iteration unconditionally, in index order, with no early exit", 7)
	r.Rule("C07.coverage", "every field of a type on the Response/Assertion path is read by its builder (a field the builder ignores is lost between IdP and SP)", 15)
	r.Rule("C07.session", "the default assertion maker copies the session's name identifier, attribute strings, groups (in order) and custom attributes (whole, in order) verbatim into the assertion, guarded only by the emptiness of the same session field", 4)
	r.Rule("C07.escape", "writer/reader escape agreement on the IdP's response path: every serialisation uses the canonical write settings (CR/LF/TAB in text and attribute values survive the SP's parser) and passes the module's attribute '>' escaper (encoding/xml refuses \"]]>\" even inside attribute values, canonical attribute escaping leaves '>' raw)", 1)

	r.Rule("C07.prefixes", "every tree a non-builder function obtains from an Element() builder declares, at or below its root, each namespace prefix used by its element and attribute names", 3)
	safely(r, func() { checkBuilders(r, p) })
	safely(r, func() { checkSessionCopy(r, p) })
	r.Rule("C07.registration", "what the SP publishes in Metadata() is what it sends and insists on: entity ID = request issuer = expected audience, an HTTP-POST ACS endpoint at the expected recipient = the ACS URL in requests, the SP certificate as encryption key", 2)
	safely(r, func() { checkRegistration(r, p) })
	// ... and on the reading side: the unmarshal helpers the library calls turn the verified element into bytes for
	// encoding/xml with the same settings (a raw CR written there is normalised to LF by the decoder)
	var usedUnmarshal map[*ssa.Function]bool
	safely(r, func() {
		usedUnmarshal = map[*ssa.Function]bool{}
		um := findSigRoles(p).Unmarshal
		for round := 0; round < 4; round++ {
			for f := range um {
				for _, cs := range p.StaticCallersOf(f) {
					// called by library code that is not itself an unused helper of this kind
					if p.InLibrary(cs.Caller) && (!um[cs.Caller] || usedUnmarshal[cs.Caller]) {
						usedUnmarshal[f] = true
					}
				}
			}
		}
	})
	checkEscape(r, p, "C07.escape", func(fn *ssa.Function) bool {
		return fn.Signature.Recv() != nil && (isMethodOf(fn, "IdpAuthnRequest") || isMethodOf(fn, "IdentityProvider")) || isElementSerialiser(p, fn) || usedUnmarshal[fn]
	})
	safely(r, func() { checkNoCDATA(r, p, "C07.escape") })
	// the reading side: what the SP unmarshals is the verified element's own content (white-space-only values included)
	safely(r, func() { checkUnmarshalBytes(r, p, findSigRoles(p), "C07.verbatim") })
	r.Rule("C07.sig-methods", "the SP's signature validator leaves the choice of acceptable signature and digest algorithms to goxmldsig (it does not read SignatureMethod/DigestMethod/Algorithm itself): every method the IdP can be configured with verifies", 1)
	safely(r, func() { checkNoAlgorithmFilter(r, p, "C07.sig-methods") })
	// "every registered SP metadata with an encryption certificate": the IdP encrypts to the certificate registered now
	// (C08.current-key, borrowed) — a remembered certificate is one the SP may no longer hold the key for
	// "every supported signature method and key type": the IdP signs with whatever the operator configured - an opaque
	// crypto.Signer (ECDSA, HSM) through its own branch, else the RSA key (C06.ctx, borrowed); a Signer forced through
	// the RSA key store cannot sign at all
	r.Rule("C07.idp-key", "the IdP's signing context is built from the configured Signer when there is one, else from the Key, with the configured signature method (C06.ctx, borrowed): every supported key type and method yields a response", 2)
	r.borrow("C06.ctx", "C07.idp-key", func() { checkC06Ctx(r, p) })
	r.Rule("C07.cert-text", "in the encryption-certificate selector the base64 text that is decoded and parsed as the SP's certificate has had all white space removed (regexp \\s replaced by \"\", strings.Fields joined, or a helper doing so), not only its ends trimmed: metadata wraps and indents certificates, the decoder skips CR/LF only", 1)
	safely(r, func() { checkCertText(r, p, "C07.cert-text") })
	r.Rule("C07.unencrypted-path", "an SP that publishes no encryption certificate is answered in clear: on the 'no certificate string was found' path the selector returns os.ErrNotExist itself (or wraps it, when the emitter tests with errors.Is), the value the emitter recognises", 1)
	safely(r, func() { checkNoKeyOutcome(r, p, "C07.unencrypted-path") })
	r.Rule("C07.encryption-key", "the IdP's encryption certificate is a function of the SP metadata registered now (C08.current-key, borrowed): after a key roll-over the SP can decrypt what the IdP sends", 1)
	r.borrow("C08.current-key", "C07.encryption-key", func() {
		sel, _ := encCertSelector(p)
		checkNoProcessStateFor(r, p, sel, "C08.current-key", "the encryption certificate does not depend on state the library keeps between calls",
			"the certificate selection consults", "assertions keep being encrypted to the certificate seen first after the SP registered a new one, which the SP's current key cannot open")
	})
	// "every registered SP metadata": the key-transport encrypter refuses a certificate for nothing but its type
	r.Rule("C07.any-certificate", "the RSA key-transport encrypter turns a certificate away only for not being an X.509 certificate with an RSA key: no condition of (xmlenc.RSA).Encrypt reads another property of the certificate (key usage, validity, extensions), which the SP's ability to decrypt does not depend on", 1)
	safely(r, func() { checkAnyCertificate(r, p, "C07.any-certificate") })
	// the request leg of the round trip: the IdP does not turn away what this library's SP sends (C05.accept, borrowed)
	r.Rule("C07.request-leg", "the IdP's validator accepts a fresh, well-addressed request from a registered SP, signed or not, over either binding (the accept scenarios of C05, borrowed): without that no response is produced for the configuration", 1)
	borrowAccept(r, "C07.request-leg")
}

type builder struct {
	fn    *ssa.Function
	T     *types.Named
	st    *types.Struct
	root  *ssa.Call
	name  string
	rg    *Region // the builder with the unexported helpers it shares with other builders
	rootC *rctx   // activation in which the root element is created
}

// constIn: the constant string v stands for in activation c (a literal, or a helper parameter bound to one).
func (b *builder) constIn(v ssa.Value, c *rctx) (string, bool) {
	if s, ok := constStr(v); ok {
		return s, true
	}
	if bo, ok := v.(*ssa.BinOp); ok && bo.Op == token.ADD {
		l, okl := b.constIn(bo.X, c)
		r, okr := b.constIn(bo.Y, c)
		return l + r, okl && okr
	}
	os := b.rg.Origins(RV{V: v, C: c})
	if len(os) == 1 {
		if os[0].V != v || os[0].C != c {
			return b.constIn(os[0].V, os[0].C)
		}
		return constStr(os[0].V)
	}
	return "", false
}

// elemIn: the element-creating call (etree.NewElement) that v stands for in activation c, with its activation.
func (b *builder) elemIn(v ssa.Value, c *rctx) (*ssa.Call, *rctx) {
	os := b.rg.Origins(RV{V: v, C: c})
	if len(os) != 1 {
		return nil, nil
	}
	if call, ok := os[0].V.(*ssa.Call); ok && calleeIs(call, etreePath+".NewElement") {
		return call, os[0].C
	}
	return nil, nil
}

func splitQName(q string) (string, string) {
	if i := strings.Index(q, ":"); i >= 0 {
		return q[:i], q[i+1:]
	}
	return "", q
}

func collectBuilders(p *Prog) []*builder {
	var out []*builder
	for _, fn := range p.modFns {
		if !p.InLibrary(fn) || fn.Name() != "Element" || fn.Signature.Recv() == nil || fn.Signature.Params().Len() != 0 || fn.Signature.Results().Len() != 1 || fn.Syntax() == nil {
			continue
		}
		if !typeIs(fn.Signature.Results().At(0).Type(), etreePath, "Element") {
			continue
		}
		T := namedOf(fn.Signature.Recv().Type())
		if T == nil {
			continue
		}
		st, ok := T.Underlying().(*types.Struct)
		if !ok {
			continue // e.g. a named string with an Element method
		}
		out = append(out, &builder{fn: fn, T: T, st: st})
	}
	sort.Slice(out, func(i, j int) bool { return out[i].T.Obj().Name() < out[j].T.Obj().Name() })
	return out
}

// isRecv: v denotes the receiver (pointer, value, or the spill slot of a value receiver).
func (b *builder) isRecv(v ssa.Value) bool {
	if v == ssa.Value(b.fn.Params[0]) {
		return true
	}
	switch x := v.(type) {
	case *ssa.Alloc:
		return initStore(x) == ssa.Value(b.fn.Params[0])
	case *ssa.UnOp:
		return b.isRecv(x.X)
	}
	return false
}

type origin struct {
	field int
	elem  bool     // an element of the (slice) field, selected by the loop's induction index
	chain []string // formatting calls applied, outermost first
	idx   ssa.Value
}

// originIn traces v, a value of activation c of the builder's region, back to one field of the receiver: a parameter of
// a helper is followed to the argument at its call site.
func (b *builder) originIn(v ssa.Value, c *rctx, depth int) (*origin, string) {
	if depth > 12 {
		return nil, "too deep"
	}
	atTop := b.rg == nil || c == b.rg.top
	recv := func(x ssa.Value) bool { return atTop && b.isRecv(x) }
	switch x := v.(type) {
	case *ssa.Parameter:
		if !atTop && c != nil && c.site != nil {
			for i, q := range c.fn.Params {
				if q == x && i < len(c.site.Common().Args) {
					return b.originIn(c.site.Common().Args[i], c.parent, depth+1)
				}
			}
		}
		return nil, "a parameter"
	case *ssa.UnOp:
		switch a := x.X.(type) {
		case *ssa.FieldAddr:
			if recv(a.X) {
				return &origin{field: a.Field}, ""
			}
			return nil, "a nested field"
		case *ssa.IndexAddr:
			o, why := b.originIn(a.X, c, depth+1)
			if o == nil {
				return nil, why
			}
			if !isInduction(a.Index) {
				return nil, "indexed by something other than the loop index"
			}
			o.elem, o.idx = true, a.Index
			return o, ""
		case *ssa.Alloc:
			if iv := initStore(a); iv != nil {
				return b.originIn(iv, c, depth+1)
			}
			return nil, "a local assigned more than once"
		default:
			return b.originIn(x.X, c, depth+1)
		}
	case *ssa.Alloc:
		if iv := initStore(x); iv != nil {
			return b.originIn(iv, c, depth+1)
		}
		return nil, "a local assigned more than once"
	case *ssa.IndexAddr:
		o, why := b.originIn(x.X, c, depth+1)
		if o == nil {
			return nil, why
		}
		if !isInduction(x.Index) {
			return nil, "indexed by something other than the loop index"
		}
		o.elem, o.idx = true, x.Index
		return o, ""
	case *ssa.FieldAddr:
		if recv(x.X) {
			return &origin{field: x.Field}, ""
		}
		return nil, "a nested field"
	case *ssa.Field:
		if recv(x.X) {
			return &origin{field: x.Field}, ""
		}
		return nil, "a nested field"
	case *ssa.ChangeType:
		return b.originIn(x.X, c, depth+1)
	case *ssa.Convert:
		o, why := b.originIn(x.X, c, depth+1)
		if o != nil {
			if bt, ok := x.X.Type().Underlying().(*types.Basic); !ok || bt.Info()&types.IsString == 0 {
				o.chain = append([]string{"convert"}, o.chain...)
			}
		}
		return o, why
	case *ssa.Call:
		sc := x.Call.StaticCallee()
		if sc == nil || len(x.Call.Args) == 0 {
			return nil, "a dynamic call"
		}
		// a formatting helper of the module with one return (formatInstant(t) = t.Format(timeFormat)): what it returns, with
		// its parameters bound to the arguments here
		if c != nil && b.rg != nil {
			if kid := c.kids[x]; kid != nil {
				if ret := singleReturn(sc); ret != nil && len(ret.Results) == 1 {
					return b.originIn(ret.Results[0], kid, depth+1)
				}
			}
		}
		o, why := b.originIn(x.Call.Args[0], c, depth+1)
		if o == nil {
			return nil, why
		}
		name := sc.String()
		if name == "(time.Time).Format" {
			l, ok := constStr(x.Call.Args[1])
			if !ok && b.rg != nil {
				l, _ = b.constIn(x.Call.Args[1], c)
			}
			name = "Format(" + l + ")"
		}
		o.chain = append([]string{name}, o.chain...)
		return o, ""
	}
	return nil, fmt.Sprintf("a %T", v)
}

// fixed formatters per field kind
func formatterOK(ft types.Type, chain []string) bool {
	ft = derefType(ft)
	if bt, ok := ft.Underlying().(*types.Basic); ok {
		switch {
		case bt.Info()&types.IsString != 0:
			return len(chain) == 0
		case bt.Info()&types.IsBoolean != 0:
			return len(chain) == 1 && chain[0] == "strconv.FormatBool"
		case bt.Info()&types.IsInteger != 0:
			return len(chain) == 1 && (chain[0] == "strconv.Itoa" || chain[0] == "strconv.FormatInt") || len(chain) == 2 && chain[1] == "convert" && (chain[0] == "strconv.Itoa" || chain[0] == "strconv.FormatInt")
		}
	}
	if typeIs(ft, "time", "Time") {
		return len(chain) == 1 && strings.HasPrefix(chain[0], "Format(2006-01-02T15:04:05") && strings.HasSuffix(chain[0], "Z07:00)")
	}
	return false
}

// readerName: the (namespace, local name, kind) under which encoding/xml reads field i of st.
func readerName(st *types.Struct, i int) xmlKey {
	k, _ := xmlFieldKey(st, i)
	tag := reflect.StructTag(st.Tag(i)).Get("xml")
	nameGiven := tag != "" && !strings.HasPrefix(tag, ",")
	if k.mode == "element" && !nameGiven {
		// untagged element field: the XMLName of the field's type decides, else the field name
		if ft, ok := derefType(sliceOrSelf(st.Field(i).Type())).Underlying().(*types.Struct); ok {
			for j := 0; j < ft.NumFields(); j++ {
				if ft.Field(j).Name() == "XMLName" {
					xt := reflect.StructTag(ft.Tag(j)).Get("xml")
					if xt != "" {
						ns, name := "", xt
						if s := strings.LastIndex(xt, " "); s >= 0 {
							ns, name = xt[:s], xt[s+1:]
						}
						return xmlKey{"element", ns, name}
					}
				}
			}
		}
	}
	return k
}

func sliceOrSelf(t types.Type) types.Type {
	if s, ok := t.Underlying().(*types.Slice); ok {
		return s.Elem()
	}
	return t
}

func xmlNameOf(st *types.Struct) (xmlKey, bool) {
	for j := 0; j < st.NumFields(); j++ {
		if st.Field(j).Name() == "XMLName" {
			xt := reflect.StructTag(st.Tag(j)).Get("xml")
			if xt == "" {
				return xmlKey{}, false
			}
			ns, name := "", xt
			if s := strings.LastIndex(xt, " "); s >= 0 {
				ns, name = xt[:s], xt[s+1:]
			}
			return xmlKey{"element", ns, name}, true
		}
	}
	return xmlKey{}, false
}

func checkBuilders(r *Report, p *Prog) {
	bs := collectBuilders(p)
	if len(bs) < 10 {
		panic(unresolved{fmt.Sprintf("Element() builders (found %d)", len(bs))})
	}
	byType := map[*types.Named]*builder{}
	// pass 1: root element and namespace prefix table
	prefixNS := map[string]string{}
	for _, b := range bs {
		byType[b.T] = b
		b.rg = NewRegion(p, b.fn, 2)
		// the root: the element every return hands back (created here or by a helper that prepares the root)
		for _, rt := range returnsOf(b.fn) {
			if call, cc := b.elemIn(rt.Results[0], b.rg.top); call != nil {
				if n, ok := b.constIn(call.Call.Args[0], cc); ok {
					b.root, b.rootC, b.name = call, cc, n
				}
			}
		}
		b.rg.Each(func(x RI) {
			c, ok := x.I.(*ssa.Call)
			if !ok || !calleeIs(c, "(*"+etreePath+".Element).CreateAttr") {
				return
			}
			n, _ := b.constIn(c.Call.Args[1], x.C)
			if strings.HasPrefix(n, "xmlns:") {
				v, okc := b.constIn(c.Call.Args[2], x.C)
				pfx := strings.TrimPrefix(n, "xmlns:")
				if !okc {
					r.Bad("C07.schema", p.FnName(b.fn)+": namespace declaration "+n, p.InstrPos(x.I), "the namespace URI is not a constant")
				} else if old, dup := prefixNS[pfx]; dup && old != v {
					r.Bad("C07.schema", p.FnName(b.fn)+": namespace declaration "+n, p.InstrPos(x.I), fmt.Sprintf("prefix %s is bound to %q here and to %q elsewhere", pfx, v, old))
				} else {
					prefixNS[pfx] = v
				}
			}
		})
	}
	checkPrefixClosure(r, p, bs, byType)
	pathTypes := responsePathTypes(p)
	everSet := fieldsEverSet(p)
	a := NewAnalysis(p)
	for _, b := range bs {
		fn := b.fn
		tn := b.T.Obj().Name()
		r.Fn(p.FnName(fn))
		if b.root == nil || b.name == "" {
			r.Undecided("C07.schema", tn+".Element: root element", p.Pos(fn.Pos()), "the returned element is not the result of etree.NewElement with a constant name")
			continue
		}
		fc := a.Ctx(fn)
		fc.ensureConds()
		pfx, local := splitQName(b.name)
		// (a) own element name against XMLName
		if xn, ok := xmlNameOf(b.st); ok {
			r.Check(xn.name == local && (xn.ns == "" || xn.ns == prefixNS[pfx]), "C07.schema", fmt.Sprintf("%s: element name %s agrees with XMLName", tn, b.name), p.InstrPos(b.root), fmt.Sprintf("{%s}%s", xn.ns, xn.name), fmt.Sprintf("the builder writes %s (namespace %q) but the type is read back as {%s}%s", b.name, prefixNS[pfx], xn.ns, xn.name))
		}
		// a mismatch on a field that no library code ever assigns is reported as information only: the documents the
		// library's own IdP/SP produce never carry it, so it is outside what C07 quantifies over
		schemaCheck := func(ok bool, field int, cons, pos, okD, badD string) {
			if !ok && !everSet[fieldKey{b.T, field}] {
				r.Info("C07.schema", cons, pos, "writer/reader mismatch on a field the library never populates (outside the property; upstream schema slip): "+badD)
				return
			}
			r.Check(ok, "C07.schema", cons, pos, okD, badD)
		}
		read := map[int]bool{}
		emitted := map[int][]ssa.Instruction{} // slice fields
		type elKey struct {
			c *ssa.Call
			x *rctx
		}
		locals := map[elKey]string{} // inline child elements: NewElement results other than the root
		rg := b.rg
		rg.Each(func(x RI) {
			in := x.I
			if c, ok := in.(*ssa.Call); ok && calleeIs(c, etreePath+".NewElement") && !(c == b.root && x.C == b.rootC) {
				locals[elKey{c, x.C}], _ = b.constIn(c.Call.Args[0], x.C)
			}
			if x.C != rg.top {
				return
			}
			// any read of a receiver field counts for coverage
			if fa, ok := in.(*ssa.FieldAddr); ok && b.isRecv(fa.X) {
				read[fa.Field] = true
			}
			if f, ok := in.(*ssa.Field); ok && b.isRecv(f.X) {
				read[f.Field] = true
			}
		})
		guardOK := func(x RI, o *origin, cons string) {
			in := x.I
			blk := in.Block()
			fname := b.st.Field(o.field).Name()
			var foreign []string
			xfc := rg.Ctx(a, x.C)
			xfc.ensureConds()
			for _, nm := range a.B.Support(xfc.AbsCond(blk)) {
				ai := a.Atoms[nm]
				if ai == nil {
					continue
				}
				if ai.Kind == "lt" && o.elem {
					continue // the range test
				}
				mine := false
				for _, ar := range ai.Args {
					if strings.HasSuffix(ar, "."+fname) || strings.Contains(ar, "."+fname+".") || strings.Contains(ar, "."+fname+"[") {
						mine = true
					}
				}
				// a test *of* the field is its emptiness (empty / nil / zero instant / a boolean / a length), not a predicate
				// computed from its content: "emit InResponseTo only when it is an NCName" drops values the reader would take
				if mine && ai.Kind == "call" && len(ai.Args) > 0 && !strings.HasSuffix(ai.Args[0], ".IsZero") {
					mine = false
				}
				if !mine {
					foreign = append(foreign, nm)
				}
			}
			r.Check(len(foreign) == 0, "C07.verbatim", cons+": guard", p.InstrPos(in), "guarded only by tests of "+fname, "emitted only under "+strings.Join(foreign, ", ")+", a condition on something other than the field itself")
		}
		rg.Each(func(x RI) {
			in := x.I
			c, ok := in.(*ssa.Call)
			if !ok || c.Call.StaticCallee() == nil || len(c.Call.Args) == 0 {
				return
			}
			tcall, tctx := b.elemIn(c.Call.Args[0], x.C)
			if tcall == nil {
				return
			}
			onRoot := tcall == b.root && tctx == b.rootC
			localName, onLocal := locals[elKey{tcall, tctx}]
			if !onRoot && !onLocal {
				return
			}
			xfc := rg.Ctx(a, x.C)
			switch c.Call.StaticCallee().String() {
			case "(*" + etreePath + ".Element).CreateAttr":
				an, okn := b.constIn(c.Call.Args[1], x.C)
				cons := fmt.Sprintf("%s: attribute %s", tn, an)
				if !okn {
					r.Bad("C07.schema", tn+": attribute with a computed name", p.InstrPos(in), "the attribute name is not a constant")
					return
				}
				if strings.HasPrefix(an, "xmlns:") || an == "xmlns" {
					return
				}
				if _, isConst := b.constIn(c.Call.Args[2], x.C); isConst {
					// fixed value (e.g. Version="2.0"): the reader must have an attribute of that name
					found := false
					for i := 0; i < b.st.NumFields(); i++ {
						k := readerName(b.st, i)
						if k.mode == "attr" && k.name == lastLocal(an) {
							found = true
						}
					}
					r.Check(found, "C07.schema", cons+" (constant)", p.InstrPos(in), "read back by an attr field", "a constant attribute no field of "+tn+" reads")
					return
				}
				o, why := b.originIn(c.Call.Args[2], x.C, 0)
				if o == nil {
					r.Bad("C07.verbatim", cons, p.InstrPos(in), "the value is not one field of the receiver ("+why+"): "+xfc.AP(c.Call.Args[2]))
					return
				}
				if !onRoot {
					r.Bad("C07.schema", cons, p.InstrPos(in), "an attribute set on an inline child element cannot be tied to a struct tag")
					return
				}
				k := readerName(b.st, o.field)
				apfx, alocal := splitQName(an)
				okName := k.mode == "attr" && k.name == alocal && (k.ns == "" && apfx == "" || k.ns != "" && k.ns == prefixNS[apfx])
				schemaCheck(okName, o.field, cons, p.InstrPos(in), fmt.Sprintf("field %s read as %s {%s}%s", b.st.Field(o.field).Name(), k.mode, k.ns, k.name), fmt.Sprintf("attribute %s (namespace %q) carries field %s, which is read back as %s {%s}%s", an, prefixNS[apfx], b.st.Field(o.field).Name(), k.mode, k.ns, k.name))
				r.Check(formatterOK(b.st.Field(o.field).Type(), o.chain) && !o.elem, "C07.verbatim", cons+": value", p.InstrPos(in), "field "+b.st.Field(o.field).Name()+" "+strings.Join(o.chain, "∘"), fmt.Sprintf("the attribute value is %s applied to %s, not the field itself (or its fixed formatter)", strings.Join(o.chain, "∘"), b.st.Field(o.field).Name()))
				guardOK(x, o, cons)
			case "(*" + etreePath + ".Element).SetText":
				cons := fmt.Sprintf("%s: character data of %s", tn, b.name)
				if onLocal {
					cons = fmt.Sprintf("%s: character data of child %s", tn, localName)
				}
				o, why := b.originIn(c.Call.Args[1], x.C, 0)
				if o == nil {
					r.Bad("C07.verbatim", cons, p.InstrPos(in), "the text is not one field of the receiver ("+why+"): "+xfc.AP(c.Call.Args[1]))
					return
				}
				k := readerName(b.st, o.field)
				if onRoot {
					r.Check(k.mode == "chardata", "C07.schema", cons, p.InstrPos(in), "field "+b.st.Field(o.field).Name()+" is ,chardata", fmt.Sprintf("the text carries field %s, which is read back as %s %q", b.st.Field(o.field).Name(), k.mode, k.name))
				} else {
					cp, cl := splitQName(localName)
					r.Check(k.mode == "element" && k.name == cl && (k.ns == "" || k.ns == prefixNS[cp]), "C07.schema", cons, p.InstrPos(in), fmt.Sprintf("field %s read as element {%s}%s", b.st.Field(o.field).Name(), k.ns, k.name), fmt.Sprintf("child %s (namespace %q) carries field %s, which is read back as %s {%s}%s", localName, prefixNS[cp], b.st.Field(o.field).Name(), k.mode, k.ns, k.name))
				}
				r.Check(formatterOK(b.st.Field(o.field).Type(), o.chain) && !o.elem, "C07.verbatim", cons+": value", p.InstrPos(in), "field "+b.st.Field(o.field).Name()+" "+strings.Join(o.chain, "∘"), fmt.Sprintf("the text is %s applied to %s, not the field itself", strings.Join(o.chain, "∘"), b.st.Field(o.field).Name()))
				guardOK(x, o, cons)
			case "(*" + etreePath + ".Element).AddChild":
				if !onRoot {
					return
				}
				child := c.Call.Args[1]
				if mi, ok := child.(*ssa.MakeInterface); ok {
					child = mi.X
				}
				if lc, lx := b.elemIn(child, x.C); lc != nil {
					if _, isLocal := locals[elKey{lc, lx}]; isLocal {
						return // an inline child: judged at its SetText
					}
				}
				if cc, ok := child.(*ssa.Call); ok && cc.Call.StaticCallee() != nil && cc.Call.StaticCallee().Name() == "Element" && len(cc.Call.Args) == 1 {
					cb := byType[namedOf(cc.Call.StaticCallee().Signature.Recv().Type())]
					o, why := b.originIn(cc.Call.Args[0], x.C, 0)
					cons := fmt.Sprintf("%s: child from %s", tn, shortFn(cc.Call.StaticCallee()))
					if o == nil {
						r.Bad("C07.schema", cons, p.InstrPos(in), "the child is not built from one field of the receiver ("+why+")")
						return
					}
					fname := b.st.Field(o.field).Name()
					cons = fmt.Sprintf("%s: child element for field %s", tn, fname)
					if cb == nil || cb.name == "" {
						r.Undecided("C07.schema", cons, p.InstrPos(in), "the child's builder has no constant element name")
						return
					}
					k := readerName(b.st, o.field)
					cp, cl := splitQName(cb.name)
					schemaCheck(k.mode == "element" && k.name == cl && (k.ns == "" || k.ns == prefixNS[cp]), o.field, cons, p.InstrPos(in), fmt.Sprintf("%s read as element {%s}%s", cb.name, k.ns, k.name), fmt.Sprintf("the child is written as %s (namespace %q) but field %s is read back as %s {%s}%s", cb.name, prefixNS[cp], fname, k.mode, k.ns, k.name))
					if len(o.chain) > 0 {
						// the builder is handed a function of the field (a filtered, merged or re-ordered list, a rewritten child)
						r.Bad("C07.verbatim", cons+": source", p.InstrPos(in), fmt.Sprintf("the child is built from %s applied to %s, not from the field itself", strings.Join(o.chain, "∘"), fname))
						return
					}
					_, isSlice := b.st.Field(o.field).Type().Underlying().(*types.Slice)
					if isSlice {
						emitted[o.field] = append(emitted[o.field], in)
						okLoop, whyLoop := unconditionalInLoop(c, o)
						r.Check(o.elem && okLoop, "C07.order", fmt.Sprintf("%s: slice field %s", tn, fname), p.InstrPos(in), "one element per iteration, unconditionally, in index order", "the elements of "+fname+" are not all emitted in order: "+whyLoop)
					} else {
						guardOK(x, o, cons)
					}
					return
				}
				// an opaque element field (Signature, EncryptedAssertion)
				o, why := b.originIn(child, x.C, 0)
				cons := fmt.Sprintf("%s: opaque child %s", tn, xfc.AP(child))
				if o == nil {
					r.Bad("C07.schema", cons, p.InstrPos(in), "the child is not one field of the receiver ("+why+")")
					return
				}
				ft := b.st.Field(o.field).Type()
				if sl, isSl := ft.Underlying().(*types.Slice); isSl && o.elem {
					okLoop, whyLoop := unconditionalInLoop(c, o)
					r.Check(typeIs(sl.Elem(), etreePath, "Element") && okLoop, "C07.order", fmt.Sprintf("%s: opaque children %s", tn, b.st.Field(o.field).Name()), p.InstrPos(in), "each element added in order", "the opaque children are not all added in order: "+whyLoop)
					return
				}
				r.Check(typeIs(ft, etreePath, "Element"), "C07.schema", cons, p.InstrPos(in), "an *etree.Element field", "a non-element field is added as a child without its builder")
				guardOK(x, o, cons)
			}
		})
		// slice fields: exactly one emission each
		for i := 0; i < b.st.NumFields(); i++ {
			if _, isSlice := b.st.Field(i).Type().Underlying().(*types.Slice); !isSlice || !read[i] {
				continue
			}
			if et := namedOf(sliceOrSelf(b.st.Field(i).Type())); et == nil || byType[et] == nil {
				continue
			}
			r.Check(len(emitted[i]) == 1, "C07.order", fmt.Sprintf("%s: slice field %s emitted once", tn, b.st.Field(i).Name()), p.Pos(fn.Pos()), "one loop", fmt.Sprintf("%d emission sites for the slice (elements duplicated or dropped)", len(emitted[i])))
		}
		// coverage on the response path
		if pathTypes[b.T] {
			for i := 0; i < b.st.NumFields(); i++ {
				f := b.st.Field(i)
				if f.Name() == "XMLName" {
					continue
				}
				key := tn + "." + f.Name()
				if why, ok := uncoveredAllowed[key]; ok {
					if read[i] {
						r.Bad("C07.coverage", key, p.Pos(fn.Pos()), "listed as not emitted but the builder reads it now: remove the entry from uncoveredAllowed")
					} else {
						r.Info("C07.coverage", key, p.Pos(fn.Pos()), why)
					}
					continue
				}
				r.Check(read[i], "C07.coverage", key+" is emitted by the builder", p.Pos(fn.Pos()), "read in Element()", "Element() never reads this field: whatever the IdP puts there is not in the document the SP receives")
			}
		}
	}
}

// uncoveredAllowed: fields confirmed by reading not to be written by their builder; one named field each.
var uncoveredAllowed = map[string]string{
	"Assertion.Version": "the builder writes the constant Version=\"2.0\" (the only version this library speaks) instead of the field",
}

func lastLocal(q string) string {
	_, l := splitQName(q)
	return l
}

// responsePathTypes: struct types reachable from Response through fields.
func responsePathTypes(p *Prog) map[*types.Named]bool {
	out := map[*types.Named]bool{}
	var add func(t types.Type)
	add = func(t types.Type) {
		switch x := t.(type) {
		case *types.Pointer:
			add(x.Elem())
		case *types.Slice:
			add(x.Elem())
		case *types.Named:
			if out[x] || x.Obj().Pkg() == nil || x.Obj().Pkg().Path() != modPath {
				return
			}
			st, ok := x.Underlying().(*types.Struct)
			if !ok {
				return
			}
			out[x] = true
			for i := 0; i < st.NumFields(); i++ {
				add(st.Field(i).Type())
			}
		}
	}
	t := p.NamedType("saml", "Response")
	if t == nil {
		panic(unresolved{"type saml.Response"})
	}
	add(t)
	return out
}

// unconditionalInLoop: the AddChild call is executed on every iteration of the innermost range loop whose
// induction index selects the element, and that loop is left only through its header.
func unconditionalInLoop(c *ssa.Call, o *origin) (bool, string) {
	return unconditionalInLoopAt(c.Block(), o)
}

func unconditionalInLoopAt(cb *ssa.BasicBlock, o *origin) (bool, string) {
	if !o.elem || o.idx == nil {
		return false, "the child is not the element selected by a loop index"
	}
	// the header: block of the induction phi
	var hdr *ssa.BasicBlock
	cur := o.idx
	for i := 0; i < 4 && hdr == nil; i++ {
		switch x := cur.(type) {
		case *ssa.Phi:
			hdr = x.Block()
		case *ssa.BinOp:
			cur = x.X
		case *ssa.Convert:
			cur = x.X
		default:
			i = 4
		}
	}
	if hdr == nil {
		return false, "no index-based range loop found for the element"
	}
	// the increment must be +1 from -1 (the rangeindex shape: the element index is phi+1), or +1 from 0 with the phi
	// itself as element index and the loop running while it is below a length (for i := 0; i < len(xs); i++)
	if ph, ok := cur.(*ssa.Phi); ok {
		okShape := false
		for i, e := range ph.Edges {
			if !isBackEdge(ph.Block().Preds[i], ph.Block()) {
				if k, ok := constInt(e); ok && k == -1 && o.idx != ssa.Value(ph) {
					okShape = true
				}
				if k, ok := constInt(e); ok && k == 0 && o.idx == ssa.Value(ph) {
					// the bound: the header leaves the loop exactly when phi >= len(..) / phi >= n
					if iff, ok := hdr.Instrs[len(hdr.Instrs)-1].(*ssa.If); ok {
						if lt, ok := iff.Cond.(*ssa.BinOp); ok && lt.Op == token.LSS && lenArg(lt.Y) != nil {
							if lt.X == ssa.Value(ph) {
								okShape = true
							}
							// rotated loop (for i := range n): the test follows the increment
							if inc, ok := lt.X.(*ssa.BinOp); ok && inc.Op == token.ADD && inc.X == ssa.Value(ph) && isIntConst(inc.Y, 1) {
								okShape = true
							}
						}
					}
				}
			}
		}
		if !okShape {
			return false, "the loop does not start at the first element"
		}
		for i, e := range ph.Edges {
			if isBackEdge(ph.Block().Preds[i], ph.Block()) {
				bo, ok := e.(*ssa.BinOp)
				if !ok || bo.X != ssa.Value(ph) {
					return false, "the loop index is not advanced by one"
				}
				if k, ok := constInt(bo.Y); !ok || k != 1 {
					return false, "the loop index is not advanced by one"
				}
			}
		}
	}
	// loop body = blocks dominated by hdr that can reach a latch
	var latches []*ssa.BasicBlock
	for _, pb := range hdr.Preds {
		if isBackEdge(pb, hdr) {
			latches = append(latches, pb)
		}
	}
	if len(latches) == 0 {
		return false, "not a loop"
	}
	for _, l := range latches {
		if !(cb == l || cb.Dominates(l)) {
			return false, "an iteration can reach the next one without adding its element (conditional emission)"
		}
	}
	// no exit other than from the header
	inLoop := map[*ssa.BasicBlock]bool{hdr: true}
	var mark func(b *ssa.BasicBlock)
	mark = func(b *ssa.BasicBlock) {
		if inLoop[b] {
			return
		}
		inLoop[b] = true
		for _, pb := range b.Preds {
			mark(pb)
		}
	}
	for _, l := range latches {
		mark(l)
	}
	for blk := range inLoop {
		if blk == hdr {
			continue
		}
		for _, s := range blk.Succs {
			if !inLoop[s] {
				return false, "the loop can be left before the last element (break/return in the body)"
			}
		}
	}
	return true, ""
}

// ---- C07.session ----

func checkSessionCopy(r *Report, p *Prog) {
	rule := "C07.session"
	fn := assertionMakerFn(p)
	r.Fn(p.FnName(fn))
	a := NewAnalysis(p)
	fc := a.Ctx(fn)
	fc.ensureConds()
	sess := p.NamedType("saml", "Session")
	if sess == nil {
		panic(unresolved{"type saml.Session"})
	}
	// sessionField: v is a direct load of a field of the *Session parameter (or the element of such a slice field selected by a loop index)
	var sessionField func(v ssa.Value, depth int) (string, bool, string)
	sessionField = func(v ssa.Value, depth int) (string, bool, string) {
		if depth > 6 {
			return "", false, "too deep"
		}
		switch x := v.(type) {
		case *ssa.UnOp:
			switch ad := x.X.(type) {
			case *ssa.FieldAddr:
				if namedOf(ad.X.Type()) == sess {
					if _, isParam := ad.X.(*ssa.Parameter); isParam {
						return fieldName(ad.X.Type(), ad.Field), false, ""
					}
				}
				return "", false, "a field of something other than the session parameter"
			case *ssa.IndexAddr:
				f, _, why := sessionField(ad.X, depth+1)
				if f == "" {
					return "", false, why
				}
				if !isInduction(ad.Index) {
					return "", false, "indexed by something other than the loop index"
				}
				return f, true, ""
			case *ssa.Alloc:
				if iv := initStore(ad); iv != nil {
					return sessionField(iv, depth+1)
				}
			}
		case *ssa.Call:
			if x.Call.StaticCallee() != nil {
				return "", false, "the result of " + shortFn(x.Call.StaticCallee())
			}
		case *ssa.BinOp:
			return "", false, "a computed string"
		}
		return "", false, fmt.Sprintf("a %T", v)
	}
	// the only tests of session content that may gate a copy are emptiness tests
	guard := func(in ssa.Instruction, field string, elem bool, more ...*ssa.BasicBlock) (bool, string) {
		var foreign []string
		names := a.B.Support(fc.Cond(in.Block()))
		for _, mb := range more {
			names = append(names, a.B.Support(fc.Cond(mb))...)
		}
		for _, nm := range uniqStrings(names) {
			ai := a.Atoms[nm]
			if ai == nil {
				continue
			}
			onSession := false
			for _, ar := range ai.Args {
				if strings.Contains(ar, "Session.") || strings.Contains(ar, "Session#") {
					onSession = true
				}
			}
			if !onSession {
				continue // driven by the request or the SP's metadata
			}
			if ai.Kind == "empty" || ai.Kind == "isnil" || elem && ai.Kind == "lt" {
				continue
			}
			if ai.Kind == "eq" {
				isEmpty := false
				for _, ar := range ai.Args {
					if ar == `c:""` {
						isEmpty = true
					}
				}
				if isEmpty {
					continue
				}
			}
			foreign = append(foreign, nm)
		}
		return len(foreign) == 0, strings.Join(foreign, ", ")
	}
	n := 0
	// every AttributeValue.Value and NameID.Value written in the maker or in the helpers it is split into; the value is
	// traced back through those helpers, through phis and through a local table that a loop ranges over
	rg := NewRegion(p, fn, 2)
	isMakerSession := func(v RV) bool {
		for _, o := range rg.Origins(v) {
			if prm, ok := o.V.(*ssa.Parameter); !ok || prm.Parent() != fn || namedOf(prm.Type()) != sess {
				return false
			}
		}
		return true
	}
	sessionLeaf := func(v RV) (string, bool, string) {
		ld, ok := v.V.(*ssa.UnOp)
		if !ok {
			if c, ok := v.V.(*ssa.Call); ok && c.Call.StaticCallee() != nil {
				return "", false, "the result of " + shortFn(c.Call.StaticCallee())
			}
			if _, ok := v.V.(*ssa.BinOp); ok {
				return "", false, "a computed string"
			}
			return "", false, fmt.Sprintf("a %T", v.V)
		}
		switch ad := ld.X.(type) {
		case *ssa.FieldAddr:
			if namedOf(ad.X.Type()) == sess && isMakerSession(RV{V: ad.X, C: v.C}) {
				return fieldName(ad.X.Type(), ad.Field), false, ""
			}
			return "", false, "a field of something other than the session parameter"
		case *ssa.IndexAddr:
			// element of a slice field of the session, selected by a loop index
			if sl, ok := ad.X.(*ssa.UnOp); ok {
				if fa, ok := sl.X.(*ssa.FieldAddr); ok && namedOf(fa.X.Type()) == sess && isMakerSession(RV{V: fa.X, C: v.C}) {
					if !isInduction(ad.Index) {
						return "", false, "indexed by something other than the loop index"
					}
					return fieldName(fa.X.Type(), fa.Field), true, ""
				}
			}
			return "", false, "an element of something other than a session slice"
		}
		return "", false, fmt.Sprintf("a load of %T", ld.X)
	}
	guardAt := func(blocks []RB, elem bool) (bool, string) {
		var foreign []string
		var names []string
		for _, rb := range blocks {
			cfc := rg.Ctx(a, rb.C)
			cfc.ensureConds()
			names = append(names, a.B.Support(cfc.AbsCond(rb.B))...)
		}
		for _, nm := range uniqStrings(names) {
			ai := a.Atoms[nm]
			if ai == nil {
				continue
			}
			onSession := false
			for _, ar := range ai.Args {
				if strings.Contains(ar, "Session.") || strings.Contains(ar, "Session#") {
					onSession = true
				}
			}
			if !onSession {
				continue // driven by the request or the SP's metadata
			}
			if ai.Kind == "empty" || ai.Kind == "isnil" || elem && ai.Kind == "lt" {
				continue
			}
			if ai.Kind == "eq" {
				isEmpty := false
				for _, ar := range ai.Args {
					if ar == `c:""` {
						isEmpty = true
					}
				}
				if isEmpty {
					continue
				}
			}
			foreign = append(foreign, nm)
		}
		return len(foreign) == 0, strings.Join(foreign, ", ")
	}
	fieldsSeen := map[string]bool{}
	type groupSite struct {
		st   RI
		leaf RV
	}
	var groupSites []groupSite
	for _, tf := range [][2]string{{"AttributeValue", "Value"}, {"NameID", "Value"}} {
		for _, c := range rg.all {
			if os.Getenv("SAMLVERIF_DEBUG") != "" {
				fmt.Printf("DEBUG c07 activation %s depth %d stores %d\n", p.FnName(c.fn), c.depth, len(litFields(c.fn, modPath, tf[0])[tf[1]]))
			}
			r.Fn(p.FnName(c.fn))
			for _, st := range litFields(c.fn, modPath, tf[0])[tf[1]] {
				n++
				cons := fmt.Sprintf("%s: %s.%s at %s", p.FnName(fn), tf[0], tf[1], p.InstrPos(st))
				okV := true
				var srcs []string
				for _, gl := range rg.Origins(RV{V: st.Val, C: c}) {
					if isEmptyStringConst(gl.V) {
						continue // the empty string carries nothing
					}
					// an alternative that cannot reach this store (a helper's "not found" return the caller skips)
					feas := rg.Ctx(a, c).AbsCond(st.Block())
					for _, vb := range gl.Via {
						vfc := rg.Ctx(a, vb.C)
						vfc.ensureConds()
						feas = a.B.And(feas, vfc.AbsCond(vb.B))
					}
					if feas == a.B.False {
						continue
					}
					f, elem, why := sessionLeaf(gl)
					if f == "" {
						okV = false
						srcs = append(srcs, why+" ("+rg.Ctx(a, gl.C).AP(gl.V)+")")
						continue
					}
					srcs = append(srcs, "session."+f)
					fieldsSeen[f] = true
					if elem && f == "Groups" {
						groupSites = append(groupSites, groupSite{RI{st, c}, gl})
					}
					if okG, foreign := guardAt(append([]RB{{st.Block(), c}}, gl.Via...), elem); !okG {
						okV = false
						srcs = append(srcs, "under "+foreign)
					}
				}
				srcs = uniqStrings(srcs)
				if tf[0] == "NameID" && okV && !(len(srcs) == 1 && srcs[0] == "session.NameID") {
					okV = false
					srcs = append(srcs, "(the subject's name identifier must be session.NameID itself)")
				}
				r.Check(okV && len(srcs) > 0, rule, cons, p.InstrPos(st), "<- "+strings.Join(srcs, " | "), "the value is "+strings.Join(srcs, " | ")+", not a session string copied verbatim under emptiness tests only")
			}
		}
	}
	// custom attributes appended whole
	okCustom := false
	for _, blk := range fn.Blocks {
		for _, in := range blk.Instrs {
			c, ok := in.(*ssa.Call)
			if !ok {
				continue
			}
			if bi, ok := c.Call.Value.(*ssa.Builtin); !ok || bi.Name() != "append" || len(c.Call.Args) != 2 {
				continue
			}
			if f, elem, _ := sessionField(c.Call.Args[1], 0); f == "CustomAttributes" && !elem {
				if okG, _ := guard(in, f, false); okG && in.Block().Dominates(fn.Blocks[len(fn.Blocks)-1]) || okG && dominatesAllReturns(fn, in.Block()) {
					okCustom = true
				}
			}
		}
	}
	// ... or in a helper the maker hands the session to (the list built by a function of its own): the append lies on
	// every path through the helper, and the helper's call on every successful path through its callers
	if !okCustom {
		for _, c := range rg.all {
			if c == rg.top {
				continue
			}
			for _, blk := range c.fn.Blocks {
				for _, in := range blk.Instrs {
					ap, ok := in.(*ssa.Call)
					if !ok {
						continue
					}
					if bi, ok := ap.Call.Value.(*ssa.Builtin); !ok || bi.Name() != "append" || len(ap.Call.Args) != 2 {
						continue
					}
					whole := false
					for _, o := range rg.Origins(RV{V: ap.Call.Args[1], C: c}) {
						if f, elem, _ := sessionLeaf(o); f == "CustomAttributes" && !elem {
							whole = true
						} else {
							whole = false
							break
						}
					}
					if !whole {
						continue
					}
					if okG, _ := guardAt([]RB{{blk, c}}, false); !okG {
						continue
					}
					always := dominatesEveryReturn(c.fn, blk)
					for cc := c; always && cc.parent != nil; cc = cc.parent {
						sb := cc.site.(ssa.Instruction).Block()
						if cc.parent == rg.top {
							always = dominatesAllReturns(cc.parent.fn, sb)
						} else {
							always = dominatesEveryReturn(cc.parent.fn, sb)
						}
					}
					if always {
						okCustom = true
					}
				}
			}
		}
	}
	r.Check(okCustom, rule, p.FnName(fn)+": custom attributes appended whole", p.Pos(fn.Pos()), "append(attributes, session.CustomAttributes...)", "session.CustomAttributes is not appended as a whole slice (unconditionally)")
	// groups: a range loop appending one value per element unconditionally (the value literal may be built by a helper
	// called from the loop body)
	okGroups := false
	for _, gs := range groupSites {
		// (the loop over the groups sits in the activation that reads them: the maker, or a helper it hands the session to)
		lc := gs.leaf.C
		pos := rg.SiteIn(lc, gs.st)
		ld, ok := gs.leaf.V.(*ssa.UnOp)
		if pos == nil || !ok {
			continue
		}
		ia, ok := ld.X.(*ssa.IndexAddr)
		if !ok {
			continue
		}
		for _, in := range pos.Block().Instrs {
			if c, ok := in.(*ssa.Call); ok {
				if bi, ok := c.Call.Value.(*ssa.Builtin); ok && bi.Name() == "append" {
					if okL, _ := unconditionalInLoop(c, &origin{elem: true, idx: ia.Index}); okL {
						okGroups = true
					}
				}
			}
			// a slice made with one slot per group, filled by the same index (values := make([]T, len(groups));
			// values[i] = T{group})
			if st, ok := in.(*ssa.Store); ok {
				if dst, ok := st.Addr.(*ssa.IndexAddr); ok && dst.Index == ia.Index {
					if mk, ok := dst.X.(*ssa.MakeSlice); ok {
						if la := lenArg(mk.Len); la != nil && rg.Ctx(a, lc).AP(la) == rg.Ctx(a, lc).AP(ia.X) {
							if okL, _ := unconditionalInLoopAt(st.Block(), &origin{elem: true, idx: ia.Index}); okL {
								okGroups = true
							}
						}
					}
				}
			}
		}
	}
	r.Check(okGroups, rule, p.FnName(fn)+": one attribute value per group, in order", p.Pos(fn.Pos()), "range over session.Groups appending each element", "session.Groups is not copied element by element in order")
	if len(fieldsSeen) < 5 {
		r.Undecided(rule, "attribute value sites", "-", fmt.Sprintf("only %d session fields found to be copied into values by the assertion maker (%d value sites)", len(fieldsSeen), n))
	}
}

type fieldKey struct {
	T *types.Named
	i int
}

// fieldsEverSet: (type, field) pairs some library function assigns (composite literal or plain store).
func fieldsEverSet(p *Prog) map[fieldKey]bool {
	out := map[fieldKey]bool{}
	for _, fn := range p.modFns {
		if !p.InLibrary(fn) {
			continue
		}
		for _, b := range fn.Blocks {
			for _, in := range b.Instrs {
				st, ok := in.(*ssa.Store)
				if !ok {
					continue
				}
				if fa, ok := st.Addr.(*ssa.FieldAddr); ok {
					if n := namedOf(fa.X.Type()); n != nil {
						out[fieldKey{n, fa.Field}] = true
					}
				}
			}
		}
	}
	return out
}

func dominatesAllReturns(fn *ssa.Function, b *ssa.BasicBlock) bool {
	for _, blk := range fn.Blocks {
		if rt, ok := blk.Instrs[len(blk.Instrs)-1].(*ssa.Return); ok {
			// only successful returns matter: error returns before the copy are fine
			if len(rt.Results) > 0 && isNilConst(Resolve(rt.Results[len(rt.Results)-1])) && !(b == blk || b.Dominates(blk)) {
				return false
			}
		}
	}
	return true
}

// ---- C07.registration: what the SP publishes is what it later insists on ----

func checkRegistration(r *Report, p *Prog) {
	rule := "C07.registration"
	md := p.MustFunc("saml", "ServiceProvider", "Metadata")
	r.Fn(p.FnName(md))
	am := NewAnalysis(p)
	fm := am.Ctx(md)
	apOf := func(fc *FuncCtx, fn *ssa.Function, typ, field string) []string {
		var out []string
		sts := litFields(fn, modPath, typ)[field]
		if len(sts) == 0 {
			sts = helperLitFields(p, fn, modPath, typ, field)
		}
		for _, st := range sts {
			out = append(out, strings.TrimPrefix(canonFirstSet(fc.A.Ctx(st.Parent()), st.Val), "saml."))
		}
		return out
	}
	ent := apOf(fm, md, "EntityDescriptor", "EntityID")
	if len(ent) != 1 {
		r.Undecided(rule, "published entity ID", p.Pos(md.Pos()), fmt.Sprintf("%d assignments of EntityDescriptor.EntityID in Metadata()", len(ent)))
		return
	}
	// the validator's expectations: the non-assertion side of the eq atoms on Audience and Recipient
	var audWant, rcptWant []string
	{
		// the assertion parser with its validators inlined (roles resolved by the SP model, not by name)
		m := buildSPModel(r)
		vf := m.AssertFn
		r.Fn(p.FnName(vf))
		av := m.A
		fv := av.Ctx(vf)
		fv.ensureConds()
		fv.RejectFormula()
		for _, ai := range av.Atoms {
			if ai.Kind != "eq" || len(ai.Args) != 2 {
				continue
			}
			for i, ar := range ai.Args {
				if strings.Contains(ar, "Audience") && strings.HasSuffix(ar, ".Value") {
					audWant = append(audWant, ai.Args[1-i])
				}
				if strings.HasSuffix(ar, ".Recipient") {
					rcptWant = append(rcptWant, ai.Args[1-i])
				}
			}
		}
	}
	for i := range audWant {
		audWant[i] = strings.TrimPrefix(audWant[i], "saml.")
	}
	audWant, rcptWant = uniqStrings(audWant), uniqStrings(rcptWant)
	r.Check(len(audWant) == 1 && audWant[0] == ent[0], rule, "the audience the SP insists on is the entity ID it publishes", p.Pos(md.Pos()), ent[0], fmt.Sprintf("Metadata() publishes %s but the validator compares audiences with %v: an IdP configured from the published metadata is rejected", ent[0], audWant))
	// request issuer
	if mk := p.Func("saml", "ServiceProvider", "MakeAuthenticationRequest"); mk != nil {
		r.Fn(p.FnName(mk))
		ak := NewAnalysis(p)
		iss := uniqStrings(apOf(ak.Ctx(mk), mk, "Issuer", "Value"))
		r.Check(len(iss) == 1 && iss[0] == ent[0], rule, "the issuer of authentication requests is the published entity ID", p.Pos(mk.Pos()), ent[0], fmt.Sprintf("requests are issued as %v, metadata publishes %s: the IdP cannot find the SP it registered", iss, ent[0]))
		acsReq := uniqStrings(apOf(ak.Ctx(mk), mk, "AuthnRequest", "AssertionConsumerServiceURL"))
		r.Check(len(acsReq) == 1 && len(rcptWant) == 1 && acsReq[0] == rcptWant[0], rule, "the ACS URL sent in requests is the recipient the SP insists on", p.Pos(mk.Pos()), strings.Join(acsReq, ","), fmt.Sprintf("requests carry %v, the validator expects %v", acsReq, rcptWant))
	}
	// parsing the published metadata back does not rewrite endpoint locations
	for _, nf := range sortedFns(p, endpointNormalisers(p)) {
		checkNormaliserIdentity(r, p, nf, rule)
	}
	// Metadata() with the helpers it is split into (endpoint lists, key descriptors, KeyInfo literal)
	rg := NewRegion(p, md, 2)
	type fieldStore struct {
		st *ssa.Store
		c  *rctx
	}
	regionFields := func(typ, field string) []fieldStore {
		var out []fieldStore
		for _, c := range rg.all {
			// (a builder helper called twice is two activations: the same store, with different arguments)
			for _, st := range litFields(c.fn, modPath, typ)[field] {
				out = append(out, fieldStore{st, c})
			}
		}
		return out
	}
	// a POST ACS endpoint at the expected location
	okACS := false
	var seen []string
	for _, fs := range regionFields("IndexedEndpoint", "Binding") {
		fa := fs.st.Addr.(*ssa.FieldAddr)
		xfc := rg.Ctx(am, fs.c)
		bind := xfc.AP(fs.st.Val)
		loc := ""
		for _, s2 := range litFields(fs.c.fn, modPath, "IndexedEndpoint")["Location"] {
			if s2.Addr.(*ssa.FieldAddr).X == fa.X {
				loc = xfc.AP(s2.Val)
			}
		}
		seen = append(seen, bind+" @ "+loc)
		if strings.Contains(bind, "HTTP-POST") && len(rcptWant) == 1 && loc == rcptWant[0] {
			okACS = true
		}
	}
	r.Check(okACS, rule, "metadata offers an HTTP-POST assertion consumer service at the recipient the SP insists on", p.Pos(md.Pos()), strings.Join(seen, "; "), fmt.Sprintf("published endpoints %v, expected an HTTP-POST endpoint at %v", seen, rcptWant))
	// the encryption key descriptor carries the SP certificate
	okEnc := false
	useOf := func(fs fieldStore) string {
		if s, ok := constStr(fs.st.Val); ok {
			return s
		}
		// a builder helper that is told the use
		out := ""
		for _, o := range rg.Origins(RV{V: fs.st.Val, C: fs.c}) {
			if s, ok := constStr(o.V); ok {
				out = s
			} else {
				return ""
			}
		}
		return out
	}
	for _, fs := range regionFields("KeyDescriptor", "Use") {
		if useOf(fs) == "encryption" {
			okEnc = true
		}
	}
	hasCertGuard := false
	for _, fs := range regionFields("X509Certificate", "Data") {
		for _, o := range rg.Origins(RV{V: fs.st.Val, C: fs.c}) {
			if c, ok := o.V.(*ssa.Call); ok && calleeIs(c, "(*encoding/base64.Encoding).EncodeToString") {
				if strings.Contains(rg.Ctx(am, o.C).AP(c.Call.Args[1]), "Certificate.Raw") || derivesFromCertRaw(c.Call.Args[1], 0) {
					hasCertGuard = true
				}
			}
		}
	}
	// ... and only when the SP can decrypt: its decrypter needs an RSA private key (writer/reader agreement between
	// Metadata() and the decrypt path)
	needRSA := false
	for _, fn := range p.modFns {
		if inPkg(fn, xmlencPath) && p.InLibrary(fn) {
			for _, b := range fn.Blocks {
				for _, in := range b.Instrs {
					if ta, ok := in.(*ssa.TypeAssert); ok && typeIs(ta.AssertedType, "crypto/rsa", "PrivateKey") {
						needRSA = true
					}
				}
			}
		}
	}
	if needRSA {
		for _, fs := range regionFields("KeyDescriptor", "Use") {
			st := fs.st
			if useOf(fs) != "encryption" {
				continue
			}
			guarded := false
			xfc := rg.Ctx(am, fs.c)
			xfc.ensureConds()
			cnd := xfc.AbsCond(st.Block())
			for _, nm := range am.B.Support(cnd) {
				ai := am.Atoms[nm]
				isTypeTest := strings.HasPrefix(nm, "ok:") || ai != nil && (ai.Kind == "typeis" || ai.Kind == "ok")
				if isTypeTest && strings.Contains(nm, "rsa.") && (strings.Contains(nm, "ServiceProvider.Key") || strings.Contains(nm, "Certificate.PublicKey")) && am.B.Implies(cnd, am.B.Var(nm)) {
					guarded = true
				}
			}
			r.Check(guarded, rule, "an encryption key is advertised only when the SP holds a key its decrypter accepts (RSA)", p.InstrPos(st), "guarded by a type test for an RSA key", "the encryption key descriptor is published whatever the key type: with an ECDSA (or remote) SP key this library's IdP tries to encrypt to a certificate nobody can decrypt for and fails (\"expected key to be x.509 certificate with an RSA public key\"), so the SP's own metadata is not sufficient registration")
		}
	}
	r.Check(okEnc && hasCertGuard, rule, "metadata publishes the SP certificate as an encryption key (standard base64 of its DER)", p.Pos(md.Pos()), "KeyDescriptor{Use: encryption, X509Certificate: base64(sp.Certificate.Raw...)}", "no encryption key descriptor built from sp.Certificate.Raw: the IdP cannot encrypt for this SP")
}

func derivesFromCertRaw(v ssa.Value, depth int) bool {
	if depth > 8 {
		return false
	}
	switch x := v.(type) {
	case *ssa.Phi:
		for _, e := range x.Edges {
			if derivesFromCertRaw(e, depth+1) {
				return true
			}
		}
	case *ssa.Call:
		if bi, ok := x.Call.Value.(*ssa.Builtin); ok && bi.Name() == "append" {
			return derivesFromCertRaw(x.Call.Args[0], depth+1)
		}
	case *ssa.UnOp:
		if fa, ok := x.X.(*ssa.FieldAddr); ok {
			return fieldName(fa.X.Type(), fa.Field) == "Raw" && typeIs(fa.X.Type(), "crypto/x509", "Certificate")
		}
	}
	return false
}

// checkPrefixClosure: every tree that is serialised or signed on its own declares the namespace prefixes its nodes use.
func checkPrefixClosure(r *Report, p *Prog, bs []*builder, byType map[*types.Named]*builder) {
	rule := "C07.prefixes"
	type info struct {
		declared, used map[string]bool
		children       []*builder
	}
	infos := map[*builder]*info{}
	isBuilderFn := map[*ssa.Function]bool{}
	for _, b := range bs {
		isBuilderFn[b.fn] = true
		// helpers shared by the builders are builder code: a child built there belongs to the tree of the calling builder
		for _, f := range b.rg.Fns {
			isBuilderFn[f] = true
		}
		in := &info{declared: map[string]bool{}, used: map[string]bool{}}
		infos[b] = in
		b.rg.Each(func(x RI) {
			c, ok := x.I.(*ssa.Call)
			if !ok || c.Call.StaticCallee() == nil {
				return
			}
			switch {
			case calleeIs(c, etreePath+".NewElement"):
				if n, ok := b.constIn(c.Call.Args[0], x.C); ok {
					if pf, _ := splitQName(n); pf != "" {
						in.used[pf] = true
					}
				}
			case calleeIs(c, "(*"+etreePath+".Element).CreateAttr"):
				if n, ok := b.constIn(c.Call.Args[1], x.C); ok {
					if strings.HasPrefix(n, "xmlns:") {
						in.declared[strings.TrimPrefix(n, "xmlns:")] = true
					} else if pf, _ := splitQName(n); pf != "" {
						in.used[pf] = true
					}
				}
			case c.Call.StaticCallee().Name() == "Element" && len(c.Call.Args) == 1:
				if cb := byType[namedOf(c.Call.StaticCallee().Signature.Recv().Type())]; cb != nil {
					in.children = append(in.children, cb)
				}
			}
		})
	}
	memo := map[*builder]map[string]bool{}
	var free func(b *builder, stack map[*builder]bool) map[string]bool
	free = func(b *builder, stack map[*builder]bool) map[string]bool {
		if m, ok := memo[b]; ok {
			return m
		}
		if stack[b] {
			return map[string]bool{}
		}
		stack[b] = true
		out := map[string]bool{}
		for pf := range infos[b].used {
			out[pf] = true
		}
		for _, cb := range infos[b].children {
			for pf := range free(cb, stack) {
				out[pf] = true
			}
		}
		for pf := range infos[b].declared {
			delete(out, pf)
		}
		delete(stack, b)
		memo[b] = out
		return out
	}
	// roots: builders invoked from library code that is not itself a builder
	roots := map[*builder][]string{}
	for _, fn := range p.modFns {
		if !p.InLibrary(fn) || isBuilderFn[fn] {
			continue
		}
		for _, blk := range fn.Blocks {
			for _, ins := range blk.Instrs {
				c, ok := ins.(*ssa.Call)
				if !ok || c.Call.StaticCallee() == nil || !isBuilderFn[c.Call.StaticCallee()] {
					continue
				}
				if cb := byType[namedOf(c.Call.StaticCallee().Signature.Recv().Type())]; cb != nil {
					roots[cb] = append(roots[cb], p.InstrPos(ins))
				}
			}
		}
	}
	var rs []*builder
	for b := range roots {
		rs = append(rs, b)
	}
	sort.Slice(rs, func(i, j int) bool { return rs[i].T.Obj().Name() < rs[j].T.Obj().Name() })
	for _, b := range rs {
		var missing []string
		for pf := range free(b, map[*builder]bool{}) {
			missing = append(missing, pf)
		}
		sort.Strings(missing)
		r.Check(len(missing) == 0, rule, fmt.Sprintf("%s: a tree built on its own declares every prefix it uses", b.T.Obj().Name()), roots[b][0], "all prefixes declared at or below the root", fmt.Sprintf("prefix(es) %v are used in the tree but declared nowhere in it; the tree is built standalone at %v (serialised alone it is not namespace-well-formed, e.g. the encrypted assertion)", missing, roots[b]))
	}
}

// checkNoAlgorithmFilter: C07.sig-methods. "Every supported signature method": which algorithms verify is goxmldsig's
// business (the IdP's SetSignatureMethod accepts exactly what that library implements). The SP's signature validator and
// the helpers it is split into do not look at the SignatureMethod/DigestMethod of the message themselves: an allow-list
// written in the module can only be narrower than what the IdP may be configured with, and refuses its own IdP.
func checkNoAlgorithmFilter(r *Report, p *Prog, rule string) {
	sr := findSigRoles(p)
	n := 0
	for _, v := range sr.Validators {
		n++
		r.Fn(p.FnName(v))
		why := ""
		for _, f := range helperRegion(p, v, 2) {
			for _, b := range f.Blocks {
				for _, in := range b.Instrs {
					for _, op := range in.Operands(nil) {
						if op == nil || *op == nil {
							continue
						}
						if s, ok := constStr(*op); ok && (s == "Algorithm" || strings.Contains(s, "SignatureMethod") || strings.Contains(s, "DigestMethod")) {
							why = firstNonEmpty(why, fmt.Sprintf("%q is read at %s", s, p.InstrPos(in)))
						}
					}
				}
			}
		}
		r.Check(why == "", rule, fmt.Sprintf("%s: the signature algorithm is judged by goxmldsig only", p.FnName(v)), p.Pos(v.Pos()), "the validator does not inspect SignatureMethod/DigestMethod", "the SP's validator inspects the message's algorithm itself ("+why+"): a list kept in the module refuses methods its own IdP can be configured to sign with")
	}
	if n == 0 {
		panic(unresolved{"role SP signature validator"})
	}
}

var parsedCertField = regexp.MustCompile(`x509\.ParseCertificate#[^,]*#0\.`)

// checkAnyCertificate: C07.any-certificate. The conditions of the returns of (xmlenc.RSA).Encrypt, with the unexported
// error-returning helpers of the package inlined, mention the certificate argument only in type tests.
func checkAnyCertificate(r *Report, p *Prog, rule string) {
	fns := []*ssa.Function{p.Worker("xmlenc", "RSA", "Encrypt"), p.MustFunc("saml", "IdpAuthnRequest", "MakeAssertionEl")}
	if sel, _ := encCertSelector(p); sel != nil {
		fns = append(fns, sel)
	}
	n := 0
	for _, fn := range fns {
		fn := fn
		a := NewAnalysis(p)
		a.Inline = func(f *ssa.Function) bool {
			return f.Pkg == fn.Pkg && f != fn && p.InLibrary(f) && (f.Object() == nil || !f.Object().Exported()) && errIndex(f) >= 0
		}
		fc := a.Ctx(fn)
		fc.ensureConds()
		r.Fn(p.FnName(fn))
		for _, ret := range fc.Returns() {
			n++
			var foreign []string
			for _, nm := range a.B.Support(fc.Cond(ret.Block())) {
				// the certificate argument of the encrypter, or a field of what x509.ParseCertificate returned
				if !strings.Contains(nm, "x509.Certificate)") && !parsedCertField.MatchString(nm) {
					continue
				}
				if ai := a.AtomIn(fn, nm); ai != nil && ai.Kind == "typeis" {
					continue
				}
				foreign = append(foreign, nm)
			}
			sort.Strings(foreign)
			r.Check(len(foreign) == 0, rule, p.FnName(fn)+": the certificate is tested for its type only", p.InstrPos(ret), "no atom of the return's condition reads the certificate", "the outcome depends on "+strings.Join(foreign, ", ")+": an SP registered with such a certificate, whose private key decrypts as well as any, gets no response")
		}
	}
	if n == 0 {
		r.Undecided(rule, "returns of the encrypting functions", "-", "no return found")
	}
}

// dominatesEveryReturn: b lies on every path to every return of fn.
func dominatesEveryReturn(fn *ssa.Function, b *ssa.BasicBlock) bool {
	n := 0
	for _, blk := range fn.Blocks {
		if _, ok := blk.Instrs[len(blk.Instrs)-1].(*ssa.Return); ok {
			n++
			if !(b == blk || b.Dominates(blk)) {
				return false
			}
		}
	}
	return n > 0
}
