package main

import (
	"go/constant"
	"go/token"

	"golang.org/x/tools/go/ssa"
)

// etreePathConst: the constant text of an etree path argument: a string constant, or a package-level variable of the
// module that its package initialiser sets, once, to etree.MustCompilePath / CompilePath of a string constant and that no
// other function writes (a path compiled once instead of on every call; a compiled Path is only read by the look-ups).
func etreePathConst(v ssa.Value) (string, bool) {
	if k, ok := v.(*ssa.Const); ok && k.Value != nil && k.Value.Kind() == constant.String {
		return constant.StringVal(k.Value), true
	}
	ld, ok := v.(*ssa.UnOp)
	if !ok || ld.Op != token.MUL {
		return "", false
	}
	g, ok := ld.X.(*ssa.Global)
	if !ok || g.Pkg == nil {
		return "", false
	}
	path, n := "", 0
	for _, m := range g.Pkg.Members {
		fn, ok := m.(*ssa.Function)
		if !ok {
			continue
		}
		fns := append([]*ssa.Function{fn}, fn.AnonFuncs...)
		for _, f := range fns {
			for _, b := range f.Blocks {
				for _, in := range b.Instrs {
					st, ok := in.(*ssa.Store)
					if !ok || st.Addr != ssa.Value(g) {
						continue
					}
					n++
					if f.Name() != "init" {
						return "", false
					}
					var c *ssa.Call
					switch x := st.Val.(type) {
					case *ssa.Call:
						c = x
					case *ssa.Extract:
						c, _ = x.Tuple.(*ssa.Call)
					}
					if c == nil || c.Call.StaticCallee() == nil {
						return "", false
					}
					switch c.Call.StaticCallee().String() {
					case "github.com/beevik/etree.MustCompilePath", "github.com/beevik/etree.CompilePath":
						if k, ok := c.Call.Args[0].(*ssa.Const); ok && k.Value != nil && k.Value.Kind() == constant.String {
							path = constant.StringVal(k.Value)
							continue
						}
					}
					return "", false
				}
			}
		}
	}
	if n != 1 {
		return "", false
	}
	return path, true
}
