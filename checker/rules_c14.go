package main

import (
	"fmt"
	"go/token"
	"go/types"
	"sort"
	"strings"

	"golang.org/x/tools/go/ssa"
)

func init() {
	registry["C14"] = []func(*Report){ruleC14}
}

var trustedHTMLTypes = map[string]bool{"HTML": true, "HTMLAttr": true, "JS": true, "JSStr": true, "URL": true, "CSS": true, "Srcset": true}

func ruleC14(r *Report) {
	p := r.P
	r.Trusted("html/template contextual auto-escaping and URL filtering", "net/url.Parse", "encoding/xml", "go/ssa of golang.org/x/tools v0.29.0")
	r.NotDecided("html/template's escaping itself; url.Parse treatment of odd scheme spellings; adequacy of the CSP header")
	r.Rule("C14.template-type", "every template executed by the library is an html/template (no text/template import, constant template sources, exported template fields typed *html/template.Template)", 8)
	r.Rule("C14.no-trusted-cast", "no non-constant string is converted to a trusted html/template type (HTML, HTMLAttr, JS, JSStr, URL, CSS, Srcset); template data fields are plain strings", 1)
	r.Rule("C14.body-writes", "non-constant bytes written to an HTML response derive only from executed html/templates", 1)
	r.Rule("C14.endpoint", "every metadata type with Binding+Location attributes has an UnmarshalXML that passes Location (and ResponseLocation when present) through the scheme checker with its own Binding, error => reject; the checker rejects unparsable and non-http(s) URLs for the five known bindings and blanks the location otherwise", 4)

	checkTemplateTypes(r, p, libFunctions(p), "C14.template-type")
	checkTrustedCasts(r, p, libFunctions(p), "C14.no-trusted-cast")
	checkBodyWrites(r, p)
	checkEndpointTypes(r, p)
	// an emitted form stays what it was: the bytes the POST-form builders hand out belong to the call (C12.form-buffer,
	// borrowed) — a pooled or shared buffer lets the strings of a later request rewrite a form already emitted
	r.Rule("C14.form-buffer", "the bytes returned by the POST-form builders come from a buffer owned by that call (C12.form-buffer, borrowed): no later request's strings can alter an emitted form", 1)
	r.borrow("C12.form-buffer", "C14.form-buffer", func() { checkFormBuffers(r, p) })
}

// isConstantText: v is a compile-time constant string, a concatenation of such, or a parameter of an unexported
// function that receives such a string at every call site of the module.
func isConstantText(p *Prog, fn *ssa.Function, v ssa.Value, depth int) bool {
	if depth > 64 {
		return false
	}
	switch x := v.(type) {
	case *ssa.Const:
		return true
	case *ssa.BinOp:
		return x.Op == token.ADD && isConstantText(p, fn, x.X, depth+1) && isConstantText(p, fn, x.Y, depth+1)
	case *ssa.Phi:
		for _, e := range x.Edges {
			if !isConstantText(p, fn, e, depth+1) {
				return false
			}
		}
		return len(x.Edges) > 0
	case *ssa.Parameter:
		if fn.Object() != nil && fn.Object().Exported() {
			return false
		}
		idx := -1
		for i, q := range fn.Params {
			if q == x {
				idx = i
			}
		}
		sites := p.CallersOf(fn)
		if idx < 0 || len(sites) == 0 {
			return false
		}
		for _, cs := range sites {
			arg := cs.Arg(idx)
			if arg == nil || !isConstantText(p, cs.Caller, arg, depth+1) {
				return false
			}
		}
		return true
	case *ssa.Call:
		// text assembled by a module helper from constants and its own (constant) arguments
		sc := x.Call.StaticCallee()
		// text assembled by a side-effect-free function of package strings or fmt from constant operands only
		// (strings.Join over a literal list of constants, strings.Repeat, fmt.Sprintf of constants, ...)
		if sc != nil && sc.Pkg != nil && (sc.Pkg.Pkg.Path() == "strings" || sc.Pkg.Pkg.Path() == "fmt" && strings.HasPrefix(sc.Name(), "Sprint")) && sc.Signature.Recv() == nil {
			for _, a := range x.Call.Args {
				if mi, ok := a.(*ssa.MakeInterface); ok {
					a = mi.X
				}
				if _, isSlice := a.Type().Underlying().(*types.Slice); isSlice {
					if c, isC := a.(*ssa.Const); isC && c.Value == nil {
						continue
					}
					elems, ok := sliceLiteralValues(a)
					if !ok {
						return false
					}
					for _, e := range elems {
						if !isConstantText(p, fn, e, depth+1) {
							return false
						}
					}
					continue
				}
				if !isConstantText(p, fn, a, depth+1) {
					return false
				}
			}
			return true
		}
		if sc == nil || !p.InModule(sc) || len(sc.Blocks) == 0 || sc.Signature.Results().Len() != 1 {
			return false
		}
		rets := returnsOf(sc)
		for _, rt := range rets {
			if !isConstantText(p, sc, rt.Results[0], depth+1) {
				return false
			}
		}
		return len(rets) > 0
	}
	return false
}

func libFunctions(p *Prog) []*ssa.Function {
	var out []*ssa.Function
	for _, fn := range p.modFns {
		if p.InLibrary(fn) {
			out = append(out, fn)
		}
	}
	return out
}

func checkTemplateTypes(r *Report, p *Prog, fns []*ssa.Function, rule string) {
	nExec := 0
	for _, fn := range fns {
		for _, b := range fn.Blocks {
			for _, in := range b.Instrs {
				c, ok := in.(*ssa.Call)
				if !ok || c.Call.StaticCallee() == nil {
					continue
				}
				nm := c.Call.StaticCallee().String()
				switch {
				case strings.HasPrefix(nm, "(*text/template.Template).Execute"):
					nExec++
					r.Bad(rule, p.FnName(fn)+": template executed", p.InstrPos(in), "a text/template is executed: interpolated strings are not escaped for HTML")
				case strings.HasPrefix(nm, "(*html/template.Template).Execute"):
					nExec++
					r.Fn(p.FnName(fn))
					r.OK(rule, p.FnName(fn)+": template executed", p.InstrPos(in), "html/template")
				case nm == "(*html/template.Template).Parse" || nm == "(*text/template.Template).Parse":
					isConst := isConstantText(p, fn, c.Call.Args[1], 0)
					r.Check(isConst, rule, p.FnName(fn)+": template source is a compile-time constant", p.InstrPos(in), "constant", "a template is parsed from a non-constant string (peer-controlled text could become template code)")
				}
			}
		}
	}
	if nExec == 0 {
		r.Undecided(rule, "template executions", "-", "none found")
	}
	for _, lp := range libPkgs {
		pk := p.ByPath[lp]
		if pk == nil {
			continue
		}
		_, imports := pk.Imports["text/template"]
		r.Check(!imports, rule, lp+": does not import text/template", "-", "no import", "the package imports text/template")
		// exported struct fields holding templates
		sc := pk.Types.Scope()
		for _, name := range sc.Names() {
			tn, ok := sc.Lookup(name).(*types.TypeName)
			if !ok {
				continue
			}
			st, ok := tn.Type().Underlying().(*types.Struct)
			if !ok {
				continue
			}
			for i := 0; i < st.NumFields(); i++ {
				f := st.Field(i)
				ts := types.TypeString(f.Type(), nil)
				if strings.Contains(ts, "template.Template") {
					r.Check(ts == "*html/template.Template", rule, fmt.Sprintf("%s.%s: template field type", tn.Name(), f.Name()), p.Pos(f.Pos()), ts, "an application-supplied template of type "+ts+" is executed with peer-controlled data")
				}
			}
		}
	}
}

func checkTrustedCasts(r *Report, p *Prog, fns []*ssa.Function, rule string) int {
	hits := 0
	n := 0
	isTrusted := func(t types.Type) string {
		nt, ok := t.(*types.Named)
		if !ok || nt.Obj().Pkg() == nil || nt.Obj().Pkg().Path() != "html/template" {
			return ""
		}
		if trustedHTMLTypes[nt.Obj().Name()] {
			return nt.Obj().Name()
		}
		return ""
	}
	for _, fn := range fns {
		for _, b := range fn.Blocks {
			for _, in := range b.Instrs {
				n++
				var x ssa.Value
				var t types.Type
				switch y := in.(type) {
				case *ssa.ChangeType:
					x, t = y.X, y.Type()
				case *ssa.Convert:
					x, t = y.X, y.Type()
				default:
					continue
				}
				tn := isTrusted(t)
				if tn == "" {
					continue
				}
				if _, isConst := x.(*ssa.Const); isConst {
					continue
				}
				hits++
				if r != nil {
					r.Bad(rule, fmt.Sprintf("%s: conversion to template.%s", p.FnName(fn), tn), p.InstrPos(in), "a non-constant string is marked as trusted "+tn+": html/template no longer escapes or filters it")
				}
			}
		}
	}
	// template data structs: fields must not have trusted types
	if r != nil {
		for _, fn := range fns {
			for _, b := range fn.Blocks {
				for _, in := range b.Instrs {
					c, ok := in.(*ssa.Call)
					if !ok || c.Call.StaticCallee() == nil || !strings.HasPrefix(c.Call.StaticCallee().String(), "(*html/template.Template).Execute") {
						continue
					}
					data := c.Call.Args[len(c.Call.Args)-1]
					if mi, ok := data.(*ssa.MakeInterface); ok {
						if st, ok := derefType(mi.X.Type()).Underlying().(*types.Struct); ok {
							for i := 0; i < st.NumFields(); i++ {
								if tn := isTrusted(st.Field(i).Type()); tn != "" {
									hits++
									r.Bad(rule, fmt.Sprintf("%s: template data field %s has trusted type %s", p.FnName(fn), st.Field(i).Name(), tn), p.InstrPos(in), "the field bypasses contextual escaping")
								}
							}
						}
					}
				}
			}
		}
		r.OK(rule, "conversions to trusted template types enumerated", "-", fmt.Sprintf("%d instructions scanned, %d conversions of non-constant strings", n, hits))
	}
	return hits
}

// formRenderer: fn returns bytes that are the output of an html/template execution into a local buffer.
func formRenderer(p *Prog, fn *ssa.Function, depth int) bool {
	if len(fn.Blocks) == 0 || depth > 2 {
		return false
	}
	okAny := false
	for _, b := range fn.Blocks {
		if len(b.Instrs) == 0 || b == fn.Recover {
			continue
		}
		ret, ok := b.Instrs[len(b.Instrs)-1].(*ssa.Return)
		if !ok || len(ret.Results) == 0 {
			continue
		}
		v := Resolve(ret.Results[0])
		c, ok := v.(*ssa.Call)
		if !ok || c.Call.StaticCallee() == nil {
			return false
		}
		sc := c.Call.StaticCallee()
		if sc.String() == "(*bytes.Buffer).Bytes" {
			buf := rootOfAddr(c.Call.Args[0])
			filled := false
			for _, ex := range methodCallsOn(fn, "(*html/template.Template).Execute") {
				if rootOfAddr(rootIface(ex.Call.Args[1])) == buf {
					filled = true
				}
			}
			// no other writer of the buffer
			for _, bb := range fn.Blocks {
				for _, in := range bb.Instrs {
					if w, ok := in.(*ssa.Call); ok && w.Call.StaticCallee() != nil && len(w.Call.Args) > 0 {
						nm := w.Call.StaticCallee().String()
						if (nm == "(*bytes.Buffer).Write" || nm == "(*bytes.Buffer).WriteString") && rootOfAddr(w.Call.Args[0]) == buf {
							if _, isConst := w.Call.Args[1].(*ssa.Const); !isConst {
								return false
							}
						}
					}
				}
			}
			if !filled {
				return false
			}
			okAny = true
			continue
		}
		if p.InLibrary(sc) && formRenderer(p, sc, depth+1) {
			okAny = true
			continue
		}
		return false
	}
	return okAny
}

func checkBodyWrites(r *Report, p *Prog) {
	rule := "C14.body-writes"
	n := 0
	// escaped output is written as it is: handing it to a formatted print as the *format* re-reads every '%' in it (and a
	// relay state or URL contains them) as a verb, which rewrites attribute values after html/template has escaped them
	for _, fn := range libFunctions(p) {
		if hasWriterParam(fn) < 0 {
			continue
		}
		for _, b := range fn.Blocks {
			for _, in := range b.Instrs {
				c, ok := in.(*ssa.Call)
				if !ok || c.Call.StaticCallee() == nil {
					continue
				}
				fi := -1
				switch c.Call.StaticCallee().String() {
				case "fmt.Fprintf":
					fi = 1
				case "fmt.Sprintf", "fmt.Printf":
					fi = 0
				}
				if fi < 0 || fi >= len(c.Call.Args) {
					continue
				}
				if _, isConst := c.Call.Args[fi].(*ssa.Const); isConst {
					continue
				}
				n++
				r.Fn(p.FnName(fn))
				r.Bad(rule, fmt.Sprintf("%s: formatted print with a constant format", p.FnName(fn)), p.InstrPos(in), "the format string of "+c.Call.StaticCallee().String()+" is not a constant in a function that writes a response: rendered (escaped) text is re-interpreted as printf verbs, so a '%' in a peer-controlled value changes the emitted markup")
			}
		}
	}
	for _, fn := range libFunctions(p) {
		if hasWriterParam(fn) < 0 {
			continue
		}
		// only functions that declare an HTML body
		html := false
		for _, b := range fn.Blocks {
			for _, in := range b.Instrs {
				if c, ok := in.(*ssa.Call); ok && c.Call.StaticCallee() != nil {
					nm := c.Call.StaticCallee().String()
					if (nm == "(net/http.Header).Add" || nm == "(net/http.Header).Set") && len(c.Call.Args) == 3 {
						if k, ok := constStr(c.Call.Args[1]); ok && strings.EqualFold(k, "Content-type") {
							if v, ok := constStr(c.Call.Args[2]); ok && strings.Contains(v, "html") {
								html = true
							}
						} else if !ok {
							// headers set from a table in a loop: the content type may be among them
							html = true
						}
					}
				}
			}
		}
		if !html {
			continue
		}
		a := NewAnalysis(p)
		fc := a.Ctx(fn)
		r.Fn(p.FnName(fn))
		w := fn.Params[hasWriterParam(fn)]
		wSlots := writerSlots(fn, w)
		isW := func(v ssa.Value) bool {
			v = rootIface(v)
			if v == ssa.Value(w) {
				return true
			}
			if ld, ok := v.(*ssa.UnOp); ok && ld.Op == token.MUL {
				for _, s := range wSlots {
					if ld.X == s {
						return true
					}
				}
			}
			return false
		}
		type part struct {
			v  ssa.Value
			at ssa.Instruction
		}
		// the parts the written bytes are assembled from: the writes into a local buffer, the operands of
		// slices.Concat / append
		var partsOf func(v ssa.Value, at ssa.Instruction, depth int) ([]part, bool)
		partsOf = func(v ssa.Value, at ssa.Instruction, depth int) ([]part, bool) {
			if depth > 6 {
				return nil, false
			}
			switch x := v.(type) {
			case *ssa.Const:
				return []part{{v, at}}, true
			case *ssa.Convert:
				if _, isC := x.X.(*ssa.Const); isC {
					return []part{{x.X, at}}, true
				}
				// []byte(s) / string(b): the same bytes
				if isStringType(x.Type()) || isStringType(x.X.Type()) {
					if ps, ok := partsOf(x.X, at, depth+1); ok {
						return ps, true
					}
					return []part{{x.X, at}}, true
				}
			case *ssa.BinOp:
				// a + b on strings: the parts of both, in order
				if x.Op == token.ADD && isStringType(x.Type()) {
					var out []part
					for _, e := range []ssa.Value{x.X, x.Y} {
						ps, ok := partsOf(e, at, depth+1)
						if !ok {
							ps = []part{{e, at}}
						}
						out = append(out, ps...)
					}
					return out, true
				}
			case *ssa.Call:
				if calleeIs(x, "(*bytes.Buffer).Bytes") || calleeIs(x, "(*bytes.Buffer).String") {
					buf := rootOfAddr(x.Call.Args[0])
					var out []part
					for _, bb := range fn.Blocks {
						for _, i2 := range bb.Instrs {
							wc, ok := i2.(*ssa.Call)
							if !ok || wc.Call.StaticCallee() == nil || len(wc.Call.Args) < 2 {
								continue
							}
							nm := wc.Call.StaticCallee().String()
							if !(nm == "(*bytes.Buffer).Write" || nm == "(*bytes.Buffer).WriteString") || rootOfAddr(wc.Call.Args[0]) != buf {
								continue
							}
							ps, ok := partsOf(wc.Call.Args[1], i2, depth+1)
							if !ok {
								ps = []part{{wc.Call.Args[1], i2}}
							}
							out = append(out, ps...)
						}
					}
					return out, len(out) > 0
				}
				if sc := x.Call.StaticCallee(); sc != nil && strings.HasPrefix(sc.String(), "slices.Concat") && len(x.Call.Args) == 1 {
					if sl, ok := x.Call.Args[0].(*ssa.Slice); ok {
						if al, ok := sl.X.(*ssa.Alloc); ok {
							var out []part
							for _, e := range arrayLiteralElems(al) {
								ps, ok := partsOf(e, x, depth+1)
								if !ok {
									ps = []part{{e, x}}
								}
								out = append(out, ps...)
							}
							return out, len(out) > 0
						}
					}
				}
				if bi, ok := x.Call.Value.(*ssa.Builtin); ok && bi.Name() == "append" && len(x.Call.Args) == 2 {
					var out []part
					for _, e := range x.Call.Args {
						if isNilConst(e) {
							continue
						}
						ps, ok := partsOf(e, x, depth+1)
						if !ok {
							ps = []part{{e, x}}
						}
						out = append(out, ps...)
					}
					return out, len(out) > 0
				}
			}
			return nil, false
		}
		for _, b := range fn.Blocks {
			for _, in := range b.Instrs {
				c, ok := in.(*ssa.Call)
				if !ok || !c.Call.IsInvoke() || c.Call.Method.Name() != "Write" || !isW(c.Call.Value) {
					continue
				}
				n++
				arg := c.Call.Args[0]
				parts, ok := partsOf(arg, in, 0)
				if !ok {
					parts = []part{{arg, in}}
				}
				for _, pt := range parts {
					src := pt.v
					cons := fmt.Sprintf("%s: HTML body part %s", p.FnName(fn), fc.AP(src))
					if _, isConst := src.(*ssa.Const); isConst {
						r.Trivial(rule, cons, p.InstrPos(pt.at), "constant markup")
						continue
					}
					okSrc := false
					if sc, ok := src.(*ssa.Call); ok && sc.Call.StaticCallee() != nil && p.InLibrary(sc.Call.StaticCallee()) && formRenderer(p, sc.Call.StaticCallee(), 0) {
						okSrc = true
					}
					r.Check(okSrc, rule, cons, p.InstrPos(pt.at), "output of an executed html/template", "bytes that are not the output of an html/template are written into the HTML response")
				}
			}
		}
	}
	if n == 0 {
		r.Undecided(rule, "HTML body writes", "-", "none found")
	}
}

func checkEndpointTypes(r *Report, p *Prog) {
	rule := "C14.endpoint"
	pk := p.ByPath[modPath]
	sc := pk.Types.Scope()
	// the checker: role = func(string, string) (string, error) calling url.Parse
	// (the parse may sit in an unexported helper of the checker)
	var checker *ssa.Function
	for _, fn := range p.modFns {
		if !p.InLibrary(fn) || !(inPkg(fn, modPath) || fn.Pkg != nil && strings.HasPrefix(fn.Pkg.Pkg.Path(), modPath+"/internal/")) || fn.Signature.Recv() != nil || fn.Signature.Params().Len() != 2 || fn.Signature.Results().Len() != 2 || errIndex(fn) != 1 || !isStringType(fn.Signature.Results().At(0).Type()) {
			continue
		}
		for _, f := range helperRegion(p, fn, 2) {
			if len(callsTo(f, "net/url.Parse")) > 0 {
				checker = fn
			}
		}
	}
	if checker == nil {
		panic(unresolved{"role endpoint-location checker (func(binding, location string) (string, error) calling url.Parse)"})
	}
	var names []string
	for _, n := range sc.Names() {
		names = append(names, n)
	}
	sort.Strings(names)
	nTypes := 0
	for _, name := range names {
		tn, ok := sc.Lookup(name).(*types.TypeName)
		if !ok {
			continue
		}
		st, ok := tn.Type().Underlying().(*types.Struct)
		if !ok {
			continue
		}
		var hasBinding bool
		var locs []string
		for i := 0; i < st.NumFields(); i++ {
			switch st.Field(i).Name() {
			case "Binding":
				hasBinding = true
			case "Location", "ResponseLocation":
				locs = append(locs, st.Field(i).Name())
			}
		}
		if !hasBinding || len(locs) == 0 {
			continue
		}
		nTypes++
		named := tn.Type().(*types.Named)
		um := p.SSA.MethodSets.MethodSet(types.NewPointer(named)).Lookup(pk.Types, "UnmarshalXML")
		cons := fmt.Sprintf("%s: endpoint-bearing type validates its locations when parsed", tn.Name())
		if um == nil {
			r.Bad(rule, cons, p.Pos(tn.Pos()), "the type carries Binding and "+strings.Join(locs, "/")+" but has no UnmarshalXML: its locations bypass the scheme check")
			continue
		}
		fn := p.SSA.MethodValue(um)
		a := NewAnalysis(p)
		a.Inline = func(f *ssa.Function) bool {
			return p.InLibrary(f) && inPkg(f, modPath) && f != checker && errIndex(f) >= 0
		}
		B := a.B
		fc := a.Ctx(fn)
		fc.ensureConds()
		r.Fn(p.FnName(fn))
		accept := B.Not(fc.NotAcceptFormula())
		ctxs := ctxsOf(a, fc)
		calls := callsAcross(ctxs, func(c *ssa.Call) bool { return c.Call.StaticCallee() == checker })
		for _, loc := range locs {
			c2 := fmt.Sprintf("%s.%s passes through the scheme checker with the element's own Binding", tn.Name(), loc)
			ok := false
			why := "no call of the checker for this attribute"
			for _, sc := range calls {
				c, cfc := sc.Call, sc.FC
				bIdx, lIdx := endpointParamRoles(p, checker)
				bAP, lAP := cfc.AP(c.Call.Args[bIdx]), cfc.AP(c.Call.Args[lIdx])
				if !strings.HasSuffix(lAP, tn.Name()+"."+loc) {
					continue
				}
				if !strings.HasSuffix(bAP, tn.Name()+".Binding") {
					why = "the checker is given " + bAP + " as binding"
					continue
				}
				reach := cfc.AbsCond(c.Block())
				nm := "isnil(" + cfc.AP(c) + "#1)"
				if !(B.HasVar(nm) && B.Implies(B.And(accept, reach), B.Var(nm))) {
					why = "a checker error does not make UnmarshalXML fail"
					continue
				}
				// result stored back into the same attribute
				stored := false
				for _, fc2 := range ctxs {
					for _, bb := range fc2.Fn.Blocks {
						for _, i2 := range bb.Instrs {
							if st2, oks := i2.(*ssa.Store); oks && strings.HasSuffix(fc2.AP(st2.Addr), tn.Name()+"."+loc) && derivesOrAlloc(st2.Val, c) {
								stored = true
							}
						}
					}
				}
				if !stored {
					why = "the checked value is not stored back into " + loc
					continue
				}
				// the call is made whenever the attribute is present
				for _, an := range B.Support(reach) {
					ai := a.Atoms[an]
					if ai == nil {
						continue
					}
					// (an earlier step failed; or the attribute itself is absent or empty — not a comparison of the attribute
					// with something else, which skips the check for some present values)
					if isCallFailureAtom(ai) || strings.Contains(an, "."+loc) && (ai.Kind == "empty" || ai.Kind == "isnil") {
						continue
					}
					why = "the check is skipped depending on " + an
					stored = false
				}
				// and no successful exit goes around it: with the attribute's own presence tests left aside, accepting
				// implies that the check was reached (an error path of an earlier step that returns a value which may
				// be nil - `return d.Skip()` - leaves the attribute as decoded, unchecked)
				if stored {
					need := reach
					for _, an := range B.Support(reach) {
						if ai := a.Atoms[an]; ai != nil && strings.Contains(an, "."+loc) && (ai.Kind == "empty" || ai.Kind == "isnil") {
							need = B.Exists(need, an)
						}
					}
					if !B.Implies(accept, need) {
						why = "UnmarshalXML can succeed without reaching the check: " + firstCube(B, B.And(accept, B.Not(need)))
						stored = false
					}
				}
				if stored {
					ok = true
				}
			}
			r.Check(ok, rule, c2, p.Pos(fn.Pos()), "checked, error => reject, result stored", why)
		}
	}
	if nTypes < 2 {
		r.Undecided(rule, "endpoint-bearing types", "-", fmt.Sprintf("found %d, expected at least Endpoint and IndexedEndpoint", nTypes))
	}
	// every field of metadata descriptors whose element type has Binding+Location is one of the checked types: covered
	// by the loop above (any such type must itself have the UnmarshalXML).

	// the checker (with the unexported helpers it is split into)
	a := NewAnalysis(p)
	a.Inline = func(f *ssa.Function) bool {
		return f.Pkg == checker.Pkg && f != checker && p.InLibrary(f) && (f.Object() == nil || !f.Object().Exported()) && f.Signature.Results().Len() == 1 && (errIndex(f) == 0 || isPredicate(f))
	}
	B := a.B
	t := NewTable(r, a, checker)
	fc := t.FC
	known := B.False
	nKnown := 0
	for _, ai := range t.atomsIn() {
		if ai.Kind == "eq" && (ai.Args[0] == "p:binding" || ai.Args[1] == "p:binding" || strings.HasPrefix(ai.Args[0], "p:") && strings.Contains(ai.Name, "bindings:")) {
			if strings.Contains(ai.Name, "bindings:") {
				known = B.Or(known, t.V(ai.Name))
				nKnown++
				t.Know(ai.Name)
			}
		}
	}
	r.Check(nKnown == 5, rule, t.name+": the five standard bindings are recognised", p.Pos(checker.Pos()), fmt.Sprintf("%d binding comparisons", nKnown), fmt.Sprintf("%d binding constants are compared, expected HTTP-POST, HTTP-Redirect, HTTP-Artifact, SOAP and SOAP 1.0", nKnown))
	var parseNil, http, https string
	for _, ai := range t.atomsIn() {
		switch {
		case ai.Kind == "isnil" && strings.Contains(ai.Name, "url.Parse#"):
			parseNil = ai.Name
		case ai.Kind == "eq" && strings.Contains(ai.Name, ".Scheme") && strings.Contains(ai.Name, `c:"http")`) || ai.Kind == "eq" && strings.Contains(ai.Name, ".Scheme") && strings.HasSuffix(ai.Args[0], `c:"http"`):
			http = ai.Name
		case ai.Kind == "eq" && strings.Contains(ai.Name, ".Scheme") && strings.Contains(ai.Name, `c:"https"`):
			https = ai.Name
		}
	}
	t.Know(parseNil, http, https)
	if parseNil == "" {
		t.Row(rule, "a known binding's location does not parse as a URL", B.True, "error of url.Parse")
	} else {
		t.Row(rule, "a known binding's location does not parse as a URL", B.And(known, B.Not(t.V(parseNil))))
	}
	if http == "" || https == "" {
		t.Row(rule, "a known binding's location has a scheme other than http/https", B.True, "scheme == \"http\" / \"https\"")
	} else {
		t.Row(rule, "a known binding's location has a scheme other than http/https", B.And(known, B.And(B.Not(t.V(http)), B.Not(t.V(https)))))
	}
	// returned location: the caller's string only for a known binding with an accepted URL; otherwise ""
	for _, ret := range fc.Returns() {
		if !isNilConst(Resolve(ret.Results[1])) {
			continue
		}
		v := Resolve(ret.Results[0])
		type alt struct {
			v ssa.Value
			c *bddNode
		}
		var alts []alt
		if ph, ok := v.(*ssa.Phi); ok {
			for i, e := range ph.Edges {
				pred := ph.Block().Preds[i]
				alts = append(alts, alt{e, B.And(fc.Cond(pred), fc.edgeCond(pred, ph.Block()))})
			}
		} else {
			alts = []alt{{v, fc.Cond(ret.Block())}}
		}
		for _, al := range alts {
			if al.c == B.False {
				continue
			}
			cons := fmt.Sprintf("%s: returned location %s", t.name, fc.AP(al.v))
			if s, ok := constStr(al.v); ok {
				r.Check(s == "", rule, cons, p.InstrPos(ret), "blank", "a constant location other than \"\" is returned")
				continue
			}
			good := known
			if parseNil != "" {
				good = B.And(good, t.V(parseNil))
			}
			if http != "" && https != "" {
				good = B.And(good, B.Or(t.V(http), t.V(https)))
			}
			r.Check(B.Implies(al.c, good), rule, cons, p.InstrPos(ret), "only for a known binding whose URL parsed with scheme http/https", "the caller's location is returned unchanged on a path that is not (known binding, parsable URL, http/https scheme): e.g. "+firstCube(B, B.And(al.c, B.Not(good))))
		}
	}
}

// derivesOrAlloc: v derives from call, or is the address of a local that holds a value derived from it.
func derivesOrAlloc(v ssa.Value, call *ssa.Call) bool {
	if derivesFrom(v, call, 0) {
		return true
	}
	if al, ok := v.(*ssa.Alloc); ok {
		if iv := initStore(al); iv != nil && derivesFrom(iv, call, 0) {
			return true
		}
	}
	// a variable that starts out nil and is given the checked value afterwards
	if ph, ok := v.(*ssa.Phi); ok {
		n := 0
		for _, e := range ph.Edges {
			if isNilConst(Resolve(e)) {
				continue
			}
			n++
			if !derivesOrAlloc(Resolve(e), call) {
				return false
			}
		}
		return n > 0
	}
	return false
}

// endpointParamRoles: which of the two string parameters of the endpoint-location checker is the binding and which the
// location: the location is the one whose value reaches url.Parse (in the checker or a helper it hands it to); by
// default (binding, location).
func endpointParamRoles(p *Prog, fn *ssa.Function) (binding, location int) {
	if len(fn.Params) != 2 {
		return 0, 1
	}
	for _, f := range helperRegion(p, fn, 2) {
		for _, c := range callsTo(f, "net/url.Parse") {
			for i, prm := range fn.Params {
				if flowsByValue(prm, c.Common().Args[0]) || ssa.Value(prm) == c.Common().Args[0] {
					return 1 - i, i
				}
			}
		}
	}
	return 0, 1
}

// sliceLiteralValues: v is a slice literal (a slice of a local array every element of which is stored once at a constant
// index, nothing else done with the array): its elements in order (interface wrappers peeled).
func sliceLiteralValues(v ssa.Value) ([]ssa.Value, bool) {
	sl, ok := v.(*ssa.Slice)
	if !ok || sl.Low != nil || sl.High != nil {
		return nil, false
	}
	al, ok := sl.X.(*ssa.Alloc)
	if !ok {
		return nil, false
	}
	at, ok := derefType(al.Type()).Underlying().(*types.Array)
	if !ok {
		return nil, false
	}
	m := map[int64]ssa.Value{}
	for _, ref := range *al.Referrers() {
		switch u := ref.(type) {
		case *ssa.Slice:
			if u != sl {
				return nil, false
			}
		case *ssa.IndexAddr:
			k, isK := constInt(u.Index)
			if !isK {
				return nil, false
			}
			for _, r2 := range *u.Referrers() {
				st, ok := r2.(*ssa.Store)
				if !ok || st.Addr != ssa.Value(u) {
					return nil, false
				}
				if _, dup := m[k]; dup {
					return nil, false
				}
				val := st.Val
				if mi, ok := val.(*ssa.MakeInterface); ok {
					val = mi.X
				}
				m[k] = val
			}
		case *ssa.DebugRef:
		default:
			return nil, false
		}
	}
	if int64(len(m)) != at.Len() {
		return nil, false
	}
	out := make([]ssa.Value, 0, len(m))
	for i := int64(0); i < at.Len(); i++ {
		out = append(out, m[i])
	}
	return out, true
}
