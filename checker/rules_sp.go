package main

// Service-provider validation tables: C02 (time windows), C03 (addressing), C04 (request correlation).

import (
	"fmt"
	"go/token"
	"go/types"
	"sort"
	"strings"

	"golang.org/x/tools/go/ssa"
)

func init() {
	registry["C02"] = []func(*Report){ruleC02}
	registry["C03"] = []func(*Report){ruleC03}
	registry["C04"] = []func(*Report){ruleC04}
}

// funcsUnmarshallingInto: library functions that hand a *T (T a module type with this name) to
// xml.Unmarshal or to one of the module's unmarshal helpers.
func funcsUnmarshallingInto(p *Prog, typeName string) []*ssa.Function {
	helpers := map[*ssa.Function]bool{}
	for _, fn := range p.modFns {
		for _, ci := range callsTo(fn, "encoding/xml.Unmarshal") {
			if _, ok := ci.Common().Args[1].(*ssa.Parameter); ok {
				helpers[fn] = true
			}
		}
	}
	// a helper that hands its own parameter on to such a helper is one too
	for round := 0; round < 3; round++ {
		for _, fn := range p.modFns {
			if helpers[fn] {
				continue
			}
			for _, b := range fn.Blocks {
				for _, in := range b.Instrs {
					ci, ok := in.(ssa.CallInstruction)
					if !ok || ci.Common().StaticCallee() == nil || !helpers[ci.Common().StaticCallee()] {
						continue
					}
					for _, a := range ci.Common().Args {
						if q, ok := a.(*ssa.Parameter); ok && types.IsInterface(q.Type()) {
							helpers[fn] = true
						}
					}
				}
			}
		}
	}
	var out []*ssa.Function
	for _, fn := range p.modFns {
		if !p.InLibrary(fn) {
			continue
		}
		found := false
		for _, b := range fn.Blocks {
			for _, in := range b.Instrs {
				ci, ok := in.(ssa.CallInstruction)
				if !ok {
					continue
				}
				sc := ci.Common().StaticCallee()
				if sc == nil || !(sc.String() == "encoding/xml.Unmarshal" || helpers[sc]) {
					continue
				}
				for _, a := range ci.Common().Args {
					if mi, ok := a.(*ssa.MakeInterface); ok {
						if n := namedOf(mi.X.Type()); n != nil && n.Obj().Name() == typeName && n.Obj().Pkg() != nil && strings.HasPrefix(n.Obj().Pkg().Path(), modPath) {
							found = true
						}
					}
				}
			}
		}
		if found {
			out = append(out, fn)
		}
	}
	return out
}

// typedEnv names the parameters of fn by their type.
func typedEnv(fn *ssa.Function, names map[string]string) map[ssa.Value]string {
	env := map[ssa.Value]string{}
	for _, p := range fn.Params {
		if n, ok := aliasForType(p.Type(), names); ok {
			env[p] = n
		}
	}
	return env
}

// aliasForType: the canonical name the tables use for a value of type t: by the type's spelling, and, for the unexported
// signature-requirement enumeration, by its role (an integer type of the root package whose name mentions "signature"),
// so that renaming the type does not change the tables.
func aliasForType(t types.Type, names map[string]string) (string, bool) {
	ts := types.TypeString(t, func(pk *types.Package) string { return pk.Name() })
	if n, ok := names[ts]; ok {
		return n, true
	}
	// an unexported defined type of the module over one of these (type outstandingRequestIDs []string; type requestID
	// string) plays the role of what it is made of
	if nm, ok := t.(*types.Named); ok && nm.Obj() != nil && !nm.Obj().Exported() && nm.Obj().Pkg() != nil && strings.HasPrefix(nm.Obj().Pkg().Path(), modPath) && !isSigReqType(t) {
		if n, ok := names[types.TypeString(nm.Underlying(), func(pk *types.Package) string { return pk.Name() })]; ok {
			return n, true
		}
	}
	// a large value handed to an unexported helper by pointer instead of by value plays the same role
	if pt, ok := t.Underlying().(*types.Pointer); ok {
		if _, isStruct := pt.Elem().Underlying().(*types.Struct); isStruct {
			if n, ok := names[types.TypeString(pt.Elem(), func(pk *types.Package) string { return pk.Name() })]; ok {
				return n, true
			}
		}
	}
	if isSigReqType(t) {
		if n, ok := names["saml.signatureRequirement"]; ok {
			return n, true
		}
	}
	return "", false
}

var spParamNames = map[string]string{
	"time.Time": "now", "url.URL": "cur", "[]string": "ids", "saml.signatureRequirement": "sigreq", "string": "str",
}

// validatorInline: the inlining policy of the validation tables. Every library function of the root
// package with an error-only result is analysed as part of its caller (bound 3), so that moving checks
// into helpers does not change the table; the signature validator and the unmarshal helpers stay opaque
// (their results are the atoms the signature rules speak about).
func validatorInline(p *Prog, sc *Scope) func(*ssa.Function) bool {
	sr := findSigRoles(p)
	opaque := map[*ssa.Function]bool{}
	for _, v := range sr.Validators {
		opaque[v] = true
	}
	for f := range sr.Unmarshal {
		opaque[f] = true
	}
	return func(f *ssa.Function) bool {
		if !p.InLibrary(f) || f.Pkg == nil || f.Pkg.Pkg.Path() != modPath || opaque[f] {
			return false
		}
		if f.Signature.Results().Len() == 2 && errIndex(f) == 1 && isBoolType(f.Signature.Results().At(0).Type()) {
			return true // a check that reports (flag, err)
		}
		if alwaysFails(f) {
			return true // the common failure return factored out: return reject(retErr, err)
		}
		return f.Signature.Results().Len() == 1 && (errIndex(f) == 0 || isPredicate(f) || returnsResultStruct(f))
	}
}

// alwaysFails: every return of f hands back an error that is non-nil by construction (an interface made from a concrete
// value, the result of errors.New / fmt.Errorf) and nil or zero for everything else: a helper that builds a failure return.
func alwaysFails(f *ssa.Function) bool {
	ei := errIndex(f)
	if ei < 0 || len(f.Blocks) == 0 {
		return false
	}
	n := 0
	for _, ret := range returnsOf(f) {
		if ei >= len(ret.Results) {
			return false
		}
		switch e := ret.Results[ei].(type) {
		case *ssa.MakeInterface:
		case *ssa.Call:
			sc := e.Call.StaticCallee()
			if sc == nil || !nonNilReturning[sc.String()] {
				return false
			}
		default:
			return false
		}
		for i, v := range ret.Results {
			if i == ei {
				continue
			}
			if c, ok := v.(*ssa.Const); !ok || !(c.Value == nil || c.Value.ExactString() == "false" || c.Value.ExactString() == "0" || c.Value.ExactString() == `""`) {
				return false
			}
		}
		n++
	}
	return n > 0
}

// isPredicate: a function with a single bool result (a check factored out of a validator).
func isPredicate(f *ssa.Function) bool {
	res := f.Signature.Results()
	return res.Len() == 1 && isBoolType(res.At(0).Type())
}

type spModel struct {
	P          *Prog
	Sc         *Scope
	A          *Analysis // with validator inlining
	RespFn     *ssa.Function
	AssertFn   *ssa.Function
	ArtFn      *ssa.Function
	Resp       *Table
	Assert     *Table
	Art        *Table
	fieldWords []string
}

func buildSPModel(r *Report) *spModel {
	p := r.P
	sc := NewScope(p, r.Tier)
	m := &spModel{P: p, Sc: sc}
	inl := validatorInline(p, sc)
	one := func(tn string) *ssa.Function {
		fs := funcsUnmarshallingInto(p, tn)
		seen := map[*ssa.Function]bool{}
		var in []*ssa.Function
		for _, f := range fs {
			// a check block factored out of the parser (error-only result, analysed as part of its caller) may be
			// where the message is unmarshalled: the parser is the function it is called from
			for i := 0; i < 3 && inl(f); i++ {
				var callers []*ssa.Function
				for _, cs := range p.StaticCallersOf(f) {
					if p.InLibrary(cs.Caller) && (len(callers) == 0 || callers[len(callers)-1] != cs.Caller) {
						callers = append(callers, cs.Caller)
					}
				}
				if len(callers) != 1 {
					break
				}
				f = callers[0]
			}
			if f.Pkg != nil && f.Pkg.Pkg.Path() == modPath && f.Signature.Recv() != nil && typeIs(f.Signature.Recv().Type(), modPath, "ServiceProvider") && !seen[f] {
				seen[f] = true
				in = append(in, f)
			}
		}
		if len(in) != 1 {
			panic(unresolved{fmt.Sprintf("role: the ServiceProvider function that unmarshals a %s (found %d)", tn, len(in))})
		}
		return in[0]
	}
	m.RespFn = one("Response")
	m.AssertFn = one("Assertion")
	m.ArtFn = one("ArtifactResponse")
	m.A = NewAnalysis(p)
	m.A.Inline = inl
	mk := func(fn *ssa.Function) *Table {
		fc := m.A.ctxWith(fn, typedEnv(fn, spParamNames), "", 0)
		fc.AliasSlots(spParamNames)
		fc.ensureConds()
		r.Fn(p.FnName(fn))
		return &Table{R: r, A: m.A, FC: fc, Fn: fn, Reject: fc.NotAcceptFormula(), known: map[string]bool{}, name: p.FnName(fn)}
	}
	m.Resp = mk(m.RespFn)
	m.Assert = mk(m.AssertFn)
	m.Art = mk(m.ArtFn)
	m.fieldWords = []string{".Destination", ".Issuer", ".Recipient", ".Audience", ".StatusCode", "InResponseTo", "IssueInstant", "NotBefore", "NotOnOrAfter", "ids", "AllowIDPInitiated", "EntityID", "AcsURL", "cur"}
	r.Trusted("go/ssa of golang.org/x/tools v0.29.0", "time.Time.Add/Before/After and string equality semantics of the Go standard library")
	r.Assume("atoms that mention an element [*] of a ranged slice read 'for some element'; the reject rows of a loop body are compared per element")
	r.Assume("guard atoms are treated as independent propositions; inconsistent valuations are not enumerated in accept scenarios")
	return m
}

// isNow: the validation time: the time parameter (named "now" by role), or a reading of the library clock taken by the
// validator itself (a call through the saml.TimeNow variable).
func isNow(s string) bool { return s == "now" || strings.HasPrefix(s, "r:dyn:g:saml.TimeNow#") }

// ------------------------------------------------------------------------------------------ C02

func ruleC02(r *Report) {
	m := buildSPModel(r)
	p := m.P
	r.NotDecided("lexical time parsing (RelaxedTime, zones, fractions, ms rounding), behaviour for absent attributes (zero instants), time package arithmetic")
	r.Rule("C02.table", "every time comparison that can reject, in linear normal form now > X + k*Tol / now < X + k*Tol, equals the property's table: Response/ArtifactResponse/Assertion IssueInstant +1*MaxIssueDelay, SubjectConfirmationData.NotOnOrAfter +1*MaxClockSkew, Conditions.NotBefore -1*MaxClockSkew, Conditions.NotOnOrAfter +1*MaxClockSkew; tolerances are loads of the public package variables", 3)
	r.Rule("C02.forall", "the per-confirmation rows range over the whole Subject.SubjectConfirmations slice", 1)
	r.Rule("C02.returned", "every assertion returned was accepted by the assertion validator applied to that same object; the response parser returns only assertions produced by the assertion parser under err == nil", 1)
	r.Rule("C02.clock", "the validation time of every row traces back, through all non-test call sites, to a call through the saml.TimeNow variable", 1)
	r.Rule("C02.accept", "a response strictly inside all windows (every time atom false) is not rejected by a time-dependent condition", 1)

	now := argPred(isNow)
	t := m.Resp
	t.TimeRow("C02.table", "Response.IssueInstant", +1, "MaxIssueDelay", 1, now, nil)
	m.Art.TimeRow("C02.table", "ArtifactResponse.IssueInstant", +1, "MaxIssueDelay", 1, now, nil)
	a := m.Assert
	a.TimeRow("C02.table", "Assertion.IssueInstant", +1, "MaxIssueDelay", 1, now, nil)
	sc := a.TimeRow("C02.table", "SubjectConfirmationData.NotOnOrAfter", +1, "MaxClockSkew", 1, now, nil)
	a.TimeRow("C02.table", "Conditions.NotBefore", -1, "MaxClockSkew", -1, now, nil)
	a.TimeRow("C02.table", "Conditions.NotOnOrAfter", +1, "MaxClockSkew", 1, now, nil)

	// any other time comparison in the validators is outside the documented table
	for _, tb := range []*Table{m.Resp, m.Art, m.Assert} {
		for _, ai := range tb.atomsIn() {
			if ai.Kind == "before" && !tb.known[ai.Name] {
				r.Bad("C02.table", fmt.Sprintf("%s: extra time comparison %s", tb.name, ai.Name), p.InstrPos(ai.Instr), "a time-dependent reject that the property's table does not contain")
			}
		}
	}
	// forall
	cons := fmt.Sprintf("%s: confirmation rows range over Assertion.Subject.SubjectConfirmations[*]", a.name)
	r.Check(sc != "" && strings.Contains(sc, "Assertion.Subject.SubjectConfirmations[*].SubjectConfirmationData.NotOnOrAfter"), "C02.forall", cons, p.Pos(m.AssertFn.Pos()),
		"row atom "+sc, "the NotOnOrAfter check is not applied to every element of the full SubjectConfirmations slice")

	// accept: all time atoms false => no reject that depends on time
	for _, tb := range []*Table{m.Resp, m.Assert} {
		B := m.A.B
		f := tb.Reject
		for _, ai := range tb.atomsIn() {
			if ai.Kind == "before" {
				f = B.Restrict(f, ai.Name, false)
			}
		}
		bad := false
		for _, n := range B.Support(f) {
			if strings.Contains(n, "now") || strings.HasPrefix(n, "before(") {
				bad = true
			}
		}
		r.Check(!bad, "C02.accept", fmt.Sprintf("%s: inside all windows no time-dependent reject remains", tb.name), p.Pos(tb.Fn.Pos()), "residual reject condition mentions no time term", "a time-dependent reject remains although every window comparison is satisfied")
	}

	checkReturned(r, m, "C02.returned")
	checkClock(r, m, "C02.clock")
	// the windows are windows over the instants the texts denote: the parse obligations of C15.ms, borrowed
	r.Rule("C02.instants", "every instant a window is computed from is the instant its text denotes: each parse arm of RelaxedTime stores Round(Millisecond) of what time.Parse returned under err == nil, zone-less text is read as UTC, the layouts read any fraction (C15.ms, borrowed)", 3)
	r.borrow("C15.ms", "C02.instants", func() { checkRelaxedTime(r, p) })
	// ... and the decoders of the messages supply no instant of their own
	safely(r, func() {
		checkDecodersPure(r, p, "C02.instants", func(tn string) bool {
			switch tn {
			case "Response", "Assertion", "Conditions", "SubjectConfirmationData", "AuthnStatement", "ArtifactResponse":
				return true
			}
			return false
		})
	})
}

// checkReturned: C02.returned (also used by C01).
func checkReturned(r *Report, m *spModel, rule string) {
	p := m.P
	a := NewAnalysis(p) // no inlining: call results are opaque atoms
	B := a.B
	fn := m.AssertFn
	fc := a.Ctx(fn)
	fc.ensureConds()
	// assertion validator = inlinable callee with *Assertion parameter called from the assertion parser
	var vcalls []*ssa.Call
	for _, b := range fn.Blocks {
		for _, in := range b.Instrs {
			if c, ok := in.(*ssa.Call); ok {
				if sc := c.Call.StaticCallee(); sc != nil && m.A.Inline(sc) {
					vcalls = append(vcalls, c)
				}
			}
		}
	}
	for _, ret := range fc.Returns() {
		if len(ret.Results) != 2 || !isNilConst(Resolve(ret.Results[1])) {
			continue
		}
		v := Resolve(ret.Results[0])
		cons := fmt.Sprintf("%s: returned assertion was validated", p.FnName(fn))
		ok := false
		for _, c := range vcalls {
			if len(c.Call.Args) >= 2 && c.Call.Args[1] == v {
				name := "isnil(" + fc.AP(c) + ")"
				if B.HasVar(name) && fc.Implied(ret.Block(), B.Var(name)) {
					ok = true
				}
			}
		}
		r.Check(ok, rule, cons, p.InstrPos(ret), "success return dominated by the nil edge of the validator applied to the returned object", "an assertion is returned on a path that does not pass the assertion validator (or a different object is validated)")
	}
	// response parser: appended assertions come from the assertion-parser family under err == nil
	rf := m.RespFn
	rc := a.Ctx(rf)
	rc.ensureConds()
	fam := map[*ssa.Function]bool{m.AssertFn: true}
	for _, cs := range p.CallersOf(m.AssertFn) {
		if sameSig(cs.Caller, m.AssertFn) {
			fam[cs.Caller] = true // parseEncryptedAssertion forwards to it
		}
	}
	n := 0
	// the response parser with the helpers it is split into (a collecting helper that is handed the parser as a function
	// value appends on its behalf)
	rgR := NewRegion(p, rf, 2)
	var appendFns []*ssa.Function
	for _, hf := range rgR.Fns {
		if hf == rf || !fam[hf] {
			appendFns = append(appendFns, hf)
		}
	}
	for _, hf := range appendFns {
		rc := a.Ctx(hf)
		rc.ensureConds()
		rf := hf
		for _, b := range hf.Blocks {
			for _, in := range b.Instrs {
				c, ok := in.(*ssa.Call)
				if !ok {
					continue
				}
				bi, ok := c.Call.Value.(*ssa.Builtin)
				if !ok || bi.Name() != "append" || !typeIs(sliceElem(c.Type()), modPath, "Assertion") {
					continue
				}
				n++
				cons := fmt.Sprintf("%s: assertion appended to the result list", p.FnName(rf))
				okA := false
				src := appendedValue(c)
				if ld, ok := src.(*ssa.UnOp); ok {
					// the parser hands back (assertion, err) as a result struct: *parsed.assertion under parsed.err == nil
					if call, idx, ok := callComponent(ld.X); ok && idx < 0 {
						inFam := false
						if cands := p.CalleesAt(rf, call); len(cands) > 0 {
							inFam = true
							for _, ca := range cands {
								if !fam[ca.Fn] {
									inFam = false
								}
							}
						}
						if ei, okE := errComponent(call.Call.StaticCallee()); inFam && okE && ei < 0 {
							name := "isnil(" + rc.AP(call) + "." + fieldName(call.Type(), -ei-1) + ")"
							if B.HasVar(name) && rc.Implied(b, B.Var(name)) {
								okA = true
							}
						}
					}
					if ex, ok := ld.X.(*ssa.Extract); ok && ex.Index == 0 {
						if call, ok := ex.Tuple.(*ssa.Call); ok {
							// the static callee, or every target of a call through a table of parser functions
							inFam := false
							if cands := p.CalleesAt(rf, call); len(cands) > 0 {
								inFam = true
								for _, ca := range cands {
									if !fam[ca.Fn] {
										inFam = false
									}
								}
							}
							if inFam {
								name := "isnil(" + rc.AP(call) + "#1)"
								if B.HasVar(name) && rc.Implied(b, B.Var(name)) {
									okA = true
								}
							}
						}
					}
				}
				r.Check(okA, rule, cons, p.InstrPos(in), "value of the assertion parser under err == nil", "an assertion enters the result list without having been returned by the assertion parser with a nil error")
			}
		}
	}
	// ... or are kept in a single variable instead of a list (the first one that validated): every assignment of the
	// variable is the value the assertion parser returned, under err == nil, and the success return needs at least one
	// success of the parser
	firstVar := map[*ssa.Alloc]bool{}
	if n == 0 {
		for _, b := range rf.Blocks {
			for _, in := range b.Instrs {
				st, ok := in.(*ssa.Store)
				if !ok {
					continue
				}
				al, ok := st.Addr.(*ssa.Alloc)
				if !ok || !typeIs(al.Type().Underlying().(*types.Pointer).Elem(), modPath, "Assertion") {
					continue
				}
				if c, isC := st.Val.(*ssa.Const); isC && c.Value == nil {
					continue // the zero value the variable starts with
				}
				n++
				firstVar[al] = true
				cons := fmt.Sprintf("%s: assertion kept as the result", p.FnName(rf))
				okA := false
				if ld, ok := st.Val.(*ssa.UnOp); ok && ld.Op == token.MUL {
					if ex, ok := ld.X.(*ssa.Extract); ok && ex.Index == 0 {
						if call, ok := ex.Tuple.(*ssa.Call); ok {
							if sc := call.Call.StaticCallee(); sc != nil && fam[sc] {
								name := "isnil(" + rc.AP(call) + "#1)"
								okA = B.HasVar(name) && rc.Implied(b, B.Var(name))
							}
						}
					}
				}
				r.Check(okA, rule, cons, p.InstrPos(in), "value of the assertion parser under err == nil", "an assertion becomes the result without having been returned by the assertion parser with a nil error")
			}
		}
	}
	if n == 0 {
		r.Undecided(rule, p.FnName(rf)+": result list", p.Pos(rf.Pos()), "no append of an Assertion found in the response parser")
	}
	// the success return of the response parser is an element of that list
	for _, ret := range rc.Returns() {
		if len(ret.Results) != 2 || !isNilConst(Resolve(ret.Results[1])) {
			continue
		}
		v := Resolve(ret.Results[0])
		_, isIdx := v.(*ssa.IndexAddr)
		// picked by a helper of the response parser (first(list, errs)): every value it hands back is an element of a
		// slice
		if !isIdx {
			os := rgR.Origins(RV{V: ret.Results[0], C: rgR.top})
			all := len(os) > 0
			for _, o := range os {
				if _, ok := o.V.(*ssa.IndexAddr); !ok {
					all = false
				}
			}
			if all {
				v, isIdx = os[0].V, true
			}
		}
		// a copy of an element (accepted := list[0]; return &accepted)
		if al, isA := v.(*ssa.Alloc); isA && !isIdx {
			if iv := initStore(al); iv != nil {
				if ld, isL := iv.(*ssa.UnOp); isL && ld.Op == token.MUL {
					if ia, ok := ld.X.(*ssa.IndexAddr); ok {
						v, isIdx = ia, true
					}
				}
			}
		}
		if al, isA := v.(*ssa.Alloc); isA && !isIdx && firstVar[al] {
			// the variable was assigned: the return is not reachable unless some call of the parser succeeded
			need := rc.Cond(ret.Block())
			for _, nm := range B.Support(need) {
				for fm := range fam {
					if strings.Contains(nm, "isnil(r:"+shortFn(fm)+"#") && strings.Contains(nm, "#1)") {
						need = B.Restrict(need, nm, false)
					}
				}
			}
			r.Check(need == B.False, rule, fmt.Sprintf("%s: success return is the assertion that validated", p.FnName(rf)), p.InstrPos(ret), rc.AP(v), "the response parser can return its result variable although no call of the assertion parser succeeded (an empty assertion)")
			continue
		}
		r.Check(isIdx && strings.Contains(rc.AP(v), "append#") || isIdx, rule, fmt.Sprintf("%s: success return is an element of the validated list", p.FnName(rf)), p.InstrPos(ret), rc.AP(v), "the response parser returns something other than an element of the list of validated assertions")
	}
}

func sliceElem(t types.Type) types.Type {
	if s, ok := t.Underlying().(*types.Slice); ok {
		return s.Elem()
	}
	return t
}

// appendedValue: for append(s, v) lowered by go/ssa to a one-element slice literal, the value v.
func appendedValue(c *ssa.Call) ssa.Value {
	if len(c.Call.Args) != 2 {
		return nil
	}
	sl, ok := c.Call.Args[1].(*ssa.Slice)
	if !ok {
		return c.Call.Args[1]
	}
	al, ok := sl.X.(*ssa.Alloc)
	if !ok {
		return nil
	}
	for _, rf := range *al.Referrers() {
		if ia, ok := rf.(*ssa.IndexAddr); ok {
			for _, r2 := range *ia.Referrers() {
				if st, ok := r2.(*ssa.Store); ok && st.Addr == ssa.Value(ia) {
					return st.Val
				}
			}
		}
	}
	return nil
}

// paramSources: where the idx-th parameter of fn comes from, through all static non-test call sites.
func paramSources(p *Prog, fn *ssa.Function, idx int, depth int, seen map[string]bool) []string {
	key := fmt.Sprintf("%p/%d", fn, idx)
	if seen[key] || depth > 6 {
		return nil
	}
	seen[key] = true
	var out []string
	sites := p.CallersOf(fn)
	if len(sites) == 0 {
		return []string{"parameter of entry point " + p.FnName(fn)}
	}
	for _, cs := range sites {
		arg := cs.Arg(idx)
		if arg == nil {
			continue
		}
		out = append(out, valueSources(p, cs.Caller, arg, depth, seen)...)
	}
	return out
}

// slotSources: like paramSources for a context slot (a parameter, or a field of a parameter object).
func slotSources(p *Prog, fn *ssa.Function, slot ctxSlot, depth int, seen map[string]bool) []string {
	if slot.isParam() {
		return paramSources(p, fn, slot.Param, depth, seen)
	}
	key := fmt.Sprintf("%p/%d.%v", fn, slot.Param, slot.Path)
	if seen[key] || depth > 6 {
		return nil
	}
	seen[key] = true
	sites := p.CallersOf(fn)
	if len(sites) == 0 {
		return []string{"field of a parameter of entry point " + p.FnName(fn)}
	}
	var out []string
	for _, cs := range sites {
		v, forwarded := slotArgAt(cs, slot)
		if forwarded {
			if cslot, ok := callerSlot(cs, slot); ok {
				out = append(out, slotSources(p, cs.Caller, cslot, depth+1, seen)...)
			}
			continue
		}
		if v == nil {
			out = append(out, "other: unresolved field of the parameter object at "+p.InstrPos(cs.Instr.(ssa.Instruction)))
			continue
		}
		out = append(out, valueSources(p, cs.Caller, v, depth, seen)...)
	}
	return out
}

func valueSources(p *Prog, caller *ssa.Function, v ssa.Value, depth int, seen map[string]bool) []string {
	v = Resolve(v)
	// a field of the caller's own parameter object: where that object's field comes from
	if q, path, ok := fieldChainOf(caller, v); ok && len(path) > 0 && unexportedStruct(derefType(q.Type())) != nil {
		for i, prm := range caller.Params {
			if prm == q {
				return slotSources(p, caller, ctxSlot{i, path}, depth+1, seen)
			}
		}
	}
	switch x := v.(type) {
	case *ssa.Parameter:
		for i, prm := range caller.Params {
			if prm == x {
				if caller.Object() != nil && caller.Object().Exported() && len(p.CallersOf(caller)) == 0 {
					return []string{"parameter " + x.Name() + " of exported " + p.FnName(caller)}
				}
				return paramSources(p, caller, i, depth+1, seen)
			}
		}
	case *ssa.Call:
		if ld, ok := x.Call.Value.(*ssa.UnOp); ok {
			if g, ok := ld.X.(*ssa.Global); ok {
				return []string{"call through " + g.Pkg.Pkg.Name() + "." + g.Name()}
			}
		}
		if sc := x.Call.StaticCallee(); sc != nil {
			return []string{"call " + shortFn(sc)}
		}
	case *ssa.UnOp:
		if fa, ok := x.X.(*ssa.FieldAddr); ok {
			return []string{"field " + fieldName(fa.X.Type(), fa.Field)}
		}
		// the spill slot of a value that a function literal captures (assigned once)
		if al, ok := x.X.(*ssa.Alloc); ok {
			if sv := capturedSingleStore(al); sv != nil {
				return valueSources(p, caller, sv, depth+1, seen)
			}
		}
		// a variable of the enclosing function captured by a function literal and assigned once there
		if fv, ok := x.X.(*ssa.FreeVar); ok {
			if cv := capturedValue(x); cv != ssa.Value(x) && fv.Parent().Parent() != nil {
				return valueSources(p, fv.Parent().Parent(), cv, depth+1, seen)
			}
		}
	case *ssa.Phi:
		// (a loop-carried value refers to itself: each phi is expanded once)
		key := fmt.Sprintf("phi:%p", x)
		if seen[key] {
			return nil
		}
		seen[key] = true
		var out []string
		for _, e := range x.Edges {
			out = append(out, valueSources(p, caller, e, depth+1, seen)...)
		}
		return out
	}
	return []string{"other: " + v.String()}
}

func checkClock(r *Report, m *spModel, rule string) {
	p := m.P
	for _, fn := range []*ssa.Function{m.RespFn, m.AssertFn, m.ArtFn} {
		cons := fmt.Sprintf("%s: validation time comes from the library clock", p.FnName(fn))
		slot, okSlot := slotOf(fn, isTimeType)
		if !okSlot {
			// no time parameter (directly or in a parameter object): the validator reads the clock itself; every instant
			// it compares with must then be a call through the TimeNow variable
			var srcs []string
			for _, tb := range []*Table{m.Resp, m.Assert, m.Art} {
				if tb == nil || tb.Fn != fn {
					continue
				}
				for _, ai := range tb.atomsIn() {
					if ai.Kind != "before" {
						continue
					}
					for _, tt := range ai.TT {
						if tt == nil || tt.BaseV == nil {
							continue
						}
						if _, isField := tt.BaseV.(*ssa.UnOp); isField && !strings.Contains(tt.Base, "TimeNow") {
							continue // the message's own instant
						}
						if strings.Contains(tt.Base, "TimeNow") {
							srcs = append(srcs, "call through saml.TimeNow")
						}
					}
				}
			}
			r.Check(len(srcs) > 0, rule, cons, p.Pos(fn.Pos()), "the validator compares with TimeNow() read in the function itself", "the validator takes no time parameter and does not compare with the library clock")
			continue
		}
		srcs := slotSources(p, fn, slot, 0, map[string]bool{})
		ok := len(srcs) > 0
		for _, s := range srcs {
			if s != "call through saml.TimeNow" {
				ok = false
			}
		}
		r.Check(ok, rule, cons, p.Pos(fn.Pos()), fmt.Sprintf("all %d sources: call through saml.TimeNow", len(srcs)), "validation time has a source other than TimeNow(): "+strings.Join(uniqStrings(srcs), "; "))
	}
}

func uniqStrings(l []string) []string {
	seen := map[string]bool{}
	var out []string
	for _, s := range l {
		if !seen[s] {
			seen[s] = true
			out = append(out, s)
		}
	}
	return out
}

// ------------------------------------------------------------------------------------------ C03

type respAtoms struct {
	sigReq, notPresent, sigNil    string
	destEmpty, destCur, destAcs   string
	issNil, issEq, statusEq       string
	hookNil, allow, irt, hookFail string
	timeA                         string
}

func bindResp(t *Table) respAtoms {
	var x respAtoms
	x.sigReq = t.One("eq", exact("c:0"), exact("sigreq"))
	x.notPresent = t.One("eq", has("errSignatureElementNotPresent"), has("r:"))
	for _, ai := range t.atomsIn() {
		if ai.Kind == "isnil" && strings.HasPrefix(ai.Args[0], "r:") && strings.Contains(ai.Args[0], "ServiceProvider).") && x.notPresent != "" && strings.Contains(x.notPresent, ai.Args[0]) {
			x.sigNil = ai.Name
		}
	}
	x.destEmpty = t.One("empty", sfx("Response.Destination"))
	x.destCur = t.One("eq", sfx("Response.Destination"), exact("cur.String()"))
	x.destAcs = t.One("eq", sfx("Response.Destination"), exact("ServiceProvider.AcsURL.String()"))
	x.issNil = t.One("isnil", sfx("Response.Issuer"))
	x.issEq = t.One("eq", sfx("Response.Issuer.Value"), exact("ServiceProvider.IDPMetadata.EntityID"))
	x.statusEq = t.One("eq", sfx("Response.Status.StatusCode.Value"), has("StatusSuccess"))
	x.hookNil = t.One("isnil", exact("ServiceProvider.ValidateRequestID"))
	x.allow = t.One("b", exact("ServiceProvider.AllowIDPInitiated"))
	x.irt = t.One("eq", sfx("Response.InResponseTo"), exact("ids[*]"))
	for _, ai := range t.atomsIn() {
		if ai.Kind == "isnil" && strings.HasPrefix(ai.Args[0], "r:dyn:ServiceProvider.ValidateRequestID") {
			x.hookFail = ai.Name
			t.Know(ai.Name)
		}
		if ai.Kind == "before" {
			x.timeA = ai.Name
		}
	}
	t.Know(x.sigNil)
	return x
}

// goodResp: a valuation in which every response-level check passes (signed response, dest == cur).
func (x respAtoms) good() map[string]bool {
	return map[string]bool{
		x.sigReq: true, x.notPresent: false, x.sigNil: true,
		x.destEmpty: false, x.destCur: true, x.destAcs: false,
		x.issNil: false, x.issEq: true, x.statusEq: true,
		x.hookNil: true, x.allow: false, x.irt: true, x.timeA: false,
	}
}

func with(m map[string]bool, kv ...any) map[string]bool {
	o := map[string]bool{}
	for k, v := range m {
		o[k] = v
	}
	for i := 0; i+1 < len(kv); i += 2 {
		o[kv[i].(string)] = kv[i+1].(bool)
	}
	return o
}

type assertAtoms struct {
	sigReq, sigNil                          string
	issEq, subjNil, scdNil, condNil         string
	allow, irtSC, recip                     string
	audHookNil, audHookFail, arEmpty, audEq string
	times                                   []string
}

func bindAssert(t *Table) assertAtoms {
	var x assertAtoms
	x.sigReq = t.One("eq", exact("c:0"), exact("sigreq"))
	for _, ai := range t.atomsIn() {
		if ai.Kind == "isnil" && strings.HasPrefix(ai.Args[0], "r:(*saml.ServiceProvider).") && !strings.Contains(ai.Args[0], "@") {
			x.sigNil = ai.Name
		}
		if ai.Kind == "before" {
			x.times = append(x.times, ai.Name)
		}
		if ai.Kind == "isnil" && strings.HasPrefix(ai.Args[0], "r:dyn:ServiceProvider.ValidateAudienceRestriction") {
			x.audHookFail = ai.Name
			t.Know(ai.Name)
		}
	}
	x.issEq = t.One("eq", sfx("Assertion.Issuer.Value"), exact("ServiceProvider.IDPMetadata.EntityID"))
	x.subjNil = t.One("isnil", sfx("Assertion.Subject"))
	x.scdNil = t.One("isnil", sfx("SubjectConfirmations[*].SubjectConfirmationData"))
	x.condNil = t.One("isnil", sfx("Assertion.Conditions"))
	x.allow = t.One("b", exact("ServiceProvider.AllowIDPInitiated"))
	x.irtSC = t.One("eq", sfx("Assertion.Subject.SubjectConfirmations[*].SubjectConfirmationData.InResponseTo"), exact("ids[*]"))
	x.recip = t.One("eq", sfx("Assertion.Subject.SubjectConfirmations[*].SubjectConfirmationData.Recipient"), exact("ServiceProvider.AcsURL.String()"))
	x.audHookNil = t.One("isnil", exact("ServiceProvider.ValidateAudienceRestriction"))
	x.arEmpty = t.One("empty", sfx("Assertion.Conditions.AudienceRestrictions"))
	x.audEq = t.One("eq", sfx("Assertion.Conditions.AudienceRestrictions[*].Audience.Value"), func(s string) bool {
		return strings.HasSuffix(s, "(ServiceProvider.EntityID,ServiceProvider.MetadataURL.String())")
	})
	t.Know(x.sigNil)
	return x
}

func (x assertAtoms) good() map[string]bool {
	g := map[string]bool{
		x.sigReq: true, x.sigNil: true, x.issEq: true, x.subjNil: false, x.scdNil: false, x.condNil: false,
		x.allow: false, x.irtSC: true, x.recip: true, x.audHookNil: true, x.arEmpty: false, x.audEq: true,
	}
	for _, t := range x.times {
		g[t] = false
	}
	return g
}

func ruleC03(r *Report) {
	m := buildSPModel(r)
	B := m.A.B
	p := m.P
	r.NotDecided("URL normalisation semantics of url.URL.String(); that the configured IdP entity ID is the right one; behaviour of an application-installed audience validator")
	r.Rule("C03.table", "reject rows for Destination (mandatory when the Response carries a signature, equal to the received-at URL or the ACS URL), Response/Assertion Issuer, Status, per-confirmation Recipient and audience (entity ID, or metadata URL when unset; hook delegates)", 5)
	r.Rule("C03.accept", "an otherwise valid response satisfying each allowed alternative (no destination on an unsigned response, destination = received-at URL, destination = ACS URL, absent Response Issuer, no audience restriction, matching audience) is not rejected", 3)
	r.Rule("C03.uses", "the accept/reject decision depends on the addressing fields only through the table's exact (in)equalities (no prefix, case-folding, trimming, length or other derived comparison)", 1)
	r.Rule("C03.badstatus", "a non-Success status is reported as ErrBadStatus carrying the status value", 1)

	t := m.Resp
	x := bindResp(t)
	V := t.V
	miss := func(pairs ...string) []string { // name,desc pairs -> descs of missing
		var out []string
		for i := 0; i+1 < len(pairs); i += 2 {
			if pairs[i] == "" {
				out = append(out, pairs[i+1])
			}
		}
		return out
	}
	// Destination
	if ms := miss(x.sigReq, "test of the signature requirement", x.notPresent, "comparison of the response signature result with errSignatureElementNotPresent",
		x.destEmpty, "Destination != \"\"", x.destCur, "Destination == currentURL.String()", x.destAcs, "Destination == AcsURL.String()"); len(ms) > 0 {
		t.Row("C03.table", "Destination is wrong on a signed response or when present", B.True, ms...)
	} else {
		hasSig := B.And(V(x.sigReq), B.Not(V(x.notPresent)))
		t.Row("C03.table", "the Response carries a signature and Destination matches neither URL", B.And(hasSig, B.And(B.Not(V(x.destCur)), B.Not(V(x.destAcs)))))
		t.Row("C03.table", "Destination is present and matches neither URL", B.And(B.Not(V(x.destEmpty)), B.And(B.Not(V(x.destCur)), B.Not(V(x.destAcs)))))
		g := x.good()
		t.Accept("C03.accept", "unsigned response without Destination", with(g, x.notPresent, true, x.sigNil, false, x.destEmpty, true, x.destCur, false, x.destAcs, false), m.fieldWords)
		t.Accept("C03.accept", "Destination equals the received-at URL only", with(g, x.destCur, true, x.destAcs, false), m.fieldWords)
		t.Accept("C03.accept", "Destination equals the ACS URL only", with(g, x.destCur, false, x.destAcs, true), m.fieldWords)
	}
	// Response issuer
	if ms := miss(x.issNil, "Response.Issuer != nil", x.issEq, "Response.Issuer.Value == IDPMetadata.EntityID"); len(ms) > 0 {
		t.Row("C03.table", "Response Issuer present and different from the IdP entity ID", B.True, ms...)
	} else {
		t.Row("C03.table", "Response Issuer present and different from the IdP entity ID", B.And(B.Not(V(x.issNil)), B.Not(V(x.issEq))))
		t.Accept("C03.accept", "Response Issuer absent", with(x.good(), x.issNil, true, x.issEq, false), m.fieldWords)
	}
	// status
	if x.statusEq == "" {
		t.Row("C03.table", "status is not Success", B.True, "Status.StatusCode.Value == StatusSuccess")
	} else {
		t.Row("C03.table", "status is not Success", B.Not(V(x.statusEq)))
	}
	checkBadStatus(r, m, m.RespFn, "C03.badstatus")
	checkBadStatus(r, m, m.ArtFn, "C03.badstatus")
	t.Know(x.timeA)
	t.Unknown("C03.uses", []string{".Destination", ".Issuer", ".StatusCode", "cur", "AcsURL"})
	r.OK("C03.uses", t.name+": guards over addressing fields enumerated", p.Pos(t.Fn.Pos()), fmt.Sprintf("%d atoms in the reject condition", len(t.atomsIn())))

	// artifact response: same issuer/status rows
	at := m.Art
	aIssNil := at.One("isnil", sfx("ArtifactResponse.Issuer"))
	aIssEq := at.One("eq", sfx("ArtifactResponse.Issuer.Value"), exact("ServiceProvider.IDPMetadata.EntityID"))
	aStatus := at.One("eq", sfx("ArtifactResponse.Status.StatusCode.Value"), has("StatusSuccess"))
	if ms := miss(aIssNil, "ArtifactResponse.Issuer != nil", aIssEq, "ArtifactResponse.Issuer.Value == IDPMetadata.EntityID"); len(ms) > 0 {
		at.Row("C03.table", "ArtifactResponse Issuer present and different", B.True, ms...)
	} else {
		at.Row("C03.table", "ArtifactResponse Issuer present and different", B.And(B.Not(at.V(aIssNil)), B.Not(at.V(aIssEq))))
	}
	if aStatus == "" {
		at.Row("C03.table", "ArtifactResponse status is not Success", B.True, "Status.StatusCode.Value == StatusSuccess")
	} else {
		at.Row("C03.table", "ArtifactResponse status is not Success", B.Not(at.V(aStatus)))
	}

	// assertion level
	a := m.Assert
	y := bindAssert(a)
	if y.issEq == "" {
		a.Row("C03.table", "Assertion Issuer differs from the IdP entity ID", B.True, "Assertion.Issuer.Value == IDPMetadata.EntityID")
	} else {
		a.Row("C03.table", "Assertion Issuer differs from the IdP entity ID", B.Not(a.V(y.issEq)))
	}
	if y.recip == "" {
		a.Row("C03.table", "some SubjectConfirmation Recipient differs from the ACS URL", B.True, "SubjectConfirmationData.Recipient == AcsURL.String() for every element of SubjectConfirmations")
	} else {
		a.Row("C03.table", "some SubjectConfirmation Recipient differs from the ACS URL", B.Not(a.V(y.recip)))
	}
	if ms := miss(y.audHookNil, "ValidateAudienceRestriction == nil", y.arEmpty, "len(AudienceRestrictions) == 0", y.audEq, "Audience.Value == firstSet(EntityID, MetadataURL.String()) over all restrictions"); len(ms) > 0 {
		a.Row("C03.table", "audience restrictions present and none names this SP", B.True, ms...)
	} else {
		a.Row("C03.table", "audience restrictions present and none names this SP (default validator)", B.And(a.V(y.audHookNil), B.And(B.Not(a.V(y.arEmpty)), B.Not(a.V(y.audEq)))))
		g := y.good()
		a.Accept("C03.accept", "no audience restriction", with(g, y.arEmpty, true, y.audEq, false), m.fieldWords)
		a.Accept("C03.accept", "an audience restriction names this SP", g, m.fieldWords)
		if y.audHookFail != "" {
			a.Row("C03.table", "the application's audience validator fails", B.And(B.Not(a.V(y.audHookNil)), B.Not(a.V(y.audHookFail))))
			a.Accept("C03.accept", "the application's audience validator accepts", with(g, y.audHookNil, false, y.audHookFail, true, y.arEmpty, false, y.audEq, false), m.fieldWords)
		} else if at := hookCallSite(p, a.Fn, "ValidateAudienceRestriction"); at != nil {
			// the hook is called but the decision does not depend on what it returns (its error is dropped or shadowed)
			r.Bad("C03.table", fmt.Sprintf("%s: reject when the application's audience validator fails", a.name), p.InstrPos(at), "ValidateAudienceRestriction is called, but no accept/reject outcome depends on its result: an assertion the application's validator refuses is accepted")
		}
	}
	for _, tm := range y.times {
		a.Know(tm)
	}
	a.Unknown("C03.uses", []string{".Issuer", ".Recipient", ".Audience", "AcsURL", "EntityID"})
	r.OK("C03.uses", a.name+": guards over addressing fields enumerated", p.Pos(a.Fn.Pos()), fmt.Sprintf("%d atoms in the reject condition", len(a.atomsIn())))
	at.Unknown("C03.uses", []string{".Issuer", ".StatusCode"})
	r.OK("C03.uses", at.name+": guards over addressing fields enumerated", p.Pos(at.Fn.Pos()), fmt.Sprintf("%d atoms in the reject condition", len(at.atomsIn())))
}

// checkBadStatus: the reject exit taken when the status differs returns ErrBadStatus{Status: value}.
func checkBadStatus(r *Report, m *spModel, fn *ssa.Function, rule string) {
	p := m.P
	top := m.A.ctxWith(fn, typedEnv(fn, spParamNames), "", 0)
	top.ensureConds()
	_ = top.NotAcceptFormula() // materialise the inlined contexts
	B := m.A.B
	cons := fmt.Sprintf("%s: non-Success status returned as ErrBadStatus{Status: status value}", p.FnName(fn))
	found := false
	// the value may be built in the function itself or in a helper analysed as part of it
	var ctxs []*FuncCtx
	for _, fc := range m.A.ctxs {
		if fc == top || strings.HasPrefix(fc.prefix, p.FnName(fn)+"/") {
			ctxs = append(ctxs, fc)
		}
	}
	sort.Slice(ctxs, func(i, j int) bool { return ctxs[i].prefix < ctxs[j].prefix })
	for _, fc := range ctxs {
		fc.ensureConds()
		for _, b := range fc.Fn.Blocks {
			for _, in := range b.Instrs {
				mi, ok := in.(*ssa.MakeInterface)
				if !ok || !typeIs(mi.X.Type(), modPath, "ErrBadStatus") {
					continue
				}
				var statusAP string
				if ld, ok := mi.X.(*ssa.UnOp); ok {
					if al, ok := ld.X.(*ssa.Alloc); ok {
						for _, rf := range *al.Referrers() {
							if fa, ok := rf.(*ssa.FieldAddr); ok {
								for _, r2 := range *fa.Referrers() {
									if st, ok := r2.(*ssa.Store); ok {
										statusAP = fc.AP(st.Val)
									}
								}
							}
						}
					}
				}
				okCond := false
				for _, n := range B.Support(fc.Cond(b)) {
					ai := m.A.Atoms[n]
					if ai != nil && ai.Kind == "eq" && strings.Contains(n, "StatusCode.Value") && strings.Contains(n, "StatusSuccess") && fc.Implied(b, B.Not(B.Var(n))) {
						okCond = true
					}
				}
				flows := errFlowsOut(p, mi, 0)
				found = true
				r.Check(okCond && flows && strings.HasSuffix(statusAP, "Status.StatusCode.Value"), rule, cons, p.InstrPos(in),
					"ErrBadStatus{Status: "+statusAP+"} under status != Success", "ErrBadStatus is not built from the status value under the status-mismatch condition, or does not reach the returned error")
			}
		}
	}
	if !found {
		r.Bad(rule, cons, p.Pos(fn.Pos()), "no ErrBadStatus value is produced: a non-Success status is reported as a generic error")
	}
}

// errFlowsOut: the error value is returned, kept as the PrivateErr of the returned error, or handed to a module function or
// local function literal that does one of these with its parameter.
func errFlowsOut(p *Prog, v ssa.Value, depth int) bool {
	// (an error kept in a result variable passes one merge per later step that is skipped once it is set)
	if depth > 12 || v.Referrers() == nil {
		return false
	}
	for _, rf := range *v.Referrers() {
		switch y := rf.(type) {
		case *ssa.Return:
			return true
		case *ssa.Store:
			if y.Val != v {
				continue
			}
			if fa, ok := y.Addr.(*ssa.FieldAddr); ok && fieldName(fa.X.Type(), fa.Field) == "PrivateErr" {
				return true
			}
			if _, ok := y.Addr.(*ssa.Alloc); ok {
				return true // spilled result
			}
		case *ssa.Phi:
			if errFlowsOut(p, y, depth+1) {
				return true
			}
		case *ssa.Call:
			sc := y.Call.StaticCallee()
			if sc == nil || len(sc.Blocks) == 0 || !p.InLibrary(sc) {
				continue
			}
			shift := 0
			if sc.Signature.Recv() != nil {
				shift = 0 // receiver is Args[0] and Params[0] alike
			}
			for i, a := range y.Call.Args {
				if a == v && i+shift < len(sc.Params) && errFlowsOut(p, sc.Params[i+shift], depth+1) {
					return true
				}
			}
		}
	}
	return false
}

// ------------------------------------------------------------------------------------------ C04

func ruleC04(r *Report) {
	m := buildSPModel(r)
	B := m.A.B
	p := m.P
	r.NotDecided("authenticity of tracking cookies (C16/C17 rules); behaviour of an application-installed request-ID validator")
	r.Rule("C04.table", "reject rows: Response.InResponseTo matches no outstanding ID (default validator, IdP-initiated disabled); per-confirmation InResponseTo matches none (IdP-initiated disabled); ArtifactResponse.InResponseTo differs from the issued ArtifactResolve ID", 2)
	r.Rule("C04.accept", "a valid response to an outstanding request is accepted; IdP-initiated configuration and the application hook bypass exactly as documented; an empty outstanding set accepts nothing", 2)
	r.Rule("C04.uses", "InResponseTo and the outstanding-ID list influence the decision only through exact equality with an element of the list (no prefix/containment/length test)", 1)
	r.Rule("C04.artifact-id", "the request ID given to the artifact-response parser is the ID of the ArtifactResolve the same function just built and posted", 1)
	r.Rule("C04.middleware", "the outstanding-ID slice the middleware passes to ParseResponse is built only from the empty ID under AllowIDPInitiated and from SAMLRequestID of tracked requests", 1)

	t := m.Resp
	x := bindResp(t)
	V := t.V
	if x.hookNil == "" || x.allow == "" || x.irt == "" {
		var ms []string
		if x.hookNil == "" {
			ms = append(ms, "ValidateRequestID == nil")
		}
		if x.allow == "" {
			ms = append(ms, "AllowIDPInitiated")
		}
		if x.irt == "" {
			ms = append(ms, "Response.InResponseTo == some element of the outstanding IDs")
		}
		t.Row("C04.table", "Response.InResponseTo matches no outstanding request ID", B.True, ms...)
	} else {
		t.Row("C04.table", "Response.InResponseTo matches no outstanding request ID (default validator, IdP-initiated disabled)", B.And(V(x.hookNil), B.And(B.Not(V(x.allow)), B.Not(V(x.irt)))))
		g := x.good()
		t.Accept("C04.accept", "InResponseTo equals an outstanding ID", g, m.fieldWords)
		t.Accept("C04.accept", "IdP-initiated login is allowed", with(g, x.allow, true, x.irt, false), m.fieldWords)
		if x.hookFail != "" {
			t.Row("C04.table", "the application's request-ID validator fails", B.And(B.Not(V(x.hookNil)), B.Not(V(x.hookFail))))
		} else if at := hookCallSite(p, t.Fn, "ValidateRequestID"); at != nil {
			r.Bad("C04.table", fmt.Sprintf("%s: reject when the application's request-ID validator fails", t.name), p.InstrPos(at), "ValidateRequestID is called, but no accept/reject outcome depends on its result: a response the application's validator refuses is accepted")
		}
	}
	t.Unknown("C04.uses", []string{"InResponseTo", "ids"})
	r.OK("C04.uses", t.name+": guards over InResponseTo enumerated", p.Pos(t.Fn.Pos()), fmt.Sprintf("%d atoms", len(t.atomsIn())))

	a := m.Assert
	y := bindAssert(a)
	if y.allow == "" || y.irtSC == "" {
		a.Row("C04.table", "a SubjectConfirmation's InResponseTo matches no outstanding request ID", B.True, "SubjectConfirmationData.InResponseTo == some outstanding ID, for every element of SubjectConfirmations, unless AllowIDPInitiated")
	} else {
		a.Row("C04.table", "a SubjectConfirmation's InResponseTo matches no outstanding request ID (IdP-initiated disabled)", B.And(B.Not(a.V(y.allow)), B.Not(a.V(y.irtSC))))
		g := y.good()
		a.Accept("C04.accept", "every confirmation answers an outstanding request", g, m.fieldWords)
		a.Accept("C04.accept", "IdP-initiated login is allowed", with(g, y.allow, true, y.irtSC, false), m.fieldWords)
	}
	a.Unknown("C04.uses", []string{"InResponseTo", "ids"})
	r.OK("C04.uses", a.name+": guards over InResponseTo enumerated", p.Pos(a.Fn.Pos()), fmt.Sprintf("%d atoms", len(a.atomsIn())))

	at := m.Art
	artEq := at.One("eq", sfx("ArtifactResponse.InResponseTo"), exact("str"))
	if artEq == "" {
		// the artifact parser has two string parameters? fall back to any parameter-rooted string
		for _, ai := range at.atomsIn() {
			if ai.Kind == "eq" && (strings.HasSuffix(ai.Args[0], "ArtifactResponse.InResponseTo") || strings.HasSuffix(ai.Args[1], "ArtifactResponse.InResponseTo")) {
				other := ai.Args[0]
				if strings.HasSuffix(other, "InResponseTo") {
					other = ai.Args[1]
				}
				if other == "str" || strings.HasPrefix(other, "p:") {
					artEq = ai.Name
					at.Know(artEq)
				}
			}
		}
	}
	if artEq == "" {
		at.Row("C04.table", "ArtifactResponse.InResponseTo differs from the ArtifactResolve ID", B.True, "ArtifactResponse.InResponseTo == artifactRequestID parameter")
	} else {
		at.Row("C04.table", "ArtifactResponse.InResponseTo differs from the ArtifactResolve ID", B.Not(at.V(artEq)))
	}
	at.Unknown("C04.uses", []string{"InResponseTo"})
	r.OK("C04.uses", at.name+": guards over InResponseTo enumerated", p.Pos(at.Fn.Pos()), fmt.Sprintf("%d atoms", len(at.atomsIn())))

	checkArtifactID(r, m, "C04.artifact-id")
	checkMiddlewareIDs(r, m, "C04.middleware")
	checkIDsForwarded(r, m, "C04.uses")
	// the tracked requests the middleware takes its IDs from are authentic tracking tokens: the decode gates of the
	// tracked-request codec (C17.marker), run here on behalf of this property — without the marker check a session
	// token of the same SP decodes as a tracked request with an empty request ID
	safely(r, func() {
		checkDecodeGates(r, p, "C04.middleware", func(fn *ssa.Function) bool {
			cs := claimsStructOf(p, fn)
			return cs != nil && strings.Contains(cs.Obj().Name(), "TrackedRequest")
		})
	})
	// ... and each of them was decoded without error from a cookie named after its signed index (C17.tracker, borrowed):
	// an undecodable cookie listed as a zero TrackedRequest puts the empty ID on the outstanding list
	r.borrow("C17.tracker", "C04.middleware", func() { checkTracker(r, p, "C17.tracker") })
	// ... and "unless IdP-initiated login is enabled" is the application's own choice: the SP's flag is the option
	// itself (C17.ids, configuration part), not an option that is switched on by another setting
	safely(r, func() { checkIDPInitiatedDefault(r, p, "C04.middleware") })
}

// checkIDsForwarded: inside the root package the set of outstanding request IDs is the caller's: wherever a function on
// the consuming path hands a []string on to another function of the package, it is its own []string parameter, unchanged
// (the library adds no ID of its own, e.g. the ID of the ArtifactResolve it issued, and drops none).
func checkIDsForwarded(r *Report, m *spModel, rule string) {
	p := m.P
	sc := NewScope(p, r.Tier)
	n := 0
	for _, fn := range sortedFns(p, sc.Consume) {
		if !p.InLibrary(fn) || fn.Pkg == nil || fn.Pkg.Pkg.Path() != modPath {
			continue
		}
		hasIDs := false
		for _, prm := range fn.Params {
			hasIDs = hasIDs || types.TypeString(prm.Type(), nil) == "[]string"
		}
		if !hasIDs {
			continue
		}
		for _, b := range fn.Blocks {
			for _, in := range b.Instrs {
				ci, ok := in.(ssa.CallInstruction)
				if !ok {
					continue
				}
				callee := ci.Common().StaticCallee()
				if callee == nil || !p.InLibrary(callee) || callee.Pkg == nil || callee.Pkg.Pkg.Path() != modPath {
					continue
				}
				for i, arg := range ci.Common().Args {
					if i >= len(callee.Params) || types.TypeString(callee.Params[i].Type().Underlying(), nil) != "[]string" {
						continue
					}
					n++
					cons := fmt.Sprintf("%s: outstanding request IDs handed to %s", p.FnName(fn), shortFn(callee))
					bad := ""
					for _, lf := range rootLeaves(arg, map[ssa.Value]bool{}) {
						// (a parameter that a function literal captures lives in a cell that is assigned once, from the parameter)
						if ld, ok := lf.(*ssa.UnOp); ok && ld.Op == token.MUL {
							if al, ok := ld.X.(*ssa.Alloc); ok {
								if sv := capturedSingleStore(al); sv != nil {
									lf = sv
								} else if sv := wholeStore(al); sv != nil {
									lf = sv
								}
							}
						}
						if prm, ok := lf.(*ssa.Parameter); ok && prm.Parent() == fn {
							continue
						}
						bad = lf.String()
						if li, ok := lf.(ssa.Instruction); ok {
							bad += " at " + p.InstrPos(li)
						}
					}
					// (rootLeaves looks through append: an appended element shows up as a leaf)
					if c, ok := arg.(*ssa.Call); ok {
						if bi, ok := c.Call.Value.(*ssa.Builtin); ok && bi.Name() == "append" {
							bad = firstNonEmpty(bad, "append at "+p.InstrPos(c))
						}
					}
					r.Check(bad == "", rule, cons, p.InstrPos(in), "the function's own []string parameter", "the ID list passed on is not the caller's list unchanged: "+bad+" — an ID the caller never listed as outstanding can match")
				}
			}
		}
	}
	if n == 0 {
		r.Undecided(rule, "outstanding request IDs forwarded inside the package", "-", "no call passing a []string on the consuming path")
	}
}

// checkArtifactID: in the function that calls ParseXMLArtifactResponse, the request-ID argument is
// the ID field of the ArtifactResolve built in the same function whose SoapRequest() is the posted body.
func checkArtifactID(r *Report, m *spModel, rule string) {
	p := m.P
	entry := p.MustFunc("saml", "ServiceProvider", "ParseXMLArtifactResponse")
	sites := p.StaticCallersOf(entry)
	if len(sites) == 0 {
		r.Undecided(rule, "callers of ParseXMLArtifactResponse", "-", "no in-module caller found")
		return
	}
	for _, cs := range sites {
		fn := cs.Caller
		if !p.InLibrary(fn) {
			continue
		}
		a := NewAnalysis(p)
		fc := a.Ctx(fn)
		args := cs.Instr.Common().Args
		// locate the string parameter that the parser compares with InResponseTo: the 4th (recv, xml, ids, id, url)
		var idArg ssa.Value
		for i, prm := range entry.Params {
			if types.TypeString(prm.Type(), nil) == "string" && i < len(args) {
				idArg = args[i]
			}
		}
		cons := fmt.Sprintf("%s: artifact request ID passed to the parser", p.FnName(fn))
		ok := false
		detail := ""
		if idArg != nil {
			ap := fc.AP(idArg)
			detail = ap
			// must be <X>.ID where X is the result of MakeArtifactResolveRequest in this function
			if ld, okl := idArg.(*ssa.UnOp); okl {
				if fa, okf := ld.X.(*ssa.FieldAddr); okf && fieldName(fa.X.Type(), fa.Field) == "ID" && typeIs(fa.X.Type(), modPath, "ArtifactResolve") {
					if ex, oke := fa.X.(*ssa.Extract); oke {
						if c, okc := ex.Tuple.(*ssa.Call); okc {
							if scf := c.Call.StaticCallee(); scf != nil && scf.Name() == "MakeArtifactResolveRequest" {
								// and the same object's SoapRequest() is what is posted (here or in a helper it is handed to)
								ok = receiverOfMethod(p, ex, "SoapRequest", 0)
							}
						}
					}
				}
			}
		}
		r.Check(ok, rule, cons, p.InstrPos(cs.Instr.(ssa.Instruction)), "ID of the ArtifactResolve built and posted by this function ("+detail+")", "the artifact response is not correlated with the ArtifactResolve that was just issued: "+detail)
	}
}

// receiverOfMethod: v is the receiver of a call to the named method, in this function or in a module function it is
// passed to (bound 3).
func receiverOfMethod(p *Prog, v ssa.Value, method string, depth int) bool {
	if v.Referrers() == nil || depth > 3 {
		return false
	}
	for _, rf := range *v.Referrers() {
		c2, ok := rf.(ssa.CallInstruction)
		if !ok {
			continue
		}
		s2 := c2.Common().StaticCallee()
		if s2 == nil {
			continue
		}
		for i, a := range c2.Common().Args {
			if a != v {
				continue
			}
			if i == 0 && s2.Name() == method && s2.Signature.Recv() != nil {
				return true
			}
			if p.InModule(s2) && i < len(s2.Params) && receiverOfMethod(p, s2.Params[i], method, depth+1) {
				return true
			}
		}
	}
	return false
}

// checkMiddlewareIDs: provenance of the []string passed to ParseResponse by samlsp.
func checkMiddlewareIDs(r *Report, m *spModel, rule string) {
	p := m.P
	entry := p.MustFunc("saml", "ServiceProvider", "ParseResponse")
	n := 0
	for _, cs := range p.StaticCallersOf(entry) {
		fn := cs.Caller
		if fn.Pkg == nil || fn.Pkg.Pkg.Path() != modPath+"/samlsp" {
			continue
		}
		n++
		a := NewAnalysis(p)
		B := a.B
		ids := cs.Instr.Common().Args[2]
		// collect every append that feeds the slice (through phis and through module helpers that build it)
		type site struct {
			fc *FuncCtx
			c  *ssa.Call
		}
		type seenKey struct {
			v  ssa.Value
			fc *FuncCtx
		}
		seen := map[seenKey]bool{}
		var appends []site
		okShape := true
		shapeWhy := "the ID slice has a source other than an empty literal extended by append"
		var walk func(fc *FuncCtx, v ssa.Value, depth int)
		walk = func(fc *FuncCtx, v ssa.Value, depth int) {
			if seen[seenKey{v, fc}] {
				return
			}
			seen[seenKey{v, fc}] = true
			switch x := v.(type) {
			case *ssa.Phi:
				for _, e := range x.Edges {
					walk(fc, e, depth)
				}
			case *ssa.ChangeType:
				// a defined slice type over []string (type requestIDList []string) converted at the boundary
				walk(fc, x.X, depth)
			case *ssa.Parameter:
				// the list a building helper is handed (func (l requestIDList) with(id requestID) requestIDList): the
				// caller's list
				if av := fc.argVal[x]; av != nil && fc.parent != nil {
					walk(fc.parent, av, depth)
					return
				}
				okShape = false
			case *ssa.Call:
				if bi, ok := x.Call.Value.(*ssa.Builtin); ok && bi.Name() == "append" {
					appends = append(appends, site{fc, x})
					walk(fc, x.Call.Args[0], depth)
					return
				}
				if scf := x.Call.StaticCallee(); scf != nil && p.InModule(scf) && len(scf.Blocks) > 0 && depth < 3 && scf.Signature.Results().Len() == 1 {
					r.Fn(p.FnName(scf))
					sub := fc.inlineCtx(scf, x.Call.Args, x)
					for _, ret := range sub.Returns() {
						walk(sub, ret.Results[0], depth+1)
					}
					return
				}
				okShape = false
			case *ssa.Slice:
				if al, ok := x.X.(*ssa.Alloc); ok {
					if strings.Contains(al.Type().String(), "[0]string") {
						return // []string{}
					}
					// make([]string, 0, k) with constant k: a zero-length window on a fresh array
					if x.High != nil && isIntConst(x.High, 0) && x.Low == nil {
						return
					}
				}
				okShape = false
			case *ssa.Const:
			case *ssa.MakeSlice:
				// make([]string, n, ...) with n != 0 introduces n empty IDs
				if !isIntConst(x.Len, 0) {
					okShape = false
					shapeWhy = "the ID slice is created with a non-zero length: it starts with empty request IDs, which the SP reads as 'unsolicited response acceptable'"
				}
			default:
				okShape = false
			}
		}
		walk(a.Ctx(fn), ids, 0)
		cons := fmt.Sprintf("%s: outstanding request IDs passed to ParseResponse", p.FnName(fn))
		if !okShape {
			r.Bad(rule, cons, p.InstrPos(cs.Instr.(ssa.Instruction)), shapeWhy)
			continue
		}
		for _, st := range appends {
			ap := st.c
			fc := st.fc
			fc.ensureConds()
			// (the appended ID as the function that decides what is listed sees it: through the parameters of a building
			// helper and through conversions of a defined string type)
			v := appendedValue(ap)
			for i := 0; i < 4; i++ {
				if cv, ok := v.(*ssa.ChangeType); ok {
					v = cv.X
					continue
				}
				if cv, ok := v.(*ssa.Convert); ok && isStringType(cv.X.Type()) && isStringType(cv.Type()) {
					v = cv.X
					continue
				}
				if prm, ok := v.(*ssa.Parameter); ok && fc.parent != nil && fc.argVal[prm] != nil {
					v = fc.argVal[prm]
					fc = fc.parent
					fc.ensureConds()
					continue
				}
				break
			}
			c2 := fmt.Sprintf("%s: ID appended: %s", p.FnName(fc.Fn), fc.AP(v))
			condOf := st.fc.AbsCond(ap.Block())
			// the IDs to add read from a constant table keyed by the AllowIDPInitiated flag (append(ids, extra[flag]...)):
			// each entry is judged under "flag == its key"
			if lk, isLk := v.(*ssa.Lookup); isLk && !lk.CommaOk && strings.HasSuffix(fc.AP(lk.Index), "AllowIDPInitiated") {
				if ents, okT := fc.tableEntries(lk); okT {
					okAll := true
					for _, e := range ents {
						kb, isB := constBool(e.k)
						var elems []ssa.Value
						if c, isC := e.v.(*ssa.Const); !isC || c.Value != nil {
							el, okE := sliceLiteralValues(e.v)
							if !okE {
								okAll = false
								break
							}
							elems = el
						}
						for _, el := range elems {
							if !isEmptyStringConst(el) || !isB || !kb {
								okAll = false
							}
						}
					}
					r.Check(okAll, rule, c2, p.InstrPos(ap), "constant table: the empty ID under AllowIDPInitiated == true only, nothing else", "the table adds an ID other than the empty one, or the empty one without AllowIDPInitiated")
					continue
				}
			}
			switch {
			case isEmptyStringConst(v):
				// only under AllowIDPInitiated
				okG := false
				for _, nme := range B.Support(condOf) {
					if strings.HasSuffix(nme, "AllowIDPInitiated") && B.Implies(condOf, B.Var(nme)) {
						okG = true
					}
				}
				r.Check(okG, rule, c2, p.InstrPos(ap), "the empty ID is listed only under AllowIDPInitiated", "the empty request ID is listed although IdP-initiated login is not enabled")
			case strings.HasSuffix(fc.AP(v), ".SAMLRequestID") && strings.Contains(fc.AP(v), "GetTrackedRequests"):
				r.OK(rule, c2, p.InstrPos(ap), "SAMLRequestID of an element of RequestTracker.GetTrackedRequests(r)")
			default:
				r.Bad(rule, c2, p.InstrPos(ap), "an outstanding request ID comes from somewhere other than the authenticated tracking cookies")
			}
		}
	}
	if n == 0 {
		r.Undecided(rule, "samlsp caller of ParseResponse", "-", "not found")
	}
}

// hookCallSite: a call through the named func-typed field of the ServiceProvider in fn or the unexported helpers it is
// split into (nil if the hook is never called there).
func hookCallSite(p *Prog, fn *ssa.Function, field string) ssa.Instruction {
	for _, f := range helperRegion(p, fn, 3) {
		for _, b := range f.Blocks {
			for _, in := range b.Instrs {
				c, ok := in.(*ssa.Call)
				if !ok || c.Call.StaticCallee() != nil || c.Call.IsInvoke() {
					continue
				}
				if ld, ok := c.Call.Value.(*ssa.UnOp); ok {
					if fa, ok := ld.X.(*ssa.FieldAddr); ok && fieldName(fa.X.Type(), fa.Field) == field && typeIs(fa.X.Type(), modPath, "ServiceProvider") {
						return in
					}
				}
			}
		}
	}
	return nil
}
