package main

import (
	"fmt"
	"go/constant"
	"go/token"
	"go/types"
	"sort"
	"strings"

	"golang.org/x/tools/go/ssa"
)

func init() {
	registry["C12"] = []func(*Report){ruleC12}
}

func isStringType(t types.Type) bool {
	b, ok := t.Underlying().(*types.Basic)
	return ok && b.Info()&types.IsString != 0
}

func constStr(v ssa.Value) (string, bool) {
	c, ok := v.(*ssa.Const)
	if !ok || c.Value == nil || c.Value.Kind() != constant.String {
		return "", false
	}
	return constant.StringVal(c.Value), true
}

// leafKind classifies a query-string leaf.
func queryLeafKind(fc *FuncCtx, v ssa.Value) (string, string) {
	if s, ok := constStr(v); ok {
		return "const", s
	}
	if c, ok := v.(*ssa.Call); ok {
		if calleeIs(c, "net/url.QueryEscape") {
			return "escaped", fc.AP(c.Call.Args[0])
		}
		if calleeIs(c, "(net/url.Values).Encode") {
			return "encoded", fc.AP(c.Call.Args[0])
		}
	}
	if ld, ok := v.(*ssa.UnOp); ok {
		if fa, ok := ld.X.(*ssa.FieldAddr); ok && fieldName(fa.X.Type(), fa.Field) == "RawQuery" {
			return "existing-query", fc.AP(fa.X)
		}
	}
	return "raw", fc.AP(v)
}

func ruleC12(r *Report) {
	p := r.P
	r.Trusted("net/url QueryEscape/Values.Encode, encoding/base64, compress/flate, html/template", "etree v1.5.0", "go/ssa of golang.org/x/tools v0.29.0")
	r.NotDecided("that the IdP accepts every produced request; XML well-formedness of the produced documents; byte-for-byte relay-state round trip through url.QueryEscape (standard library semantics)")
	r.Rule("C12.query", "every string stored into a URL's RawQuery by the message builders is a concatenation of constants, the endpoint's existing query, url.QueryEscape results and url.Values.Encode results (no raw caller-controlled leaf)", 1)
	r.Rule("C12.relay-guard", "the relay state is emitted unchanged, as one parameter, under no guard other than relayState != \"\" (redirect) and unconditionally in the POST forms", 4)
	r.Rule("C12.close", "deflate and base64 writers are closed, inner first, before the encoded buffer is read; reader and writer use the same base64 alphabet", 1)
	r.Rule("C12.ids", "every message ID is \"id-\" + hex of randomBytes(n) with constant n >= 16; randomBytes fills a fresh n-byte buffer with io.ReadFull from the configured RandReader and does not return on error", 4)
	r.Rule("C12.fields", "request/logout message fields come from the documented sources (destination parameter, ACS URL, entity ID or metadata URL, name-ID format, ForceAuthn, RequestedAuthnContext, given IDs)", 8)
	r.Rule("C12.escape", "the message builders serialise with canonical escaping and the attribute '>' escaper, so CR/TAB/LF and \"]]>\" in name IDs and attribute values survive parsing", 4)
	r.Rule("C12.endpoint", "the destination getters (SSO, SLO, artifact) return the Location of the IdP-metadata endpoint of that service whose Binding is the requested one, or the empty string — not a ResponseLocation, not another service's endpoint", 2)
	r.Rule("C12.form-buffer", "the bytes returned by the POST-form builders come from a buffer owned by that call", 1)

	checkC12Query(r, p)
	checkC12Close(r, p)
	checkC12IDs(r, p)
	checkC12Fields(r, p)
	checkEscape(r, p, "C12.escape", func(fn *ssa.Function) bool {
		return fn.Signature.Recv() != nil && (isMethodOf(fn, "AuthnRequest") || isMethodOf(fn, "LogoutRequest") || isMethodOf(fn, "LogoutResponse")) || isElementSerialiser(p, fn)
	})
	safely(r, func() { checkNoCDATA(r, p, "C12.escape") })
	checkFormBuffers(r, p)
	safely(r, func() { checkEndpointGetters(r, p, "C12.endpoint") })
	r.Rule("C12.idp-decode", "the IdP's request decoder refuses a request only for its HTTP method or a failing decoding step (base64, inflate, form parsing) — not for the relay state, a length or a header", 1)
	safely(r, func() { checkRequestDecoder(r, p, "C12.idp-decode") })
	// ... and the inflating step of the redirect binding refuses a stream only beyond the fixed size limit (the bounded
	// reader's rules, run on behalf of this property): a cap relative to the compressed size turns away the SP's own
	// request when its configuration makes it compress well
	safely(r, func() { checkInflate(r, NewAnalysis(p), NewScope(p, r.Tier), "C12.idp-decode") })
	// "this library's IdP parses and validates every such request": the accept scenarios of the IdP's validator
	// (C05.accept), run here on behalf of this property
	r.Rule("C12.idp-accepts", "a fresh 2.0 request from a registered SP naming the SSO URL (or no Destination) whose ACS is found is not rejected by IdpAuthnRequest.Validate, signed or not (the accept scenarios of C05, borrowed)", 1)
	borrowAccept(r, "C12.idp-accepts")
	// "the message the IdP reads is the message the SP built": the Element() builders of the messages the SP sends emit
	// each field as it is, under the name its reader uses (the writer/reader rules of C07, run on behalf of this property)
	r.Rule("C12.emit", "the Element() builders of AuthnRequest, LogoutRequest, LogoutResponse, ArtifactResolve and their parts (Issuer, NameIDPolicy, NameID, RequestedAuthnContext, Status) emit every field as the field itself or through its fixed formatter, under the names their readers use (C07.schema/verbatim/coverage restricted to these types)", 50)
	sent := []string{"AuthnRequest", "LogoutRequest", "LogoutResponse", "ArtifactResolve", "Issuer", "NameIDPolicy", "NameID", "RequestedAuthnContext", "Status", "StatusCode", "SessionIndex"}
	old := r.remap
	r.remap = func(o *Obligation) (string, bool) {
		if !strings.HasPrefix(o.Rule, "C07.") {
			return o.Rule, true
		}
		for _, t := range sent {
			if strings.HasPrefix(o.Construct, t+":") || strings.HasPrefix(o.Construct, t+".") || strings.HasPrefix(o.Construct, t+" ") {
				return "C12.emit", true
			}
		}
		return "", false
	}
	safely(r, func() { checkBuilders(r, p) })
	r.remap = old
}

// borrowAccept runs the C05 rule family with only its accept scenarios kept, renamed to rule.
func borrowAccept(r *Report, rule string) {
	r.remap = func(o *Obligation) (string, bool) {
		if o.Rule == "C05.accept" {
			return rule, true
		}
		return "", false
	}
	defer func() { r.remap = nil }()
	safely(r, func() { ruleC05(r) })
}

// builders with a relay-state parameter: methods of the outbound message types named Redirect / Post.
func relayBuilders(p *Prog) []*ssa.Function {
	var out []*ssa.Function
	for _, tn := range []string{"AuthnRequest", "LogoutRequest", "LogoutResponse"} {
		for _, m := range []string{"Redirect", "Post"} {
			if f := p.Func("saml", tn, m); f != nil {
				out = append(out, f)
			}
		}
	}
	return out
}

func relayParam(fn *ssa.Function) *ssa.Parameter {
	for _, prm := range fn.Params[1:] {
		if isStringType(prm.Type()) {
			return prm
		}
	}
	return nil
}

func checkC12Query(r *Report, p *Prog) {
	for _, fn := range relayBuilders(p) {
		a := NewAnalysis(p)
		B := a.B
		fc := a.Ctx(fn)
		fc.ensureConds()
		r.Fn(p.FnName(fn))
		rs := relayParam(fn)
		rsAP := ""
		if rs != nil {
			rsAP = fc.AP(rs)
		}
		isRedirect := fn.Name() == "Redirect"
		emitted := 0
		// the builder with the unexported helpers it is split into (query assembly, signing of the query, a shared
		// redirect-URL helper): values and conditions are followed through them
		rg := NewRegion(p, fn, 2)
		isRS := func(v RV) bool {
			if rs == nil {
				return false
			}
			for _, o := range rg.Origins(v) {
				if o.V != ssa.Value(rs) {
					return false
				}
			}
			return true
		}
		rg.Each(func(xi RI) {
			in := xi.I
			b := in.Block()
			xfc := rg.Ctx(a, xi.C)
			xfc.ensureConds()
			switch x := in.(type) {
			case *ssa.Store:
				fa, ok := x.Addr.(*ssa.FieldAddr)
				if !ok || fieldName(fa.X.Type(), fa.Field) != "RawQuery" || !typeIs(fa.X.Type(), "net/url", "URL") {
					return
				}
				cons := fmt.Sprintf("%s: query string stored into the URL", p.FnName(in.Parent()))
				bad := ""
				for _, seq := range rg.concatSeqs(RV{V: x.Val, C: xi.C}, nil, 0) {
					for i, lf := range seq {
						k, d := queryLeafKind(rg.Ctx(a, lf.C), lf.V)
						if k == "raw" {
							bad = "raw leaf " + d
						}
						if k == "escaped" && i > 0 && isRS(RV{V: lf.V.(*ssa.Call).Call.Args[0], C: lf.C}) {
							if s, ok := constStr(seq[i-1].V); ok && s == "&RelayState=" {
								emitted++
							}
						}
					}
				}
				r.Check(bad == "", "C12.query", cons, p.InstrPos(in), "constants, existing query, QueryEscape/Encode results only", "the query string contains a "+bad+": URL metacharacters in it inject or truncate parameters")
			case *ssa.Call:
				// b.WriteString("&RelayState="); b.WriteString(url.QueryEscape(relayState)) on a text builder
				if sc := x.Call.StaticCallee(); sc != nil && sc.Name() == "WriteString" && len(x.Call.Args) == 2 {
					if s, ok := constStr(x.Call.Args[1]); ok && s == "&RelayState=" {
						cons := fmt.Sprintf("%s: RelayState parameter appended", p.FnName(in.Parent()))
						okG := relayGuardOnly(xfc, a, b, rsAP)
						okV := false
						seen := false
						for _, nx := range b.Instrs {
							if nx == in {
								seen = true
								continue
							}
							if !seen {
								continue
							}
							if w, ok := nx.(*ssa.Call); ok && w.Call.StaticCallee() != nil && w.Call.StaticCallee().Name() == "WriteString" && len(w.Call.Args) == 2 && w.Call.Args[0] == x.Call.Args[0] {
								if c, ok := w.Call.Args[1].(*ssa.Call); ok && calleeIs(c, "net/url.QueryEscape") && isRS(RV{V: c.Call.Args[0], C: xi.C}) {
									okV = true
								}
								break
							}
						}
						r.Check(okV && okG == "", "C12.relay-guard", cons, p.InstrPos(in), "QueryEscape(relayState), guarded only by != \"\"", relayWhy(okV, okG, "the value following &RelayState="))
					}
				}
				// query.Set("RelayState", x)
				if calleeIs(x, "(net/url.Values).Set") {
					if k, ok := constStr(x.Call.Args[1]); ok && k == "RelayState" {
						emitted++
						val := x.Call.Args[2]
						cons := fmt.Sprintf("%s: RelayState parameter set", p.FnName(in.Parent()))
						okV := isRS(RV{V: val, C: xi.C})
						okG := relayGuardOnly(xfc, a, b, rsAP)
						r.Check(okV && okG == "", "C12.relay-guard", cons, p.InstrPos(in), "the caller's relay state, guarded only by != \"\"", relayWhy(okV, okG, xfc.AP(val)))
					}
				}
			case *ssa.MapUpdate:
				// query["RelayState"] = []string{x}: what Values.Set does
				if k, ok := constStr(x.Key); ok && k == "RelayState" && types.TypeString(x.Map.Type(), nil) == "net/url.Values" {
					emitted++
					cons := fmt.Sprintf("%s: RelayState parameter set", p.FnName(in.Parent()))
					okV := false
					var val ssa.Value
					if sl, ok := x.Value.(*ssa.Slice); ok {
						if al, ok := sl.X.(*ssa.Alloc); ok {
							if el := arrayLiteralElems(al); len(el) == 1 {
								val = el[0]
								okV = isRS(RV{V: val, C: xi.C})
							}
						}
					}
					okG := relayGuardOnly(xfc, a, b, rsAP)
					vap := "?"
					if val != nil {
						vap = xfc.AP(val)
					}
					r.Check(okV && okG == "", "C12.relay-guard", cons, p.InstrPos(in), "the caller's relay state, guarded only by != \"\"", relayWhy(okV, okG, vap))
				}
			case *ssa.BinOp:
				if x.Op == token.ADD {
					if s, ok := constStr(x.Y); ok && s == "&RelayState=" {
						cons := fmt.Sprintf("%s: RelayState parameter appended", p.FnName(in.Parent()))
						okG := relayGuardOnly(xfc, a, b, rsAP)
						// what follows must be QueryEscape(relayState)
						okV := false
						for _, rf := range *x.Referrers() {
							if bo, ok := rf.(*ssa.BinOp); ok && bo.Op == token.ADD && bo.X == ssa.Value(x) {
								if c, ok := bo.Y.(*ssa.Call); ok && calleeIs(c, "net/url.QueryEscape") && isRS(RV{V: c.Call.Args[0], C: xi.C}) {
									okV = true
								}
							}
						}
						r.Check(okV && okG == "", "C12.relay-guard", cons, p.InstrPos(in), "QueryEscape(relayState), guarded only by != \"\"", relayWhy(okV, okG, "the value following &RelayState="))
					}
				}
			}
		})
		if isRedirect {
			r.Check(emitted > 0, "C12.relay-guard", fmt.Sprintf("%s: relay state is emitted", p.FnName(fn)), p.Pos(fn.Pos()), "RelayState parameter present", "the redirect builder never emits the relay state")
		} else {
			// POST: template data field RelayState <- the parameter, unconditionally
			okP := false
			rg.Each(func(xi RI) {
				st, ok := xi.I.(*ssa.Store)
				if !ok {
					return
				}
				xfc := rg.Ctx(a, xi.C)
				xfc.ensureConds()
				if fa, ok := st.Addr.(*ssa.FieldAddr); ok && fieldName(fa.X.Type(), fa.Field) == "RelayState" && isRS(RV{V: st.Val, C: xi.C}) && !mentions(B, xfc.AbsCond(st.Block()), rsAP) {
					okP = true
				}
			})
			// or passed on to a helper unchanged
			if !okP && rs != nil {
				for _, rf := range *rs.Referrers() {
					if c, ok := rf.(*ssa.Call); ok && c.Call.StaticCallee() != nil && p.InLibrary(c.Call.StaticCallee()) && !mentions(B, fc.Cond(c.Block()), rsAP) {
						okP = true
					}
				}
			}
			r.Check(okP, "C12.relay-guard", fmt.Sprintf("%s: form field RelayState <- the caller's relay state, unconditionally", p.FnName(fn)), p.Pos(fn.Pos()), "template data", "the POST form's RelayState field is not the caller's relay state (or is set conditionally)")
		}
	}
}

func relayWhy(okV bool, guard string, got string) string {
	var w []string
	if !okV {
		w = append(w, "the emitted value is "+got+", not the caller's relay state")
	}
	if guard != "" {
		w = append(w, "emission also depends on "+guard+" (relay states are silently dropped or altered)")
	}
	return strings.Join(w, "; ")
}

// relayGuardOnly: atoms of the block condition that mention the relay state must be just empty(relayState).
func relayGuardOnly(fc *FuncCtx, a *Analysis, b *ssa.BasicBlock, rsAP string) string {
	if rsAP == "" {
		return "no relay-state parameter"
	}
	for _, name := range a.B.Support(fc.AbsCond(b)) {
		if !strings.Contains(name, rsAP) {
			continue
		}
		if name == "empty("+rsAP+")" {
			continue
		}
		return name
	}
	return ""
}

func checkC12Close(r *Report, p *Prog) {
	n := 0
	for _, fn := range p.FuncsCalling("encoding/base64.NewEncoder") {
		if !p.InLibrary(fn) {
			continue
		}
		a := NewAnalysis(p)
		fc := a.Ctx(fn)
		r.Fn(p.FnName(fn))
		for _, ec := range methodCallsOn(fn, "encoding/base64.NewEncoder") {
			n++
			sink := rootIface(ec.Call.Args[1])
			alpha := fc.AP(ec.Call.Args[0])
			r.Check(strings.HasSuffix(alpha, "base64.StdEncoding"), "C12.close", p.FnName(fn)+": base64 alphabet", p.InstrPos(ec), alpha, "encoder uses "+alpha+"; the reader side decodes with StdEncoding")
			// the flate writer on top of it
			var fw *ssa.Call
			for _, c := range methodCallsOn(fn, "compress/flate.NewWriter") {
				if rootIface(c.Call.Args[0]) == ssa.Value(ec) {
					fw = c
				}
			}
			var closeB, closeF *ssa.Call
			for _, b := range fn.Blocks {
				for _, in := range b.Instrs {
					c, ok := in.(*ssa.Call)
					if !ok {
						continue
					}
					if c.Call.IsInvoke() && c.Call.Method.Name() == "Close" && rootIface(c.Call.Value) == ssa.Value(ec) {
						closeB = c
					}
					if fw != nil && calleeIs(c, "(*compress/flate.Writer).Close") && derivesFrom(c.Call.Args[0], fw, 0) {
						closeF = c
					}
				}
			}
			cons := p.FnName(fn) + ": writers closed (deflate, then base64) before the buffer is read"
			var why []string
			if fw != nil && closeF == nil {
				why = append(why, "the deflate writer is never closed (its tail is not flushed)")
			}
			if closeB == nil {
				why = append(why, "the base64 encoder is never closed (up to two bytes and padding are lost)")
			}
			if closeF != nil && closeB != nil && !domOrSame(closeF, closeB) {
				why = append(why, "the base64 encoder is closed before the deflate writer")
			}
			// reads of the sink
			for _, b := range fn.Blocks {
				for _, in := range b.Instrs {
					c, ok := in.(*ssa.Call)
					if !ok || c.Call.StaticCallee() == nil || len(c.Call.Args) == 0 {
						continue
					}
					nm := c.Call.StaticCallee().Name()
					if (nm == "String" || nm == "Bytes") && rootOfAddr(c.Call.Args[0]) == rootOfAddr(sink) {
						if closeB != nil && !domOrSame(closeB, c) {
							why = append(why, "the buffer is read at "+p.InstrPos(c)+" before the encoder is closed")
						}
					}
				}
			}
			r.Check(len(why) == 0, "C12.close", cons, p.InstrPos(ec), "Close(flate) -> Close(base64) -> read", strings.Join(why, "; "))
		}
	}
	if n == 0 {
		r.Undecided("C12.close", "encoder pairs", "-", "no base64.NewEncoder call found in the builders")
	}
	// reader side
	rd := p.MustFunc("saml", "", "NewIdpAuthnRequest")
	a := NewAnalysis(p)
	fc := a.Ctx(rd)
	for _, c := range methodCallsOn(rd, "(*encoding/base64.Encoding).DecodeString") {
		alpha := fc.AP(c.Call.Args[0])
		r.Check(strings.HasSuffix(alpha, "base64.StdEncoding"), "C12.close", p.FnName(rd)+": reader-side base64 alphabet", p.InstrPos(c), alpha, "decoder uses "+alpha)
	}
}

func checkC12IDs(r *Report, p *Prog) {
	rule := "C12.ids"
	msgTypes := []string{"AuthnRequest", "LogoutRequest", "LogoutResponse", "ArtifactResolve", "Response", "Assertion"}
	n := 0
	for _, fn := range p.modFns {
		if !p.InLibrary(fn) || !inPkg(fn, modPath) {
			continue
		}
		a := NewAnalysis(p)
		fc := a.Ctx(fn)
		for _, tn := range msgTypes {
			for _, st := range litFields(fn, modPath, tn)["ID"] {
				n++
				r.Fn(p.FnName(fn))
				cons := fmt.Sprintf("%s: %s.ID", p.FnName(fn), tn)
				ok := false
				detail := fc.AP(st.Val)
				// the ID may be minted by a small helper of the package: judged at what the helper returns
				idv := st.Val
				for d := 0; d < 2; d++ {
					hc, okh := idv.(*ssa.Call)
					if !okh || hc.Call.StaticCallee() == nil || !p.InLibrary(hc.Call.StaticCallee()) || len(hc.Call.Args) != 0 {
						break
					}
					ret := singleReturn(hc.Call.StaticCallee())
					if ret == nil || len(ret.Results) != 1 {
						break
					}
					idv = ret.Results[0]
				}
				// "id-" + hex.EncodeToString(randomBytes(n)) is the same text as Sprintf("id-%x", randomBytes(n))
				if bo, okb := idv.(*ssa.BinOp); okb && bo.Op == token.ADD {
					if pf, okp := constStr(bo.X); okp && pf == "id-" {
						if hc, okh := bo.Y.(*ssa.Call); okh && calleeIs(hc, "encoding/hex.EncodeToString") {
							if rc, okr := hc.Call.Args[0].(*ssa.Call); okr && rc.Call.StaticCallee() != nil && isRandomBytes(p, rc.Call.StaticCallee()) {
								if k, okk := constInt(rc.Call.Args[0]); okk && k >= 16 {
									ok = true
									detail = fmt.Sprintf("id- + hex of %d random bytes", k)
								} else {
									detail = "fewer than 16 random bytes (or a non-constant count)"
								}
							}
						}
					}
				}
				if c, okc := idv.(*ssa.Call); okc && calleeIs(c, "fmt.Sprintf") {
					if f, okf := constStr(c.Call.Args[0]); okf && f == "id-%x" {
						// the single vararg is randomBytes(n)
						for _, lf := range rootLeaves(c.Call.Args[1], map[ssa.Value]bool{}) {
							if mi, okm := lf.(*ssa.MakeInterface); okm {
								// the body of randomBytes written out in place: a fresh buffer of k bytes filled from the random
								// source, the use reached only when the fill succeeded
								if k, whyB := inlineRandomBuf(a.Ctx(st.Parent()), mi.X, st.Block()); k > 0 {
									if whyB == "" && k >= 16 {
										ok = true
										detail = fmt.Sprintf("id-%%x of %d bytes read in place from the random source", k)
									} else if whyB != "" {
										detail = whyB
									} else {
										detail = "fewer than 16 random bytes"
									}
								}
								if rc, okr := mi.X.(*ssa.Call); okr && rc.Call.StaticCallee() != nil && isRandomBytes(p, rc.Call.StaticCallee()) {
									if k, okk := constInt(rc.Call.Args[0]); okk && k >= 16 {
										ok = true
										detail = fmt.Sprintf("id-%%x of %d random bytes", k)
									} else {
										detail = "fewer than 16 random bytes (or a non-constant count)"
									}
								}
							}
						}
					}
				}
				r.Check(ok, rule, cons, p.InstrPos(st), detail, "the message ID is not \"id-\" + hex of at least 128 bits from the random source: "+detail)
			}
		}
	}
	if n < 5 {
		r.Undecided(rule, "message ID assignments", "-", fmt.Sprintf("found %d", n))
	}
	// randomBytes itself (every library package has one)
	for _, fn := range p.modFns {
		if !p.InLibrary(fn) || !isRandomBytes(p, fn) {
			continue
		}
		a := NewAnalysis(p)
		B := a.B
		fc := a.Ctx(fn)
		fc.ensureConds()
		r.Fn(p.FnName(fn))
		cons := p.FnName(fn) + ": n fresh bytes from the configured random source, no return on error"
		// a wrapper that hands the configured reader and the count to a helper (possibly of another package of the
		// module) and returns what it returns: the helper is judged with the reader bound
		body, count := fn, ssa.Value(fn.Params[0])
		if ret := singleReturn(fn); ret != nil && len(ret.Results) == 1 {
			if c, ok := Resolve(ret.Results[0]).(*ssa.Call); ok {
				if h := c.Call.StaticCallee(); h != nil && p.InModule(h) && len(h.Blocks) > 0 && len(methodCallsOn(fn, "io.ReadFull")) == 0 {
					for i, arg := range c.Call.Args {
						if arg == ssa.Value(fn.Params[0]) && i < len(h.Params) {
							body, count = h, h.Params[i]
							fc = fc.inlineCtx(h, c.Call.Args, c)
							fc.ensureConds()
						}
					}
				}
			}
		}
		fn := body
		var why []string
		var fill *ssa.Call
		for _, c := range methodCallsOn(fn, "io.ReadFull") {
			if strings.HasSuffix(fc.AP(c.Call.Args[0]), "saml.RandReader") {
				fill = c
			}
		}
		if fill == nil {
			why = append(why, "the buffer is not filled with io.ReadFull(RandReader, buf) (a plain Read may return fewer bytes)")
		} else {
			ms, ok := fill.Call.Args[1].(*ssa.MakeSlice)
			if !ok || ms.Len != count {
				why = append(why, "the buffer is not a fresh make([]byte, n)")
			}
			nm := "isnil(" + fc.AP(fill) + "#1)"
			for _, ret := range fc.Returns() {
				if !B.HasVar(nm) || !fc.Implied(ret.Block(), B.Var(nm)) {
					why = append(why, "returns although reading the random source failed")
				}
				if ok && Resolve(ret.Results[0]) != ssa.Value(ms) {
					why = append(why, "returns something other than the filled buffer")
				}
			}
		}
		r.Check(len(why) == 0, rule, cons, p.Pos(fn.Pos()), "make(n) + io.ReadFull(RandReader) + panic on error", strings.Join(why, "; "))
	}
}

// isRandomBytes: role = library func(int) []byte that reads saml.RandReader.
func isRandomBytes(p *Prog, fn *ssa.Function) bool {
	if fn.Signature.Recv() != nil || fn.Signature.Params().Len() != 1 || fn.Signature.Results().Len() != 1 {
		return false
	}
	// (an integer count, possibly of a named type, in; bytes out)
	if bt, ok := fn.Signature.Params().At(0).Type().Underlying().(*types.Basic); !ok || bt.Info()&types.IsInteger == 0 {
		return false
	}
	if types.TypeString(fn.Signature.Results().At(0).Type().Underlying(), nil) != "[]byte" {
		return false
	}
	for _, b := range fn.Blocks {
		for _, in := range b.Instrs {
			if ld, ok := in.(*ssa.UnOp); ok {
				if g, ok := ld.X.(*ssa.Global); ok && g.Name() == "RandReader" {
					return true
				}
			}
		}
	}
	return false
}

func checkC12Fields(r *Report, p *Prog) {
	rule := "C12.fields"
	type exp struct{ typ, field, want, why string }
	check := func(fn *ssa.Function, es []exp) {
		a := NewAnalysis(p)
		fc := a.Ctx(fn)
		r.Fn(p.FnName(fn))
		for _, e := range es {
			for _, st := range fieldPerBuilder(r, rule, fn, fc, modPath, e.typ, e.field) {
				ap := canonFirstSet(a.Ctx(st.Parent()), st.Val)
				ok := strings.HasSuffix(ap, e.want)
				if strings.HasPrefix(e.want, "param:") {
					prm, isP := st.Val.(*ssa.Parameter)
					ok = isP && isStringType(prm.Type())
				}
				if e.want == "TimeNow()" {
					src := valueSources(p, fn, st.Val, 0, map[string]bool{})
					ok = len(src) == 1 && src[0] == "call through saml.TimeNow"
				}
				r.Check(ok, rule, fmt.Sprintf("%s: %s.%s", p.FnName(fn), e.typ, e.field), p.InstrPos(st), "<- "+ap, fmt.Sprintf("%s comes from %s, expected %s", e.field, ap, e.why))
			}
		}
	}
	issuer := "firstSet(ServiceProvider.EntityID,ServiceProvider.MetadataURL.String())"
	check(p.MustFunc("saml", "ServiceProvider", "MakeAuthenticationRequest"), []exp{
		{"AuthnRequest", "Destination", "param:", "the idpURL parameter"},
		{"AuthnRequest", "AssertionConsumerServiceURL", "ServiceProvider.AcsURL.String()", "the configured ACS URL"},
		{"Issuer", "Value", issuer, "entity ID, or metadata URL when unset"},
		{"AuthnRequest", "ForceAuthn", "ServiceProvider.ForceAuthn", "configuration"},
		{"AuthnRequest", "RequestedAuthnContext", "ServiceProvider.RequestedAuthnContext", "configuration"},
		{"AuthnRequest", "IssueInstant", "TimeNow()", "the library clock"},
		{"AuthnRequest", "ProtocolBinding", "param:", "the result-binding parameter"},
	})
	// name-ID policy format: address of a local holding sp.nameIDFormat()
	{
		fn := p.MustFunc("saml", "ServiceProvider", "MakeAuthenticationRequest")
		a := NewAnalysis(p)
		fc := a.Ctx(fn)
		for _, st := range fieldPerBuilder(r, rule, fn, fc, modPath, "NameIDPolicy", "Format") {
			if st.Parent() != fn {
				fc = a.Ctx(st.Parent())
			}
			ok := false
			why := "the requested name-ID format is not the configured one"
			if al, isA := st.Val.(*ssa.Alloc); isA {
				if iv := initStore(al); iv != nil {
					if c, isC := iv.(*ssa.Call); isC && c.Call.StaticCallee() != nil && readsField(c.Call.StaticCallee(), "ServiceProvider", "AuthnNameIDFormat") && isStringType(c.Type()) {
						// the mapping is in a helper: judged on the helper's returned value
						h := c.Call.StaticCallee()
						ha := NewAnalysis(p)
						hc := ha.Ctx(h)
						hc.ensureConds()
						var alts []fmtAlt
						for _, ret := range hc.Returns() {
							alts = append(alts, fmtAlts(hc, ret.Results[0], hc.Cond(ret.Block()), true, map[ssa.Value]bool{})...)
						}
						ok, why = nameIDFormatTable(ha, alts)
						if !ok {
							why = shortFn(h) + ": " + why
						}
					}
				} else {
					// the mapping is written out: the stores to the local, each under its condition
					fc.ensureConds()
					var alts []fmtAlt
					for _, rf := range *al.Referrers() {
						if s2, isS := rf.(*ssa.Store); isS && s2.Addr == ssa.Value(al) {
							alts = append(alts, fmtAlts(fc, s2.Val, fc.Cond(s2.Block()), false, map[ssa.Value]bool{})...)
						}
					}
					ok, why = nameIDFormatTable(a, alts)
				}
			}
			r.Check(ok, rule, p.FnName(fn)+": NameIDPolicy.Format", p.InstrPos(st), "&nameIDFormat (unset -> transient, unspecified -> none, otherwise the configured format)", why)
		}
	}
	// the name ID of a logout request carries the same format
	{
		fn := p.MustFunc("saml", "ServiceProvider", "MakeLogoutRequest")
		a := NewAnalysis(p)
		fc := a.Ctx(fn)
		fc.ensureConds()
		var alts []fmtAlt
		ok, why := false, "NameID.Format is never set"
		var at ssa.Instruction
		viaHelper := false
		for _, b := range fn.Blocks {
			for _, in := range b.Instrs {
				s2, isS := in.(*ssa.Store)
				if !isS {
					continue
				}
				fa, isF := s2.Addr.(*ssa.FieldAddr)
				if !isF || !typeIs(fa.X.Type(), modPath, "NameID") || fieldName(fa.X.Type(), fa.Field) != "Format" {
					continue
				}
				at = in
				if c, isC := s2.Val.(*ssa.Call); isC && c.Call.StaticCallee() != nil && readsField(c.Call.StaticCallee(), "ServiceProvider", "AuthnNameIDFormat") {
					h := c.Call.StaticCallee()
					ha := NewAnalysis(p)
					hc := ha.Ctx(h)
					hc.ensureConds()
					var halts []fmtAlt
					for _, ret := range hc.Returns() {
						halts = append(halts, fmtAlts(hc, ret.Results[0], hc.Cond(ret.Block()), true, map[ssa.Value]bool{})...)
					}
					ok, why = nameIDFormatTable(ha, halts)
					viaHelper = true
					continue
				}
				alts = append(alts, fmtAlts(fc, s2.Val, fc.Cond(b), false, map[ssa.Value]bool{})...)
			}
		}
		if !viaHelper && len(alts) > 0 {
			ok, why = nameIDFormatTable(a, alts)
		}
		pos := p.Pos(fn.Pos())
		if at != nil {
			pos = p.InstrPos(at)
		}
		r.Check(ok, rule, p.FnName(fn)+": NameID.Format", pos, "unset -> transient, unspecified -> none, otherwise the configured format", why)
	}
	check(p.MustFunc("saml", "ServiceProvider", "MakeLogoutRequest"), []exp{
		{"LogoutRequest", "Destination", "param:", "the idpURL parameter"},
		{"Issuer", "Value", issuer, "entity ID, or metadata URL when unset"},
		{"NameID", "Value", "param:", "the given name ID"},
		{"LogoutRequest", "IssueInstant", "TimeNow()", "the library clock"},
	})
	check(p.MustFunc("saml", "ServiceProvider", "MakeLogoutResponse"), []exp{
		{"LogoutResponse", "Destination", "param:", "the idpURL parameter"},
		{"LogoutResponse", "InResponseTo", "param:", "the given logout request ID"},
		{"Issuer", "Value", issuer, "entity ID, or metadata URL when unset"},
		{"LogoutResponse", "IssueInstant", "TimeNow()", "the library clock"},
	})
}

// isElementSerialiser: role of elementToBytes - a library function (not a method) that takes an *etree.Element and returns
// ([]byte, error) produced by serialising a document.
func isElementSerialiser(p *Prog, fn *ssa.Function) bool {
	if fn.Signature.Recv() != nil || fn.Signature.Results().Len() != 2 || fn.Signature.Results().At(0).Type().String() != "[]byte" || errIndex(fn) != 1 {
		return false
	}
	hasEl := false
	for _, prm := range fn.Params {
		if typeIs(prm.Type(), etreePath, "Element") {
			hasEl = true
		}
	}
	if !hasEl {
		return false
	}
	sers := serialisers(p)
	for _, b := range fn.Blocks {
		for _, in := range b.Instrs {
			if c, ok := in.(*ssa.Call); ok && c.Call.StaticCallee() != nil && (isWriteCall(c) || sers[c.Call.StaticCallee()] != nil) {
				return true
			}
		}
	}
	return false
}

// readsField: fn loads the named field of the named module struct (role lookup for small accessors).
func readsField(fn *ssa.Function, typ, field string) bool {
	for _, b := range fn.Blocks {
		for _, in := range b.Instrs {
			if fa, ok := in.(*ssa.FieldAddr); ok {
				if n := namedOf(fa.X.Type()); n != nil && n.Obj().Name() == typ && fieldName(fa.X.Type(), fa.Field) == field {
					return true
				}
			}
		}
	}
	return false
}

// canonFirstSet renders "A if A is not empty, else B" written as a two-way phi in the form of the module's firstSet(A,B)
// call, so that the helper call and its hand-inlined equivalent compare equal; other values render as their access path.
func canonFirstSet(fc *FuncCtx, v ssa.Value) string {
	ph, ok := v.(*ssa.Phi)
	if !ok || len(ph.Edges) != 2 {
		return fc.AP(v)
	}
	fc.ensureConds()
	B := fc.A.B
	blk := ph.Block()
	conds := [2]*bddNode{}
	for i := range ph.Edges {
		conds[i] = B.And(fc.Cond(blk.Preds[i]), fc.edgeCond(blk.Preds[i], blk))
	}
	for i := 0; i < 2; i++ {
		apA, apB := fc.AP(ph.Edges[i]), fc.AP(ph.Edges[1-i])
		nm := "empty(" + apA + ")"
		if !B.HasVar(nm) {
			continue
		}
		e := B.Var(nm)
		if B.Implies(conds[i], B.Not(e)) && B.Implies(conds[1-i], e) {
			return "firstSet(" + apA + "," + apB + ")"
		}
	}
	return fc.AP(v)
}

// ---- serialisation of etree documents (shared by C01, C06, C07, C08, C12) ----

// serialiserInfo describes a module helper (doc *etree.Document, ...) ([]byte, error) whose bytes are the document's own
// WriteToBytes, possibly passed through module byte filters.
type serialiserInfo struct {
	fn        *ssa.Function
	docParam  int
	canonical bool   // canonical WriteSettings dominate the write
	settings  string // description
	escaper   *ssa.Function
	escaped   bool      // every returned buffer passed through a filter that emits "&gt;"
	escIn     ssa.Value // the escaper's input buffer (its parameter, or the written bytes when it is merged into fn)
}

// hasGTConst: the function's own code mentions the "&gt;" replacement text.
func hasGTConst(fn *ssa.Function) bool {
	for _, b := range fn.Blocks {
		for _, in := range b.Instrs {
			for _, op := range in.Operands(nil) {
				if op == nil || *op == nil {
					continue
				}
				if s, ok := constStr(*op); ok && s == "&gt;" {
					return true
				}
			}
		}
	}
	return false
}

func isWriteCall(c *ssa.Call) bool {
	if c.Call.StaticCallee() == nil {
		return false
	}
	nm := c.Call.StaticCallee().String()
	return nm == "(*"+etreePath+".Document).WriteTo" || nm == "(*"+etreePath+".Document).WriteToBytes" || nm == "(*"+etreePath+".Document).WriteToString"
}

// emitsGT: a module function []byte -> []byte that contains the constant "&gt;" (the attribute '>' escaper role).
func emitsGT(p *Prog, fn *ssa.Function) bool {
	if fn == nil || !p.InLibrary(fn) || fn.Signature.Params().Len() != 1 || fn.Signature.Results().Len() != 1 {
		return false
	}
	if fn.Signature.Params().At(0).Type().String() != "[]byte" || fn.Signature.Results().At(0).Type().String() != "[]byte" {
		return false
	}
	for _, b := range fn.Blocks {
		for _, in := range b.Instrs {
			for _, op := range in.Operands(nil) {
				if op == nil || *op == nil {
					continue
				}
				if s, ok := constStr(*op); ok && s == "&gt;" {
					return true
				}
			}
		}
	}
	return false
}

var serialiserCache = map[*Prog]map[*ssa.Function]*serialiserInfo{}

func serialisers(p *Prog) map[*ssa.Function]*serialiserInfo {
	if m, ok := serialiserCache[p]; ok {
		return m
	}
	out := map[*ssa.Function]*serialiserInfo{}
	serialiserCache[p] = out
	for _, fn := range p.modFns {
		if !p.InLibrary(fn) || fn.Signature.Results().Len() != 2 || fn.Signature.Results().At(0).Type().String() != "[]byte" || errIndex(fn) != 1 {
			continue
		}
		dp := -1
		for i, prm := range fn.Params {
			if typeIs(prm.Type(), etreePath, "Document") {
				dp = i
			}
		}
		if dp < 0 {
			continue
		}
		var w *ssa.Call
		for _, c := range methodCallsOn(fn, "(*"+etreePath+".Document).WriteToBytes") {
			if c.Call.Args[0] == ssa.Value(fn.Params[dp]) {
				w = c
			}
		}
		if w == nil {
			continue
		}
		info := &serialiserInfo{fn: fn, docParam: dp, escaped: true}
		okAll, n := true, 0
		merged := hasGTConst(fn) // the '>' escaper is written out in the serialiser itself
		var mfc *FuncCtx
		if merged {
			mfc = NewAnalysis(p).Ctx(fn)
			mfc.ensureConds()
			info.escaper = fn
			for _, rf := range *w.Referrers() {
				if ex, ok := rf.(*ssa.Extract); ok && ex.Index == 0 {
					info.escIn = ex
				}
			}
		}
		for _, b := range fn.Blocks {
			rt, ok := b.Instrs[len(b.Instrs)-1].(*ssa.Return)
			if !ok || b == fn.Recover {
				continue
			}
			v := Resolve(rt.Results[0])
			if isNilConst(v) {
				continue
			}
			n++
			if merged {
				// the written bytes themselves only on the "nothing to escape" path; otherwise the escaped copy
				if ex, ok := v.(*ssa.Extract); ok && ex.Tuple == ssa.Value(w) {
					fast := false
					B := mfc.A.B
					for _, nm := range B.Support(mfc.Cond(b)) {
						ai := mfc.A.Atoms[nm]
						if ai == nil || ai.Kind != "call" || len(ai.Vals) != 2 || len(ai.Args) != 3 || !mfc.Implied(b, B.Not(B.Var(nm))) {
							continue
						}
						if ai.Args[0] == "bytes.Contains" && ai.Args[1] == mfc.AP(ex) {
							if s, ok := constBytes(ai.Vals[1]); ok && (s == "]]>" || s == ">") {
								fast = true
							}
						}
					}
					if !fast {
						info.escaped = false
					}
				} else {
					derived := false
					for _, lf := range rootLeaves(v, map[ssa.Value]bool{}) {
						if _, ok := lf.(*ssa.MakeSlice); ok {
							derived = true
						}
					}
					if !derived {
						okAll = false
					}
				}
				continue
			}
			for _, lf := range rootLeaves(v, map[ssa.Value]bool{}) {
				if isNilConst(lf) {
					continue
				}
				cur := lf
				viaGT := false
				for k := 0; k < 3; k++ {
					if c, ok := cur.(*ssa.Call); ok && c.Call.StaticCallee() != nil && len(c.Call.Args) == 1 && p.InLibrary(c.Call.StaticCallee()) {
						if emitsGT(p, c.Call.StaticCallee()) {
							viaGT = true
							info.escaper = c.Call.StaticCallee()
						}
						cur = c.Call.Args[0]
						continue
					}
					break
				}
				if ex, ok := cur.(*ssa.Extract); !ok || ex.Index != 0 || ex.Tuple != ssa.Value(w) {
					okAll = false
				}
				if !viaGT {
					info.escaped = false
				}
			}
		}
		if !okAll || n == 0 {
			continue
		}
		a := NewAnalysis(p)
		info.canonical, info.settings = canonicalSettings(p, fn, a.Ctx(fn), fn.Params[dp], w)
		out[fn] = info
	}
	return out
}

// serialisationOf: v is the byte result of serialising an etree document in the enclosing function, directly or through
// a serialiser helper; returns the document value and a description.
func serialisationOf(p *Prog, v ssa.Value) (ssa.Value, *ssa.Call, string) {
	ex, ok := v.(*ssa.Extract)
	if !ok || ex.Index != 0 {
		return nil, nil, ""
	}
	c, ok := ex.Tuple.(*ssa.Call)
	if !ok || c.Call.StaticCallee() == nil {
		return nil, nil, ""
	}
	if calleeIs(c, "(*"+etreePath+".Document).WriteToBytes") {
		return c.Call.Args[0], c, "Document.WriteToBytes"
	}
	if info := serialisers(p)[c.Call.StaticCallee()]; info != nil {
		return c.Call.Args[info.docParam], c, shortFn(info.fn) + " (Document.WriteToBytes of its argument)"
	}
	return nil, nil, ""
}

// checkNoCDATA: the trees the Element() builders of the root package make consist of elements, attributes and plain
// character data only. A CDATA section is written literally by the (canonical) serialiser that the signature digests,
// and read back by every parser as ordinary text, whose canonical form escapes it: the digest of what the peer parsed
// is not the digest that was signed, although both sides see the same string.
func checkNoCDATA(r *Report, p *Prog, rule string) {
	var roots []*ssa.Function
	for _, fn := range p.modFns {
		if p.InLibrary(fn) && fn.Pkg != nil && fn.Pkg.Pkg.Path() == modPath && fn.Signature.Recv() != nil && fn.Name() == "Element" {
			roots = append(roots, fn)
		}
	}
	bad := ""
	for fn := range p.ReachableModuleOnly("vta", roots...) {
		if !p.InLibrary(fn) {
			continue
		}
		for _, b := range fn.Blocks {
			for _, in := range b.Instrs {
				c, ok := in.(ssa.CallInstruction)
				if !ok || c.Common().StaticCallee() == nil {
					continue
				}
				sc := c.Common().StaticCallee()
				if sc.Pkg != nil && sc.Pkg.Pkg.Path() == etreePath && strings.Contains(sc.Name(), "CData") {
					bad = firstNonEmpty(bad, p.FnName(fn)+" calls "+sc.Name()+" at "+p.InstrPos(in))
				}
			}
		}
	}
	r.Check(len(roots) >= 10 && bad == "", rule, "the Element() builders create no CDATA section", "-", fmt.Sprintf("%d Element() methods and the helpers they reach call no etree CDATA constructor", len(roots)), "a built tree can contain a CDATA section ("+bad+"): the serialiser writes it literally, the peer's parser reads plain text, and an enveloped signature over the tree no longer verifies on what was parsed")
}

// checkEscape: every serialisation in the selected functions (a) uses a document whose WriteSettings have CanonicalText
// and CanonicalAttrVal set and (b) passes the bytes through the module's attribute '>' escaper before they leave the
// function: encoding/xml refuses "]]>" even inside attribute values, and canonical attribute escaping leaves '>' raw
// (writer/reader escape-table agreement; shared by C07 and C12).
func checkEscape(r *Report, p *Prog, rule string, sel func(*ssa.Function) bool) {
	n := 0
	sers := serialisers(p)
	checkedHelper := map[*ssa.Function]bool{}
	// the selected functions and the module helpers they hand the tree to (whatever their signature)
	var roots []*ssa.Function
	for _, fn := range p.modFns {
		if p.InLibrary(fn) && sel(fn) {
			roots = append(roots, fn)
		}
	}
	scope := p.ReachableModuleOnly("vta", roots...)
	for _, fn := range p.modFns {
		if !p.InLibrary(fn) || !scope[fn] {
			continue
		}
		a := NewAnalysis(p)
		fc := a.Ctx(fn)
		for _, b := range fn.Blocks {
			for _, in := range b.Instrs {
				c, ok := in.(*ssa.Call)
				if !ok || c.Call.StaticCallee() == nil {
					continue
				}
				if info := sers[c.Call.StaticCallee()]; info != nil {
					n++
					r.Fn(p.FnName(fn))
					cons := fmt.Sprintf("%s: serialisation with canonical escaping", p.FnName(fn))
					r.Check(info.canonical, rule, cons, p.InstrPos(in), "through "+shortFn(info.fn)+": "+info.settings, "the tree is written by "+shortFn(info.fn)+" with etree's default escaping ("+info.settings+"): CR in text and TAB/LF/CR in attribute values are emitted raw and normalised away by the parser on the other side")
					if !checkedHelper[info.fn] {
						checkedHelper[info.fn] = true
						r.Fn(p.FnName(info.fn))
						// the bytes it returns are the caller's: not a window into a pooled or package-level buffer that the next
						// (concurrent) serialisation overwrites
						checkNoProcessStateFor(r, p, info.fn, rule, "the serialised bytes belong to the call (no pooled or package-level buffer)",
							"the serialiser uses", "the bytes handed to one caller are overwritten by the next serialisation while they are still being signed, encrypted or parsed: concurrent responses are torn or carry another user's values")
						esc := "-"
						if info.escaper != nil {
							esc = shortFn(info.escaper)
						}
						r.Check(info.escaped, rule, fmt.Sprintf("%s: '>' escaped in attribute values", p.FnName(info.fn)), p.Pos(info.fn.Pos()), "result passed through "+esc, "the serialised bytes are returned without the attribute '>' escaper: a \"]]>\" in an attribute value (attribute names, formats, session index) is written raw and encoding/xml refuses the document")
						if info.escaper != nil {
							// the escaper grows its input ("&gt;" for ">"), so it must build its result in a buffer of its own: appending
							// into a slice of the input overwrites bytes that have not been read yet
							r.Fn(p.FnName(info.escaper))
							alias := ""
							for _, eb := range info.escaper.Blocks {
								for _, ein := range eb.Instrs {
									ec, ok := ein.(*ssa.Call)
									if !ok {
										continue
									}
									if bi, ok := ec.Call.Value.(*ssa.Builtin); !ok || bi.Name() != "append" {
										continue
									}
									for _, lf := range rootLeaves(ec.Call.Args[0], map[ssa.Value]bool{}) {
										escIn := info.escIn
										if escIn == nil {
											escIn = info.escaper.Params[0]
										}
										if sl, ok := lf.(*ssa.Slice); ok && sl.X == escIn {
											alias = p.InstrPos(sl)
										}
										if lf == escIn {
											alias = p.InstrPos(ein)
										}
									}
								}
							}
							r.Check(quoteDiscipline(info.escaper) == "", rule, fmt.Sprintf("%s: a quoted value ends at the quote character that opened it", p.FnName(info.escaper)), p.Pos(info.escaper.Pos()), "only '\"' delimits, or the opening quote is remembered and compared", quoteDiscipline(info.escaper))
							r.Check(alias == "", rule, fmt.Sprintf("%s: the escaped copy is built in its own buffer", p.FnName(info.escaper)), p.Pos(info.escaper.Pos()), "no append into a slice of the input", "the output is appended into a slice of the input buffer ("+alias+"): the first expansion makes the writer overtake the reader and the rest of the document is corrupted")
						}
					}
					continue
				}
				if !isWriteCall(c) {
					continue
				}
				if sers[fn] != nil {
					continue // the helper's own write, judged above
				}
				n++
				r.Fn(p.FnName(fn))
				doc := c.Call.Args[0]
				ok2, detail := canonicalSettings(p, fn, fc, doc, c)
				cons := fmt.Sprintf("%s: serialisation with canonical escaping", p.FnName(fn))
				r.Check(ok2, rule, cons, p.InstrPos(in), detail, "the tree is written with etree's default escaping ("+detail+"): CR in text and TAB/LF/CR in attribute values are emitted raw and normalised away by the parser on the other side")
				// direct write: the bytes must still pass the '>' escaper in this function
				escaped := false
				for _, ref := range *c.Referrers() {
					if ex, ok := ref.(*ssa.Extract); ok && ex.Index == 0 {
						for _, r2 := range *ex.Referrers() {
							if c2, ok := r2.(*ssa.Call); ok && emitsGT(p, c2.Call.StaticCallee()) {
								escaped = true
							}
						}
					}
				}
				r.Check(escaped, rule, fmt.Sprintf("%s: '>' escaped in attribute values", p.FnName(fn)), p.InstrPos(in), "bytes passed through the escaper", "the document is written directly (not through the module's serialiser) and its bytes do not pass the attribute '>' escaper: a \"]]>\" in an attribute value is written raw and encoding/xml refuses the document")
			}
		}
	}
	if n == 0 {
		r.Undecided(rule, "serialisation sites", "-", "none found")
	}
}

// canonicalSettings: a store to doc.WriteSettings dominating the write whose value has both flags true.
func canonicalSettings(p *Prog, fn *ssa.Function, fc *FuncCtx, doc ssa.Value, at ssa.Instruction) (bool, string) {
	for _, b := range fn.Blocks {
		for _, in := range b.Instrs {
			st, ok := in.(*ssa.Store)
			if !ok {
				continue
			}
			fa, ok := st.Addr.(*ssa.FieldAddr)
			if !ok || fa.X != doc || fieldName(fa.X.Type(), fa.Field) != "WriteSettings" {
				continue
			}
			if !domOrSame(st, at) {
				continue
			}
			// value: load of a package-level settings variable, or a literal
			if ld, ok := st.Val.(*ssa.UnOp); ok {
				if g, ok := ld.X.(*ssa.Global); ok {
					ct, ca := globalStructBools(p, g)
					if ct["CanonicalText"] && ct["CanonicalAttrVal"] {
						return true, "WriteSettings = " + g.Name() + " (CanonicalText, CanonicalAttrVal)"
					}
					_ = ca
					return false, "WriteSettings = " + g.Name() + " without both canonical flags"
				}
				if al, ok := ld.X.(*ssa.Alloc); ok {
					flags := map[string]bool{}
					for _, rf := range *al.Referrers() {
						if f2, ok := rf.(*ssa.FieldAddr); ok {
							for _, r2 := range *f2.Referrers() {
								if s2, ok := r2.(*ssa.Store); ok {
									if v, ok := constBool(s2.Val); ok && v {
										flags[fieldName(f2.X.Type(), f2.Field)] = true
									}
								}
							}
						}
					}
					if flags["CanonicalText"] && flags["CanonicalAttrVal"] {
						return true, "WriteSettings literal with both canonical flags"
					}
				}
			}
			return false, "WriteSettings assigned without both canonical flags"
		}
	}
	// field-wise assignment doc.WriteSettings.CanonicalText = true
	flags := map[string]bool{}
	for _, b := range fn.Blocks {
		for _, in := range b.Instrs {
			st, ok := in.(*ssa.Store)
			if !ok {
				continue
			}
			if f2, ok := st.Addr.(*ssa.FieldAddr); ok {
				if f1, ok := f2.X.(*ssa.FieldAddr); ok && f1.X == doc && fieldName(f1.X.Type(), f1.Field) == "WriteSettings" && domOrSame(st, at) {
					if v, ok := constBool(st.Val); ok && v {
						flags[fieldName(f2.X.Type(), f2.Field)] = true
					}
				}
			}
		}
	}
	if flags["CanonicalText"] && flags["CanonicalAttrVal"] {
		return true, "both canonical flags set on the document"
	}
	return false, "no canonical WriteSettings on this document"
}

// globalStructBools: boolean fields set to true in the initialiser of a package-level struct variable.
func globalStructBools(p *Prog, g *ssa.Global) (map[string]bool, int) {
	out := map[string]bool{}
	n := 0
	if g.Pkg == nil {
		return out, 0
	}
	for _, mem := range g.Pkg.Members {
		fn, ok := mem.(*ssa.Function)
		if !ok || fn.Name() != "init" {
			continue
		}
		for _, b := range fn.Blocks {
			for _, in := range b.Instrs {
				st, ok := in.(*ssa.Store)
				if !ok {
					continue
				}
				if fa, ok := st.Addr.(*ssa.FieldAddr); ok && fa.X == ssa.Value(g) {
					n++
					if v, ok := constBool(st.Val); ok && v {
						out[fieldName(fa.X.Type(), fa.Field)] = true
					}
				}
			}
		}
	}
	// any other store to the variable in the module invalidates the claim
	for _, fn := range p.modFns {
		if fn.Name() == "init" {
			continue
		}
		for _, b := range fn.Blocks {
			for _, in := range b.Instrs {
				if st, ok := in.(*ssa.Store); ok && rootOfAddr(st.Addr) == ssa.Value(g) {
					return map[string]bool{}, n
				}
			}
		}
	}
	return out, n
}

func checkFormBuffers(r *Report, p *Prog) {
	rule := "C12.form-buffer"
	for _, tn := range []string{"AuthnRequest", "LogoutRequest", "LogoutResponse"} {
		fn := p.Func("saml", tn, "Post")
		if fn == nil {
			continue
		}
		r.Fn(p.FnName(fn))
		ok, why := ownedBytes(p, fn, 0)
		r.Check(ok, rule, p.FnName(fn)+": returned bytes belong to a buffer allocated by this call", p.Pos(fn.Pos()), "Bytes() of a local buffer", why)
	}
}

func ownedBytes(p *Prog, fn *ssa.Function, depth int) (bool, string) {
	for _, b := range fn.Blocks {
		if len(b.Instrs) == 0 || b == fn.Recover {
			continue
		}
		ret, ok := b.Instrs[len(b.Instrs)-1].(*ssa.Return)
		if !ok || len(ret.Results) == 0 {
			continue
		}
		v := Resolve(ret.Results[0])
		c, ok := v.(*ssa.Call)
		if !ok || c.Call.StaticCallee() == nil {
			return false, "the returned slice is not the result of Buffer.Bytes() or of a form helper"
		}
		sc := c.Call.StaticCallee()
		if sc.String() == "(*bytes.Buffer).Bytes" {
			root := rootOfAddr(c.Call.Args[0])
			_, isAlloc := root.(*ssa.Alloc)
			if nb, isCall := root.(*ssa.Call); isCall && !isAlloc {
				// bytes.NewBuffer(nil) / bytes.NewBufferString("") / new(bytes.Buffer): a fresh buffer of this call
				if calleeIs(nb, "bytes.NewBuffer") && len(nb.Call.Args) == 1 && isNilConst(nb.Call.Args[0]) {
					isAlloc = true
				}
				if calleeIs(nb, "bytes.NewBufferString") && len(nb.Call.Args) == 1 && isEmptyStringConst(nb.Call.Args[0]) {
					isAlloc = true
				}
			}
			if !isAlloc {
				return false, "the returned slice aliases a buffer that is not local to the call (a pooled or shared buffer is overwritten by the next message)"
			}
			continue
		}
		if p.InLibrary(sc) && depth < 2 {
			if ok2, why := ownedBytes(p, sc, depth+1); !ok2 {
				return false, why + " (in " + p.FnName(sc) + ")"
			}
			continue
		}
		return false, "the returned slice comes from " + shortFn(sc)
	}
	return true, ""
}

func mentions(B *BDD, f *bddNode, ap string) bool {
	for _, n := range B.Support(f) {
		if strings.Contains(n, ap) {
			return true
		}
	}
	return false
}

// constBytes: v is []byte("constant").
func constBytes(v ssa.Value) (string, bool) {
	if cv, ok := v.(*ssa.Convert); ok {
		return constStr(cv.X)
	}
	return constStr(v)
}

// fmtAlt: one alternative of a string value with the condition it is chosen under.
type fmtAlt struct {
	v      ssa.Value
	cond   *bddNode
	merged bool // came through a phi (or a helper's return): the empty string is then a choice, not the initial value
	fc     *FuncCtx
}

func fmtAlts(fc *FuncCtx, v ssa.Value, cond *bddNode, merged bool, seen map[ssa.Value]bool) []fmtAlt {
	B := fc.A.B
	if seen[v] {
		return nil
	}
	seen[v] = true
	if ph, ok := v.(*ssa.Phi); ok {
		var out []fmtAlt
		for i, e := range ph.Edges {
			pb := ph.Block().Preds[i]
			out = append(out, fmtAlts(fc, e, B.And(cond, B.And(fc.Cond(pb), fc.edgeCond(pb, ph.Block()))), true, seen)...)
		}
		return out
	}
	if cond == B.False {
		return nil
	}
	// a value looked up in a constant package-level table: one alternative per entry, under "the key is that entry's"
	var look *ssa.Lookup
	switch x := v.(type) {
	case *ssa.Lookup:
		if !x.CommaOk {
			look = x
		}
	case *ssa.Extract:
		if l, ok := x.Tuple.(*ssa.Lookup); ok && x.Index == 0 {
			look = l
		}
	}
	if look != nil {
		if ents, ok := fc.tableEntries(look); ok {
			var out []fmtAlt
			any := B.False
			for _, e := range ents {
				hit := fc.eqFormula(look, look.Index, e.k)
				any = B.Or(any, hit)
				if c := B.And(cond, hit); c != B.False {
					out = append(out, fmtAlt{e.v, c, true, fc})
				}
			}
			if c := B.And(cond, B.Not(any)); c != B.False {
				if bt, isBasic := v.Type().Underlying().(*types.Basic); isBasic && bt.Info()&types.IsString != 0 {
					out = append(out, fmtAlt{ssa.NewConst(constant.MakeString(""), v.Type()), c, true, fc})
				} else {
					out = append(out, fmtAlt{v, c, true, fc})
				}
			}
			return out
		}
	}
	return []fmtAlt{{v, cond, merged, fc}}
}

// nameIDFormatTable: the requested name-ID format as a function of the configured one: unset -> transient; the
// "unspecified" format -> none; anything else -> itself.
func nameIDFormatTable(a *Analysis, alts []fmtAlt) (bool, string) {
	B := a.B
	var emptyA, unspecA string
	var names []string
	for nm := range a.Atoms {
		names = append(names, nm)
	}
	sort.Strings(names)
	for _, nm := range names {
		ai := a.Atoms[nm]
		if len(ai.Args) == 0 || !strings.HasSuffix(ai.Args[0], "AuthnNameIDFormat") && !(len(ai.Args) > 1 && strings.HasSuffix(ai.Args[1], "AuthnNameIDFormat")) {
			continue
		}
		switch {
		case ai.Kind == "empty":
			emptyA = nm
		case ai.Kind == "eq" && strings.Contains(nm, "nameid-format:unspecified"):
			unspecA = nm
		}
	}
	if emptyA == "" || unspecA == "" {
		return false, "the configured format is not compared with the empty string and the 'unspecified' format"
	}
	E, U := B.Var(emptyA), B.Var(unspecA)
	nT, nF := 0, 0
	for _, al := range alts {
		v := al.v
		for {
			if cv, ok := v.(*ssa.Convert); ok {
				v = cv.X
				continue
			}
			if ct, ok := v.(*ssa.ChangeType); ok {
				v = ct.X
				continue
			}
			break
		}
		if s, ok := constStr(v); ok {
			switch {
			case s == "":
				if al.merged && !B.Implies(al.cond, U) {
					return false, "no format is requested under " + a.canon(al.cond) + " (expected only for the 'unspecified' format)"
				}
			case strings.HasSuffix(s, "nameid-format:transient"):
				nT++
				if !B.Implies(al.cond, E) {
					return false, "the transient format is requested under " + a.canon(al.cond) + " (expected only when no format is configured)"
				}
			default:
				return false, fmt.Sprintf("the fixed format %q is requested", s)
			}
			continue
		}
		if ap := al.fc.AP(v); strings.HasSuffix(ap, "AuthnNameIDFormat") {
			nF++
			if !B.Implies(al.cond, B.And(B.Not(E), B.Not(U))) {
				return false, "the configured format is passed on under " + a.canon(al.cond) + " (expected: configured and not 'unspecified')"
			}
			continue
		}
		return false, "the requested format is " + al.fc.AP(v)
	}
	if nT == 0 || nF == 0 {
		return false, fmt.Sprintf("alternatives: %d transient, %d configured (expected both)", nT, nF)
	}
	return true, ""
}

// checkEndpointGetters: C12.endpoint. The configured destination of a request is what the three exported getters hand
// back: the Location of the IdP-metadata endpoint of the right service list whose Binding is the requested one, or "".
// Followed through the unexported helpers the lookup is split into (region origins); every origin is a load of a
// Location field reached from IDPMetadata through that list, and the return lies under Binding == the parameter.
func checkEndpointGetters(r *Report, p *Prog, rule string) {
	for _, g := range []struct{ name, list string }{
		{"GetSSOBindingLocation", "SingleSignOnServices"},
		{"GetSLOBindingLocation", "SingleLogoutServices"},
		{"GetArtifactBindingLocation", "ArtifactResolutionServices"},
	} {
		fn := p.MustFunc("saml", "ServiceProvider", g.name)
		r.Fn(p.FnName(fn))
		rg := NewRegion(p, fn, 2)
		a := NewAnalysis(p)
		cons := fmt.Sprintf("%s: returns the Location of the %s endpoint with the requested binding", p.FnName(fn), g.list)
		bad := ""
		n := 0
		for _, ret := range returnsOf(fn) {
			for _, o := range rg.Origins(RV{V: ret.Results[0], C: rg.top}) {
				if s, ok := constStr(o.V); ok && s == "" {
					continue
				}
				n++
				ap := rg.Ctx(a, o.C).AP(o.V)
				if !strings.HasSuffix(ap, ".Location") || !strings.Contains(ap, "IDPMetadata") || !strings.Contains(ap, "."+g.list+"[") {
					bad = firstNonEmpty(bad, "a value returned is "+ap)
					continue
				}
				// under Binding == binding parameter of the same element
				elem := strings.TrimSuffix(ap, ".Location")
				fc := rg.Ctx(a, o.C)
				fc.ensureConds()
				var blk *ssa.BasicBlock
				if in, ok := o.V.(ssa.Instruction); ok {
					blk = in.Block()
				}
				okB := false
				if blk != nil {
					for _, nm := range a.B.Support(fc.Cond(blk)) {
						ai := a.Atoms[nm]
						if ai == nil || ai.Kind != "eq" || len(ai.Args) != 2 {
							continue
						}
						for i := 0; i < 2; i++ {
							if ai.Args[i] == elem+".Binding" && fc.Implied(blk, a.B.Var(nm)) {
								okB = true
							}
						}
					}
				}
				if !okB {
					bad = firstNonEmpty(bad, "the Location of "+elem+" is returned without comparing its Binding")
				}
			}
		}
		r.Check(n > 0 && bad == "", rule, cons, p.Pos(fn.Pos()), fmt.Sprintf("%d origin(s), each the Location field of a matching element", n), "the destination handed to the message builders is not the configured Location: "+bad)
	}
}

// quoteDiscipline: the attribute-value scanner of the '>' escaper. The writer delimits attribute values with '"' and
// leaves apostrophes inside them raw, so a scanner that also treats '\” as a delimiter must remember which character
// opened the value and end it only at the same one (a comparison between the current byte and a remembered byte);
// otherwise an apostrophe inside a value flips its notion of inside/outside for the rest of the document.
func quoteDiscipline(fn *ssa.Function) string {
	apos, remembered := false, false
	for _, b := range fn.Blocks {
		for _, in := range b.Instrs {
			bo, ok := in.(*ssa.BinOp)
			if !ok || (bo.Op != token.EQL && bo.Op != token.NEQ) {
				continue
			}
			kx, okx := constInt(bo.X)
			ky, oky := constInt(bo.Y)
			switch {
			case okx && kx == 39 || oky && ky == 39:
				apos = true
			case !okx && !oky:
				if bt, ok := bo.X.Type().Underlying().(*types.Basic); ok && bt.Kind() == types.Uint8 {
					remembered = true
				}
			}
		}
	}
	if apos && !remembered {
		return "the scanner treats the apostrophe as a delimiter but never compares the current byte with the quote that opened the value: an apostrophe inside a double-quoted attribute value (which the writer leaves raw) inverts its inside/outside state, so a later \"]]>\" stays unescaped or a tag's own '>' is rewritten"
	}
	return ""
}

// checkRequestDecoder: the IdP's request decoder (NewIdpAuthnRequest) refuses a request only for its HTTP method and
// for a failing decoding step (base64, inflate, form parsing): every atom of its reject condition is the error result
// of a call, or a comparison of the request method with a constant. A gate on anything else — the relay state's length,
// a header — refuses requests this library's SP produces.
func checkRequestDecoder(r *Report, p *Prog, rule string) {
	fn := p.MustFunc("saml", "", "NewIdpAuthnRequest")
	r.Fn(p.FnName(fn))
	a := NewAnalysis(p)
	a.Inline = func(f *ssa.Function) bool {
		return p.InLibrary(f) && f.Pkg == fn.Pkg && f != fn && (f.Object() == nil || !f.Object().Exported()) && errIndex(f) >= 0
	}
	fc := a.Ctx(fn)
	fc.ensureConds()
	rej := fc.NotAcceptFormula()
	var foreign []string
	for _, nm := range a.B.Support(rej) {
		ai := a.Atoms[nm]
		if ai == nil {
			foreign = append(foreign, nm)
			continue
		}
		switch ai.Kind {
		case "isnil":
			// the error (or result) of a call
			if len(ai.Args) == 1 && strings.HasPrefix(ai.Args[0], "r:") {
				continue
			}
		case "eq":
			method := false
			for _, arg := range ai.Args {
				if strings.HasSuffix(arg, ".Method") {
					method = true
				}
			}
			if method {
				continue
			}
		}
		foreign = append(foreign, nm)
	}
	sort.Strings(foreign)
	r.Check(len(foreign) == 0, rule, p.FnName(fn)+": a request is refused only for its method or a failing decoding step", p.Pos(fn.Pos()), fmt.Sprintf("%d conditions, all decoding errors or the method", len(a.B.Support(rej))), "the decoder also refuses requests under "+strings.Join(foreign, ", ")+": a request this library's SP produces (any relay state, either binding) is turned away before it is validated")
}

// inlineRandomBuf: v is a local buffer of constant length k (make([]byte, k)) that is filled by io.ReadFull from the
// configured RandReader, and block b is reached only when that call returned no error. Returns k (0 when v is not such a
// buffer) and, for a buffer that is filled differently or used although the fill failed, the reason.
func inlineRandomBuf(fc *FuncCtx, v ssa.Value, b *ssa.BasicBlock) (int64, string) {
	var k int64
	switch x := v.(type) {
	case *ssa.MakeSlice:
		n, ok := constInt(x.Len)
		if !ok {
			return 0, ""
		}
		k = n
	case *ssa.Slice:
		al, ok := x.X.(*ssa.Alloc)
		if !ok || x.Low != nil {
			return 0, ""
		}
		at, ok := al.Type().(*types.Pointer).Elem().Underlying().(*types.Array)
		if !ok {
			return 0, ""
		}
		k = at.Len()
		if x.High != nil {
			n, ok := constInt(x.High)
			if !ok {
				return 0, ""
			}
			k = n
		}
	default:
		return 0, ""
	}
	if k <= 0 || v.Referrers() == nil {
		return 0, ""
	}
	fc.ensureConds()
	B := fc.A.B
	for _, rf := range *v.Referrers() {
		c, ok := rf.(*ssa.Call)
		if !ok || !calleeIs(c, "io.ReadFull") || c.Call.Args[1] != v {
			continue
		}
		if !strings.HasSuffix(fc.AP(c.Call.Args[0]), ".RandReader") {
			return k, "the buffer is filled from " + fc.AP(c.Call.Args[0]) + ", not from the configured RandReader"
		}
		nm := "isnil(" + fc.AP(c) + "#1)"
		if !(B.HasVar(nm) && fc.Implied(b, B.Var(nm))) {
			return k, "the identifier is built although reading the random source failed"
		}
		return k, ""
	}
	return 0, ""
}
