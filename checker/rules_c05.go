package main

import (
	"fmt"
	"go/types"
	"strings"

	"golang.org/x/tools/go/ssa"
)

func init() {
	registry["C05"] = []func(*Report){ruleC05}
}

func ruleC05(r *Report) {
	p := r.P
	sc := NewScope(p, r.Tier)
	r.Trusted("go/ssa of golang.org/x/tools v0.29.0", "encoding/xml, xml-roundtrip-validator v0.1.0", "the ServiceProviderProvider implementation supplied by the application (its result is the 'registry')")
	r.NotDecided("selection semantics for duplicate indices/locations beyond first match in document order; contents of the registry")
	r.Assume("atoms that mention an element [*] of a ranged slice read 'for some element'")
	r.Rule("C05.table", "request gates of IdpAuthnRequest.Validate: now > IssueInstant + 1*MaxIssueDelay, Version != 2.0, Destination named and different from the SSO URL, registry lookup error (either arm), missing Issuer, ACS selection error — each a reject", 3)
	r.Rule("C05.accept", "a fresh 2.0 request from a registered SP whose ACS is found is not rejected (with or without Destination)", 1)
	r.Rule("C05.clock", "the request's validation time is taken from the library clock when the request object is created", 1)
	r.Rule("C05.acs-provenance", "every store to IdpAuthnRequest.ACSEndpoint / SPSSODescriptor / ServiceProviderMetadata stores (a copy of) an element of the registered provider's metadata returned by the registry, never a value built from the request", 3)
	r.Rule("C05.acs-guards", "each endpoint store is guarded by exactly one of: requested index matches; requested URL matches; no index and no URL requested and endpoint is default with a browser binding; no index and no URL and browser binding; (IdP-initiated) POST binding; the selection function succeeds only through a store", 4)
	r.Rule("C05.route", "the response is addressed (bearer Recipient, Response Destination, form action) to the selected registered endpoint's Location, not to a location taken from the request", 1)
	r.Rule("C05.inflate", "GET-binding requests are inflated only through the bounded reader", 1)
	r.Rule("C05.nil", "no dereference of an absent optional request element in the validator", 1)

	checkConfigReadOnly(r, p, "C05.table", "saml", "IdentityProvider")
	safely(r, func() { checkRequestDecoder(r, p, "C05.accept") })
	validate := p.MustFunc("saml", "IdpAuthnRequest", "Validate")
	a := NewAnalysis(p)
	// checks moved into error-returning helpers of the root package are analysed as part of the validator; the
	// endpoint selection (the function that stores ACSEndpoint) stays an opaque step with its own rules
	a.Inline = func(f *ssa.Function) bool {
		if !p.InLibrary(f) || f.Pkg == nil || f.Pkg.Pkg.Path() != modPath || !(f.Signature.Results().Len() == 1 && errIndex(f) == 0) {
			return false
		}
		// the selection step: the function that stores ACSEndpoint, directly or through the walker it drives
		for _, g := range helperRegion(p, f, 2) {
			for _, b := range g.Blocks {
				for _, in := range b.Instrs {
					if st, ok := in.(*ssa.Store); ok {
						if fa, ok := st.Addr.(*ssa.FieldAddr); ok && fieldName(fa.X.Type(), fa.Field) == "ACSEndpoint" {
							return false
						}
					}
				}
			}
		}
		return true
	}
	// ... also when it hands the selected endpoint back (in a result struct, with an error) for the validator to store
	a.Opaque = func(f *ssa.Function) bool {
		rs := f.Signature.Results()
		if !p.InLibrary(f) || rs.Len() != 2 || errIndex(f) != 1 {
			return false
		}
		t0 := rs.At(0).Type()
		if typeIs(t0, modPath, "IndexedEndpoint") {
			return true
		}
		if st, ok := derefType(t0).Underlying().(*types.Struct); ok {
			for i := 0; i < st.NumFields(); i++ {
				if typeIs(st.Field(i).Type(), modPath, "IndexedEndpoint") {
					return true
				}
			}
		}
		return false
	}
	B := a.B
	t := NewTable(r, a, validate)
	V := t.V
	fw := []string{".Request.", "IssueInstant", "Destination", "Version", ".Issuer", "AssertionConsumerService", "SSOURL", ".Now"}

	tm := t.TimeRow("C05.table", "Request.IssueInstant", +1, "MaxIssueDelay", 1, sfx("IdpAuthnRequest.Now"), nil)
	for _, ai := range t.atomsIn() {
		if ai.Kind == "before" && !t.known[ai.Name] {
			r.Bad("C05.table", fmt.Sprintf("%s: extra time comparison %s", t.name, ai.Name), p.InstrPos(ai.Instr), "a time-dependent reject outside the documented freshness window")
		}
	}
	ver := t.One("eq", sfx("Request.Version"), exact(`c:"2.0"`))
	destEmpty := t.One("empty", sfx("Request.Destination"))
	destEq := t.One("eq", sfx("Request.Destination"), sfx("IDP.SSOURL.String()"))
	issNil := t.One("isnil", sfx("Request.Issuer"))
	var regErr, regNotExist, acsErr, xrvNil, unmNil string
	for _, ai := range t.atomsIn() {
		switch {
		case ai.Kind == "isnil" && strings.Contains(ai.Name, "GetServiceProvider#") && strings.HasSuffix(ai.Args[0], "#1"):
			regErr = ai.Name
		case ai.Kind == "eq" && strings.Contains(ai.Name, "GetServiceProvider#") && strings.Contains(ai.Name, "ErrNotExist"):
			regNotExist = ai.Name
		case ai.Kind == "isnil" && strings.HasPrefix(ai.Args[0], "r:(*saml.IdpAuthnRequest)."):
			acsErr = ai.Name
		case ai.Kind == "isnil" && strings.Contains(ai.Name, "Validate#") && strings.Contains(ai.Name, "xrv"):
			xrvNil = ai.Name
		case ai.Kind == "isnil" && strings.Contains(ai.Name, "xml.Unmarshal#"):
			unmNil = ai.Name
		}
	}
	t.Know(regErr, regNotExist, acsErr, xrvNil, unmNil)
	row := func(what string, when *bddNode, atoms ...string) {
		var miss []string
		for i := 0; i+1 < len(atoms); i += 2 {
			if atoms[i] == "" {
				miss = append(miss, atoms[i+1])
			}
		}
		if len(miss) > 0 {
			t.Row("C05.table", what, B.True, miss...)
			return
		}
		t.Row("C05.table", what, when)
	}
	if ver != "" {
		row("Version is not 2.0", B.Not(V(ver)))
	} else {
		row("Version is not 2.0", nil, "", "Request.Version == \"2.0\"")
	}
	if destEmpty != "" && destEq != "" {
		row("a Destination is named and differs from the IdP's SSO URL", B.And(B.Not(V(destEmpty)), B.Not(V(destEq))))
	} else {
		row("a Destination is named and differs from the IdP's SSO URL", nil, destEmpty, "Request.Destination != \"\"", destEq, "Request.Destination == IDP.SSOURL.String()")
	}
	if regErr != "" {
		row("the registry lookup of the issuer fails (unknown provider or other error)", B.Not(V(regErr)))
	} else {
		row("the registry lookup fails", nil, "", "error of ServiceProviderProvider.GetServiceProvider")
	}
	if issNil != "" {
		row("the request has no Issuer", V(issNil))
	} else {
		row("the request has no Issuer", nil, "", "Request.Issuer == nil")
	}
	if acsErr != "" {
		row("no registered ACS endpoint is selected", B.Not(V(acsErr)))
	} else {
		row("no registered ACS endpoint is selected", nil, "", "error of the ACS selection function")
	}
	// the registry is asked about the request's Issuer
	for _, b := range validate.Blocks {
		for _, in := range b.Instrs {
			if c, ok := in.(*ssa.Call); ok && c.Call.IsInvoke() && c.Call.Method.Name() == "GetServiceProvider" {
				ap := t.FC.AP(c.Call.Args[1])
				r.Check(strings.HasSuffix(ap, "Request.Issuer.Value"), "C05.table", t.name+": registry lookup keyed by the request's Issuer", p.InstrPos(in), ap, "the provider registry is consulted with "+ap+" instead of Request.Issuer.Value")
			}
		}
	}
	good := map[string]bool{tm: false, ver: true, destEmpty: false, destEq: true, issNil: false, regErr: true, regNotExist: false, acsErr: true}
	t.Accept("C05.accept", "fresh 2.0 request naming the SSO URL, registered issuer, ACS found", good, fw)
	t.Accept("C05.accept", "the same request without Destination", with(good, destEmpty, true, destEq, false), fw)
	t.Unknown("C05.table", []string{"Request.Destination", "Request.Version", "Request.IssueInstant", "Request.Issuer", "SSOURL"})

	// clock: every store to IdpAuthnRequest.Now is a call through TimeNow
	nNow := 0
	for _, fn := range p.modFns {
		if !p.InLibrary(fn) {
			continue
		}
		for _, b := range fn.Blocks {
			for _, in := range b.Instrs {
				st, ok := in.(*ssa.Store)
				if !ok {
					continue
				}
				fa, ok := st.Addr.(*ssa.FieldAddr)
				if !ok || !typeIs(fa.X.Type(), modPath, "IdpAuthnRequest") || fieldName(fa.X.Type(), fa.Field) != "Now" {
					continue
				}
				nNow++
				src := valueSources(p, fn, st.Val, 0, map[string]bool{})
				ok2 := len(src) == 1 && src[0] == "call through saml.TimeNow"
				r.Check(ok2, "C05.clock", p.FnName(fn)+": IdpAuthnRequest.Now", p.InstrPos(in), "TimeNow()", "validation time comes from "+strings.Join(src, ","))
			}
		}
	}
	if nNow == 0 {
		r.Undecided("C05.clock", "stores to IdpAuthnRequest.Now", "-", "none found")
	}

	checkACS(r, sc)
	checkRouting(r, p, "C05.route")
	safely(r, func() { checkInflate(r, a, sc, "C05.inflate") })
	nr := NewNilRules(r, NewAnalysis(p), sc)
	nr.Check([]*ssa.Function{validate}, "C05.nil", "")
}

func checkACS(r *Report, sc *Scope) {
	p := sc.P
	a := NewAnalysis(p)
	B := a.B
	selectors := map[*ssa.Function]bool{}
	type acsStore struct {
		fn    *ssa.Function
		blk   *ssa.BasicBlock
		which string
		pos   string
		at    RI
		rg    *Region
	}
	var classified []acsStore
	isACSField := func(in ssa.Instruction) (*ssa.Store, *ssa.FieldAddr, string) {
		st, ok := in.(*ssa.Store)
		if !ok {
			return nil, nil, ""
		}
		fa, ok := st.Addr.(*ssa.FieldAddr)
		if !ok || !typeIs(fa.X.Type(), modPath, "IdpAuthnRequest") {
			return nil, nil, ""
		}
		field := fieldName(fa.X.Type(), fa.Field)
		if field != "ACSEndpoint" && field != "SPSSODescriptor" && field != "ServiceProviderMetadata" {
			return nil, nil, ""
		}
		if isNilConst(st.Val) {
			return nil, nil, ""
		}
		return st, fa, field
	}
	hasStore := func(fn *ssa.Function) bool {
		for _, b := range fn.Blocks {
			for _, in := range b.Instrs {
				if st, _, _ := isACSField(in); st != nil {
					return true
				}
			}
		}
		return false
	}
	// the functions that write the fields, each seen from the outermost library function it is a helper of (so that a
	// walker that is handed the selection predicate is judged with the predicates its callers hand it)
	seenStore := map[string]bool{}
	for _, root := range maximalRoots(p, hasStore) {
		rg := NewRegion(p, root, 2)
		// the registry's answer kept in a local besides being stored into the request: the local names the same object
		// as the request's field (spMetadata, err := GetServiceProvider(..); req.ServiceProviderMetadata = spMetadata)
		mdAlias := map[string]string{}
		rg.Each(func(x RI) {
			st, fa, field := isACSField(x.I)
			if st == nil || field != "ServiceProviderMetadata" {
				return
			}
			fc := rg.Ctx(NewAnalysis(p), x.C)
			if ex, ok := Resolve(st.Val).(*ssa.Extract); ok && ex.Index == 0 {
				mdAlias[fc.AP(ex)] = fc.AP(fa.X) + ".ServiceProviderMetadata"
			}
		})
		rg.Each(func(x RI) {
			in := x.I
			st, fa, field := isACSField(in)
			if st == nil {
				return
			}
			fn := in.Parent()
			b := in.Block()
			fc := rg.Ctx(a, x.C)
			fc.ensureConds()
			if fc.AbsCond(b) == B.False {
				// a selection rule that can never apply: every request that would satisfy it has already been answered by an
				// earlier pass (the scan for a default endpoint placed after the "any endpoint" fallback)
				if field == "ACSEndpoint" {
					dk := "dead|" + p.InstrPos(in)
					if x.C != nil && x.C.site != nil {
						dk = "dead|" + p.InstrPos(x.C.site.(ssa.Instruction))
					}
					if !seenStore[dk] {
						seenStore[dk] = true
						r.Bad("C05.acs-guards", fmt.Sprintf("%s: endpoint choice can apply [%s]", p.FnName(fn), strings.TrimPrefix(dk, "dead|")), p.InstrPos(in), "this endpoint choice is unreachable: the passes before it already return for every request that satisfies its condition, so the selection rule it implements (e.g. the registered default endpoint) never takes effect")
					}
				}
				return
			}
			r.Fn(p.FnName(fn))
			reqRoot := fc.AP(fa.X)
			for _, o := range rg.Origins(RV{V: st.Val, C: x.C}) {
				ofc := rg.Ctx(a, o.C)
				ap := ofc.AP(o.V)
				if al, ok := o.V.(*ssa.Alloc); ok {
					// &copy where copy := element: name the copy by what was copied into it
					if iv := initStore(al); iv != nil {
						ap = ofc.AP(iv)
					}
				}
				if fa, ok := o.V.(*ssa.FieldAddr); ok {
					// &pair.endpoint where pair := struct{descriptor, endpoint}{d, e} holds the private copies: named by what the
					// literal stored into the field
					if al, ok := fa.X.(*ssa.Alloc); ok {
						if iv := literalFieldValue(al, []int{fa.Field}, 0); iv != nil {
							ap = ofc.AP(iv)
						}
					}
				}
				apRaw := ap
				if field != "ServiceProviderMetadata" {
					for from, to := range mdAlias {
						if strings.HasPrefix(ap, from+".") {
							ap = to + strings.TrimPrefix(ap, from)
						}
					}
				}
				cnd := fc.AbsCond(b)
				for _, vb := range o.Via {
					vfc := rg.Ctx(a, vb.C)
					vfc.ensureConds()
					cnd = B.And(cnd, vfc.AbsCond(vb.B))
				}
				if cnd == B.False {
					continue
				}
				key := p.InstrPos(in) + "|" + ap + "|" + a.canon(cnd)
				if seenStore[key] {
					continue
				}
				seenStore[key] = true
				cons := fmt.Sprintf("%s: store to %s.%s <- %s", p.FnName(fn), "IdpAuthnRequest", field, ap)
				switch field {
				case "ServiceProviderMetadata":
					// result of the registry under err == nil (or the direct Extract #0 in ServeIDPInitiated, checked right after)
					okS := false
					if ex, ok := o.V.(*ssa.Extract); ok && ex.Index == 0 {
						if c, ok := ex.Tuple.(*ssa.Call); ok && c.Call.IsInvoke() && c.Call.Method.Name() == "GetServiceProvider" {
							okS = true
						}
					}
					r.Check(okS, "C05.acs-provenance", cons, p.InstrPos(in), "result of ServiceProviderProvider.GetServiceProvider", "the provider metadata does not come from the registry")
				case "SPSSODescriptor":
					want := reqRoot + ".ServiceProviderMetadata.SPSSODescriptors[*]"
					r.Check(ap == want, "C05.acs-provenance", cons, p.InstrPos(in), "copy of an element of the registered metadata's SPSSODescriptors", "the descriptor is not an element of "+want)
				case "ACSEndpoint":
					selectors[fn] = true
					want := reqRoot + ".ServiceProviderMetadata.SPSSODescriptors[*].AssertionConsumerServices[*]"
					if ap != want {
						r.Bad("C05.acs-provenance", cons, p.InstrPos(in), "the response endpoint is not (a copy of) an element of the registered provider's AssertionConsumerServices: "+ap)
						continue
					}
					r.OK("C05.acs-provenance", cons, p.InstrPos(in), "copy of an element of the registered metadata's AssertionConsumerServices")
					// guards
					ep := apRaw // (the conditions name the element as the code reads it)
					req := reqRoot + ".Request"
					lit := func(name string, pos bool) *bddNode {
						if !B.HasVar(name) {
							return B.False
						}
						if pos {
							return B.Var(name)
						}
						return B.Not(B.Var(name))
					}
					eqA := func(x, y string) string {
						if x > y {
							x, y = y, x
						}
						return "eq(" + x + "," + y + ")"
					}
					idxEmpty := "empty(" + req + ".AssertionConsumerServiceIndex)"
					urlEmpty := "empty(" + req + ".AssertionConsumerServiceURL)"
					browser := B.Or(lit(eqA(`g:saml.HTTPPostBinding`, ep+".Binding"), true), lit(eqA(`g:saml.HTTPRedirectBinding`, ep+".Binding"), true))
					post := lit(eqA(`g:saml.HTTPPostBinding`, ep+".Binding"), true)
					// binding constants may be consts rather than globals
					for _, nm := range sortedKeys(a.Atoms) {
						ai := a.Atoms[nm]
						if ai.Kind == "eq" && (ai.Args[0] == ep+".Binding" || ai.Args[1] == ep+".Binding") {
							other := ai.Args[0]
							if other == ep+".Binding" {
								other = ai.Args[1]
							}
							if strings.Contains(other, "HTTP-POST") {
								post = B.Or(post, B.Var(nm))
								browser = B.Or(browser, B.Var(nm))
							}
							if strings.Contains(other, "HTTP-Redirect") {
								browser = B.Or(browser, B.Var(nm))
							}
							// "equals some element of a constant list" (a search loop over a package-level table of bindings)
							if strings.HasPrefix(other, "g:") && strings.HasSuffix(other, "[*]") {
								for _, ov := range ai.Vals {
									g := globalOfElem(ov)
									if g == nil {
										continue
									}
									elems, okE := p.globalSliceElems(g)
									allBrowser, allPost := okE, okE
									for _, e := range elems {
										es := a.Ctx(fn).AP(e)
										if !strings.Contains(es, "HTTP-POST") && !strings.Contains(es, "HTTPPostBinding") {
											allPost = false
											if !strings.Contains(es, "HTTP-Redirect") && !strings.Contains(es, "HTTPRedirectBinding") {
												allBrowser = false
											}
										}
									}
									if allBrowser {
										browser = B.Or(browser, B.Var(nm))
									}
									if allPost {
										post = B.Or(post, B.Var(nm))
									}
								}
							}
						}
					}
					byIndex := B.And(lit(idxEmpty, false), lit(eqA("strconv.Itoa("+ep+".Index)", req+".AssertionConsumerServiceIndex"), true))
					byURL := B.And(lit(urlEmpty, false), lit(eqA(ep+".Location", req+".AssertionConsumerServiceURL"), true))
					none := B.And(lit(idxEmpty, true), lit(urlEmpty, true))
					isDefault := B.And(lit("isnil("+ep+".IsDefault)", false), lit("b:"+ep+".IsDefault", true))
					byDefault := B.And(none, B.And(isDefault, browser))
					byAny := B.And(none, browser)
					gc := fmt.Sprintf("%s: endpoint store guarded by an allowed selection rule", p.FnName(fn))
					var which string
					switch {
					case B.Implies(cnd, byIndex):
						which = "requested index matches"
					case B.Implies(cnd, byURL):
						which = "requested URL matches"
					case B.Implies(cnd, byDefault):
						which = "no index/URL requested, default endpoint with browser binding"
					case B.Implies(cnd, byAny):
						which = "no index/URL requested, browser binding"
					case !isMethodOf(root, "IdpAuthnRequest") && B.Implies(cnd, post):
						which = "IdP-initiated: POST binding"
					}
					if which != "" {
						// where the choice is made: the store, or — when the chosen endpoint is handed back by a selection
						// helper and stored by its caller — the return of the helper that selects this alternative
						cfn, cblk, cat := fn, b, x
						if len(o.Via) > 0 {
							last := o.Via[len(o.Via)-1]
							if last.C != nil && len(last.B.Instrs) > 0 {
								cfn, cblk, cat = last.C.fn, last.B, RI{I: last.B.Instrs[len(last.B.Instrs)-1], C: last.C}
							}
						}
						classified = append(classified, acsStore{cfn, cblk, which, p.InstrPos(in), cat, rg})
						r.add(&Obligation{Rule: "C05.acs-guards", Construct: gc + " [" + which + "]", Pos: p.InstrPos(in), Verdict: "discharged", NonTrivial: true, Detail: which})
					} else {
						r.Bad("C05.acs-guards", gc+" ["+p.InstrPos(in)+"]", p.InstrPos(in), "the store is reachable under a condition that matches none of the documented selection rules: "+a.canon(cnd))
					}
				}
			}
		})
	}
	// priority: the "any browser-binding endpoint" choice is made only after the scan for a default endpoint is complete
	// (no loop contains both choices, and the default scan comes first)
	for _, d := range classified {
		if !strings.Contains(d.which, "default endpoint") {
			continue
		}
		for _, n := range classified {
			if n.fn != d.fn || n.which != "no index/URL requested, browser binding" || n.rg != d.rg {
				continue
			}
			if n.at.C != d.at.C {
				// the two choices are made by two calls of a walker: the call that looks for a default comes first
				okOrd := d.rg.Before(d.at, n.at)
				if !okOrd {
					// the two choices are made through two calls of a helper that records the choice (a setter): judged
					// like two stores, at the call sites in the function both calls belong to
					px, py := d.at.pos(), n.at.pos()
					for k := 0; k < len(px) && k < len(py); k++ {
						if px[k] == py[k] {
							continue
						}
						if px[k].Parent() != py[k].Parent() {
							break
						}
						db, nb := px[k].Block(), py[k].Block()
						shared := false
						for _, h := range loopHeadersOf(db) {
							for _, h2 := range loopHeadersOf(nb) {
								if h == h2 {
									shared = true
								}
							}
						}
						if hs := loopHeadersOf(db); len(hs) > 0 && !shared {
							outer := hs[0]
							for _, h := range hs {
								if h.Dominates(outer) {
									outer = h
								}
							}
							okOrd = outer.Dominates(nb) && !underLoop(outer, nb)
						}
						break
					}
				}
				r.Check(okOrd, "C05.acs-guards", fmt.Sprintf("%s: the default endpoint takes precedence over the first browser-binding endpoint", p.FnName(d.fn)), n.pos, "the pass that looks for a default endpoint runs before the fallback pass", fmt.Sprintf("the fallback endpoint choice at %s is not made after the default-endpoint pass at %s", n.pos, d.pos))
				continue
			}
			shared := false
			for _, h := range loopHeadersOf(d.blk) {
				for _, h2 := range loopHeadersOf(n.blk) {
					if h == h2 {
						shared = true
					}
				}
			}
			first := false
			if hs := loopHeadersOf(d.blk); len(hs) > 0 {
				// the outermost loop of the default scan dominates the fallback choice and does not contain it
				outer := hs[0]
				for _, h := range hs {
					if h.Dominates(outer) {
						outer = h
					}
				}
				first = outer.Dominates(n.blk) && !underLoop(outer, n.blk)
			}
			r.Check(!shared && first, "C05.acs-guards", fmt.Sprintf("%s: the default endpoint takes precedence over the first browser-binding endpoint", p.FnName(d.fn)), n.pos, "the fallback choice follows the completed scan for a default", fmt.Sprintf("the fallback endpoint choice at %s is made in the same pass as, or before, the default-endpoint choice at %s: a registered isDefault endpoint later in the metadata is never considered", n.pos, d.pos))
		}
	}
	// the selection function succeeds only through a store
	for fn := range selectors {
		if errIndex(fn) < 0 {
			continue
		}
		fc := a.Ctx(fn)
		for _, ret := range fc.Returns() {
			if !isNilConst(Resolve(ret.Results[len(ret.Results)-1])) {
				continue
			}
			ok := false
			for _, in := range ret.Block().Instrs {
				if st, ok2 := in.(*ssa.Store); ok2 {
					if fa, ok3 := st.Addr.(*ssa.FieldAddr); ok3 && fieldName(fa.X.Type(), fa.Field) == "ACSEndpoint" {
						ok = true
					}
				}
			}
			r.Check(ok, "C05.acs-guards", fmt.Sprintf("%s: success return only after an endpoint store [%s]", p.FnName(fn), p.InstrPos(ret)), p.InstrPos(ret), "store in the returning block", "the selection function reports success without having selected a registered endpoint")
		}
	}
}

// maximalRoots: the library functions whose region (the function with the unexported helpers of its package it calls,
// bound 2) contains a function satisfying has, minus those that are themselves inside another such function's region.
func maximalRoots(p *Prog, has func(*ssa.Function) bool) []*ssa.Function {
	var cands []*ssa.Function
	regions := map[*ssa.Function][]*ssa.Function{}
	for _, fn := range p.modFns {
		if !p.InLibrary(fn) || len(fn.Blocks) == 0 || fn.Parent() != nil {
			continue
		}
		reg := helperRegion(p, fn, 2)
		ok := false
		for _, f := range reg {
			if has(f) {
				ok = true
			}
		}
		if ok {
			cands = append(cands, fn)
			regions[fn] = reg
		}
	}
	var out []*ssa.Function
	for _, f := range cands {
		inner := false
		for _, g := range cands {
			if g == f {
				continue
			}
			for _, h := range regions[g] {
				if h == f {
					inner = true
				}
			}
		}
		if !inner {
			out = append(out, f)
		}
	}
	return out
}

func isMethodOf(fn *ssa.Function, typeName string) bool {
	if fn.Signature.Recv() == nil {
		return false
	}
	n := namedOf(fn.Signature.Recv().Type())
	return n != nil && n.Obj().Name() == typeName
}

// initStore: the value of the only Store that targets the local itself (its initialisation).
func initStore(al *ssa.Alloc) ssa.Value {
	var v ssa.Value
	n := 0
	for _, rf := range *al.Referrers() {
		if st, ok := rf.(*ssa.Store); ok && st.Addr == ssa.Value(al) {
			v = st.Val
			n++
		}
	}
	if n == 1 {
		return v
	}
	return nil
}

// globalOfElem: v is an element of a package-level slice or array (the element a range loop over it yields, or an
// indexed read): that variable.
func globalOfElem(v ssa.Value) *ssa.Global {
	for i := 0; i < 6 && v != nil; i++ {
		switch x := v.(type) {
		case *ssa.Global:
			return x
		case *ssa.UnOp:
			v = x.X
		case *ssa.IndexAddr:
			v = x.X
		case *ssa.Index:
			v = x.X
		case *ssa.Extract:
			if nx, ok := x.Tuple.(*ssa.Next); ok {
				if rg, ok := nx.Iter.(*ssa.Range); ok {
					v = rg.X
					continue
				}
			}
			return nil
		default:
			return nil
		}
	}
	return nil
}
