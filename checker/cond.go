package main

// Path conditions: for every basic block the condition under which it is reached, as a decision
// diagram over canonical atoms of the guards that occur in the code. Back edges are removed; the
// loop test of a range loop is existentially quantified, so atoms that mention an element "[*]" read
// "for some element" (and their negation "for no element").

import (
	"fmt"
	"go/constant"
	"go/token"
	"go/types"
	"sort"
	"strings"

	"golang.org/x/tools/go/ssa"
)

type AtomInfo struct {
	Name  string
	Kind  string // eq isnil empty lt before call ok b v exists typeis
	Args  []string
	TT    [2]*TimeTerm // for before
	Vals  []ssa.Value  // operand SSA values of the first occurrence (for provenance/K6 rules)
	Instr ssa.Instruction
	Fn    *ssa.Function
	Ctx   *FuncCtx // context of the first occurrence (operand access paths are relative to it)
}

type Analysis struct {
	P         *Prog
	B         *BDD
	ctxs      map[string]*FuncCtx
	Inline    func(callee *ssa.Function) bool
	Opaque    func(callee *ssa.Function) bool // never analysed as part of its caller, even when side-effect free
	MaxDepth  int
	Atoms     map[string]*AtomInfo
	pureMemo  map[*ssa.Function]bool
	pureVMemo map[*ssa.Function]bool
	nonNilG   map[*ssa.Global]bool
	siteSeq   int
	byFn      map[*ssa.Function]map[string]*AtomInfo
}

// AtomIn returns the atom as it occurs in fn (operand values of that function), falling back to the
// first occurrence anywhere.
func (a *Analysis) AtomIn(fn *ssa.Function, name string) *AtomInfo {
	if m := a.byFn[fn]; m != nil {
		if ai := m[name]; ai != nil {
			return ai
		}
	}
	return a.Atoms[name]
}

func NewAnalysis(p *Prog) *Analysis {
	return &Analysis{P: p, B: NewBDD(), ctxs: map[string]*FuncCtx{}, MaxDepth: 3, Atoms: map[string]*AtomInfo{}, pureMemo: map[*ssa.Function]bool{}}
}

type FuncCtx struct {
	A       *Analysis
	Fn      *ssa.Function
	Env     map[ssa.Value]string
	prefix  string
	depth   int
	roots   map[ssa.Value]string
	apMemo  map[ssa.Value]string
	apBusy  map[ssa.Value]bool
	fMemo   map[ssa.Value]*bddNode
	nnMemo  map[ssa.Value]*bddNode
	busy    map[ssa.Value]bool
	cond    map[*ssa.BasicBlock]*bddNode
	rpo     []*ssa.BasicBlock
	loops   map[*ssa.BasicBlock]map[*ssa.BasicBlock]bool // header -> blocks of natural loop
	cycHit  map[ssa.Value]bool
	parent  *FuncCtx                // for contexts of callees analysed as part of a caller
	site    ssa.Instruction         // the call site in parent
	argVal  map[ssa.Value]ssa.Value // parameter -> argument value in parent (contexts of inlined callees)
	exhaust map[*ssa.BasicBlock]*bddNode
	alias   map[string]string // access-path prefix -> role name (fields of a parameter object)
}

// AbsCond: the condition of block b expressed from the entry of the top-level function: the block's own
// condition conjoined with the conditions of the call sites it was reached through.
func (fc *FuncCtx) AbsCond(b *ssa.BasicBlock) *bddNode {
	c := fc.Cond(b)
	if fc.parent != nil && fc.site != nil {
		c = fc.A.B.And(c, fc.parent.AbsCond(fc.site.Block()))
	}
	return c
}

// Ctx returns the top-level context for fn (parameters named by their own roots).
func (a *Analysis) Ctx(fn *ssa.Function) *FuncCtx {
	return a.ctxWith(fn, nil, "", 0)
}

func (a *Analysis) ctxWith(fn *ssa.Function, env map[ssa.Value]string, prefix string, depth int) *FuncCtx {
	var ks []string
	for k, v := range env {
		ks = append(ks, k.Name()+"="+v)
	}
	sort.Strings(ks)
	key := fn.String() + "|" + prefix + "|" + strings.Join(ks, ",")
	if c, ok := a.ctxs[key]; ok {
		return c
	}
	c := &FuncCtx{A: a, Fn: fn, Env: env, prefix: prefix, depth: depth,
		apMemo: map[ssa.Value]string{}, apBusy: map[ssa.Value]bool{}, fMemo: map[ssa.Value]*bddNode{},
		nnMemo: map[ssa.Value]*bddNode{}, busy: map[ssa.Value]bool{}}
	if c.Env == nil {
		c.Env = map[ssa.Value]string{}
	}
	a.ctxs[key] = c
	return c
}

func (a *Analysis) atom(name, kind string, fc *FuncCtx, in ssa.Instruction, vals []ssa.Value, args ...string) *bddNode {
	if _, ok := a.Atoms[name]; !ok {
		a.Atoms[name] = &AtomInfo{Name: name, Kind: kind, Args: args, Vals: vals, Instr: in, Fn: fc.Fn, Ctx: fc}
	}
	if a.byFn == nil {
		a.byFn = map[*ssa.Function]map[string]*AtomInfo{}
	}
	if a.byFn[fc.Fn] == nil {
		a.byFn[fc.Fn] = map[string]*AtomInfo{}
	}
	if _, ok := a.byFn[fc.Fn][name]; !ok {
		a.byFn[fc.Fn][name] = &AtomInfo{Name: name, Kind: kind, Args: args, Vals: vals, Instr: in, Fn: fc.Fn, Ctx: fc}
	}
	return a.B.Var(name)
}

// ---------------------------------------------------------------------------------------------
// control flow

func isBackEdge(p, b *ssa.BasicBlock) bool { return b.Dominates(p) }

func (fc *FuncCtx) ensureConds() {
	if fc.cond != nil {
		return
	}
	fc.cond = map[*ssa.BasicBlock]*bddNode{}
	fn := fc.Fn
	if len(fn.Blocks) == 0 {
		return
	}
	// natural loops
	fc.loops = map[*ssa.BasicBlock]map[*ssa.BasicBlock]bool{}
	for _, b := range fn.Blocks {
		for _, s := range b.Succs {
			if isBackEdge(b, s) {
				body := fc.loops[s]
				if body == nil {
					body = map[*ssa.BasicBlock]bool{s: true}
					fc.loops[s] = body
				}
				var stack []*ssa.BasicBlock
				if !body[b] {
					body[b] = true
					stack = append(stack, b)
				}
				for len(stack) > 0 {
					x := stack[len(stack)-1]
					stack = stack[:len(stack)-1]
					for _, p := range x.Preds {
						if !body[p] {
							body[p] = true
							stack = append(stack, p)
						}
					}
				}
			}
		}
	}
	// reverse postorder ignoring back edges
	seen := map[*ssa.BasicBlock]bool{}
	var post []*ssa.BasicBlock
	var dfs func(b *ssa.BasicBlock)
	dfs = func(b *ssa.BasicBlock) {
		seen[b] = true
		succs := b.Succs
		if body, isHeader := fc.loops[b]; isHeader && len(succs) == 2 && body[succs[0]] && !body[succs[1]] {
			// finish the loop exit first, so that the body precedes it in reverse postorder (the exit condition
			// of a range loop is computed from the conditions inside the body)
			succs = []*ssa.BasicBlock{succs[1], succs[0]}
		}
		for _, s := range succs {
			if !seen[s] && !isBackEdge(b, s) {
				dfs(s)
			}
		}
		post = append(post, b)
	}
	dfs(fn.Blocks[0])
	for i := len(post) - 1; i >= 0; i-- {
		fc.rpo = append(fc.rpo, post[i])
	}
	B := fc.A.B
	for _, b := range fc.rpo {
		if b == fn.Blocks[0] {
			fc.cond[b] = B.True
			continue
		}
		acc := B.False
		for _, p := range b.Preds {
			if isBackEdge(p, b) {
				continue
			}
			pc, ok := fc.cond[p]
			if !ok {
				continue // unreachable predecessor
			}
			acc = B.Or(acc, B.And(pc, fc.edgeCond(p, b)))
		}
		fc.cond[b] = acc
	}
}

// inLoop: b belongs to a natural loop of the function.
func (fc *FuncCtx) inLoop(b *ssa.BasicBlock) bool {
	for _, body := range fc.loops {
		if body[b] {
			return true
		}
	}
	return false
}

// Cond is the path condition of block b (False for unreachable blocks).
func (fc *FuncCtx) Cond(b *ssa.BasicBlock) *bddNode {
	fc.ensureConds()
	if c, ok := fc.cond[b]; ok {
		return c
	}
	return fc.A.B.False
}

// edgeCond is the condition on the edge p->b (given p is executing).
func (fc *FuncCtx) edgeCond(p, b *ssa.BasicBlock) *bddNode {
	B := fc.A.B
	if len(p.Instrs) == 0 {
		return B.True
	}
	iff, ok := p.Instrs[len(p.Instrs)-1].(*ssa.If)
	if !ok {
		return B.True
	}
	if p.Succs[0] == p.Succs[1] {
		return B.True
	}
	if fc.isRangeTest(iff.Cond) {
		if len(p.Succs) == 2 && p.Succs[1] == b {
			return fc.exhaustCond(p)
		}
		return B.True
	}
	c := fc.Formula(iff.Cond)
	if p.Succs[0] == b {
		return c
	}
	return B.Not(c)
}

// exhaustCond: the condition on the edge that leaves a range loop because the range is exhausted: no iteration left
// the loop early (search loops: "for each x { if match(x) { return found } }; return notFound" reaches the final
// return only when no element matched).
func (fc *FuncCtx) exhaustCond(h *ssa.BasicBlock) *bddNode {
	B := fc.A.B
	if c, ok := fc.exhaust[h]; ok {
		return c
	}
	if fc.exhaust == nil {
		fc.exhaust = map[*ssa.BasicBlock]*bddNode{}
	}
	fc.exhaust[h] = B.True // recursion guard
	body, ok := fc.loops[h]
	if !ok {
		return B.True
	}
	rel := fc.relConds(h, body)
	early := B.False
	for u := range body {
		if u == h {
			continue
		}
		rc, ok := rel[u]
		if !ok {
			continue
		}
		if len(u.Succs) == 0 {
			early = B.Or(early, rc) // return or panic inside the loop
			continue
		}
		for _, v := range u.Succs {
			if !body[v] {
				early = B.Or(early, B.And(rc, fc.edgeCond(u, v)))
			}
		}
	}
	// Guards inside a loop body speak about a representative element (see the package comment): "no iteration left
	// early" is the negation of the early-exit condition. Exit conditions that mention no element are dropped (they
	// say nothing when the range is empty).
	cubes := B.Cubes(early, 65)
	if len(cubes) > 64 {
		return B.True
	}
	perElem := B.False
	for _, cube := range cubes {
		has := false
		f := B.True
		for _, lit := range cube {
			if strings.Contains(lit, "[*]") {
				has = true
			}
			if strings.HasPrefix(lit, "!") {
				f = B.And(f, B.Not(B.Var(lit[1:])))
			} else {
				f = B.And(f, B.Var(lit))
			}
		}
		if has {
			perElem = B.Or(perElem, f)
		}
	}
	c := B.Not(perElem)
	fc.exhaust[h] = c
	return c
}

// isRangeTest: the loop test of a range loop (i+1 < len(s), or ok of Next).
func (fc *FuncCtx) isRangeTest(v ssa.Value) bool {
	switch x := v.(type) {
	case *ssa.BinOp:
		if x.Op != token.LSS {
			return false
		}
		if !isInduction(x.X) {
			return false
		}
		if _, isc := x.X.(*ssa.Const); isc {
			return false
		}
		// right side: len(...) call or a constant/int bound of a range-over-int
		switch y := x.Y.(type) {
		case *ssa.Call:
			if bi, ok := y.Call.Value.(*ssa.Builtin); ok && bi.Name() == "len" {
				return true
			}
		}
		// range over array pointer / integer: the block must be a loop header
		if _, ok := fc.loops[x.Block()]; ok {
			return true
		}
		return false
	case *ssa.Extract:
		if _, ok := x.Tuple.(*ssa.Next); ok && x.Index == 0 {
			return true
		}
	}
	return false
}

// ---------------------------------------------------------------------------------------------
// formulas

func isNilConst(v ssa.Value) bool {
	c, ok := v.(*ssa.Const)
	return ok && c.Value == nil && !isBasicZero(c)
}

func isBasicZero(c *ssa.Const) bool {
	_, ok := c.Type().Underlying().(*types.Basic)
	return ok
}

func isEmptyStringConst(v ssa.Value) bool {
	c, ok := v.(*ssa.Const)
	if !ok || c.Value == nil {
		return false
	}
	b, ok := c.Type().Underlying().(*types.Basic)
	return ok && b.Info()&types.IsString != 0 && c.Value.ExactString() == `""`
}

func isIntConst(v ssa.Value, n int64) bool {
	c, ok := v.(*ssa.Const)
	if !ok || c.Value == nil {
		return false
	}
	b, ok := c.Type().Underlying().(*types.Basic)
	if !ok || b.Info()&types.IsInteger == 0 {
		return false
	}
	return c.Int64() == n
}

func lenArg(v ssa.Value) ssa.Value {
	c, ok := v.(*ssa.Call)
	if !ok {
		return nil
	}
	if bi, ok := c.Call.Value.(*ssa.Builtin); ok && bi.Name() == "len" && len(c.Call.Args) == 1 {
		return c.Call.Args[0]
	}
	return nil
}

func isBoolType(t types.Type) bool {
	b, ok := t.Underlying().(*types.Basic)
	return ok && b.Info()&types.IsBoolean != 0
}

func nillable(t types.Type) bool {
	switch t.Underlying().(type) {
	case *types.Pointer, *types.Interface, *types.Slice, *types.Map, *types.Chan, *types.Signature:
		return true
	}
	return false
}

// phiOperandsGated: OR_i reach(edge_i) & f(operand_i), for a phi that is not a loop-header phi.
func (fc *FuncCtx) gated(phi *ssa.Phi, f func(ssa.Value) *bddNode) (*bddNode, bool) {
	B := fc.A.B
	blk := phi.Block()
	fc.ensureConds()
	for _, p := range blk.Preds {
		if isBackEdge(p, blk) {
			return nil, false
		}
	}
	acc := B.False
	for i, e := range phi.Edges {
		p := blk.Preds[i]
		pc, ok := fc.cond[p]
		if !ok {
			continue
		}
		reach := B.And(pc, fc.edgeCond(p, blk))
		if reach == B.False {
			continue
		}
		acc = B.Or(acc, B.And(reach, f(e)))
	}
	return acc, true
}

// Formula gives the propositional formula of a boolean SSA value.
func (fc *FuncCtx) Formula(v ssa.Value) *bddNode {
	if r, ok := fc.fMemo[v]; ok {
		return r
	}
	B := fc.A.B
	if fc.busy[v] {
		if fc.cycHit == nil {
			fc.cycHit = map[ssa.Value]bool{}
		}
		fc.cycHit[v] = true
		return fc.A.atom("v:"+fc.uniq("cyc", v), "v", fc, nil, []ssa.Value{v})
	}
	fc.busy[v] = true
	r := fc.formula0(v)
	delete(fc.busy, v)
	_ = B
	fc.fMemo[v] = r
	return r
}

func instrOf(v ssa.Value) ssa.Instruction {
	in, _ := v.(ssa.Instruction)
	return in
}

func (fc *FuncCtx) formula0(v ssa.Value) *bddNode {
	B := fc.A.B
	switch x := v.(type) {
	case *ssa.Const:
		if x.Value != nil && isBoolType(x.Type()) {
			if x.Value.ExactString() == "true" {
				return B.True
			}
			return B.False
		}
	case *ssa.Parameter:
		// a flag handed to a callee that is analysed as part of its caller is the caller's formula for it
		if av := fc.argVal[x]; av != nil && fc.parent != nil {
			return fc.parent.Formula(av)
		}
	case *ssa.UnOp:
		if x.Op == token.NOT {
			return B.Not(fc.Formula(x.X))
		}
		if x.Op == token.MUL {
			// a bool field of a helper's result struct: case split over the helper's returns
			if _, idx, ok := callComponent(x); ok && idx < 0 {
				if f, ok := fc.callResultGated(x, func(sub *FuncCtx, rv ssa.Value) *bddNode { return sub.Formula(rv) }); ok {
					return f
				}
			}
			// a flag kept in a field of a local struct that is assigned once
			if sv := fieldSingleStore(x); sv != nil {
				return fc.Formula(sv)
			}
			// ... or that is zero until one conditional assignment of the whole struct from a literal: false where the
			// assignment did not execute
			if fa, ok := x.X.(*ssa.FieldAddr); ok && isBoolType(x.Type()) {
				if al, ok := fa.X.(*ssa.Alloc); ok && al.Referrers() != nil && !al.Heap {
					if sv, whole := fieldOnlyStore(x); sv != nil && fc.cond != nil && !fc.inLoop(whole.Block()) && !fc.inLoop(x.Block()) {
						if c, ok := fc.cond[whole.Block()]; ok {
							return B.And(c, fc.Formula(sv))
						}
					}
				}
			}
			// a flag kept in a local that is assigned once (address taken, or captured by a closure)
			if al, ok := x.X.(*ssa.Alloc); ok {
				if sv := fc.singleStore(al, x); sv != nil {
					return fc.Formula(sv)
				}
				if sv := lastStoreInBlock(al, x); sv != nil {
					return fc.Formula(sv)
				}
				if sv := capturedSingleStore(al); sv != nil {
					if st := storeOf(al); st != nil && (st.Block() == x.Block() || st.Block().Dominates(x.Block())) {
						return fc.Formula(sv)
					}
				}
			}
		}
	case *ssa.BinOp:
		return fc.binopFormula(x)
	case *ssa.Phi:
		if f, ok := fc.gated(x, fc.Formula); ok {
			return f
		}
		if f, ok := fc.flagLoop(x); ok {
			return f
		}
	case *ssa.Call:
		return fc.callFormula(x)
	case *ssa.Lookup:
		// set membership spelled as a bool-valued constant package-level table (var known = map[string]bool{k: true, ...}):
		// the index equals one of the keys that map to true (a missing key reads as false)
		if !x.CommaOk && isBoolType(x.Type()) {
			if ents, ok := fc.tableEntries(x); ok {
				acc := B.False
				okAll := true
				for _, e := range ents {
					c, isC := e.v.(*ssa.Const)
					if !isC || c.Value == nil {
						okAll = false
						break
					}
					if c.Value.ExactString() == "true" {
						acc = B.Or(acc, fc.eqFormula(x, x.Index, e.k))
					}
				}
				if okAll {
					return acc
				}
			}
		}
	case *ssa.Extract:
		switch t := x.Tuple.(type) {
		case *ssa.TypeAssert:
			if x.Index == 1 {
				name := "ok:" + fc.AP(t)
				return fc.A.atom(name, "typeis", fc, t, []ssa.Value{t.X}, fc.AP(t.X), types.TypeString(t.AssertedType, nil))
			}
		case *ssa.Lookup:
			if x.Index == 1 {
				// membership in a constant package-level table: one of its keys
				if ents, ok := fc.tableEntries(t); ok {
					acc := B.False
					for _, e := range ents {
						acc = B.Or(acc, fc.eqFormula(t, t.Index, e.k))
					}
					return acc
				}
				name := "ok:" + fc.AP(t)
				return fc.A.atom(name, "ok", fc, t, []ssa.Value{t.X, t.Index}, fc.AP(t.X), fc.AP(t.Index))
			}
		case *ssa.Call:
			// found flag of strings.CutPrefix/CutSuffix: the atom of the equivalent HasPrefix/HasSuffix call
			if sc := t.Call.StaticCallee(); sc != nil && x.Index == 1 && len(t.Call.Args) == 2 {
				has := map[string]string{"strings.CutPrefix": "strings.HasPrefix", "strings.CutSuffix": "strings.HasSuffix"}[sc.String()]
				if has != "" {
					a0, a1 := fc.AP(t.Call.Args[0]), fc.AP(t.Call.Args[1])
					name := "call:" + has + "(" + a0 + "," + a1 + ")"
					return fc.A.atom(name, "call", fc, t, append([]ssa.Value{}, t.Call.Args...), has, a0, a1)
				}
			}
			// the boolean component of a side-effect-free helper's result (value, ok): case split over its returns
			if isBoolType(x.Type()) {
				if f, ok := fc.callResultGated(x, func(sub *FuncCtx, rv ssa.Value) *bddNode { return sub.Formula(rv) }); ok {
					return f
				}
			}
		}
	}
	name := "b:" + fc.AP(v)
	return fc.A.atom(name, "b", fc, instrOf(v), []ssa.Value{v}, fc.AP(v))
}

func (fc *FuncCtx) binopFormula(x *ssa.BinOp) *bddNode {
	B := fc.A.B
	switch x.Op {
	case token.EQL, token.NEQ:
		f := fc.eqFormula(x, x.X, x.Y)
		if x.Op == token.NEQ {
			return B.Not(f)
		}
		return f
	case token.LSS, token.GTR, token.LEQ, token.GEQ:
		a, b := x.X, x.Y
		neg := false
		switch x.Op {
		case token.GTR: // a > b  == b < a
			a, b = b, a
		case token.LEQ: // a <= b == !(b < a)
			a, b = b, a
			neg = true
		case token.GEQ: // a >= b == !(a < b)
			neg = true
		}
		var f *bddNode
		// two constants (the header of a one-iteration block, `for range 1`): decided here
		if ka, okA := constInt(a); okA {
			if kb, okB := constInt(b); okB {
				if (ka < kb) != neg {
					return B.True
				}
				return B.False
			}
		}
		// len(s) > 0  / 0 < len(s)  -> !empty(s)
		if la := lenArg(b); la != nil && isIntConst(a, 0) {
			f = B.Not(fc.emptyAtom(x, la))
		} else if la := lenArg(a); la != nil && isIntConst(b, 1) {
			// len(s) < 1 -> empty(s)
			f = fc.emptyAtom(x, la)
		} else if rem := nonNegRem(b); rem != nil && isIntConst(a, 0) {
			// 0 < len(x) % n  ->  len(x) % n != 0  (the remainder of a length is never negative)
			f = B.Not(fc.eqFormula(x, rem, a))
		} else if rem := nonNegRem(a); rem != nil && isIntConst(b, 1) {
			// len(x) % n < 1  ->  len(x) % n == 0
			f = fc.eqFormula(x, rem, ssa.NewConst(constant.MakeInt64(0), rem.Type()))
		} else {
			if found, ok := fc.foundByIndex(a); ok && isIntConst(b, 0) {
				// slices.Index*(...) < 0: not found
				f = B.Not(found)
			} else if found, ok := fc.foundByIndex(b); ok && isIntConst(a, -1) {
				// -1 < slices.Index*(...): found
				f = found
			} else {
				sa, sb := fc.AP(a), fc.AP(b)
				f = fc.A.atom("lt("+sa+","+sb+")", "lt", fc, x, []ssa.Value{a, b}, sa, sb)
			}
		}
		if neg {
			return B.Not(f)
		}
		return f
	case token.AND, token.OR, token.XOR:
		if isBoolType(x.Type()) {
			l, r := fc.Formula(x.X), fc.Formula(x.Y)
			switch x.Op {
			case token.AND:
				return B.And(l, r)
			case token.OR:
				return B.Or(l, r)
			default:
				return B.Not(B.Iff(l, r))
			}
		}
	}
	name := "b:" + fc.AP(x)
	return fc.A.atom(name, "b", fc, x, []ssa.Value{x}, fc.AP(x))
}

func (fc *FuncCtx) emptyAtom(in ssa.Instruction, s ssa.Value) *bddNode {
	// cmp.Or(a, b) is empty when all its operands are
	if c, ok := s.(*ssa.Call); ok {
		if ops := cmpOrOperands(c); len(ops) >= 2 {
			acc := fc.A.B.True
			for _, o := range ops {
				if isEmptyStringConst(o) {
					continue
				}
				if _, isC := o.(*ssa.Const); isC {
					return fc.A.B.False
				}
				acc = fc.A.B.And(acc, fc.emptyAtom(in, o))
			}
			return acc
		}
	}
	sa := fc.AP(s)
	return fc.A.atom("empty("+sa+")", "empty", fc, in, []ssa.Value{s}, sa)
}

// eqFormula: formula of a == b.
func (fc *FuncCtx) eqFormula(in ssa.Instruction, a, b ssa.Value) *bddNode {
	B := fc.A.B
	// nil comparisons
	if isNilConst(b) {
		return B.Not(fc.NonNil(a))
	}
	if isNilConst(a) {
		return B.Not(fc.NonNil(b))
	}
	// boolean equality
	if isBoolType(a.Type()) && isBoolType(b.Type()) {
		return B.Iff(fc.Formula(a), fc.Formula(b))
	}
	// slices.Index*(...) == -1: not found
	if found, ok := fc.foundByIndex(a); ok && isIntConst(b, -1) {
		return B.Not(found)
	}
	if found, ok := fc.foundByIndex(b); ok && isIntConst(a, -1) {
		return B.Not(found)
	}
	// emptiness
	if isEmptyStringConst(b) {
		return fc.emptyAtom(in, a)
	}
	if isEmptyStringConst(a) {
		return fc.emptyAtom(in, b)
	}
	if la := lenArg(a); la != nil && isIntConst(b, 0) {
		return fc.emptyAtom(in, la)
	}
	if la := lenArg(b); la != nil && isIntConst(a, 0) {
		return fc.emptyAtom(in, la)
	}
	// a parameter of an inlined callee that is bound to a constant argument is that constant (use == "encryption" for
	// helper(.., "encryption"))
	if ca := fc.constArg(a, 0); ca != nil {
		return fc.eqFormula(in, ca, b)
	}
	if cb := fc.constArg(b, 0); cb != nil {
		return fc.eqFormula(in, a, cb)
	}
	// a parameter of an inlined callee compared with a constant: compare the caller's argument (which may be a phi)
	if pa, ok := a.(*ssa.Parameter); ok && fc.parent != nil {
		if isConstLike(b) {
			if av := fc.argVal[pa]; av != nil {
				return fc.parent.eqFormula(in, av, b)
			}
		}
	}
	if pb, ok := b.(*ssa.Parameter); ok && fc.parent != nil {
		if isConstLike(a) {
			if av := fc.argVal[pb]; av != nil {
				return fc.parent.eqFormula(in, a, av)
			}
		}
	}
	// the result of a side-effect-free module helper compared with a constant (or a package-level sentinel): case split
	// over the helper's returns
	if isConstLike(b) {
		if f, ok := fc.callResultGated(a, func(sub *FuncCtx, rv ssa.Value) *bddNode { return sub.eqFormula(in, rv, b) }); ok {
			return f
		}
	}
	if isConstLike(a) {
		if f, ok := fc.callResultGated(b, func(sub *FuncCtx, rv ssa.Value) *bddNode { return sub.eqFormula(in, a, rv) }); ok {
			return f
		}
	}
	// a value looked up in a constant package-level table compared with a constant: the keys that map to it
	if f, ok := fc.tableLookupEq(in, a, b); ok {
		return f
	}
	if f, ok := fc.tableLookupEq(in, b, a); ok {
		return f
	}
	// phi operands: expand by gating (a phi that is the "first non-empty of two" idiom is one value with a name of its own)
	if ph, ok := a.(*ssa.Phi); ok && fc.firstSetPhi(ph) == "" {
		if f, ok := fc.gated(ph, func(e ssa.Value) *bddNode { return fc.eqFormula(in, e, b) }); ok {
			return f
		}
	}
	if ph, ok := b.(*ssa.Phi); ok && fc.firstSetPhi(ph) == "" {
		if f, ok := fc.gated(ph, func(e ssa.Value) *bddNode { return fc.eqFormula(in, a, e) }); ok {
			return f
		}
	}
	// interface/pointer compared with a value known non-nil vs nil const handled above; two constants:
	if ca, ok := a.(*ssa.Const); ok {
		if cb, ok := b.(*ssa.Const); ok {
			if constString(ca) == constString(cb) {
				return B.True
			}
			return B.False
		}
	}
	sa, sb := fc.AP(a), fc.AP(b)
	va, vb := a, b
	if sa > sb {
		sa, sb = sb, sa
		va, vb = vb, va
	}
	if sa == sb {
		return B.True
	}
	return fc.A.atom("eq("+sa+","+sb+")", "eq", fc, in, []ssa.Value{va, vb}, sa, sb)
}

func (fc *FuncCtx) callFormula(x *ssa.Call) *bddNode {
	B := fc.A.B
	c := &x.Call
	sc := c.StaticCallee()
	if sc != nil && sc.Signature.Recv() != nil && len(c.Args) == 2 {
		full := sc.String()
		if full == "(time.Time).Before" || full == "(time.Time).After" {
			a, b := c.Args[0], c.Args[1]
			if full == "(time.Time).After" {
				a, b = b, a
			}
			ta, tb := fc.TimeTermOf(a), fc.TimeTermOf(b)
			name := "before(" + ta.String() + "," + tb.String() + ")"
			n := fc.A.atom(name, "before", fc, x, []ssa.Value{a, b}, ta.String(), tb.String())
			ai := fc.A.Atoms[name]
			ai.TT = [2]*TimeTerm{ta, tb}
			return n
		}
	}
	// errors.Is(err, Sentinel) with a package-level sentinel: the same atom as err == Sentinel (the repo's sentinels are
	// plain values; a wrapped sentinel would also satisfy errors.Is, which the rules that care check at the producer)
	if sc != nil && sc.String() == "errors.Is" && len(c.Args) == 2 {
		if ld, ok := c.Args[1].(*ssa.UnOp); ok {
			if _, isG := ld.X.(*ssa.Global); isG {
				return fc.eqFormula(x, c.Args[0], c.Args[1])
			}
		}
	}
	// slices.Contains(xs, x). A literal or a package-level table only written by its initialiser: the disjunction of
	// x == element over its elements. Any other slice: "x equals some element of xs", the atom the range-and-compare
	// loop produces.
	if sc != nil && strings.HasPrefix(sc.String(), "slices.Contains[") && len(c.Args) == 2 {
		var elems []ssa.Value
		if sl, ok := c.Args[0].(*ssa.Slice); ok {
			if al, ok := sl.X.(*ssa.Alloc); ok && sl.Low == nil && sl.High == nil {
				elems = arrayLiteralElems(al)
			}
		}
		if ld, ok := c.Args[0].(*ssa.UnOp); ok && ld.Op == token.MUL {
			if g, ok := ld.X.(*ssa.Global); ok {
				elems, _ = fc.A.P.globalSliceElems(g)
			}
		}
		if len(elems) > 0 {
			acc := B.False
			for _, e := range elems {
				acc = B.Or(acc, fc.eqFormula(x, c.Args[1], e))
			}
			return acc
		}
		sa, sb := fc.AP(c.Args[0])+"[*]", fc.AP(c.Args[1])
		va, vb := c.Args[0], c.Args[1]
		if sa > sb {
			sa, sb = sb, sa
			va, vb = vb, va
		}
		return fc.A.atom("eq("+sa+","+sb+")", "eq", fc, x, []ssa.Value{va, vb}, sa, sb)
	}
	// slices.ContainsFunc(xs, func(x T) bool {...}): "some element of xs satisfies the literal's body"
	if sc != nil && strings.HasPrefix(sc.String(), "slices.ContainsFunc[") && len(c.Args) == 2 {
		if f, ok := fc.existsElemFunc(c.Args[0], c.Args[1], x); ok {
			return f
		}
	}
	// a predicate handed to this function as a func literal and called here (walker(func(x T) bool {...})): when this
	// function is analysed as part of the caller that wrote the literal, the call is the literal's body
	if sc == nil && !c.IsInvoke() && isBoolType(x.Type()) && fc.depth < fc.A.MaxDepth+1 {
		if cf, mc, owner := fc.closureArg(c.Value, 0); cf != nil && len(cf.Blocks) > 0 {
			sub := fc.inlineClosure(cf, mc, owner, c.Args, x)
			return sub.ResultFormula(0, sub.Formula)
		}
	}
	// module predicate functions within the inlining bound: inline as formula of the returned bool; a side-effect-free
	// predicate is looked through under every policy (it is a named sub-expression of the guard)
	if sc != nil && len(sc.Blocks) > 0 &&
		((fc.depth < fc.A.MaxDepth && fc.A.Inline != nil && fc.A.Inline(sc)) || (fc.depth < fc.A.MaxDepth+2 && isPredicate(sc) && fc.A.isPureModuleFunc(sc))) {
		sub := fc.inlineCtx(sc, c.Args, x)
		return sub.ResultFormula(0, sub.Formula)
	}
	_ = B
	ap := fc.AP(x)
	name := "call:" + ap
	var args []string
	for _, a := range c.Args {
		args = append(args, fc.AP(a))
	}
	vals := append([]ssa.Value{}, c.Args...)
	n := fc.A.atom(name, "call", fc, x, vals, append([]string{calleeName(c)}, args...)...)
	return n
}

// arrayLiteralElems: the values stored into the elements of a local array (the backing store of a slice literal).
func arrayLiteralElems(al *ssa.Alloc) []ssa.Value {
	var elems []ssa.Value
	for _, ref := range *al.Referrers() {
		ia, ok := ref.(*ssa.IndexAddr)
		if !ok {
			continue
		}
		for _, r2 := range *ia.Referrers() {
			if st, ok := r2.(*ssa.Store); ok && st.Addr == ssa.Value(ia) {
				elems = append(elems, st.Val)
			}
		}
	}
	return elems
}

type mapEntry struct{ k, v ssa.Value }

// tableEntries: t looks a key up in a package-level map that is a constant table (globalMapEntries).
func (fc *FuncCtx) tableEntries(t *ssa.Lookup) ([]mapEntry, bool) {
	ld, ok := t.X.(*ssa.UnOp)
	if !ok || ld.Op != token.MUL {
		return nil, false
	}
	g, ok := ld.X.(*ssa.Global)
	if !ok {
		return nil, false
	}
	return fc.A.P.globalMapEntries(g)
}

// tableLookupEq: look is table[x] (or the value component of v, ok := table[x]) for a constant table and k a constant:
// the disjunction of x == key over the keys mapped to k; for the zero value also "x is none of the keys".
func (fc *FuncCtx) tableLookupEq(in ssa.Instruction, look, k ssa.Value) (*bddNode, bool) {
	kc, ok := k.(*ssa.Const)
	if !ok {
		return nil, false
	}
	var t *ssa.Lookup
	switch x := look.(type) {
	case *ssa.Lookup:
		if x.CommaOk {
			return nil, false
		}
		t = x
	case *ssa.Extract:
		l, ok := x.Tuple.(*ssa.Lookup)
		if !ok || x.Index != 0 {
			return nil, false
		}
		t = l
	default:
		return nil, false
	}
	ents, ok := fc.tableEntries(t)
	if !ok {
		return nil, false
	}
	B := fc.A.B
	acc, any := B.False, B.False
	for _, e := range ents {
		vc, ok := e.v.(*ssa.Const)
		if !ok {
			return nil, false
		}
		hit := fc.eqFormula(in, t.Index, e.k)
		any = B.Or(any, hit)
		if constString(vc) == constString(kc) {
			acc = B.Or(acc, hit)
		}
	}
	if isZeroConst(kc) {
		acc = B.Or(acc, B.Not(any))
	}
	return acc, true
}

func isZeroConst(c *ssa.Const) bool {
	if c.Value == nil {
		return true
	}
	switch c.Value.Kind() {
	case constant.String:
		return constant.StringVal(c.Value) == ""
	case constant.Bool:
		return !constant.BoolVal(c.Value)
	case constant.Int, constant.Float:
		return constant.Sign(c.Value) == 0
	}
	return false
}

var mapEntriesCache = map[*ssa.Global][]mapEntry{}
var mapEntriesKnown = map[*ssa.Global]bool{}

// globalMapEntries: the entries of a package-level map variable that is assigned exactly once, by its package
// initialiser, from a literal with constant keys, and that module functions only read (lookup, range, len).
func (p *Prog) globalMapEntries(g *ssa.Global) ([]mapEntry, bool) {
	if mapEntriesKnown[g] {
		e := mapEntriesCache[g]
		return e, e != nil
	}
	mapEntriesKnown[g] = true
	if g.Pkg == nil {
		return nil, false
	}
	if _, isMap := g.Type().(*types.Pointer).Elem().Underlying().(*types.Map); !isMap {
		return nil, false
	}
	for _, fn := range p.modFns {
		isInit := fn.Name() == "init" && fn.Pkg == g.Pkg
		for _, b := range fn.Blocks {
			for _, in := range b.Instrs {
				if st, ok := in.(*ssa.Store); ok && st.Addr == ssa.Value(g) && !isInit {
					return nil, false
				}
				ld, ok := in.(*ssa.UnOp)
				if !ok || ld.Op != token.MUL || ld.X != ssa.Value(g) || ld.Referrers() == nil {
					continue
				}
				for _, rf := range *ld.Referrers() {
					switch u := rf.(type) {
					case *ssa.Lookup:
						if u.X != ssa.Value(ld) {
							return nil, false
						}
					case *ssa.Range:
					case *ssa.DebugRef:
					case *ssa.Call:
						if bi, ok := u.Call.Value.(*ssa.Builtin); !ok || bi.Name() != "len" {
							return nil, false
						}
					default:
						return nil, false
					}
				}
			}
		}
	}
	init := g.Pkg.Func("init")
	if init == nil {
		return nil, false
	}
	var out []mapEntry
	n := 0
	for _, b := range init.Blocks {
		for _, in := range b.Instrs {
			st, ok := in.(*ssa.Store)
			if !ok || st.Addr != ssa.Value(g) {
				continue
			}
			n++
			mm, ok := st.Val.(*ssa.MakeMap)
			if !ok || mm.Referrers() == nil {
				return nil, false
			}
			for _, rf := range *mm.Referrers() {
				switch u := rf.(type) {
				case *ssa.MapUpdate:
					if _, isC := u.Key.(*ssa.Const); !isC || u.Map != ssa.Value(mm) {
						return nil, false
					}
					out = append(out, mapEntry{u.Key, u.Value})
				case *ssa.Store, *ssa.DebugRef:
				default:
					return nil, false
				}
			}
		}
	}
	if n != 1 || len(out) == 0 {
		return nil, false
	}
	mapEntriesCache[g] = out
	return out, true
}

// globalSliceElems: the elements of a package-level slice variable that is assigned exactly once, by its package
// initialiser, from a literal, and that no module function writes to (neither the variable nor its elements).
func (p *Prog) globalSliceElems(g *ssa.Global) ([]ssa.Value, bool) {
	if g.Pkg == nil {
		return nil, false
	}
	for _, fn := range p.modFns {
		if fn.Name() == "init" && fn.Pkg == g.Pkg {
			continue
		}
		for _, b := range fn.Blocks {
			for _, in := range b.Instrs {
				if st, ok := in.(*ssa.Store); ok && rootOfAddr(st.Addr) == ssa.Value(g) {
					return nil, false
				}
			}
		}
	}
	init := g.Pkg.Func("init")
	if init == nil {
		return nil, false
	}
	var out []ssa.Value
	n := 0
	for _, b := range init.Blocks {
		for _, in := range b.Instrs {
			st, ok := in.(*ssa.Store)
			if !ok || st.Addr != ssa.Value(g) {
				continue
			}
			n++
			sl, ok := st.Val.(*ssa.Slice)
			if !ok {
				return nil, false
			}
			al, ok := sl.X.(*ssa.Alloc)
			if !ok {
				return nil, false
			}
			out = append(out, arrayLiteralElems(al)...)
		}
	}
	return out, n == 1 && len(out) > 0
}

// NonNil gives the formula "v != nil" for an error/pointer/interface valued v.
func (fc *FuncCtx) NonNil(v ssa.Value) *bddNode {
	if r, ok := fc.nnMemo[v]; ok {
		return r
	}
	if fc.busy[v] {
		return fc.A.B.Not(fc.isnilAtom(v))
	}
	fc.busy[v] = true
	r := fc.nonNil0(v)
	delete(fc.busy, v)
	fc.nnMemo[v] = r
	return r
}

func (fc *FuncCtx) isnilAtom(v ssa.Value) *bddNode {
	ap := fc.AP(v)
	return fc.A.atom("isnil("+ap+")", "isnil", fc, instrOf(v), []ssa.Value{v}, ap)
}

var nonNilReturning = map[string]bool{
	"fmt.Errorf": true, "errors.New": true,
}

func (fc *FuncCtx) nonNil0(v ssa.Value) *bddNode {
	B := fc.A.B
	if ld, isLoad := v.(*ssa.UnOp); isLoad {
		// a field of a result struct kept in a local
		if call, idx, ok := callComponent(ld); ok && idx < 0 {
			if sc := call.Call.StaticCallee(); sc != nil && len(sc.Blocks) > 0 {
				okAll := true
				for _, rt := range returnsOf(sc) {
					if len(retAlts(rt, idx)) == 0 {
						okAll = false
					}
				}
				if okAll {
					if f, ok := fc.inlineResult(call, sc, idx); ok {
						return f
					}
				}
			}
		}
	}
	switch x := v.(type) {
	case *ssa.Const:
		if x.Value == nil {
			return B.False
		}
		return B.True
	case *ssa.Alloc, *ssa.MakeClosure, *ssa.MakeMap, *ssa.MakeSlice, *ssa.MakeChan, *ssa.Function, *ssa.FieldAddr, *ssa.IndexAddr, *ssa.Global:
		return B.True
	case *ssa.Parameter:
		if av := fc.argVal[x]; av != nil && fc.parent != nil {
			return fc.parent.NonNil(av)
		}
	case *ssa.MakeInterface:
		// an interface made from a concrete value is never the nil interface (even from a nil pointer)
		return B.True
	case *ssa.ChangeInterface:
		return fc.NonNil(x.X)
	case *ssa.ChangeType:
		return fc.NonNil(x.X)
	case *ssa.Phi:
		if f, ok := fc.gated(x, fc.NonNil); ok {
			return f
		}
	case *ssa.UnOp:
		if x.Op == token.MUL {
			if g, ok := x.X.(*ssa.Global); ok && fc.A.globalNonNil(g) {
				return B.True
			}
			if al, ok := x.X.(*ssa.Alloc); ok {
				if sv := fc.singleStore(al, x); sv != nil {
					return fc.NonNil(sv)
				}
				if sv := lastStoreInBlock(al, x); sv != nil {
					return fc.NonNil(sv)
				}
				if sv := capturedSingleStore(al); sv != nil {
					if st := storeOf(al); st != nil && (st.Block() == x.Block() || st.Block().Dominates(x.Block())) {
						return fc.NonNil(sv)
					}
				}
			}
			if fv, ok := x.X.(*ssa.FreeVar); ok {
				if sv := capturedValue(x); sv != ssa.Value(x) && fv.Parent().Parent() != nil {
					if fc.parent != nil && fc.parent.Fn == fv.Parent().Parent() {
						return fc.parent.NonNil(sv)
					}
					return fc.A.Ctx(fv.Parent().Parent()).NonNil(sv)
				}
			}
			// an error kept in a field of a local object until it is tested (retErr.PrivateErr = ... in the branches of a
			// chain; if retErr.PrivateErr != nil { return nil, retErr }): the field starts out nil, every assignment gives
			// it a non-nil value, so it is non-nil exactly when one of the assignments executed
			if f, ok := fc.fieldSetSomewhere(x); ok {
				return f
			}
		}
	case *ssa.Call:
		if sc := x.Call.StaticCallee(); sc != nil {
			if nonNilReturning[sc.String()] {
				return B.True
			}
			if x.Call.Signature().Results().Len() == 1 {
				if f, ok := fc.inlineResult(x, sc, 0); ok {
					return f
				}
			}
		}
	case *ssa.Extract, *ssa.Field:
		if call, idx, ok := callComponent(x.(ssa.Value)); ok {
			if sc := call.Call.StaticCallee(); sc != nil {
				if idx < 0 {
					// a field of a result struct: only when every return's field can be told
					sub0 := sc
					okAll := len(sub0.Blocks) > 0
					for _, rt := range returnsOf(sub0) {
						if len(retAlts(rt, idx)) == 0 {
							okAll = false
						}
					}
					if !okAll {
						break
					}
				}
				if f, ok := fc.inlineResult(call, sc, idx); ok {
					return f
				}
			}
		}
	}
	return B.Not(fc.isnilAtom(v))
}

// globalNonNil: package-level variable assigned exactly once (in the package initialiser) from
// errors.New / fmt.Errorf and never stored to elsewhere in the module.
func (a *Analysis) globalNonNil(g *ssa.Global) bool {
	if a.nonNilG == nil {
		a.nonNilG = map[*ssa.Global]bool{}
		stores := map[*ssa.Global]int{}
		good := map[*ssa.Global]bool{}
		for fn := range a.P.allFns {
			for _, b := range fn.Blocks {
				for _, in := range b.Instrs {
					st, ok := in.(*ssa.Store)
					if !ok {
						continue
					}
					gg, ok := st.Addr.(*ssa.Global)
					if !ok {
						continue
					}
					stores[gg]++
					val := st.Val
					if mi, ok := val.(*ssa.MakeInterface); ok {
						if !nillable(mi.X.Type()) {
							good[gg] = true
							continue
						}
						val = mi.X
					}
					if c, ok := val.(*ssa.Call); ok {
						if sc := c.Call.StaticCallee(); sc != nil && nonNilReturning[sc.String()] && fn.Name() == "init" {
							good[gg] = true
						}
					}
				}
			}
		}
		for gg, n := range stores {
			if n == 1 && good[gg] {
				a.nonNilG[gg] = true
			}
		}
	}
	return a.nonNilG[g]
}

// existsElemFunc: "some element of xs satisfies pred", pred a function literal (or named function) of one parameter.
func (fc *FuncCtx) existsElemFunc(xs, pred ssa.Value, site *ssa.Call) (*bddNode, bool) {
	return fc.elemFuncFormula(xs, pred, site, true)
}

func (fc *FuncCtx) elemFuncFormula(xs, pred ssa.Value, site *ssa.Call, wrap bool) (*bddNode, bool) {
	if fc.depth >= fc.A.MaxDepth+1 {
		return nil, false
	}
	var cf *ssa.Function
	var mc *ssa.MakeClosure
	switch y := pred.(type) {
	case *ssa.MakeClosure:
		mc = y
		cf, _ = y.Fn.(*ssa.Function)
	case *ssa.Function:
		cf = y
	}
	if cf == nil || len(cf.Blocks) == 0 || len(cf.Params) != 1 {
		return nil, false
	}
	env := map[ssa.Value]string{cf.Params[0]: fc.AP(xs) + "[*]"}
	for i, fv := range cf.FreeVars {
		if mc != nil && i < len(mc.Bindings) {
			env[fv] = fc.AP(mc.Bindings[i])
		}
	}
	pfx := fc.prefix
	if pfx == "" {
		pfx = fc.A.P.FnName(fc.Fn) + "/"
	}
	sub := fc.A.ctxWith(cf, env, fmt.Sprintf("%s%s@%s/", pfx, cf.Name(), site.Name()), fc.depth+1)
	if sub.parent == nil {
		sub.parent, sub.site = fc, site
		sub.argVal = map[ssa.Value]ssa.Value{}
	}
	if !wrap {
		return sub.ResultFormula(0, sub.Formula), true
	}
	return fc.existsAtom(sub.ResultFormula(0, sub.Formula), site), true
}

// foundByIndex: v is the result of slices.Index(xs, x) / slices.IndexFunc(xs, pred): the formula "an element was found"
// (the result is >= 0), which is what slices.Contains / ContainsFunc of the same arguments says.
func (fc *FuncCtx) foundByIndex(v ssa.Value) (*bddNode, bool) {
	if ph, ok := v.(*ssa.Phi); ok && isIntegerType(ph.Type()) {
		// idx := -1; for i := range xs { if C(xs[i]) { idx = i; break } }: "idx >= 0" is "some element satisfies C"
		sawNeg, sawIdx := false, false
		f, ok := fc.indexFound(ph, 0, &sawNeg, &sawIdx)
		if ok && sawNeg && sawIdx {
			return f, true
		}
		return nil, false
	}
	c, ok := v.(*ssa.Call)
	if !ok || len(c.Call.Args) != 2 {
		return nil, false
	}
	sc := c.Call.StaticCallee()
	if sc == nil {
		return nil, false
	}
	switch {
	case strings.HasPrefix(sc.String(), "slices.IndexFunc["):
		// the element at the returned index is the representative element "[*]": it satisfies the predicate itself
		return fc.elemFuncFormula(c.Call.Args[0], c.Call.Args[1], c, false)
	case strings.HasPrefix(sc.String(), "slices.Index["):
		sa, sb := fc.AP(c.Call.Args[0])+"[*]", fc.AP(c.Call.Args[1])
		va, vb := c.Call.Args[0], c.Call.Args[1]
		if sa > sb {
			sa, sb = sb, sa
			va, vb = vb, va
		}
		return fc.A.atom("eq("+sa+","+sb+")", "eq", fc, c, []ssa.Value{va, vb}, sa, sb), true
	}
	return nil, false
}

// indexFound: the formula "v >= 0" for an integer that records the position of a match: the constant -1 (not found), a
// loop index (found at that element), merged by phis; a loop-header phi is the flag idiom over "idx >= 0".
func (fc *FuncCtx) indexFound(v ssa.Value, depth int, sawNeg, sawIdx *bool) (*bddNode, bool) {
	B := fc.A.B
	if depth > 6 {
		return nil, false
	}
	if c, ok := v.(*ssa.Const); ok {
		if isIntConst(c, -1) {
			*sawNeg = true
			return B.False, true
		}
		// a branch that needs no match records a position that is not negative (idx = 0, idx = len(xs))
		if c.Value != nil && c.Value.Kind() == constant.Int && constant.Sign(c.Value) >= 0 {
			return B.True, true
		}
		return nil, false
	}
	if lenArg(v) != nil {
		return B.True, true
	}
	if nonNegInduction(v) {
		*sawIdx = true
		return B.True, true
	}
	ph, ok := v.(*ssa.Phi)
	if !ok {
		return nil, false
	}
	fc.ensureConds()
	if _, isHeader := fc.loops[ph.Block()]; isHeader {
		return fc.flagLoopWith(ph, func(x ssa.Value) (*bddNode, bool) {
			if _, isPhi := x.(*ssa.Phi); isPhi {
				return nil, false
			}
			return fc.indexFound(x, depth+1, sawNeg, sawIdx)
		})
	}
	okAll := true
	f, ok := fc.gated(ph, func(e ssa.Value) *bddNode {
		g, ok := fc.indexFound(e, depth+1, sawNeg, sawIdx)
		if !ok {
			okAll = false
			return B.False
		}
		return g
	})
	if !ok || !okAll {
		return nil, false
	}
	return f, true
}

// nonNegInduction: v counts the iterations of a loop from zero: the index of a range loop (go/ssa: phi(-1, phi+1) + 1) or
// of for i := 0; ...; i++.
func nonNegInduction(v ssa.Value) bool {
	if bo, ok := v.(*ssa.BinOp); ok && bo.Op == token.ADD && isIntConst(bo.Y, 1) {
		if ph, ok := bo.X.(*ssa.Phi); ok {
			for i, e := range ph.Edges {
				if isBackEdge(ph.Block().Preds[i], ph.Block()) {
					if e != ssa.Value(bo) {
						return false
					}
				} else if !isIntConst(e, -1) && !isIntConst(e, 0) {
					return false
				}
			}
			return true
		}
		return false
	}
	if ph, ok := v.(*ssa.Phi); ok {
		back := 0
		for i, e := range ph.Edges {
			if isBackEdge(ph.Block().Preds[i], ph.Block()) {
				back++
				inc, ok := e.(*ssa.BinOp)
				if !ok || inc.Op != token.ADD || inc.X != ssa.Value(ph) || !isIntConst(inc.Y, 1) {
					return false
				}
			} else if !isIntConst(e, 0) {
				return false
			}
		}
		return back > 0
	}
	return false
}

// closureArg: v is a func-typed parameter of a function analysed as part of its caller, and the caller passed a
// function literal: that literal and the context it was written in.
func (fc *FuncCtx) closureArg(v ssa.Value, depth int) (*ssa.Function, *ssa.MakeClosure, *FuncCtx) {
	prm, ok := v.(*ssa.Parameter)
	if !ok || fc.parent == nil || depth > 3 {
		return nil, nil, nil
	}
	av := fc.argVal[prm]
	switch y := av.(type) {
	case *ssa.MakeClosure:
		if cf, ok := y.Fn.(*ssa.Function); ok {
			return cf, y, fc.parent
		}
	case *ssa.Function:
		// a literal that captures nothing (or a named function of the module)
		if fc.A.P.InModule(y) {
			return y, nil, fc.parent
		}
	case *ssa.Parameter:
		return fc.parent.closureArg(y, depth+1)
	}
	return nil, nil, nil
}

// inlineClosure: the context of function literal cf (created by mc in owner's function) called at site in fc with args.
func (fc *FuncCtx) inlineClosure(cf *ssa.Function, mc *ssa.MakeClosure, owner *FuncCtx, args []ssa.Value, site ssa.Instruction) *FuncCtx {
	env := map[ssa.Value]string{}
	for i, p := range cf.Params {
		if i < len(args) {
			env[p] = fc.AP(args[i])
		}
	}
	for i, fv := range cf.FreeVars {
		if mc != nil && i < len(mc.Bindings) {
			env[fv] = owner.AP(mc.Bindings[i])
		}
	}
	pfx := fc.prefix
	if pfx == "" {
		pfx = fc.A.P.FnName(fc.Fn) + "/"
	}
	prefix := fmt.Sprintf("%s%s@%s/", pfx, cf.Name(), site.(ssa.Value).Name())
	sub := fc.A.ctxWith(cf, env, prefix, fc.depth+1)
	if sub.parent == nil {
		sub.parent = fc
		sub.site = site
		sub.argVal = map[ssa.Value]ssa.Value{}
		for i, p := range cf.Params {
			if i < len(args) {
				sub.argVal[p] = args[i]
			}
		}
	}
	return sub
}

func (fc *FuncCtx) inlineCtx(sc *ssa.Function, args []ssa.Value, site ssa.Instruction) *FuncCtx {
	env := map[ssa.Value]string{}
	for i, p := range sc.Params {
		if i < len(args) {
			env[p] = fc.AP(args[i])
		}
	}
	// a function literal invoked where its captured variables are in scope: bind them
	var binds []ssa.Value
	if ci, ok := site.(ssa.CallInstruction); ok {
		if mc, ok := ci.Common().Value.(*ssa.MakeClosure); ok && mc.Fn == ssa.Value(sc) {
			binds = mc.Bindings
			for i, fv := range sc.FreeVars {
				if i < len(binds) {
					env[fv] = fc.AP(binds[i])
				}
			}
		}
	}
	pfx := fc.prefix
	if pfx == "" {
		pfx = fc.A.P.FnName(fc.Fn) + "/"
	}
	prefix := fmt.Sprintf("%s%s@%s/", pfx, sc.Name(), site.(ssa.Value).Name())
	sub := fc.A.ctxWith(sc, env, prefix, fc.depth+1)
	if sub.parent == nil {
		sub.parent = fc
		sub.site = site
		sub.argVal = map[ssa.Value]ssa.Value{}
		for i, p := range sc.Params {
			if i < len(args) {
				sub.argVal[p] = args[i]
			}
		}
	}
	return sub
}

// isLocalClosureCall: the call invokes, directly, a function literal of fn (a local helper such as
// fail := func(err error) (T, error) {...}); such a closure is analysed as part of fn.
func isLocalClosureCall(call *ssa.Call, fn *ssa.Function) bool {
	mc, ok := call.Call.Value.(*ssa.MakeClosure)
	if !ok {
		if f, ok := call.Call.Value.(*ssa.Function); ok {
			return f.Parent() == fn
		}
		return false
	}
	f, ok := mc.Fn.(*ssa.Function)
	return ok && f.Parent() == fn
}

// callResultGated: v is (a component of) the result of a call to a side-effect-free module function with several
// returns: OR over the returns of (condition of the return, in the callee's context bound to the arguments) & f(value).
func (fc *FuncCtx) callResultGated(v ssa.Value, f func(sub *FuncCtx, rv ssa.Value) *bddNode) (*bddNode, bool) {
	idx := 0
	var call *ssa.Call
	switch x := v.(type) {
	case *ssa.Call:
		call = x
	case *ssa.Extract, *ssa.Field, *ssa.UnOp:
		c, i, ok := callComponent(x)
		if !ok {
			return nil, false
		}
		call, idx = c, i
	default:
		return nil, false
	}
	sc, cargs := fc.calleeArgs(call)
	if sc == nil || fc.depth >= fc.A.MaxDepth || len(sc.Blocks) == 0 {
		return nil, false
	}
	// side-effect-free helpers, and helpers the rule's policy analyses as part of the caller (their path conditions speak
	// about call results that are named per call site)
	if !fc.A.isPureModuleFunc(sc) && !(fc.A.Inline != nil && fc.A.Inline(sc)) {
		return nil, false
	}
	sub := fc.inlineCtx(sc, cargs, call)
	B := fc.A.B
	acc := B.False
	n := 0
	for _, ret := range sub.Returns() {
		alts := retAlts(ret, idx)
		if len(alts) == 0 {
			return nil, false
		}
		n++
		for _, alt := range alts {
			acc = B.Or(acc, B.And(B.And(sub.Cond(ret.Block()), sub.altCond(alt)), f(sub, alt.v)))
		}
	}
	return acc, n > 0
}

// inlineResult: formula "result idx of the call is non-nil" through the callee's body, when the
// inlining policy admits the callee (or the callee is a side-effect-free helper).
func (fc *FuncCtx) inlineResult(call *ssa.Call, sc *ssa.Function, idx int) (*bddNode, bool) {
	if fc.depth >= fc.A.MaxDepth || len(sc.Blocks) == 0 {
		return nil, false
	}
	if (fc.A.Inline == nil || !fc.A.Inline(sc)) && !fc.A.isPureModuleFunc(sc) && !isLocalClosureCall(call, fc.Fn) {
		return nil, false
	}
	sub := fc.inlineCtx(sc, call.Call.Args, call)
	return sub.ResultFormula(idx, sub.NonNil), true
}

// singleReturn: the only Return instruction of fn (nil if there are several).
func singleReturn(fn *ssa.Function) *ssa.Return {
	var ret *ssa.Return
	for _, b := range fn.Blocks {
		if len(b.Instrs) == 0 || b == fn.Recover {
			continue
		}
		if r, ok := b.Instrs[len(b.Instrs)-1].(*ssa.Return); ok {
			if ret != nil {
				return nil
			}
			ret = r
		}
	}
	return ret
}

// Returns lists the Return instructions of the function.
func (fc *FuncCtx) Returns() []*ssa.Return {
	var out []*ssa.Return
	for _, b := range fc.Fn.Blocks {
		if len(b.Instrs) == 0 || b == fc.Fn.Recover {
			continue // the recover block only re-returns the spilled results after a recovered panic
		}
		if r, ok := b.Instrs[len(b.Instrs)-1].(*ssa.Return); ok {
			out = append(out, r)
		}
	}
	return out
}

// ResultFormula: OR over returns of cond(return) & f(result idx).
func (fc *FuncCtx) ResultFormula(idx int, f func(ssa.Value) *bddNode) *bddNode {
	B := fc.A.B
	acc := B.False
	for _, r := range fc.Returns() {
		for _, alt := range retAlts(r, idx) {
			acc = B.Or(acc, B.And(B.And(fc.Cond(r.Block()), fc.altCond(alt)), f(alt.v)))
		}
	}
	return acc
}

// retAlt: one alternative of a component of a Return: the value, and (for a field of a result struct that is assigned
// in a branch) the block whose execution selects it (neg: whose non-execution selects it).
type retAlt struct {
	v     ssa.Value
	under *ssa.BasicBlock
	neg   bool
	none  []*ssa.BasicBlock // (with under == nil) the alternative holds when none of these blocks ran
}

// retAlts: component idx of what the Return hands back: result idx of the tuple for idx >= 0; for idx < 0 the field
// -idx-1 of the single struct result (a literal, or a local / named result assigned field by field). A field that is
// never assigned is the zero value; a field assigned once in a branch is that value when the branch ran and the zero
// value otherwise. nil when it cannot be told.
func retAlts(r *ssa.Return, idx int) []retAlt {
	if idx >= 0 {
		if idx >= len(r.Results) {
			return nil
		}
		return []retAlt{{v: r.Results[idx]}}
	}
	if len(r.Results) != 1 {
		return nil
	}
	k := -idx - 1
	ld, ok := r.Results[0].(*ssa.UnOp)
	if !ok || ld.Op != token.MUL {
		return nil
	}
	al, ok := ld.X.(*ssa.Alloc)
	if !ok || al.Referrers() == nil {
		return nil
	}
	st, ok := al.Type().(*types.Pointer).Elem().Underlying().(*types.Struct)
	if !ok || k >= st.NumFields() {
		return nil
	}
	var store *ssa.Store
	var stores []*ssa.Store
	n := 0
	for _, rf := range *al.Referrers() {
		switch u := rf.(type) {
		case *ssa.FieldAddr:
			if u.Field != k {
				continue
			}
			for _, r2 := range *u.Referrers() {
				if s, ok := r2.(*ssa.Store); ok && s.Addr == ssa.Value(u) {
					store = s
					stores = append(stores, s)
					n++
				} else if _, isLoad := r2.(*ssa.UnOp); !isLoad {
					if _, isDbg := r2.(*ssa.DebugRef); !isDbg {
						return nil // address escapes
					}
				}
			}
		case *ssa.Store:
			if u.Addr == ssa.Value(al) {
				// "return check" of a named result stores the variable to itself first: not an assignment
				if sl, ok := u.Val.(*ssa.UnOp); ok && sl.Op == token.MUL && sl.X == ssa.Value(al) {
					continue
				}
				return nil // whole-struct assignment
			}
		}
	}
	zero := zeroConst(st.Field(k).Type())
	switch n {
	case 0:
		if zero == nil {
			return nil
		}
		return []retAlt{{v: zero}}
	case 1:
		if store.Block() == r.Block() || store.Block().Dominates(r.Block()) {
			return []retAlt{{v: store.Val}}
		}
		if zero == nil || blockReaches(store.Block(), store.Block()) {
			return nil
		}
		return []retAlt{{v: store.Val, under: store.Block()}, {v: zero, under: store.Block(), neg: true}}
	}
	// assigned in several branches that exclude each other (res.err = err in two arms): each assignment when its block
	// ran, the zero value when none did. Only when no assignment can follow another and none sits in a loop.
	if zero != nil && n >= 2 {
		var alts []retAlt
		var blocks []*ssa.BasicBlock
		for i, s1 := range stores {
			if blockReaches(s1.Block(), s1.Block()) || !(s1.Block() == r.Block() || blockReaches(s1.Block(), r.Block())) {
				return nil
			}
			for j, s2 := range stores {
				if i != j && (s1.Block() == s2.Block() || blockReaches(s1.Block(), s2.Block())) {
					return nil
				}
			}
			alts = append(alts, retAlt{v: s1.Val, under: s1.Block()})
			blocks = append(blocks, s1.Block())
		}
		return append(alts, retAlt{v: zero, none: blocks})
	}
	return nil
}

// retComponent: the single unconditional value of component idx of the Return (see retAlts); nil otherwise.
func retComponent(r *ssa.Return, idx int) ssa.Value {
	alts := retAlts(r, idx)
	if len(alts) == 1 && alts[0].under == nil {
		return alts[0].v
	}
	return nil
}

// altCond: the condition that selects the alternative, in this context.
func (fc *FuncCtx) altCond(a retAlt) *bddNode {
	if a.under == nil && len(a.none) > 0 {
		c := fc.A.B.True
		for _, b := range a.none {
			c = fc.A.B.And(c, fc.A.B.Not(fc.Cond(b)))
		}
		return c
	}
	if a.under == nil {
		return fc.A.B.True
	}
	c := fc.Cond(a.under)
	if a.neg {
		return fc.A.B.Not(c)
	}
	return c
}

func zeroConst(t types.Type) ssa.Value {
	switch u := t.Underlying().(type) {
	case *types.Basic:
		switch {
		case u.Info()&types.IsString != 0:
			return ssa.NewConst(constant.MakeString(""), t)
		case u.Info()&types.IsBoolean != 0:
			return ssa.NewConst(constant.MakeBool(false), t)
		case u.Info()&types.IsNumeric != 0:
			return ssa.NewConst(constant.MakeInt64(0), t)
		}
	case *types.Pointer, *types.Interface, *types.Slice, *types.Map, *types.Signature, *types.Chan:
		return ssa.NewConst(nil, t)
	}
	return nil
}

// callComponent: v is a component of the result of a call: result #i of a tuple (Extract), or a field of a struct result
// (Field): the call and the component index in the convention of retComponent.
func callComponent(v ssa.Value) (*ssa.Call, int, bool) {
	switch x := v.(type) {
	case *ssa.Extract:
		if c, ok := x.Tuple.(*ssa.Call); ok {
			return c, x.Index, true
		}
	case *ssa.Field:
		if c, ok := x.X.(*ssa.Call); ok {
			if _, isStruct := c.Type().Underlying().(*types.Struct); isStruct {
				return c, -x.Field - 1, true
			}
		}
	case *ssa.UnOp:
		// parsed := helper(); ... parsed.field: a local that holds the result struct (assigned once, as a whole, and only
		// read field by field)
		if x.Op != token.MUL {
			break
		}
		fa, ok := x.X.(*ssa.FieldAddr)
		if !ok {
			break
		}
		al, ok := fa.X.(*ssa.Alloc)
		if !ok || al.Referrers() == nil {
			break
		}
		var call *ssa.Call
		for _, rf := range *al.Referrers() {
			switch u := rf.(type) {
			case *ssa.Store:
				if u.Addr != ssa.Value(al) || call != nil {
					return nil, 0, false
				}
				c, ok := u.Val.(*ssa.Call)
				if !ok {
					return nil, 0, false
				}
				call = c
			case *ssa.FieldAddr:
				for _, r2 := range *u.Referrers() {
					if ld, ok := r2.(*ssa.UnOp); !ok || ld.Op != token.MUL {
						if _, isDbg := r2.(*ssa.DebugRef); !isDbg {
							return nil, 0, false
						}
					}
				}
			case *ssa.DebugRef:
			case *ssa.UnOp:
			default:
				return nil, 0, false
			}
		}
		if call != nil {
			if _, isStruct := call.Type().Underlying().(*types.Struct); isStruct {
				return call, -fa.Field - 1, true
			}
		}
	}
	return nil, 0, false
}

// errIndex is the index of the last result if it is of type error, else -1.
func errIndex(fn *ssa.Function) int {
	res := fn.Signature.Results()
	if res.Len() == 0 {
		return -1
	}
	last := res.At(res.Len() - 1).Type()
	if types.TypeString(last, nil) == "error" {
		return res.Len() - 1
	}
	return -1
}

// RejectFormula: the condition under which the function returns a non-nil error.
func (fc *FuncCtx) RejectFormula() *bddNode {
	i, ok := errComponent(fc.Fn)
	if !ok {
		return fc.A.B.False
	}
	f := fc.ResultFormula(i, fc.NonNil)
	if i < 0 {
		// a result struct handed on from another function of the module (return sp.parseAssertion(...))
		for _, r := range fc.Returns() {
			if sub := fc.forwardedStructCtx(r); sub != nil {
				f = fc.A.B.Or(f, fc.A.B.And(fc.Cond(r.Block()), sub.RejectFormula()))
			}
		}
	}
	return f
}

// forwardedStructCtx: the Return hands back, unchanged, the result struct of a call to a module function: the context of
// that callee bound to the call's arguments.
func (fc *FuncCtx) forwardedStructCtx(r *ssa.Return) *FuncCtx {
	if len(r.Results) != 1 || fc.depth >= fc.A.MaxDepth {
		return nil
	}
	c, ok := r.Results[0].(*ssa.Call)
	if !ok {
		return nil
	}
	sc := c.Call.StaticCallee()
	if sc == nil || len(sc.Blocks) == 0 || !fc.A.P.InModule(sc) || !types.Identical(sc.Signature.Results().At(0).Type(), fc.Fn.Signature.Results().At(0).Type()) {
		return nil
	}
	return fc.inlineCtx(sc, c.Call.Args, c)
}

// errComponent: the component of fn's result that carries its error: the last result if it is of type error, or the
// error-typed field of a single unexported result struct ((value, err) written as a struct); convention of retAlts.
func errComponent(fn *ssa.Function) (int, bool) {
	if i := errIndex(fn); i >= 0 {
		return i, true
	}
	res := fn.Signature.Results()
	if res.Len() != 1 {
		return 0, false
	}
	st := unexportedStruct(res.At(0).Type())
	if st == nil {
		return 0, false
	}
	for k := 0; k < st.NumFields(); k++ {
		if types.TypeString(st.Field(k).Type(), nil) == "error" {
			return -k - 1, true
		}
	}
	return 0, false
}

// NotAcceptFormula: the condition under which the function does not return a nil error (it returns an
// error, or leaves by an explicit panic). For functions without panic exits this equals RejectFormula.
func (fc *FuncCtx) NotAcceptFormula() *bddNode {
	i, ok := errComponent(fc.Fn)
	if !ok {
		return fc.A.B.False
	}
	B := fc.A.B
	succ := B.False
	for _, r := range fc.Returns() {
		for _, alt := range retAlts(r, i) {
			succ = B.Or(succ, B.And(B.And(fc.Cond(r.Block()), fc.altCond(alt)), B.Not(fc.NonNil(alt.v))))
		}
		if i < 0 {
			if sub := fc.forwardedStructCtx(r); sub != nil {
				succ = B.Or(succ, B.And(fc.Cond(r.Block()), B.Not(sub.NotAcceptFormula())))
			}
		}
	}
	return B.Not(succ)
}

// Implied: does reaching block b imply formula f?
func (fc *FuncCtx) Implied(b *ssa.BasicBlock, f *bddNode) bool {
	return fc.A.B.Implies(fc.Cond(b), f)
}

// ---------------------------------------------------------------------------------------------
// flag loops:  flag := I; for range S { if C(e) { flag = true } }   ==>  I | exists e. C(e)

func (fc *FuncCtx) flagLoop(phi *ssa.Phi) (*bddNode, bool) {
	return fc.flagLoopWith(phi, func(v ssa.Value) (*bddNode, bool) {
		if c, ok := v.(*ssa.Const); ok && isBoolType(c.Type()) {
			if c.Value.ExactString() == "true" {
				return fc.A.B.True, true
			}
			return fc.A.B.False, true
		}
		// a value computed in the iteration (found = x == e)
		if isBoolType(v.Type()) {
			if _, isPhi := v.(*ssa.Phi); !isPhi {
				return fc.Formula(v), true
			}
		}
		return nil, false
	})
}

// flagLoopWith: the flag idiom over a loop-header phi, with leaf giving the truth value of the values assigned to the
// flag (constants, values computed in the iteration). The flag may be tested inside the loop (for ...; !found; ...):
// such a test is the variable "self" of one iteration.
func (fc *FuncCtx) flagLoopWith(phi *ssa.Phi, leaf func(ssa.Value) (*bddNode, bool)) (*bddNode, bool) {
	B := fc.A.B
	h := phi.Block()
	fc.ensureConds()
	body, ok := fc.loops[h]
	if !ok {
		return nil, false
	}
	var init ssa.Value
	var latchVals []ssa.Value
	var latchPreds []*ssa.BasicBlock
	for i, e := range phi.Edges {
		p := h.Preds[i]
		if isBackEdge(p, h) {
			latchVals = append(latchVals, e)
			latchPreds = append(latchPreds, p)
		} else {
			if init != nil && init != e {
				return nil, false
			}
			init = e
		}
	}
	if init == nil || len(latchVals) == 0 {
		return nil, false
	}
	// relative conditions inside one iteration
	// a test of the flag inside the loop is rendered (by Formula, which finds the phi busy) as this very atom
	self := "v:" + fc.uniq("cyc", phi)
	wasBusy := fc.busy[phi]
	fc.busy[phi] = true
	rel := fc.relConds(h, body)
	var valF func(v ssa.Value, depth int) (*bddNode, bool)
	valF = func(v ssa.Value, depth int) (*bddNode, bool) {
		if v == phi {
			return B.Var(self), true
		}
		if ph, ok := v.(*ssa.Phi); ok && body[ph.Block()] && ph.Block() != h && depth < 8 {
			if _, nested := fc.loops[ph.Block()]; nested {
				// header phi of a nested loop: its value also depends on the inner iterations; not the
				// simple flag idiom
				return nil, false
			}
			acc := B.False
			for i, e := range ph.Edges {
				p := ph.Block().Preds[i]
				rc, ok := rel[p]
				if !ok {
					continue
				}
				ef, ok := valF(e, depth+1)
				if !ok {
					return nil, false
				}
				acc = B.Or(acc, B.And(B.And(rc, fc.edgeCond(p, ph.Block())), ef))
			}
			return acc, true
		}
		return leaf(v)
	}
	restore := func() {
		if !wasBusy {
			delete(fc.busy, phi)
		}
	}
	set := B.False
	for i, lv := range latchVals {
		f, ok := valF(lv, 0)
		if !ok {
			restore()
			return nil, false
		}
		rc := rel[latchPreds[i]]
		if rc == nil {
			rc = B.True
		}
		// monotone: once set, stays set (vacuously when the loop does not iterate with the flag set)
		if !B.Implies(B.Restrict(rc, self, true), B.Restrict(f, self, true)) {
			restore()
			return nil, false
		}
		set = B.Or(set, B.Restrict(B.And(rc, f), self, false))
	}
	restore()
	fi, ok := leaf(init)
	if !ok {
		if !isBoolType(init.Type()) {
			return nil, false
		}
		fi = fc.Formula(init)
	}
	return B.Or(fi, fc.existsAtom(set, phi)), true
}

// relConds: path conditions relative to the loop header (one iteration, back edges removed).
func (fc *FuncCtx) relConds(h *ssa.BasicBlock, body map[*ssa.BasicBlock]bool) map[*ssa.BasicBlock]*bddNode {
	B := fc.A.B
	rel := map[*ssa.BasicBlock]*bddNode{h: B.True}
	for _, b := range fc.rpo {
		if !body[b] || b == h {
			continue
		}
		acc := B.False
		for _, p := range b.Preds {
			if isBackEdge(p, b) || !body[p] {
				continue
			}
			pc, ok := rel[p]
			if !ok {
				continue
			}
			acc = B.Or(acc, B.And(pc, fc.edgeCond(p, b)))
		}
		rel[b] = acc
	}
	return rel
}

// existsAtom names "for some element, set holds". A single positive literal is named by the
// literal itself (so the flag idiom and the break idiom canonicalise alike).
func (fc *FuncCtx) existsAtom(set *bddNode, at ssa.Value) *bddNode {
	B := fc.A.B
	if set == B.False || set == B.True {
		return set
	}
	cs := B.Cubes(set, 8)
	if len(cs) == 1 && len(cs[0]) == 1 && !strings.HasPrefix(cs[0][0], "!") && strings.Contains(cs[0][0], "[*]") {
		return B.Var(cs[0][0])
	}
	name := "exists{" + fc.A.canon(set) + "}"
	var in ssa.Instruction
	if at != nil {
		in = instrOf(at)
	}
	return fc.A.atom(name, "exists", fc, in, nil, fc.A.canon(set))
}

// canon renders a formula independently of the variable order of the shared diagram.
func (a *Analysis) canon(f *bddNode) string {
	sup := a.B.Support(f)
	nb := NewBDD()
	for _, s := range sup {
		nb.Var(s)
	}
	var conv func(n *bddNode) *bddNode
	memo := map[*bddNode]*bddNode{}
	conv = func(n *bddNode) *bddNode {
		if n == a.B.True {
			return nb.True
		}
		if n == a.B.False {
			return nb.False
		}
		if r, ok := memo[n]; ok {
			return r
		}
		v := nb.Var(a.B.names[n.v])
		r := nb.Or(nb.And(v, conv(n.hi)), nb.And(nb.Not(v), conv(n.lo)))
		memo[n] = r
		return r
	}
	return nb.String(conv(f))
}

// ---------------------------------------------------------------------------------------------
// time terms:  base + sum k_i * tol_i + const

type TimeTerm struct {
	Base   string
	BaseV  ssa.Value
	Coef   map[string]int64 // duration access path -> coefficient
	Const  int64            // nanoseconds
	Opaque bool             // some duration operand could not be normalised
}

func (t *TimeTerm) String() string {
	s := t.Base
	for _, k := range sortedKeys(t.Coef) {
		if t.Coef[k] != 0 {
			s += fmt.Sprintf("%+d*%s", t.Coef[k], k)
		}
	}
	if t.Const != 0 {
		s += fmt.Sprintf("%+dns", t.Const)
	}
	if t.Opaque {
		s += "+?"
	}
	return s
}

func (fc *FuncCtx) TimeTermOf(v ssa.Value) *TimeTerm {
	t := &TimeTerm{Coef: map[string]int64{}}
	cur := v
	for depth := 0; depth < 16; depth++ {
		switch x := cur.(type) {
		case *ssa.Call:
			if sc := x.Call.StaticCallee(); sc != nil && sc.String() == "(time.Time).Add" && len(x.Call.Args) == 2 {
				fc.addDuration(t, x.Call.Args[1], 1)
				cur = x.Call.Args[0]
				continue
			}
			if sc := x.Call.StaticCallee(); sc != nil && (sc.String() == "(time.Time).UTC" || sc.String() == "(time.Time).Local") {
				cur = x.Call.Args[0]
				continue
			}
			// a side-effect-free module helper that computes an instant (deadline(t) = t.Add(Tolerance)): its
			// result is the helper's term with the parameters bound to the arguments
			if sc := x.Call.StaticCallee(); sc != nil && fc.depth < fc.A.MaxDepth && fc.A.isPureModuleFunc(sc) {
				if ret := singleReturn(sc); ret != nil && len(ret.Results) == 1 {
					sub := fc.inlineCtx(sc, x.Call.Args, x)
					tt := sub.TimeTermOf(ret.Results[0])
					for k, v := range tt.Coef {
						t.Coef[k] += v
					}
					t.Const += tt.Const
					t.Opaque = t.Opaque || tt.Opaque
					if prm, ok := tt.BaseV.(*ssa.Parameter); ok {
						found := false
						for i, q := range sc.Params {
							if q == prm && i < len(x.Call.Args) {
								cur = x.Call.Args[i]
								found = true
							}
						}
						if found {
							continue
						}
					}
					t.Base = tt.Base
					t.BaseV = tt.BaseV
					return t
				}
			}
		case *ssa.ChangeType:
			cur = x.X
			continue
		case *ssa.Convert:
			cur = x.X
			continue
		case *ssa.UnOp:
			if x.Op != token.MUL {
				break
			}
			// a local (or a field of a local struct) that is assigned once: the assigned instant
			if sv := fieldSingleStore(x); sv != nil {
				cur = sv
				continue
			}
			if al, ok := x.X.(*ssa.Alloc); ok {
				if sv := fc.singleStore(al, x); sv != nil {
					cur = sv
					continue
				}
				// a local filled in by a helper through a pointer parameter (deadline(t, &d)): the helper's term with
				// its parameters bound to the arguments
				if call, sc, sv := outParamStore(al); call != nil && fc.depth < fc.A.MaxDepth && fc.A.isPureOutParamFunc(sc) {
					sub := fc.inlineCtx(sc, call.Call.Args, call)
					tt := sub.TimeTermOf(sv)
					for k, v := range tt.Coef {
						t.Coef[k] += v
					}
					t.Const += tt.Const
					t.Opaque = t.Opaque || tt.Opaque
					if prm, ok := tt.BaseV.(*ssa.Parameter); ok {
						found := false
						for i, q := range sc.Params {
							if q == prm && i < len(call.Call.Args) {
								cur = call.Call.Args[i]
								found = true
							}
						}
						if found {
							continue
						}
					}
					t.Base = tt.Base
					t.BaseV = tt.BaseV
					return t
				}
			}
		}
		break
	}
	t.Base = fc.AP(cur)
	t.BaseV = cur
	return t
}

// fieldSingleStore: ld reads field k of a local struct that is only accessed field by field and whose field k is stored
// exactly once, in a block that dominates the read: the stored value. nil otherwise.
func fieldSingleStore(ld *ssa.UnOp) ssa.Value {
	v, st := fieldOnlyStore(ld)
	if v != nil && st != nil {
		if st.Block() == ld.Block() && instrIndex(st) < instrIndex(ld) || st.Block() != ld.Block() && st.Block().Dominates(ld.Block()) {
			return v
		}
		return nil
	}
	// several assignments of the field: the one that definitely reaches the load (it dominates the load, and no other
	// assignment can execute between it and the load)
	if st := reachingFieldStore(ld); st != nil {
		return st.Val
	}
	return nil
}

// reachingFieldStore: among the stores to the field of a non-escaping local struct, the one whose value the load ld
// certainly reads: it precedes and dominates ld, and every other store to the field either cannot execute before ld
// (its block is not an ancestor of ld's block in the loop-free control flow, or it follows ld in ld's block) or executes
// before that store (it dominates it). Blocks inside loops are not handled.
func reachingFieldStore(ld *ssa.UnOp) *ssa.Store {
	sts := localFieldStores(ld)
	if len(sts) < 2 {
		return nil
	}
	before := func(a, b ssa.Instruction) bool { // a certainly executes before b whenever b executes
		if a.Block() == b.Block() {
			return instrIndex(a) < instrIndex(b)
		}
		return a.Block().Dominates(b.Block())
	}
	canPrecede := func(a, b ssa.Instruction) bool { // a may execute before b on some path
		if a.Block() == b.Block() {
			return instrIndex(a) < instrIndex(b)
		}
		seen := map[*ssa.BasicBlock]bool{}
		var walk func(x *ssa.BasicBlock) bool
		walk = func(x *ssa.BasicBlock) bool {
			if x == b.Block() {
				return true
			}
			if seen[x] {
				return false
			}
			seen[x] = true
			for _, s := range x.Succs {
				if walk(s) {
					return true
				}
			}
			return false
		}
		return walk(a.Block())
	}
	onCycle := func(b *ssa.BasicBlock) bool {
		seen := map[*ssa.BasicBlock]bool{}
		var walk func(x *ssa.BasicBlock) bool
		walk = func(x *ssa.BasicBlock) bool {
			for _, s := range x.Succs {
				if s == b {
					return true
				}
				if !seen[s] {
					seen[s] = true
					if walk(s) {
						return true
					}
				}
			}
			return false
		}
		return walk(b)
	}
	if onCycle(ld.Block()) {
		return nil // loops: not handled
	}
	for _, st := range sts {
		if onCycle(st.Block()) {
			return nil
		}
	}
	var best *ssa.Store
	for _, st := range sts {
		if !before(st, ld) {
			continue
		}
		ok := true
		for _, o := range sts {
			if o == st {
				continue
			}
			if !canPrecede(o, ld) || before(o, st) {
				continue
			}
			ok = false
		}
		if ok {
			if best != nil {
				return nil
			}
			best = st
		}
	}
	return best
}

// fieldOnlyStore: the field read by ld belongs to a local struct whose address does not escape and which is never assigned
// as a whole, and the field has exactly one store in the function (wherever it is): the stored value and the store.
func fieldOnlyStore(ld *ssa.UnOp) (ssa.Value, *ssa.Store) {
	fa, ok := ld.X.(*ssa.FieldAddr)
	if !ok {
		return nil, nil
	}
	al, ok := fa.X.(*ssa.Alloc)
	if !ok || al.Referrers() == nil {
		return nil, nil
	}
	if v, whole := fieldOfWholeAssignment(al, fa.Field, ld); v != nil {
		return v, whole
	}
	var val ssa.Value
	var only *ssa.Store
	n := 0
	for _, rf := range *al.Referrers() {
		switch u := rf.(type) {
		case *ssa.FieldAddr:
			for _, r2 := range *u.Referrers() {
				switch w := r2.(type) {
				case *ssa.Store:
					if w.Addr != ssa.Value(u) {
						return nil, nil // the field's address is stored somewhere
					}
					if u.Field == fa.Field {
						val, only = w.Val, w
						n++
					}
				case *ssa.UnOp, *ssa.DebugRef:
				default:
					if u.Field == fa.Field {
						return nil, nil // address of the field escapes (method call with pointer receiver, argument)
					}
				}
			}
		case *ssa.DebugRef:
		case *ssa.Store:
			if u.Addr == ssa.Value(al) {
				// "return check" of a named result stores the variable to itself first: not an assignment
				if sl, ok := u.Val.(*ssa.UnOp); ok && sl.Op == token.MUL && sl.X == ssa.Value(al) {
					continue
				}
				return nil, nil // assigned as a whole
			}
			return nil, nil // the address of the local is stored
		case *ssa.UnOp:
			// whole-struct read (passing it on by value): does not change it
		default:
			return nil, nil
		}
	}
	if n == 1 {
		return val, only
	}
	return nil, nil
}

// localFieldStores: every store to the field read by ld, when it is a field of a local struct that is only accessed field
// by field in its function (no whole assignment, no address passed on): the values the field can hold at the load are
// among the stored ones (or the zero value, when no store dominates the load).
func localFieldStores(ld *ssa.UnOp) []*ssa.Store {
	fa, ok := ld.X.(*ssa.FieldAddr)
	if !ok {
		return nil
	}
	al, ok := fa.X.(*ssa.Alloc)
	if !ok || al.Referrers() == nil {
		return nil
	}
	var out []*ssa.Store
	for _, rf := range *al.Referrers() {
		switch u := rf.(type) {
		case *ssa.FieldAddr:
			for _, r2 := range *u.Referrers() {
				switch w := r2.(type) {
				case *ssa.Store:
					if w.Addr != ssa.Value(u) {
						return nil
					}
					if u.Field == fa.Field {
						out = append(out, w)
					}
				case *ssa.UnOp, *ssa.DebugRef:
				default:
					if u.Field == fa.Field {
						return nil
					}
				}
			}
		case *ssa.UnOp, *ssa.DebugRef:
		default:
			return nil
		}
	}
	return out
}

// fieldOfWholeAssignment: the local struct al is assigned exactly once, as a whole, from a composite literal
// (x = T{f: v, ...}), by a store that dominates the load, and is otherwise only read field by field or as a whole: the
// value the literal gives the field. (A field the literal does not mention is its zero value: not resolved here.)
func fieldOfWholeAssignment(al *ssa.Alloc, field int, ld *ssa.UnOp) (ssa.Value, *ssa.Store) {
	var whole *ssa.Store
	for _, rf := range *al.Referrers() {
		switch u := rf.(type) {
		case *ssa.Store:
			if u.Addr != ssa.Value(al) || whole != nil {
				return nil, nil
			}
			whole = u
		case *ssa.FieldAddr:
			for _, r2 := range *u.Referrers() {
				switch r2.(type) {
				case *ssa.UnOp, *ssa.DebugRef:
				default:
					return nil, nil // a field is written separately, or its address is used
				}
			}
		case *ssa.UnOp, *ssa.DebugRef:
		default:
			return nil, nil
		}
	}
	if whole == nil {
		return nil, nil
	}
	src, ok := whole.Val.(*ssa.UnOp)
	if !ok || src.Op != token.MUL {
		return nil, nil
	}
	lit, ok := src.X.(*ssa.Alloc)
	if !ok || lit.Comment != "complit" || lit.Referrers() == nil {
		return nil, nil
	}
	var val ssa.Value
	for _, rf := range *lit.Referrers() {
		switch u := rf.(type) {
		case *ssa.FieldAddr:
			for _, r2 := range *u.Referrers() {
				st, ok := r2.(*ssa.Store)
				if !ok || st.Addr != ssa.Value(u) {
					return nil, nil
				}
				if u.Field == field {
					if val != nil {
						return nil, nil
					}
					val = st.Val
				}
			}
		case *ssa.UnOp:
			if u != src {
				return nil, nil
			}
		case *ssa.DebugRef:
		default:
			return nil, nil
		}
	}
	return val, whole
}

func instrIndex(in ssa.Instruction) int {
	for i, x := range in.Block().Instrs {
		if x == in {
			return i
		}
	}
	return -1
}

// outParamStore: the local al is written only by one call of a module function that receives its address and stores into
// it exactly once, unconditionally (func deadline(t time.Time, out *time.Time) { *out = ... }): that call, the callee and
// the value it stores.
func outParamStore(al *ssa.Alloc) (*ssa.Call, *ssa.Function, ssa.Value) {
	if al.Referrers() == nil {
		return nil, nil, nil
	}
	var call *ssa.Call
	argIdx := -1
	for _, rf := range *al.Referrers() {
		switch u := rf.(type) {
		case *ssa.Call:
			if call != nil {
				return nil, nil, nil
			}
			for i, a := range u.Call.Args {
				if a == ssa.Value(al) {
					argIdx = i
				}
			}
			call = u
		case *ssa.UnOp, *ssa.DebugRef:
		case *ssa.Store:
			// the zero-value initialisation of the local (var d T) is a store of a zero constant
			if u.Addr != ssa.Value(al) {
				return nil, nil, nil
			}
			if c, ok := u.Val.(*ssa.Const); !ok || !(c.Value == nil) {
				if _, isZero := u.Val.(*ssa.Const); !isZero {
					return nil, nil, nil
				}
			}
		case *ssa.FieldAddr:
			// methods on the value (d.Before(now)) read it through field addresses in inlined form; reads only
			for _, r2 := range *u.Referrers() {
				if _, isLoad := r2.(*ssa.UnOp); !isLoad {
					return nil, nil, nil
				}
			}
		default:
			return nil, nil, nil
		}
	}
	if call == nil || argIdx < 0 {
		return nil, nil, nil
	}
	sc := call.Call.StaticCallee()
	if sc == nil || len(sc.Blocks) == 0 || argIdx >= len(sc.Params) {
		return nil, nil, nil
	}
	prm := sc.Params[argIdx]
	var val ssa.Value
	n := 0
	for _, rf := range *prm.Referrers() {
		switch u := rf.(type) {
		case *ssa.Store:
			if u.Addr != ssa.Value(prm) {
				return nil, nil, nil
			}
			// unconditional: the store's block dominates every return
			for _, rt := range returnsOf(sc) {
				if !(u.Block() == rt.Block() || u.Block().Dominates(rt.Block())) {
					return nil, nil, nil
				}
			}
			val = u.Val
			n++
		case *ssa.DebugRef:
		default:
			return nil, nil, nil
		}
	}
	if n != 1 {
		return nil, nil, nil
	}
	return call, sc, val
}

// isPureOutParamFunc: like isPureModuleFunc, but the function may store through its pointer parameters (out-parameters).
func (a *Analysis) isPureOutParamFunc(fn *ssa.Function) bool {
	if !a.P.InModule(fn) || len(fn.Blocks) == 0 || len(fn.FreeVars) > 0 {
		return false
	}
	for _, b := range fn.Blocks {
		for _, in := range b.Instrs {
			switch x := in.(type) {
			case *ssa.Store:
				if _, isPrm := x.Addr.(*ssa.Parameter); !isPrm && !addrIsLocal(x.Addr) {
					return false
				}
			case *ssa.MapUpdate, *ssa.Send, *ssa.Go, *ssa.Defer, *ssa.Panic, *ssa.RunDefers:
				return false
			case ssa.CallInstruction:
				c := x.Common()
				if bi, ok := c.Value.(*ssa.Builtin); ok {
					if bi.Name() == "len" || bi.Name() == "cap" {
						continue
					}
					return false
				}
				sc := c.StaticCallee()
				if sc == nil {
					return false
				}
				if pureFuncs[sc.String()] || allocOnlyFuncs[sc.String()] {
					continue
				}
				if !a.P.InModule(sc) && sc.Signature.Recv() != nil && pureMethodNames[sc.Name()] && !returnsError(sc.Signature) {
					continue
				}
				if !a.isPureModuleFunc(sc) {
					return false
				}
			}
		}
	}
	return true
}

func (fc *FuncCtx) addDuration(t *TimeTerm, d ssa.Value, k int64) {
	switch x := d.(type) {
	case *ssa.Const:
		if x.Value != nil {
			t.Const += k * x.Int64()
			return
		}
	case *ssa.UnOp:
		if x.Op == token.SUB {
			fc.addDuration(t, x.X, -k)
			return
		}
		if x.Op == token.MUL {
			t.Coef[fc.AP(x)] += k
			return
		}
	case *ssa.BinOp:
		switch x.Op {
		case token.MUL:
			if c, ok := x.X.(*ssa.Const); ok && c.Value != nil {
				fc.addDuration(t, x.Y, k*c.Int64())
				return
			}
			if c, ok := x.Y.(*ssa.Const); ok && c.Value != nil {
				fc.addDuration(t, x.X, k*c.Int64())
				return
			}
		case token.ADD:
			fc.addDuration(t, x.X, k)
			fc.addDuration(t, x.Y, k)
			return
		case token.SUB:
			fc.addDuration(t, x.X, k)
			fc.addDuration(t, x.Y, -k)
			return
		}
	case *ssa.ChangeType:
		fc.addDuration(t, x.X, k)
		return
	case *ssa.Convert:
		fc.addDuration(t, x.X, k)
		return
	case *ssa.Parameter:
		// a duration handed to a helper analysed as part of its caller (fromNow(-1 * MaxClockSkew)): the argument, in
		// the caller's terms
		if av := fc.argVal[x]; av != nil && fc.parent != nil {
			fc.parent.addDuration(t, av, k)
			return
		}
		t.Coef[fc.AP(d)] += k
		return
	case *ssa.Field, *ssa.FieldAddr, *ssa.Phi, *ssa.Call:
		t.Coef[fc.AP(d)] += k
		return
	}
	t.Coef[fc.AP(d)] += k
}

func isIntegerType(t types.Type) bool {
	b, ok := t.Underlying().(*types.Basic)
	return ok && b.Info()&types.IsInteger != 0
}

// nonNegRem: v is len(x) % n (possibly through a single-store local): a remainder that cannot be negative.
func nonNegRem(v ssa.Value) ssa.Value {
	if bo, ok := v.(*ssa.BinOp); ok && bo.Op == token.REM && lenArg(bo.X) != nil {
		return v
	}
	return nil
}

// calleeArgs: the function a call runs and the arguments it receives (receiver first): the static callee, or — for an
// interface method call whose receiver is known to hold one concrete type (a value converted to the interface in this
// function, or an interface parameter of a helper analysed as part of a caller that passes such a value) — that type's
// method.
func (fc *FuncCtx) calleeArgs(c *ssa.Call) (*ssa.Function, []ssa.Value) {
	if !c.Call.IsInvoke() {
		return c.Call.StaticCallee(), c.Call.Args
	}
	t := fc.concreteTypeOf(c.Call.Value, 0)
	if t == nil {
		return nil, nil
	}
	sel := fc.A.P.SSA.MethodSets.MethodSet(t).Lookup(c.Call.Method.Pkg(), c.Call.Method.Name())
	if sel == nil {
		return nil, nil
	}
	m := fc.A.P.SSA.MethodValue(sel)
	if m == nil || len(m.Blocks) == 0 {
		return nil, nil
	}
	return m, append([]ssa.Value{c.Call.Value}, c.Call.Args...)
}

func (fc *FuncCtx) concreteTypeOf(v ssa.Value, depth int) types.Type {
	if depth > 4 {
		return nil
	}
	switch x := v.(type) {
	case *ssa.MakeInterface:
		return x.X.Type()
	case *ssa.ChangeInterface:
		return fc.concreteTypeOf(x.X, depth+1)
	case *ssa.Parameter:
		if fc.parent != nil {
			if av := fc.argVal[x]; av != nil {
				return fc.parent.concreteTypeOf(av, depth+1)
			}
		}
	case *ssa.Phi:
		var t types.Type
		for _, e := range x.Edges {
			et := fc.concreteTypeOf(e, depth+1)
			if et == nil || (t != nil && !types.Identical(t, et)) {
				return nil
			}
			t = et
		}
		return t
	}
	return nil
}

// isConstLike: a constant, or the value of a package-level variable (a sentinel error): the same value in every context.
func isConstLike(v ssa.Value) bool {
	switch x := v.(type) {
	case *ssa.Const:
		return true
	case *ssa.UnOp:
		if x.Op == token.MUL {
			_, isG := x.X.(*ssa.Global)
			return isG
		}
	}
	return false
}

// constArg: v is a parameter of a callee analysed as part of its caller and the caller passes a constant for it (possibly
// its own parameter bound the same way): that constant.
func (fc *FuncCtx) constArg(v ssa.Value, depth int) *ssa.Const {
	prm, ok := v.(*ssa.Parameter)
	if !ok || fc.parent == nil || depth > 4 {
		return nil
	}
	av := fc.argVal[prm]
	if av == nil {
		return nil
	}
	if c, ok := av.(*ssa.Const); ok {
		return c
	}
	return fc.parent.constArg(av, depth+1)
}

// fieldSetSomewhere: ld reads a nillable field of a local object (a struct the function allocates; its address goes
// nowhere but into the function's own returns) that no literal initialises and that is assigned only values that are
// non-nil where they are assigned, outside loops and before ld: the disjunction of the conditions of the assignments.
func (fc *FuncCtx) fieldSetSomewhere(ld *ssa.UnOp) (*bddNode, bool) {
	B := fc.A.B
	fa, ok := ld.X.(*ssa.FieldAddr)
	if !ok || fc.cond == nil || !nillable(ld.Type()) {
		return nil, false
	}
	al, ok := fa.X.(*ssa.Alloc)
	if !ok || al.Referrers() == nil || fc.inLoop(ld.Block()) {
		return nil, false
	}
	var stores []*ssa.Store
	for _, rf := range *al.Referrers() {
		switch u := rf.(type) {
		case *ssa.FieldAddr:
			for _, r2 := range *u.Referrers() {
				switch w := r2.(type) {
				case *ssa.Store:
					if w.Addr != ssa.Value(u) {
						return nil, false
					}
					if u.Field == fa.Field {
						stores = append(stores, w)
					}
				case *ssa.UnOp, *ssa.DebugRef:
				default:
					if u.Field == fa.Field {
						return nil, false
					}
				}
			}
		case *ssa.MakeInterface:
			for _, r2 := range *u.Referrers() {
				switch r2.(type) {
				case *ssa.Return, *ssa.DebugRef:
				default:
					return nil, false
				}
			}
		case *ssa.Return, *ssa.DebugRef:
		default:
			return nil, false
		}
	}
	acc := B.False
	n := 0
	for _, st := range stores {
		sb := st.Block()
		if sb != ld.Block() && !blockReaches(sb, ld.Block()) {
			continue // an assignment made after the test
		}
		n++
		if sb == al.Block() || fc.inLoop(sb) || sb == ld.Block() || blockReaches(ld.Block(), sb) {
			return nil, false
		}
		c, ok := fc.cond[sb]
		if !ok {
			return nil, false
		}
		if !B.Implies(c, fc.NonNil(st.Val)) {
			return nil, false
		}
		acc = B.Or(acc, c)
	}
	if n < 2 {
		return nil, false
	}
	return acc, true
}
