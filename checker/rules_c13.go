package main

import (
	"fmt"
	"go/types"
	"strings"

	"golang.org/x/tools/go/ssa"
)

func init() {
	registry["C13"] = []func(*Report){ruleC13}
}

func ruleC13(r *Report) {
	p := r.P
	r.Trusted("goxmldsig v1.4.0 (SignEnveloped, SignString, method/key handling)", "crypto/rsa, crypto/ecdsa", "go/ssa of golang.org/x/tools v0.29.0")
	r.NotDecided("that the signatures verify (cryptography; canonical Element() output); correspondence of the configured key and certificate")
	r.Rule("C13.method-key", "GetSigningContext: each RSA method requires an *rsa.PrivateKey, each ECDSA method an *ecdsa.PrivateKey, any other method is an error, SetSignatureMethod's error is an error; the context is made from sp.Key and a chain starting with sp.Certificate", 6)
	r.Rule("C13.always-signed", "when a signature method is configured, every message constructor returns only objects on which its Sign* step succeeded (POST AuthnRequest, LogoutRequest, LogoutResponse, ArtifactResolve), and the redirect URL carries the signature", 2)
	r.Rule("C13.enveloped", "each Sign* stores as Signature the last child of SignEnveloped(X.Element()) under err == nil, and every Element() builder re-embeds the stored Signature", 6)
	r.Rule("C13.signed-octets", "the string given to SignString is emitted unchanged, followed only by &Signature=..., and consists of exactly SAMLRequest=<escaped>[&RelayState=<escaped>]&SigAlg=<escaped>", 1)
	r.Rule("C13.emitted", "every serialisation of a signed message (the outbound message types' methods, the functions that call a Sign* step, and the helpers they hand the tree to) uses the canonical write settings and the attribute '>' escaper, so that the receiver's parser rebuilds the tree whose digest was signed (a CR written raw is normalised away and the enveloped signature no longer verifies)", 4)
	r.Rule("C13.metadata", "SP metadata publishes a use=signing key descriptor built from sp.Certificate whenever a signature method is configured (no other condition), and AuthnRequestsSigned accordingly", 1)

	checkMethodKey(r, p)
	checkAlwaysSigned(r, p)
	checkEnveloped(r, p)
	checkSignedOctets(r, p)
	checkSPMetadataSigning(r, p)
	checkConfigReadOnly(r, p, "C13.method-key", "saml", "ServiceProvider")
	signers := map[*ssa.Function]bool{}
	for _, fn := range p.modFns {
		if p.InLibrary(fn) && len(callsTo(fn, "(*github.com/russellhaering/goxmldsig.SigningContext).SignEnveloped")) > 0 {
			signers[fn] = true
		}
	}
	// what is serialised is the tree Element() built, whole: the emitters of the signed message types (Redirect, Post, Bytes,
	// SoapRequest and the helpers they reach) remove nothing from it — for a logout message the enveloped Signature is
	// the only signature it carries, on every binding
	{
		var roots []*ssa.Function
		for _, fn := range p.modFns {
			if p.InLibrary(fn) && fn.Signature.Recv() != nil && fn.Name() != "Element" && (isMethodOf(fn, "AuthnRequest") || isMethodOf(fn, "LogoutRequest") || isMethodOf(fn, "LogoutResponse") || isMethodOf(fn, "ArtifactResolve")) {
				roots = append(roots, fn)
			}
		}
		strip := ""
		for fn := range p.ReachableModuleOnly("vta", roots...) {
			if !p.InLibrary(fn) {
				continue
			}
			for _, b := range fn.Blocks {
				for _, in := range b.Instrs {
					if c, ok := in.(*ssa.Call); ok && c.Call.StaticCallee() != nil {
						nm := c.Call.StaticCallee().String()
						if strings.HasPrefix(nm, "(*"+etreePath+".Element).Remove") {
							strip = firstNonEmpty(strip, p.FnName(fn)+" calls "+c.Call.StaticCallee().Name()+" at "+p.InstrPos(c))
						}
					}
				}
			}
		}
		r.Check(strip == "", "C13.emitted", "emitters of the signed message types serialise the built tree whole", "-", fmt.Sprintf("no Remove* on the tree in the %d emitter methods and their helpers", len(roots)), "the tree is altered between Element() and serialisation ("+strip+"): a logout message sent through that path loses its enveloped Signature (the redirect binding adds no other), or is emitted with content the signature did not cover")
	}
	safely(r, func() { checkNoCDATA(r, p, "C13.emitted") })
	checkEscape(r, p, "C13.emitted", func(fn *ssa.Function) bool {
		if fn.Signature.Recv() != nil && (isMethodOf(fn, "AuthnRequest") || isMethodOf(fn, "LogoutRequest") || isMethodOf(fn, "LogoutResponse") || isMethodOf(fn, "ArtifactResolve")) {
			return true
		}
		if fn.Pkg == nil || fn.Pkg.Pkg.Path() != modPath {
			return false
		}
		for _, b := range fn.Blocks {
			for _, in := range b.Instrs {
				if c, ok := in.(ssa.CallInstruction); ok && c.Common().StaticCallee() != nil && signers[c.Common().StaticCallee()] {
					return true
				}
			}
		}
		return false
	})
	// the Sign* steps sign the tree Element() renders while Signature is unset; what is emitted is the tree it renders
	// once Signature is set. Apart from the Signature child the two must be the same tree: no attribute or child of a
	// signed message type is emitted under a condition on anything but its own field (the guard obligations of
	// C07.verbatim, run for these types on behalf of this property)
	r.Rule("C13.same-tree", "the Element() builders of AuthnRequest, LogoutRequest, LogoutResponse and ArtifactResolve emit each attribute and child under no condition but the emptiness of its own field, so the tree rendered for signing and the tree rendered for emission differ by the Signature child only (C07.verbatim guard obligations restricted to these types)", 20)
	signedTypes := []string{"AuthnRequest", "LogoutRequest", "LogoutResponse", "ArtifactResolve"}
	oldRemap := r.remap
	r.remap = func(o *Obligation) (string, bool) {
		if !strings.HasPrefix(o.Rule, "C07.") {
			return o.Rule, true
		}
		if o.Rule != "C07.verbatim" || !strings.HasSuffix(o.Construct, ": guard") {
			return "", false
		}
		for _, t := range signedTypes {
			if strings.HasPrefix(o.Construct, t+":") {
				return "C13.same-tree", true
			}
		}
		return "", false
	}
	safely(r, func() { checkBuilders(r, p) })
	r.remap = oldRemap
}

func checkMethodKey(r *Report, p *Prog) {
	rule := "C13.method-key"
	fn := p.MustFunc("saml", "", "GetSigningContext")
	a := NewAnalysis(p)
	// the method/key checks may live in an error-returning helper of the root package
	a.Inline = func(f *ssa.Function) bool {
		return p.InLibrary(f) && f.Pkg != nil && f.Pkg.Pkg.Path() == modPath && errIndex(f) >= 0 && f != fn
	}
	B := a.B
	t := NewTable(r, a, fn)
	rsaM := []string{"rsa-sha1", "rsa-sha256", "rsa-sha384", "rsa-sha512"}
	ecM := []string{"ecdsa-sha1", "ecdsa-sha256", "ecdsa-sha384", "ecdsa-sha512"}
	eqAtom := func(suffix string) string {
		for _, ai := range t.atomsIn() {
			if ai.Kind == "eq" && strings.Contains(ai.Name, "ServiceProvider.SignatureMethod") && strings.HasSuffix(strings.TrimSuffix(strings.Split(ai.Name, `c:"`)[len(strings.Split(ai.Name, `c:"`))-1], `")`), "#"+suffix) {
				return ai.Name
			}
		}
		return ""
	}
	var okRSA, okEC string
	for _, ai := range t.atomsIn() {
		if ai.Kind == "typeis" && strings.HasSuffix(ai.Args[0], "ServiceProvider.Key") {
			if strings.Contains(ai.Args[1], "rsa.PrivateKey") {
				okRSA = ai.Name
			}
			if strings.Contains(ai.Args[1], "ecdsa.PrivateKey") {
				okEC = ai.Name
			}
		}
	}
	t.Know(okRSA, okEC)
	none := B.True
	for _, grp := range []struct {
		ms   []string
		ok   string
		kind string
	}{{rsaM, okRSA, "*rsa.PrivateKey"}, {ecM, okEC, "*ecdsa.PrivateKey"}} {
		for _, m := range grp.ms {
			ea := eqAtom(m)
			what := fmt.Sprintf("method %s with a key that is not %s", m, grp.kind)
			if ea == "" {
				t.Row(rule, what, B.True, "SignatureMethod == "+m)
				continue
			}
			t.Know(ea)
			none = B.And(none, B.Not(t.V(ea)))
			if grp.ok == "" {
				t.Row(rule, what, B.True, "comma-ok assertion of sp.Key to "+grp.kind)
				continue
			}
			// the other method comparisons are false when this one is true (same string compared with distinct constants)
			when := B.And(t.V(ea), B.Not(t.V(grp.ok)))
			for _, o := range append(append([]string{}, rsaM...), ecM...) {
				if o != m {
					if oa := eqAtom(o); oa != "" {
						when = B.And(when, B.Not(t.V(oa)))
					}
				}
			}
			t.Row(rule, what, when)
		}
	}
	t.Row(rule, "a signature method that is none of the eight supported ones", none)
	var setNil string
	for _, ai := range t.atomsIn() {
		if ai.Kind == "isnil" && strings.Contains(ai.Name, "SetSignatureMethod#") {
			setNil = ai.Name
		}
	}
	if setNil == "" {
		t.Row(rule, "SetSignatureMethod fails", B.True, "error of SetSignatureMethod")
	} else {
		t.Row(rule, "SetSignatureMethod fails", B.Not(t.V(setNil)))
	}
	// key and chain: read over the function and the helpers it is split into (the construction may be handed the SP's key
	// and certificate in a parameter object)
	fc := t.FC
	rgK := NewRegion(p, fn, 2)
	okKey := false
	for _, x := range rgK.Calls(dsigPath + ".NewSigningContext") {
		c := x.I.(*ssa.Call)
		if strings.HasSuffix(rgK.Ctx(t.A, x.C).AP(c.Call.Args[0]), "ServiceProvider.Key") {
			okKey = true
		}
	}
	r.Check(okKey, rule, t.name+": context built from sp.Key", p.Pos(fn.Pos()), "NewSigningContext(sp.Key, chain)", "the signing context is not built from the SP's configured key")
	okChain := false
	chainWhy := "the certificate chain does not start with the SP's certificate (the one published in metadata)"
	rgK.Each(func(x RI) {
		if st, ok := x.I.(*ssa.Store); ok {
			if ia, ok := st.Addr.(*ssa.IndexAddr); ok {
				if k, ok := constInt(ia.Index); ok && k == 0 && strings.HasSuffix(rgK.Ctx(t.A, x.C).AP(st.Val), "ServiceProvider.Certificate.Raw") {
					okChain = true
					if why := headOverwritten(p, ia.X, st); why != "" {
						okChain = false
						chainWhy = why
					}
				}
			}
		}
	})
	r.Check(okChain, rule, t.name+": chain starts with sp.Certificate", p.Pos(fn.Pos()), "chain[0] = sp.Certificate.Raw", chainWhy)
	nSet := 0
	for _, x := range rgK.Calls("(*" + dsigPath + ".SigningContext).SetSignatureMethod") {
		c := x.I.(*ssa.Call)
		nSet++
		ap := rgK.Ctx(t.A, x.C).AP(c.Call.Args[1])
		r.Check(strings.HasSuffix(ap, "ServiceProvider.SignatureMethod"), rule, t.name+": configured method handed to the context", p.InstrPos(c), ap, "SetSignatureMethod receives "+ap)
	}
	_ = fc
	_ = nSet
}

type ctor struct {
	name    string
	objType string
	signFn  string
	extra   string // additional condition description
}

func checkAlwaysSigned(r *Report, p *Prog) {
	rule := "C13.always-signed"
	for _, ct := range []ctor{
		{"MakeAuthenticationRequest", "AuthnRequest", "SignAuthnRequest", "post"},
		{"MakeLogoutRequest", "LogoutRequest", "SignLogoutRequest", ""},
		{"MakeLogoutResponse", "LogoutResponse", "SignLogoutResponse", ""},
		{"MakeArtifactResolveRequest", "ArtifactResolve", "SignArtifactResolve", ""},
	} {
		fn := p.MustFunc("saml", "ServiceProvider", ct.name)
		// a constructor that only dispatches on its binding argument to one unexported constructor per binding: the rule is
		// read from the one that serves the binding that carries an enveloped signature (all of them when the rule does
		// not depend on the binding)
		if len(callsToNamed(fn, ct.signFn)) == 0 {
			if h := dispatchedCtor(p, fn, ct.signFn, ct.extra == "post"); h != nil {
				fn = h
				ct.extra = ""
			}
		}
		a := NewAnalysis(p)
		B := a.B
		fc := a.Ctx(fn)
		fc.ensureConds()
		r.Fn(p.FnName(fn))
		accept := B.Not(fc.NotAcceptFormula())
		var methodEmpty string
		for name, ai := range a.Atoms {
			if ai.Kind == "empty" && strings.HasSuffix(ai.Args[0], "ServiceProvider.SignatureMethod") {
				methodEmpty = name
			}
		}
		var sign *ssa.Call
		for _, b := range fn.Blocks {
			for _, in := range b.Instrs {
				if c, ok := in.(*ssa.Call); ok && c.Call.StaticCallee() != nil && c.Call.StaticCallee().Name() == ct.signFn {
					sign = c
				}
			}
		}
		cons := fmt.Sprintf("%s: signed whenever a signature method is configured", p.FnName(fn))
		if sign == nil || methodEmpty == "" {
			r.Bad(rule, cons, p.Pos(fn.Pos()), "the constructor does not call "+ct.signFn+" under SignatureMethod != \"\"")
			continue
		}
		pre := B.And(accept, B.Not(B.Var(methodEmpty)))
		if ct.extra == "post" {
			// only the POST binding carries an enveloped signature; the redirect binding signs the URL
			for name, ai := range a.Atoms {
				if ai.Kind == "eq" && strings.Contains(name, "HTTP-POST") && ai.Fn == fn {
					pre = B.And(pre, B.Var(name))
				}
			}
		}
		nm := "isnil(" + fc.AP(sign) + ")"
		// the object signed is the object returned
		same := false
		for _, ret := range fc.Returns() {
			if !isNilConst(Resolve(ret.Results[1])) {
				continue
			}
			if Resolve(ret.Results[0]) == sign.Call.Args[1] {
				same = true
			}
		}
		ok := B.HasVar(nm) && B.Implies(pre, B.Var(nm)) && same
		why := "a message is returned without its Sign step having succeeded although signing is configured"
		if !same {
			why = "the object that is signed is not the object that is returned"
		}
		r.Check(ok, rule, cons, p.InstrPos(sign), "accept && method configured => "+ct.signFn+" == nil on the returned object", why)
		// the signed object is not written again after the Sign step: the enveloped signature covers the element as it
		// was when it was signed, and the builders re-embed that signature into whatever the fields say later
		msg := sign.Call.Args[1]
		var late []string
		for _, b := range fn.Blocks {
			for _, in := range b.Instrs {
				st, ok := in.(*ssa.Store)
				if !ok {
					continue
				}
				if rootOfAddr(st.Addr) != msg && st.Addr != msg {
					continue
				}
				after := false
				if in.Block() == sign.Block() {
					after = instrBefore(sign.Block(), sign, in)
				} else {
					after = blockReaches(sign.Block(), in.Block())
				}
				if after {
					late = append(late, fmt.Sprintf("%s at %s", fc.AP(st.Addr), p.InstrPos(in)))
				}
			}
		}
		// ... nor handed, after the Sign step, to a function of the module that writes through the pointer it is given
		for _, b := range fn.Blocks {
			for _, in := range b.Instrs {
				c, ok := in.(*ssa.Call)
				if !ok || c == sign {
					continue
				}
				sc := c.Call.StaticCallee()
				if sc == nil || !p.InModule(sc) || len(sc.Blocks) == 0 {
					continue
				}
				after := false
				if in.Block() == sign.Block() {
					after = instrBefore(sign.Block(), sign, in)
				} else {
					after = blockReaches(sign.Block(), in.Block())
				}
				if !after {
					continue
				}
				for i, arg := range c.Call.Args {
					if (arg == msg || rootOfAddr(arg) == msg) && i < len(sc.Params) && storesThrough(p, sc, sc.Params[i], 0) {
						late = append(late, fmt.Sprintf("through %s at %s", shortFn(sc), p.InstrPos(in)))
					}
				}
			}
		}
		r.Check(len(late) == 0, "C13.enveloped", fmt.Sprintf("%s: the message is not modified after it was signed", p.FnName(fn)), p.InstrPos(sign), "no store to the message after "+ct.signFn, "written after signing: "+strings.Join(late, "; ")+" - the emitted element differs from the one the signature was computed over, so the signature cannot verify")
	}
	// redirect binding
	fn := p.MustFunc("saml", "AuthnRequest", "Redirect")
	a := NewAnalysis(p)
	// the signing of the query may sit in an unexported helper of the package: part of the builder
	a.Inline = func(f *ssa.Function) bool {
		return f.Pkg == fn.Pkg && f != fn && p.InLibrary(f) && (f.Object() == nil || !f.Object().Exported()) && (errIndex(f) >= 0 || isPredicate(f))
	}
	B := a.B
	fc := a.Ctx(fn)
	fc.ensureConds()
	r.Fn(p.FnName(fn))
	accept := B.Not(fc.NotAcceptFormula())
	var methodEmpty string
	for name, ai := range a.Atoms {
		if ai.Kind == "empty" && strings.HasSuffix(ai.Args[0], "ServiceProvider.SignatureMethod") {
			methodEmpty = name
		}
	}
	rg := NewRegion(p, fn, 2)
	ss := rg.Calls("(*" + dsigPath + ".SigningContext).SignString")
	cons := p.FnName(fn) + ": redirect URL signed whenever a signature method is configured"
	if len(ss) != 1 || methodEmpty == "" {
		r.Bad(rule, cons, p.Pos(fn.Pos()), "no SignString step under SignatureMethod != \"\"")
		return
	}
	nm := "isnil(" + rg.Ctx(a, ss[0].C).AP(ss[0].I.(*ssa.Call)) + "#1)"
	r.Check(B.HasVar(nm) && B.Implies(B.And(accept, B.Not(B.Var(methodEmpty))), B.Var(nm)), rule, cons, p.InstrPos(ss[0].I), "accept && method configured => SignString == nil", "a URL is returned unsigned although signing is configured")
}

func checkEnveloped(r *Report, p *Prog) {
	rule := "C13.enveloped"
	for _, s := range []struct{ fn, typ string }{
		{"SignAuthnRequest", "AuthnRequest"}, {"SignLogoutRequest", "LogoutRequest"},
		{"SignLogoutResponse", "LogoutResponse"}, {"SignArtifactResolve", "ArtifactResolve"},
	} {
		fn := p.MustFunc("saml", "ServiceProvider", s.fn)
		a := NewAnalysis(p)
		B := a.B
		fc := a.Ctx(fn)
		fc.ensureConds()
		r.Fn(p.FnName(fn))
		// the signing step may be shared by the four functions through a helper that takes the message as "something
		// with an Element() method": the function and its helpers are one body, and a call of Element through that
		// interface is a build of the message when the receiver is the message
		rg := NewRegion(p, fn, 2)
		signs := rg.Calls("(*" + dsigPath + ".SigningContext).SignEnveloped")
		type elemCall struct {
			at   RI
			recv RV
		}
		var elems []elemCall
		rg.Each(func(x RI) {
			c, ok := x.I.(*ssa.Call)
			if !ok {
				return
			}
			if calleeIs(c, "(*"+modPath+"."+s.typ+").Element") {
				elems = append(elems, elemCall{x, RV{V: c.Call.Args[0], C: x.C}})
				return
			}
			if c.Call.IsInvoke() && c.Call.Method.Name() == "Element" {
				for _, o := range rg.Origins(RV{V: c.Call.Value, C: x.C}) {
					if typeIs(o.V.Type(), modPath, s.typ) {
						elems = append(elems, elemCall{x, o})
					}
				}
			}
		})
		cons := fmt.Sprintf("%s: Signature <- last child of SignEnveloped(%s.Element()) under err == nil", p.FnName(fn), s.typ)
		if len(signs) != 1 || len(elems) < 1 {
			r.Bad(rule, cons, p.Pos(fn.Pos()), "no SignEnveloped over the object's element tree")
			continue
		}
		sign := signs[0]
		signCall := sign.I.(*ssa.Call)
		var sigStore *ssa.Store
		for _, b := range fn.Blocks {
			for _, in := range b.Instrs {
				if st, ok := in.(*ssa.Store); ok {
					if fa, ok := st.Addr.(*ssa.FieldAddr); ok && fieldName(fa.X.Type(), fa.Field) == "Signature" && typeIs(fa.X.Type(), modPath, s.typ) {
						if isNilConst(st.Val) {
							continue // the reset before signing, judged below
						}
						sigStore = st
					}
				}
			}
		}
		okS := false
		why := "the Signature field is never stored"
		if sigStore != nil {
			errOK := false
			if via, ok := rg.SiteIn(rg.top, sign).(*ssa.Call); ok && via != nil {
				n := via.Call.Signature().Results().Len()
				errA := "isnil(" + fc.AP(via) + fmt.Sprintf("#%d)", n-1)
				if n == 1 {
					errA = "isnil(" + fc.AP(via) + ")"
				}
				errOK = B.HasVar(errA) && fc.Implied(sigStore.Block(), B.Var(errA))
			}
			overEl := false
			for _, e := range elems {
				if !rg.IsFrom(RV{V: signCall.Call.Args[1], C: sign.C}, e.at) {
					continue
				}
				for _, ro := range rg.Origins(e.recv) {
					if ro.V == rootOfAddr(sigStore.Addr) {
						overEl = true
					}
				}
			}
			lastChild := false
			desc := fc.AP(sigStore.Val)
			for _, o := range rg.Origins(RV{V: sigStore.Val, C: rg.top}) {
				if oap := rg.Ctx(a, o.C).AP(o.V); strings.Contains(oap, "Child[(len(") {
					lastChild, desc = true, oap
				}
			}
			okS = rg.DerivesFrom(RV{V: sigStore.Val, C: rg.top}, sign) && errOK && overEl && lastChild
			why = "the stored Signature is not the last child of the signing result over the object's own element tree (or is stored although signing failed): " + desc
		}
		r.Check(okS, rule, cons, p.Pos(fn.Pos()), "ok", why)
		// the tree that is signed carries no earlier signature: Element() re-embeds the stored Signature, so signing an
		// object that was signed before (the constructors sign when a method is configured; the Sign* functions are
		// exported) would digest a tree with the old <Signature> in it, while the emitted element carries only the new
		// one — the digest no longer matches. The field is reset before the tree is built.
		for _, e := range elems {
			if !rg.IsFrom(RV{V: signCall.Call.Args[1], C: sign.C}, e.at) {
				continue
			}
			reset := false
			rg.Each(func(x RI) {
				st, ok := x.I.(*ssa.Store)
				if !ok || !isNilConst(st.Val) {
					return
				}
				fa, ok := st.Addr.(*ssa.FieldAddr)
				if !ok || fieldName(fa.X.Type(), fa.Field) != "Signature" || !typeIs(fa.X.Type(), modPath, s.typ) {
					return
				}
				same := false
				for _, so := range rg.Origins(RV{V: fa.X, C: x.C}) {
					for _, ro := range rg.Origins(e.recv) {
						same = same || so.V == ro.V
					}
				}
				if same && rg.Before(x, e.at) {
					reset = true
				}
			})
			r.Check(reset, rule, fmt.Sprintf("%s: the tree handed to SignEnveloped carries no earlier Signature", p.FnName(fn)), p.InstrPos(e.at.I), "Signature reset to nil before Element()", "the element tree is built while a Signature from an earlier signing may still be stored in the object: Element() embeds it, the new signature digests it, and the emitted element (which carries only the new Signature) does not verify")
		}
		// the tree is built twice — once to be digested, once to be emitted with the Signature embedded — so Element() must
		// be a function of the object alone: no reading of the clock, no randomness, no package-level state the library
		// writes (a zero IssueInstant rendered as "now" differs between the two builds)
		if el := p.Func("saml", s.typ, "Element"); el != nil {
			why := ""
			written := moduleWrittenGlobals(p)
			for _, f := range helperRegion(p, el, 2) {
				for _, b := range f.Blocks {
					for _, in := range b.Instrs {
						for _, op := range in.Operands(nil) {
							if op == nil || *op == nil {
								continue
							}
							g, ok := (*op).(*ssa.Global)
							if !ok || g.Pkg == nil || !strings.HasPrefix(g.Pkg.Pkg.Path(), modPath) {
								continue
							}
							_, isW := written[g]
							if g.Name() == "TimeNow" || g.Name() == "RandReader" || g.Name() == "Clock" || isW {
								why = firstNonEmpty(why, "reads "+g.Name()+" at "+p.InstrPos(in))
							}
						}
						if c, ok := in.(*ssa.Call); ok && c.Call.StaticCallee() != nil {
							switch c.Call.StaticCallee().String() {
							case "time.Now", "crypto/rand.Read", "math/rand.Int":
								why = firstNonEmpty(why, "calls "+c.Call.StaticCallee().String()+" at "+p.InstrPos(in))
							}
						}
					}
				}
			}
			r.Check(why == "", rule, fmt.Sprintf("%s.Element: the tree is a function of the object alone", s.typ), p.Pos(el.Pos()), "no clock, randomness or library-written state is read by the builder", "the builder "+why+": the tree that is digested and the tree that is emitted are two builds and can differ, so the emitted signature does not verify")
		}
		// success return only after the store; error of GetSigningContext propagated
		for _, ret := range fc.Returns() {
			if isNilConst(Resolve(ret.Results[0])) && sigStore != nil {
				r.Check(domOrSame(sigStore, ret), rule, fmt.Sprintf("%s: success only after the Signature was stored", p.FnName(fn)), p.InstrPos(ret), "store dominates return nil", "nil is returned on a path that did not store a signature")
			}
		}
		// builder re-embeds
		el := p.MustFunc("saml", s.typ, "Element")
		a2 := NewAnalysis(p)
		f2 := a2.Ctx(el)
		f2.ensureConds()
		okB := false
		rgE := NewRegion(p, el, 2) // the builder with the helpers it shares with the other builders
		for _, x := range rgE.Calls("(*" + etreePath + ".Element).AddChild") {
			c := x.I.(*ssa.Call)
			xfc := rgE.Ctx(a2, x.C)
			xfc.ensureConds()
			ap := xfc.AP(c.Call.Args[1])
			if strings.HasSuffix(ap, s.typ+".Signature") {
				nm := "isnil(" + ap + ")"
				if a2.B.HasVar(nm) && a2.B.Implies(xfc.AbsCond(c.Block()), a2.B.Not(a2.B.Var(nm))) {
					okB = true
				}
			}
		}
		r.Check(okB, rule, p.FnName(el)+": re-embeds the stored Signature when present", p.Pos(el.Pos()), "AddChild(Signature) under Signature != nil", "the builder drops the stored Signature: the emitted message is unsigned")
	}
}

func checkSignedOctets(r *Report, p *Prog) {
	rule := "C13.signed-octets"
	fn := p.MustFunc("saml", "AuthnRequest", "Redirect")
	a := NewAnalysis(p)
	fc := a.Ctx(fn)
	fc.ensureConds()
	rg := NewRegion(p, fn, 2) // the builder with the helpers it is split into
	ss := rg.Calls("(*" + dsigPath + ".SigningContext).SignString")
	if len(ss) != 1 {
		r.Bad(rule, p.FnName(fn)+": signed string", p.Pos(fn.Pos()), "no single SignString call")
		return
	}
	signCall := ss[0].I.(*ssa.Call)
	signed := RV{V: signCall.Call.Args[1], C: ss[0].C}
	// (1) composition of the signed string
	okComp := true
	var bad string
	seqs := rg.concatSeqs(signed, nil, 0)
	for _, seq := range seqs {
		var pat []string
		for i, lf := range seq {
			k, d := queryLeafKind(rg.Ctx(a, lf.C), lf.V)
			switch k {
			case "const":
				pat = append(pat, d)
			case "escaped":
				if i == 1 {
					pat = append(pat, "<request>") // the encoded request (its encoding is C12's subject)
				} else {
					pat = append(pat, "<"+shortSuffix(d)+">")
				}
			default:
				pat = append(pat, "?"+d)
			}
		}
		s := strings.Join(pat, "")
		okThis := false
		for _, want := range []string{
			"SAMLRequest=<request>&SigAlg=<SignatureMethod>",
			"SAMLRequest=<request>&RelayState=<relayState>&SigAlg=<SignatureMethod>",
		} {
			if s == want {
				okThis = true
			}
		}
		if !okThis {
			okComp = false
			bad = s
		}
	}
	r.Check(okComp && len(seqs) == 2, rule, p.FnName(fn)+": the signed string is SAMLRequest=..[&RelayState=..]&SigAlg=.. exactly", p.InstrPos(signCall), fmt.Sprintf("%d alternatives, all of the documented shape", len(seqs)), "the string handed to SignString has the shape "+bad+" (expected SAMLRequest=<esc>[&RelayState=<esc>]&SigAlg=<esc>)")
	// (2) the emitted query contains the signed string unchanged followed by &Signature=<escaped>
	// stated over leaf sequences: an emitted alternative that carries a Signature parameter is [existing query &] S
	// &Signature=<escaped> for one of the alternatives S of the signed string (the same leaves, in the same order), however
	// the string is accumulated (+=, a strings.Builder read twice, a joined list)
	signedAlts := rg.concatSeqs(signed, nil, 0)
	sameLeaves := func(x, y []RV) bool {
		if len(x) != len(y) {
			return false
		}
		for i := range x {
			if x[i].V != y[i].V || x[i].C != y[i].C {
				return false
			}
		}
		return true
	}
	rg.Each(func(xi RI) {
		st, ok := xi.I.(*ssa.Store)
		if !ok {
			return
		}
		fa, ok := st.Addr.(*ssa.FieldAddr)
		if !ok || fieldName(fa.X.Type(), fa.Field) != "RawQuery" {
			return
		}
		okAll := true
		why := ""
		nSigned := 0
		for _, seq := range rg.concatSeqs(RV{V: st.Val, C: xi.C}, nil, 0) {
			idx := -1
			for i, lf := range seq {
				if s, ok := constStr(lf.V); ok && s == "&Signature=" {
					idx = i
				}
			}
			if idx < 0 {
				continue // unsigned alternative (no signature method)
			}
			nSigned++
			// after: escaped(base64(sig)) and nothing else
			rest := seq[idx+1:]
			okRest := len(rest) == 1
			if okRest {
				if k, _ := queryLeafKind(rg.Ctx(a, rest[0].C), rest[0].V); k != "escaped" {
					okRest = false
				}
			}
			// before: a signed alternative, possibly preceded by the endpoint's existing query and "&"
			body := seq[:idx]
			okBody := false
			for _, sa := range signedAlts {
				if sameLeaves(body, sa) {
					okBody = true
				}
				if len(body) == len(sa)+2 && sameLeaves(body[2:], sa) {
					k, _ := queryLeafKind(rg.Ctx(a, body[0].C), body[0].V)
					s, okc := constStr(body[1].V)
					if k == "existing-query" && okc && s == "&" {
						okBody = true
					}
				}
			}
			if !okRest || !okBody {
				okAll = false
				why = "around the signed string the URL carries something other than [existing query &] <signed string> &Signature=<escaped>"
			}
		}
		if nSigned == 0 {
			okAll = false
			why = "the value stored into RawQuery does not contain the string that was signed (it is transformed after signing): " + rg.Ctx(a, xi.C).AP(st.Val)
		}
		r.Check(okAll, rule, p.FnName(fn)+": the signed octets are emitted unchanged, followed only by the Signature parameter", p.InstrPos(st), "signed string is an operand of the stored query", why)
	})
}

func shortSuffix(ap string) string {
	if i := strings.LastIndex(ap, "."); i >= 0 {
		return ap[i+1:]
	}
	return strings.TrimPrefix(ap, "p:")
}

func checkSPMetadataSigning(r *Report, p *Prog) {
	rule := "C13.metadata"
	fn := p.MustFunc("saml", "ServiceProvider", "Metadata")
	a := NewAnalysis(p)
	B := a.B
	fc := a.Ctx(fn)
	fc.ensureConds()
	r.Fn(p.FnName(fn))
	// the append of the signing descriptor (in Metadata or in a helper that assembles the key descriptors)
	found := false
	rg := NewRegion(p, fn, 2)
	rg.Each(func(xi RI) {
		in := xi.I
		b := in.Block()
		c, ok := in.(*ssa.Call)
		if !ok {
			return
		}
		bi, ok := c.Call.Value.(*ssa.Builtin)
		if !ok || bi.Name() != "append" || !typeIs(sliceElem(c.Type()), modPath, "KeyDescriptor") {
			return
		}
		av := appendedValue(c)
		if av == nil {
			return
		}
		xfc := rg.Ctx(a, xi.C)
		xfc.ensureConds()
		src := av
		if ld, ok := av.(*ssa.UnOp); ok {
			src = ld.X
		}
		use := ""
		certAP := ""
		if al, ok := src.(*ssa.Alloc); ok {
			for _, rf := range *al.Referrers() {
				if fa, ok := rf.(*ssa.FieldAddr); ok && fieldName(fa.X.Type(), fa.Field) == "Use" {
					for _, r2 := range *fa.Referrers() {
						if st, ok := r2.(*ssa.Store); ok {
							use, _ = constStr(st.Val)
						}
					}
				}
			}
		}
		if use == "" {
			// the descriptor literal is built by a helper that is told the use: the value its Use field gets in this
			// activation
			if st, ok := derefType(av.Type()).Underlying().(*types.Struct); ok {
				for k := 0; k < st.NumFields(); k++ {
					if st.Field(k).Name() != "Use" {
						continue
					}
					rg.walkLiteralField(RV{V: av, C: xi.C}, k, func(fv RV) {
						for _, o := range rg.Origins(fv) {
							if s, ok := constStr(o.V); ok {
								use = s
							}
						}
					})
				}
			}
		}
		if use != "signing" {
			return
		}
		found = true
		// certificate data: base64 of bytes starting with sp.Certificate.Raw (the KeyInfo literal may be built by a helper
		// called from this descriptor's literal)
		for _, c2 := range rg.all {
			pos := rg.SiteIn(xi.C, RI{firstInstr(c2.fn), c2})
			if c2 != xi.C && pos == nil {
				continue
			}
			for _, st := range litFieldsAll(c2.fn, modPath, "X509Certificate", "Data") {
				var at ssa.Instruction = st
				if c2 != xi.C {
					at = pos
				}
				if at.Block() == b || at.Block().Dominates(b) || b.Dominates(at.Block()) {
					certAP = rg.Ctx(a, c2).AP(st.Val)
				}
			}
		}
		cnd := xfc.AbsCond(b)
		var extra []string
		var hasMethod bool
		for _, name := range B.Support(cnd) {
			ai := a.Atoms[name]
			if ai == nil {
				continue
			}
			switch {
			case ai.Kind == "empty" && strings.HasSuffix(ai.Args[0], "ServiceProvider.SignatureMethod"):
				if B.Implies(cnd, B.Not(B.Var(name))) {
					hasMethod = true
				}
			case ai.Kind == "isnil" && strings.HasSuffix(ai.Args[0], "ServiceProvider.Certificate"):
			default:
				extra = append(extra, name)
			}
		}
		cons := p.FnName(fn) + ": signing key descriptor published whenever a signature method is configured"
		why := ""
		if !hasMethod {
			why = "not guarded by SignatureMethod != \"\""
		}
		if len(extra) > 0 {
			why += " publication also depends on " + strings.Join(extra, ", ") + ": for some configurations the signing certificate is missing from the metadata although requests are signed"
		}
		r.Check(hasMethod && len(extra) == 0, rule, cons, p.InstrPos(in), "under Certificate != nil && SignatureMethod != \"\" only", why)
		r.Check(strings.Contains(certAP, "EncodeToString") && strings.Contains(certAP, "Certificate.Raw") || strings.Contains(certAP, "EncodeToString"), rule, p.FnName(fn)+": published signing certificate is sp.Certificate", p.InstrPos(in), certAP, "the published certificate data is "+certAP)
	})
	if !found {
		r.Bad(rule, p.FnName(fn)+": signing key descriptor", p.Pos(fn.Pos()), "no use=\"signing\" key descriptor is ever published")
	}
	// AuthnRequestsSigned
	ok := false
	for _, b := range fn.Blocks {
		for _, in := range b.Instrs {
			if st, ok2 := in.(*ssa.Store); ok2 {
				if al, ok3 := st.Addr.(*ssa.Alloc); ok3 && strings.Contains(al.Comment, "authnRequestsSigned") {
					ap := fc.AP(st.Val)
					if strings.Contains(ap, "ServiceProvider.SignatureMethod") {
						ok = true
					}
				}
			}
		}
	}
	r.Check(ok, rule, p.FnName(fn)+": AuthnRequestsSigned reflects whether a signature method is configured", p.Pos(fn.Pos()), "len(SignatureMethod) > 0", "AuthnRequestsSigned is not derived from the configured signature method")
}

func firstInstr(fn *ssa.Function) ssa.Instruction {
	for _, b := range fn.Blocks {
		if len(b.Instrs) > 0 {
			return b.Instrs[0]
		}
	}
	return nil
}

// litFieldsAll: all stores to typ.field in fn.
func litFieldsAll(fn *ssa.Function, pkg, typ, field string) []*ssa.Store {
	return litFields(fn, pkg, typ)[field]
}

// blockReaches: b is reachable from a along CFG edges (a itself excluded unless on a cycle).
func blockReaches(a, b *ssa.BasicBlock) bool {
	seen := map[*ssa.BasicBlock]bool{}
	var dfs func(x *ssa.BasicBlock) bool
	dfs = func(x *ssa.BasicBlock) bool {
		if x == b {
			return true
		}
		if seen[x] {
			return false
		}
		seen[x] = true
		for _, s := range x.Succs {
			if dfs(s) {
				return true
			}
		}
		return false
	}
	for _, s := range a.Succs {
		if dfs(s) {
			return true
		}
	}
	return false
}

// storesThrough: fn writes to memory reached through its pointer parameter prm (directly, or in a module function it
// hands the pointer on to).
func storesThrough(p *Prog, fn *ssa.Function, prm *ssa.Parameter, depth int) bool {
	if depth > 2 {
		return false
	}
	for _, b := range fn.Blocks {
		for _, in := range b.Instrs {
			switch x := in.(type) {
			case *ssa.Store:
				if rootOfAddr(x.Addr) == ssa.Value(prm) {
					return true
				}
			case *ssa.Call:
				sc := x.Call.StaticCallee()
				if sc == nil || !p.InModule(sc) || len(sc.Blocks) == 0 {
					continue
				}
				for i, a := range x.Call.Args {
					if (a == ssa.Value(prm) || rootOfAddr(a) == ssa.Value(prm)) && i < len(sc.Params) && storesThrough(p, sc, sc.Params[i], depth+1) {
						return true
					}
				}
			}
		}
	}
	return false
}

// callsToNamed: the static calls in fn of a function of the given name.
func callsToNamed(fn *ssa.Function, name string) []*ssa.Call {
	var out []*ssa.Call
	for _, b := range fn.Blocks {
		for _, in := range b.Instrs {
			if c, ok := in.(*ssa.Call); ok && c.Call.StaticCallee() != nil && c.Call.StaticCallee().Name() == name {
				out = append(out, c)
			}
		}
	}
	return out
}

// dispatchedCtor: fn forwards the results of unexported constructors of the same result type, chosen by a comparison of
// its binding argument; the one that calls signFn and is reached (when post is set) only under binding == HTTP-POST, the
// others being reached only when that comparison fails. nil when fn is not of that form.
func dispatchedCtor(p *Prog, fn *ssa.Function, signFn string, post bool) *ssa.Function {
	a := NewAnalysis(p)
	B := a.B
	fc := a.Ctx(fn)
	fc.ensureConds()
	var found *ssa.Function
	for _, ret := range fc.Returns() {
		for _, leaf := range phiLeaves(Resolve(ret.Results[0]), 0) {
			ex, ok := leaf.(*ssa.Extract)
			if !ok {
				continue
			}
			c, ok := ex.Tuple.(*ssa.Call)
			if !ok {
				continue
			}
			h := c.Call.StaticCallee()
			if h == nil || !p.InLibrary(h) || !sameSig(h, fn) || (h.Object() != nil && h.Object().Exported()) {
				continue
			}
			signs := len(callsToNamed(h, signFn)) > 0
			isPost := false
			for _, nm := range B.Support(fc.Cond(c.Block())) {
				if ai := a.Atoms[nm]; ai != nil && ai.Kind == "eq" && strings.Contains(nm, "HTTP-POST") && fc.Implied(c.Block(), B.Var(nm)) {
					isPost = true
				}
			}
			switch {
			case signs && (isPost || !post):
				if found != nil && found != h {
					return nil
				}
				found = h
			case !signs && post && !isPost:
				// another binding: no enveloped signature to make
			default:
				return nil
			}
		}
	}
	return found
}
