package main

import (
	"fmt"
	"go/types"
	"sort"
	"strings"

	"golang.org/x/tools/go/ssa"
)

// checkFuncFields: a call through an unexported function-typed field of a module struct panics when the field is nil,
// and only the library can set such a field. For every such call in fns that is not under a nil test of the field,
// every composite literal of the struct type in library code (an allocation filled field by field, not a copy of another
// value) stores a non-nil function into it.
func checkFuncFields(r *Report, a *Analysis, fns []*ssa.Function, rule string) {
	p := a.P
	type fkey struct {
		t   *types.Named
		idx int
	}
	fieldOf := func(v ssa.Value) (fkey, bool) {
		var st types.Type
		idx := -1
		switch x := v.(type) {
		case *ssa.UnOp:
			if fa, ok := x.X.(*ssa.FieldAddr); ok {
				st, idx = derefType(fa.X.Type()), fa.Field
			}
		case *ssa.Field:
			st, idx = x.X.Type(), x.Field
		}
		n, _ := st.(*types.Named)
		if n == nil || idx < 0 || n.Obj().Pkg() == nil || !strings.HasPrefix(n.Obj().Pkg().Path(), modPath) {
			return fkey{}, false
		}
		s, _ := n.Underlying().(*types.Struct)
		if s == nil || s.Field(idx).Exported() {
			return fkey{}, false
		}
		if _, isSig := s.Field(idx).Type().Underlying().(*types.Signature); !isSig {
			return fkey{}, false
		}
		return fkey{n, idx}, true
	}
	calls := map[fkey][]string{}
	for _, fn := range fns {
		if len(fn.Blocks) == 0 {
			continue
		}
		fc := a.Ctx(fn)
		fc.ensureConds()
		for _, b := range fn.Blocks {
			for _, in := range b.Instrs {
				ci, ok := in.(ssa.CallInstruction)
				if !ok || ci.Common().IsInvoke() {
					continue
				}
				k, ok := fieldOf(ci.Common().Value)
				if !ok || fc.Implied(b, fc.NonNil(ci.Common().Value)) {
					continue
				}
				calls[k] = append(calls[k], p.InstrPos(in))
			}
		}
	}
	var keys []fkey
	for k := range calls {
		keys = append(keys, k)
	}
	sort.Slice(keys, func(i, j int) bool {
		if keys[i].t.String() != keys[j].t.String() {
			return keys[i].t.String() < keys[j].t.String()
		}
		return keys[i].idx < keys[j].idx
	})
	for _, k := range keys {
		fname := k.t.Underlying().(*types.Struct).Field(k.idx).Name()
		sort.Strings(calls[k])
		n := 0
		// a literal: an allocation or a package-level variable filled field by field, with no store of a whole value
		type lit struct {
			fn          *ssa.Function
			pos         string
			fieldStores int
			whole       bool
			set         ssa.Value
		}
		lits := map[ssa.Value]*lit{}
		var order []ssa.Value
		get := func(base ssa.Value, fn *ssa.Function, in ssa.Instruction) *lit {
			switch x := base.(type) {
			case *ssa.Alloc, *ssa.Global:
			case *ssa.IndexAddr:
				// an element of an array or slice literal
				switch x.X.(type) {
				case *ssa.Alloc, *ssa.Global, *ssa.Slice:
				default:
					return nil
				}
			default:
				return nil
			}
			if !types.Identical(derefType(base.Type()), k.t) {
				return nil
			}
			l := lits[base]
			if l == nil {
				l = &lit{fn: fn, pos: p.InstrPos(in)}
				if al, ok := base.(*ssa.Alloc); ok {
					l.pos = p.InstrPos(al)
				}
				lits[base] = l
				order = append(order, base)
			}
			return l
		}
		for _, fn := range p.modFns {
			if !p.InLibrary(fn) {
				continue
			}
			for _, b := range fn.Blocks {
				for _, in := range b.Instrs {
					s, ok := in.(*ssa.Store)
					if !ok {
						continue
					}
					if l := get(s.Addr, fn, in); l != nil {
						l.whole = true
						continue
					}
					if fa, ok := s.Addr.(*ssa.FieldAddr); ok {
						if l := get(fa.X, fn, in); l != nil {
							l.fieldStores++
							if fa.Field == k.idx {
								l.set = s.Val
							}
						}
					}
				}
			}
		}
		for _, base := range order {
			l := lits[base]
			if l.whole || l.fieldStores == 0 {
				continue
			}
			n++
			isNil := l.set == nil
			if c, ok := l.set.(*ssa.Const); ok && c.Value == nil {
				isNil = true
			}
			where := l.fn.String()
			if g, ok := base.(*ssa.Global); ok {
				where = g.String()
			}
			cons := fmt.Sprintf("%s: literal of %s sets %s (called at %s)", where, k.t.Obj().Name(), fname, calls[k][0])
			r.Check(!isNil, rule, cons, l.pos, "set to a function",
				fmt.Sprintf("the literal leaves %s nil; the call through it at %s panics for a value built here", fname, calls[k][0]))
		}
		if n == 0 {
			r.Undecided(rule, fmt.Sprintf("%s.%s called at %s", k.t.Obj().Name(), fname, calls[k][0]), calls[k][0], "no literal of the type found in library code: where the field is set could not be determined")
		}
	}
}
