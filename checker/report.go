package main

import (
	"bufio"
	"crypto/sha1"
	"encoding/json"
	"fmt"
	"os"
	"path/filepath"
	"sort"
	"strings"
)

type Obligation struct {
	Rule       string `json:"rule"`
	Construct  string `json:"construct"`
	Pos        string `json:"pos"`
	Verdict    string `json:"verdict"` // discharged | violated | known-finding | undecided | info
	Detail     string `json:"detail,omitempty"`
	NonTrivial bool   `json:"nontrivial"`
}

type knownEntry struct {
	Property  string
	Rule      string
	Construct string
	What      string
	used      bool
}

type Known struct {
	entries []*knownEntry
	fixed   []string
}

// known_findings.txt format, one entry per line:
//
//	known: property=C10 rule=C10.flow construct="<construct>" what="<text>"
//	fixed: property=C09 <commit> <what failed>
//
// A known entry turns exactly that obligation's violation into a KNOWN-FINDING line; fixed entries
// suppress nothing.
func loadKnown(path string) *Known {
	k := &Known{}
	f, err := os.Open(path)
	if err != nil {
		return k
	}
	defer f.Close()
	sc := bufio.NewScanner(f)
	sc.Buffer(make([]byte, 1<<20), 1<<20)
	for sc.Scan() {
		line := strings.TrimSpace(sc.Text())
		if line == "" || strings.HasPrefix(line, "#") {
			continue
		}
		if strings.HasPrefix(line, "fixed:") {
			k.fixed = append(k.fixed, line)
			continue
		}
		if strings.HasPrefix(line, "known:") {
			e := &knownEntry{}
			e.Property = kvField(line, "property")
			e.Rule = kvField(line, "rule")
			e.Construct = kvField(line, "construct")
			e.What = kvField(line, "what")
			if e.Property == "" || e.Rule == "" || e.Construct == "" {
				infra("known_findings: malformed line %q", line)
			}
			k.entries = append(k.entries, e)
		}
	}
	return k
}

func kvField(line, key string) string {
	i := strings.Index(line, key+"=")
	if i < 0 {
		return ""
	}
	rest := line[i+len(key)+1:]
	if strings.HasPrefix(rest, `"`) {
		rest = rest[1:]
		var sb strings.Builder
		for j := 0; j < len(rest); j++ {
			if rest[j] == '\\' && j+1 < len(rest) {
				sb.WriteByte(rest[j+1])
				j++
				continue
			}
			if rest[j] == '"' {
				break
			}
			sb.WriteByte(rest[j])
		}
		return sb.String()
	}
	if j := strings.IndexByte(rest, ' '); j >= 0 {
		return rest[:j]
	}
	return rest
}

func (k *Known) match(prop, rule, construct string) *knownEntry {
	for _, e := range k.entries {
		if e.Property == prop && e.Rule == rule && e.Construct == construct {
			e.used = true
			return e
		}
	}
	return nil
}

type Report struct {
	remap      func(o *Obligation) (string, bool)
	Prop       string
	Tier       string
	P          *Prog
	Known      *Known
	Obls       []*Obligation
	mins       map[string]int
	rulesDoc   map[string]string
	ruleOrder  []string
	funcs      map[string]bool
	callSites  int
	notes      []string
	assume     []string
	notDecided []string
	trusted    []string
	seen       map[string]bool
	extra      map[string]any
}

func NewReport(prop, tier string, p *Prog, k *Known) *Report {
	return &Report{Prop: prop, Tier: tier, P: p, Known: k, mins: map[string]int{}, rulesDoc: map[string]string{},
		funcs: map[string]bool{}, seen: map[string]bool{}, extra: map[string]any{}}
}

// Rule declares a rule: its id, what it decides, and the minimum number of instances confirmed by
// hand on the pinned tree (fewer = the rule went vacuous = failure).
func (r *Report) Rule(id, doc string, min int) {
	if r.remap != nil && !strings.HasPrefix(id, r.Prop+".") {
		return // a borrowed rule family: only the renamed obligations are this property's
	}
	if _, ok := r.rulesDoc[id]; !ok {
		r.ruleOrder = append(r.ruleOrder, id)
	}
	r.rulesDoc[id] = doc
	r.mins[id] = min
}

func (r *Report) add(o *Obligation) {
	// a rule family run on behalf of another property: obligations are renamed, or dropped when outside its scope
	if r.remap != nil {
		rule, keep := r.remap(o)
		if !keep {
			return
		}
		o.Rule = rule
	}
	key := o.Rule + "|" + o.Construct
	if r.seen[key] {
		// same construct reported twice (e.g. through two scopes): keep the worst verdict
		for _, e := range r.Obls {
			if e.Rule == o.Rule && e.Construct == o.Construct {
				if rank(o.Verdict) > rank(e.Verdict) {
					e.Verdict, e.Detail, e.Pos = o.Verdict, o.Detail, o.Pos
				}
				return
			}
		}
	}
	r.seen[key] = true
	r.Obls = append(r.Obls, o)
}

func rank(v string) int {
	switch v {
	case "violated":
		return 4
	case "undecided":
		return 3
	case "known-finding":
		return 2
	case "discharged":
		return 1
	}
	return 0
}

func (r *Report) OK(rule, construct, pos, detail string) {
	r.add(&Obligation{Rule: rule, Construct: construct, Pos: pos, Verdict: "discharged", Detail: detail, NonTrivial: true})
}
func (r *Report) Trivial(rule, construct, pos, detail string) {
	r.add(&Obligation{Rule: rule, Construct: construct, Pos: pos, Verdict: "discharged", Detail: detail, NonTrivial: false})
}
func (r *Report) Bad(rule, construct, pos, detail string) {
	r.add(&Obligation{Rule: rule, Construct: construct, Pos: pos, Verdict: "violated", Detail: detail, NonTrivial: true})
}
func (r *Report) Undecided(rule, construct, pos, detail string) {
	r.add(&Obligation{Rule: rule, Construct: construct, Pos: pos, Verdict: "undecided", Detail: detail, NonTrivial: true})
}
func (r *Report) Info(rule, construct, pos, detail string) {
	r.add(&Obligation{Rule: rule, Construct: construct, Pos: pos, Verdict: "info", Detail: detail})
}
func (r *Report) Check(ok bool, rule, construct, pos, okDetail, badDetail string) bool {
	if ok {
		r.OK(rule, construct, pos, okDetail)
	} else {
		r.Bad(rule, construct, pos, badDetail)
	}
	return ok
}
func (r *Report) Fn(name string)      { r.funcs[name] = true }
func (r *Report) Assume(s string)     { r.assume = appendUniq(r.assume, s) }
func (r *Report) NotDecided(s string) { r.notDecided = appendUniq(r.notDecided, s) }
func (r *Report) Trusted(s ...string) {
	for _, x := range s {
		r.trusted = appendUniq(r.trusted, x)
	}
}
func (r *Report) Note(s string)         { r.notes = append(r.notes, s) }
func (r *Report) Extra(k string, v any) { r.extra[k] = v }

func appendUniq(l []string, s string) []string {
	for _, x := range l {
		if x == s {
			return l
		}
	}
	return append(l, s)
}

// runRules executes the rule functions of one property, converting unresolved anchors into
// failed obligations.
func runRules(r *Report, rules []func(*Report)) {
	for _, rf := range rules {
		func() {
			defer func() {
				if x := recover(); x != nil {
					if u, ok := x.(unresolved); ok {
						r.Undecided(r.Prop+".anchor", "unresolved anchor "+u.what, "-", "the role/anchor did not resolve to any program object; the rule cannot vouch for the tree")
						return
					}
					panic(x)
				}
			}()
			rf(r)
		}()
	}
}

func (r *Report) Finish(outDir string, wall float64, writeEvidence bool) int {
	// vacuity
	count := map[string]int{}
	for _, o := range r.Obls {
		if o.Verdict != "info" {
			count[o.Rule]++
		}
	}
	for _, id := range r.ruleOrder {
		if count[id] < r.mins[id] {
			r.add(&Obligation{Rule: id, Construct: "rule instances", Pos: "-", Verdict: "undecided", NonTrivial: true,
				Detail: fmt.Sprintf("rule went vacuous: %d instances found, at least %d confirmed on the pinned tree", count[id], r.mins[id])})
		}
	}
	sort.SliceStable(r.Obls, func(i, j int) bool {
		if r.Obls[i].Rule != r.Obls[j].Rule {
			return r.Obls[i].Rule < r.Obls[j].Rule
		}
		return r.Obls[i].Construct < r.Obls[j].Construct
	})
	viol := 0
	discharged, total, nontrivial := 0, 0, 0
	var knownLines, violLines []string
	replayDir := filepath.Join(outDir, "replay")
	if writeEvidence {
		// replay files of earlier runs of this property are stale
		if old, err := filepath.Glob(filepath.Join(replayDir, r.Prop+"-*.json")); err == nil {
			for _, f := range old {
				os.Remove(f)
			}
		}
	}
	for _, o := range r.Obls {
		if o.Verdict == "info" {
			continue
		}
		total++
		if o.NonTrivial {
			nontrivial++
		}
		if o.Verdict == "violated" {
			if e := r.Known.match(r.Prop, o.Rule, o.Construct); e != nil {
				o.Verdict = "known-finding"
				knownLines = append(knownLines, fmt.Sprintf("KNOWN-FINDING: property=%s %s [%s %s at %s]", r.Prop, e.What, o.Rule, o.Construct, o.Pos))
				continue
			}
		}
		switch o.Verdict {
		case "discharged":
			discharged++
		case "violated", "undecided":
			viol++
			h := sha1.Sum([]byte(o.Rule + "|" + o.Construct))
			path := filepath.Join(replayDir, fmt.Sprintf("%s-%s-%x.json", r.Prop, o.Rule, h[:5]))
			if writeEvidence {
				os.MkdirAll(replayDir, 0o755)
				buf, _ := json.MarshalIndent(map[string]any{"property": r.Prop, "tier": r.Tier, "obligation": o,
					"how_to_replay": fmt.Sprintf("./run.sh %s %s   # re-analyses /repo and reports this obligation again if it still fails", r.Prop, r.Tier)}, "", " ")
				os.WriteFile(path, buf, 0o644)
			}
			violLines = append(violLines, fmt.Sprintf("%s %s: %s at %s — %s", strings.ToUpper(o.Verdict), o.Rule, o.Construct, o.Pos, o.Detail))
			violLines = append(violLines, fmt.Sprintf("VIOLATION property=%s replay=%s", r.Prop, path))
		}
	}
	// print
	fmt.Printf("== %s (%s): %d obligations, %d discharged, %d known findings, %d violations/undecided; %d functions analysed\n",
		r.Prop, r.Tier, total, discharged, len(knownLines), viol, len(r.funcs))
	for _, id := range r.ruleOrder {
		fmt.Printf("   rule %-24s instances=%d (min %d)\n", id, count[id], r.mins[id])
	}
	for _, o := range r.Obls {
		if o.Verdict == "info" {
			fmt.Printf("INFO %s: %s at %s — %s\n", o.Rule, o.Construct, o.Pos, o.Detail)
		}
	}
	for _, l := range knownLines {
		fmt.Println(l)
	}
	for _, l := range violLines {
		fmt.Println(l)
	}
	if writeEvidence {
		r.writeEvidence(outDir, wall, total, discharged, nontrivial, viol, count, len(knownLines))
	}
	if viol > 0 {
		return 1
	}
	return 0
}

func (r *Report) writeEvidence(outDir string, wall float64, total, discharged, nontrivial, viol int, count map[string]int, nknown int) {
	os.MkdirAll(outDir, 0o755)
	var samples []any
	perRule := map[string]int{}
	for _, o := range r.Obls {
		if o.Verdict == "info" {
			continue
		}
		if perRule[o.Rule] < 4 || o.Verdict != "discharged" {
			perRule[o.Rule]++
			samples = append(samples, o)
		}
	}
	var rules []any
	var docs []string
	for _, id := range r.ruleOrder {
		rules = append(rules, map[string]any{"rule": id, "decides": r.rulesDoc[id], "instances": count[id], "min_instances": r.mins[id]})
		docs = append(docs, id+": "+r.rulesDoc[id])
	}
	var fns []string
	for f := range r.funcs {
		fns = append(fns, f)
	}
	sort.Strings(fns)
	var pkgs []string
	for _, pk := range r.P.Pkgs {
		pkgs = append(pkgs, pk.PkgPath)
	}
	sort.Strings(pkgs)
	var infos []any
	for _, o := range r.Obls {
		if o.Verdict == "info" {
			infos = append(infos, o)
		}
	}
	cov := map[string]any{
		"explanation": "Static analysis of the type-checked SSA program of /repo (go/packages + go/ssa, call graph " + cgName(r.Tier) +
			"); no code of /repo is executed. Each rule below is a structural necessary condition of the property; an obligation is one rule instance " +
			"(rule + construct) and is discharged only by a dominance/path-condition/provenance argument over the resolved program. Rules: " + strings.Join(docs, " | "),
		"obligations":         total,
		"discharged":          discharged,
		"known_findings":      nknown,
		"evaluations":         total,
		"distinct_nontrivial": nontrivial,
		"rule":                "one case = one obligation (rule id + resolved construct); distinct by rule+construct; non-trivial = needed a guard/provenance/lock-set argument rather than holding by construction",
		"samples":             samples,
		"checker_cmd":         fmt.Sprintf("/verif/bin/samlverif -repo /repo -prop %s -tier %s", r.Prop, r.Tier),
		"trusted_base":        r.trusted,
		"rules":               rules,
		"functions_analysed":  fns,
		"packages":            pkgs,
		"info":                infos,
		"not_decided":         r.notDecided,
		"exhaustive":          false,
	}
	for k, v := range r.extra {
		cov[k] = v
	}
	ev := map[string]any{
		"property_id": r.Prop,
		"tier":        r.Tier,
		"seed":        0,
		"level":       "other",
		"coverage":    cov,
		"assumptions": append([]string{
			"an access-path fact is killed only by an explicit store to that path in the same function (optimistic aliasing)",
			"zero-argument getters listed in the checker's purity table, and module functions detected as pure, return the same value for the same receiver",
			"guard atoms are independent propositions; no solver is used and no path of /repo is executed",
			"dependencies at their pinned versions behave as documented (listed under coverage.trusted_base)",
		}, r.assume...),
		"wall_s":     wall,
		"violations": viol,
	}
	buf, _ := json.MarshalIndent(ev, "", " ")
	if err := os.WriteFile(filepath.Join(outDir, r.Prop+".json"), buf, 0o644); err != nil {
		infra("cannot write evidence: %v", err)
	}
}

func cgName(tier string) string {
	if tier == "thorough" {
		return "CHA refined by VTA"
	}
	return "CHA"
}

// borrow runs a rule family (or part of one) on behalf of this report's property: the obligations recorded under the
// rule named from are renamed to, every other obligation of the family is dropped, and the family's own rule
// declarations are not registered.
func (r *Report) borrow(from, to string, run func()) {
	old := r.remap
	r.remap = func(o *Obligation) (string, bool) {
		if o.Rule == from {
			return to, true
		}
		return "", false
	}
	defer func() { r.remap = old }()
	safely(r, run)
}
