package main

import (
	"fmt"
	"go/token"
	"go/types"
	"strings"

	"golang.org/x/tools/go/ssa"
)

func init() {
	registry["C06"] = []func(*Report){ruleC06}
}

const etreePath = "github.com/beevik/etree"

// oneField: the single store to a field of a literal of the given module type in fn.
func oneField(r *Report, rule string, fn *ssa.Function, fc *FuncCtx, pkg, typ, field string) *ssa.Store {
	lf := litFields(fn, pkg, typ)
	sts := lf[field]
	if len(sts) == 0 {
		// the value may be built by a module helper returning (a pointer to) that type; callers must take the
		// access path in the helper's own context (fc.A.Ctx(st.Parent()))
		sts = helperLitFields(fc.A.P, fn, pkg, typ, field)
	}
	if len(sts) != 1 {
		r.Bad(rule, fmt.Sprintf("%s: %s.%s", fc.A.P.FnName(fn), typ, field), fc.A.P.Pos(fn.Pos()), fmt.Sprintf("%d assignments to the field in this function (expected exactly one)", len(sts)))
		return nil
	}
	return sts[0]
}

// fieldPerBuilder: the stores to a field of a literal of the given type in fn or in the helpers that build it; more than
// one is accepted when each sits in a different function (one constructor per variant, each with its own literal).
func fieldPerBuilder(r *Report, rule string, fn *ssa.Function, fc *FuncCtx, pkg, typ, field string) []*ssa.Store {
	lf := litFields(fn, pkg, typ)
	sts := lf[field]
	if len(sts) == 0 {
		sts = helperLitFields(fc.A.P, fn, pkg, typ, field)
	}
	homes := map[*ssa.Function]bool{}
	distinct := true
	for _, st := range sts {
		if homes[st.Parent()] {
			distinct = false
		}
		homes[st.Parent()] = true
	}
	if len(sts) == 0 || !distinct {
		r.Bad(rule, fmt.Sprintf("%s: %s.%s", fc.A.P.FnName(fn), typ, field), fc.A.P.Pos(fn.Pos()), fmt.Sprintf("%d assignments to the field in this function (expected exactly one)", len(sts)))
		return nil
	}
	return sts
}

func expectAP(r *Report, rule string, fn *ssa.Function, fc *FuncCtx, pkg, typ, field, wantSuffix, why string) {
	st := oneField(r, rule, fn, fc, pkg, typ, field)
	if st == nil {
		return
	}
	p := fc.A.P
	ap := apInCaller(fc, st.Val, st.Parent())
	cons := fmt.Sprintf("%s: %s.%s", p.FnName(fn), typ, field)
	r.Check(strings.HasSuffix(ap, wantSuffix), rule, cons, p.InstrPos(st), "<- "+ap, fmt.Sprintf("%s is taken from %s, expected %s (%s)", field, ap, wantSuffix, why))
}

func ruleC06(r *Report) {
	p := r.P
	r.Trusted("goxmldsig v1.4.0 (SignEnveloped, canonicalisation)", "etree v1.5.0", "html/template", "go/ssa of golang.org/x/tools v0.29.0")
	r.NotDecided("that the signatures verify (goxmldsig; determinism of Element() for all strings is judged by C07); the session-to-attribute mapping beyond its source restriction")
	r.Rule("C06.fields", "provenance of every scoping field: Recipient/Destination/form action <- selected registered endpoint; InResponseTo <- request ID; audience <- registered entity ID; issuers <- IdP entity ID; bearer expiry = Now + 1*MaxIssueDelay; NotBefore never earlier than Now - 1*MaxClockSkew; name ID and attribute values <- the session", 20)
	r.Rule("C06.signed", "sign -> store Signature (under err == nil) -> rebuild Element() -> emit, for the assertion and for the response; the stored elements are written only by these functions; builders re-embed the stored Signature", 6)
	r.Rule("C06.post", "the POST form is produced only for an HTTP-POST endpoint and carries the base64 of the serialised signed response tree and the request's relay state; the HTTP reply is the executed template only", 2)
	r.Rule("C06.ctx", "the signing context uses the IdP's Signer or Key, a chain starting with the IdP certificate, and the configured signature method (RSA-SHA1 only when unset), with the method error checked", 2)
	checkC06Fields(r, p, "C06.fields")
	checkC06Signed(r, p)
	checkC06Post(r, p)
	checkC06Ctx(r, p)
	checkConfigReadOnly(r, p, "C06.ctx", "saml", "IdentityProvider")
	// the page written for a request is made from that request alone: the emitting functions use no buffer pool or other
	// package-level state the library writes (what an earlier, failed write left behind would be sent to the next user)
	for _, name := range []string{"WriteResponse", "PostBinding"} {
		if fn := p.Func("saml", "IdpAuthnRequest", name); fn != nil {
			checkNoProcessStateFor(r, p, fn, "C06.post", "the emitted page depends on this request only (no pooled or package-level buffer)",
				"the emitting function uses", "bytes an earlier response left behind (a write that failed half-way, a longer page) are sent to the next user together with, or instead of, their own form")
		}
	}
	// the scoping attributes as they leave the builders: the writer/reader rules of C07 restricted to the fields this
	// property speaks of (a builder that drops or rewrites InResponseTo, Recipient, Destination, Issuer, Audience or a
	// validity bound changes what "every response the IdP emits" carries, whatever the assertion maker stored)
	r.Rule("C06.emit", "the Element() builders emit InResponseTo, Recipient, Destination, Issuer, Audience, NotBefore and NotOnOrAfter as the field itself, under no guard but the field's own emptiness, under the names their readers use (C07.schema/verbatim/coverage restricted to these fields)", 10)
	scoping := []string{"InResponseTo", "Recipient", "Destination", "Issuer", "Audience", "NotBefore", "NotOnOrAfter"}
	r.remap = func(o *Obligation) (string, bool) {
		if !strings.HasPrefix(o.Rule, "C07.") {
			return o.Rule, true
		}
		for _, f := range scoping {
			if strings.Contains(o.Construct, f) {
				return "C06.emit", true
			}
		}
		return "", false
	}
	safely(r, func() { checkBuilders(r, p) })
	r.remap = nil
	r.Rule("C06.deterministic", "the Element() builders, with the unexported helpers they are split into, are functions of the value they render: no iteration over a map whose order reaches the output (no sort in the same function), no clock and no random source (the IdP renders the assertion once to sign it and again to emit it; two renderings that differ break the signature)", 10)
	safely(r, func() { checkBuildersDeterministic(r, p, "C06.deterministic") })
}

func checkBuildersDeterministic(r *Report, p *Prog, rule string) {
	for _, b := range collectBuilders(p) {
		bad := ""
		for _, fn := range helperRegion(p, b.fn, 3) {
			sorts := false
			var ranges []ssa.Instruction
			for _, blk := range fn.Blocks {
				for _, in := range blk.Instrs {
					switch x := in.(type) {
					case *ssa.Range:
						if _, isMap := x.X.Type().Underlying().(*types.Map); isMap {
							ranges = append(ranges, in)
						}
					case ssa.CallInstruction:
						sc := x.Common().StaticCallee()
						if sc == nil {
							continue
						}
						n := sc.String()
						if strings.HasPrefix(n, "sort.") || strings.HasPrefix(n, "slices.Sort") {
							sorts = true
						}
						if n == "time.Now" || strings.HasPrefix(n, "math/rand.") || strings.HasPrefix(n, "math/rand/v2.") || strings.HasPrefix(n, "crypto/rand.") || strings.HasPrefix(n, "(*math/rand.") {
							bad = n + " at " + p.InstrPos(in)
						}
					}
				}
			}
			if sorts {
				continue
			}
			for _, rg := range ranges {
				if why := orderSensitiveLoop(rg.(*ssa.Range)); why != "" {
					bad = "iteration over a map in " + p.FnName(fn) + " at " + p.InstrPos(rg) + " (" + why + " in map order)"
				}
			}
		}
		r.Check(bad == "", rule, b.T.Obj().Name()+".Element renders the same tree each time", p.Pos(b.fn.Pos()), "no map iteration, clock or random source", "the rendering depends on "+bad+": the element that is signed and the element that is emitted can differ")
	}
}

// assertionMakerFn: role = method named by the AssertionMaker interface on the default maker.
func assertionMakerFn(p *Prog) *ssa.Function {
	return p.Worker("saml", "DefaultAssertionMaker", "MakeAssertion")
}

func checkC06Fields(r *Report, p *Prog, rule string) {
	fn := assertionMakerFn(p)
	a := NewAnalysis(p)
	B := a.B
	fc := a.Ctx(fn)
	fc.ensureConds()
	r.Fn(p.FnName(fn))
	expectAP(r, rule, fn, fc, modPath, "SubjectConfirmationData", "Recipient", "IdpAuthnRequest.ACSEndpoint.Location", "the selected registered endpoint")
	expectAP(r, rule, fn, fc, modPath, "SubjectConfirmationData", "InResponseTo", "IdpAuthnRequest.Request.ID", "the request's ID")
	expectAP(r, rule, fn, fc, modPath, "Audience", "Value", "IdpAuthnRequest.ServiceProviderMetadata.EntityID", "the registered SP's entity ID")
	expectAP(r, rule, fn, fc, modPath, "Issuer", "Value", "IdpAuthnRequest.IDP.Metadata().EntityID", "the IdP's entity ID")
	expectAP(r, rule, fn, fc, modPath, "NameID", "Value", "Session.NameID", "the authenticated session")
	expectAP(r, rule, fn, fc, modPath, "NameID", "SPNameQualifier", "IdpAuthnRequest.ServiceProviderMetadata.EntityID", "the registered SP")
	expectAP(r, rule, fn, fc, modPath, "AuthnStatement", "SessionIndex", "Session.Index", "the authenticated session")
	// bearer expiry
	if st := oneField(r, rule, fn, fc, modPath, "SubjectConfirmationData", "NotOnOrAfter"); st != nil {
		tt := fc.TimeTermOf(st.Val)
		ok := strings.HasSuffix(tt.Base, "IdpAuthnRequest.Now") && len(tt.Coef) == 1 && tt.Const == 0 && !tt.Opaque
		for k, v := range tt.Coef {
			if !strings.HasSuffix(k, "MaxIssueDelay") || v != 1 {
				ok = false
			}
		}
		r.Check(ok, rule, p.FnName(fn)+": SubjectConfirmationData.NotOnOrAfter = Now + 1*MaxIssueDelay", p.InstrPos(st), tt.String(), "the bearer confirmation expires at "+tt.String()+", not MaxIssueDelay after issuance")
	}
	// NotBefore: every alternative is Now - 1*MaxClockSkew, or a value v chosen only when (Now - skew).Before(v)
	if st := oneField(r, rule, fn, fc, modPath, "Conditions", "NotBefore"); st != nil {
		ok := true
		var desc []string
		type alt struct {
			v  ssa.Value
			b  *ssa.BasicBlock
			fc *FuncCtx
		}
		var alts []alt
		var expand func(c *FuncCtx, v ssa.Value, b *ssa.BasicBlock, depth int)
		expand = func(c *FuncCtx, v ssa.Value, b *ssa.BasicBlock, depth int) {
			if ph, isPhi := v.(*ssa.Phi); isPhi {
				for i, e := range ph.Edges {
					expand(c, e, ph.Block().Preds[i], depth)
				}
				return
			}
			// a bound carried in a field of a local struct (validity.notBefore): each assignment of the field is an alternative
			if ld, isLd := v.(*ssa.UnOp); isLd && ld.Op == token.MUL && depth < 3 {
				if sts := localFieldStores(ld); len(sts) > 0 {
					for _, s2 := range sts {
						expand(c, s2.Val, s2.Block(), depth+1)
					}
					return
				}
			}
			// a window computed by a side-effect-free helper: its returns are the alternatives
			var call *ssa.Call
			idx := 0
			switch x := v.(type) {
			case *ssa.Call:
				call = x
			case *ssa.Extract:
				if cc, ok := x.Tuple.(*ssa.Call); ok {
					call, idx = cc, x.Index
				}
			}
			if call != nil && depth < 2 {
				if sc := call.Call.StaticCallee(); sc != nil && a.isPureModuleFunc(sc) && len(sc.Blocks) > 0 {
					sub := c.inlineCtx(sc, call.Call.Args, call)
					sub.ensureConds()
					for _, ret := range sub.Returns() {
						if idx < len(ret.Results) {
							expand(sub, ret.Results[idx], ret.Block(), depth+1)
						}
					}
					return
				}
			}
			alts = append(alts, alt{v, b, c})
		}
		expand(fc, st.Val, st.Block(), 0)
		for _, al := range alts {
			tt := al.fc.TimeTermOf(al.v)
			desc = append(desc, tt.String())
			if strings.HasSuffix(tt.Base, "IdpAuthnRequest.Now") && len(tt.Coef) == 1 && tt.Const == 0 {
				good := false
				for k, v := range tt.Coef {
					if strings.HasSuffix(k, "MaxClockSkew") && v == -1 {
						good = true
					}
				}
				if good {
					continue
				}
			}
			// must be guarded by before(Now-1*skew, v)
			guarded := false
			cnd := al.fc.AbsCond(al.b)
			for _, name := range B.Support(cnd) {
				ai := a.Atoms[name]
				if ai == nil || ai.Kind != "before" || ai.TT[0] == nil {
					continue
				}
				l, rr := ai.TT[0], ai.TT[1]
				if strings.HasSuffix(l.Base, "IdpAuthnRequest.Now") && len(l.Coef) == 1 && rr.String() == tt.String() && B.Implies(cnd, B.Var(name)) {
					for k, v := range l.Coef {
						if strings.HasSuffix(k, "MaxClockSkew") && v == -1 {
							guarded = true
						}
					}
				}
			}
			if !guarded {
				ok = false
			}
		}
		r.Check(ok, rule, p.FnName(fn)+": Conditions.NotBefore never earlier than Now - 1*MaxClockSkew", p.InstrPos(st), strings.Join(desc, " | "), "an alternative of NotBefore is not bounded below by Now - MaxClockSkew: "+strings.Join(desc, " | "))
	}
	// attribute values come from the session only (value literals may be built by helpers of the maker; the value is
	// traced back through them, through phis and through local tables)
	rg := NewRegion(p, fn, 2)
	srcSeen := map[string]bool{}
	for _, c := range rg.all {
		r.Fn(p.FnName(c.fn))
		for _, st := range litFields(c.fn, modPath, "AttributeValue")["Value"] {
			ok2 := true
			var ls []string
			for _, lf := range rg.Origins(RV{V: st.Val, C: c}) {
				if isEmptyStringConst(lf.V) {
					continue
				}
				feas := rg.Ctx(a, c).AbsCond(st.Block())
				for _, vb := range lf.Via {
					vfc := rg.Ctx(a, vb.C)
					vfc.ensureConds()
					feas = B.And(feas, vfc.AbsCond(vb.B))
				}
				if feas == B.False {
					continue
				}
				ap := rg.Ctx(a, lf.C).AP(lf.V)
				ls = append(ls, ap)
				srcSeen[ap] = true
				if !strings.HasPrefix(ap, "Session.") {
					ok2 = false
				}
			}
			ls = uniqStrings(ls)
			r.Check(ok2 && len(ls) > 0, rule, fmt.Sprintf("%s: attribute value <- %s", p.FnName(fn), strings.Join(ls, "|")), p.InstrPos(st), "from the session", "an attribute value does not come from the authenticated session: "+strings.Join(ls, ", "))
		}
	}
	if len(srcSeen) < 5 {
		r.Undecided(rule, p.FnName(fn)+": attribute values", p.Pos(fn.Pos()), fmt.Sprintf("only %d distinct sources of attribute values found", len(srcSeen)))
	}
	// attributes appended to the statement are literals built here or in a helper of the maker (or the session's custom
	// attributes), never copies of objects from the SP's metadata
	for _, b := range fn.Blocks {
		for _, in := range b.Instrs {
			c, ok := in.(*ssa.Call)
			if !ok {
				continue
			}
			bi, ok := c.Call.Value.(*ssa.Builtin)
			if !ok || bi.Name() != "append" || !typeIs(sliceElem(c.Type()), modPath, "Attribute") {
				continue
			}
			av := appendedValue(c)
			cons := fmt.Sprintf("%s: attribute appended", p.FnName(fn))
			if av != nil {
				if _, isSlice := av.Type().Underlying().(*types.Slice); isSlice {
					av = nil // append(attributes, xs...)
				}
			}
			if av == nil {
				// append(attributes, xs...)
				ap := fc.AP(c.Call.Args[1])
				r.Check(strings.HasPrefix(ap, "Session."), rule, cons+" (spread "+ap+")", p.InstrPos(in), "the session's own attributes", "attributes are taken wholesale from "+ap)
				continue
			}
			for _, o := range rg.Origins(RV{V: av, C: rg.top}) {
				src := o.V
				if ld, ok := src.(*ssa.UnOp); ok {
					src = ld.X
				}
				al, isAlloc := src.(*ssa.Alloc)
				if !isAlloc {
					r.Bad(rule, cons, p.InstrPos(in), "the appended attribute is not a literal built by the assertion maker: "+rg.Ctx(a, o.C).AP(o.V))
					continue
				}
				ofc := rg.Ctx(a, o.C)
				copied := ""
				for _, rf := range *al.Referrers() {
					if st, ok := rf.(*ssa.Store); ok && st.Addr == ssa.Value(al) {
						copied = ofc.AP(st.Val)
						// a copy of a template literal the maker built itself without Values (attr := requested; attr.Values =
						// ...) carries nothing but what the literal names
						if ld, ok := st.Val.(*ssa.UnOp); ok && ld.Op == token.MUL {
							if base, ok := ld.X.(*ssa.Alloc); ok && literalWithoutField(base, "Values") {
								copied = ""
							}
						}
					}
				}
				if copied != "" {
					r.Bad(rule, cons+" (copied from "+copied+")", p.InstrPos(in), "the attribute object is copied from "+copied+" (values already present on it reach the assertion)")
					continue
				}
				// its Values: a fresh slice literal
				okV := true
				for _, rf := range *al.Referrers() {
					if fa, ok := rf.(*ssa.FieldAddr); ok && fieldName(fa.X.Type(), fa.Field) == "Values" {
						for _, r2 := range *fa.Referrers() {
							if st, ok := r2.(*ssa.Store); ok {
								for _, vo := range rg.Origins(RV{V: st.Val, C: o.C}) {
									switch v := vo.V.(type) {
									case *ssa.Slice:
										if _, ok := v.X.(*ssa.Alloc); !ok {
											okV = false
										}
									case *ssa.MakeSlice:
										// a slice made here and filled by index
									case *ssa.Call:
										// accumulated group values: built by append from literals of the maker
										for _, lf := range rootLeaves(v, map[ssa.Value]bool{}) {
											lap := rg.Ctx(a, vo.C).AP(lf)
											if strings.Contains(lap, "RequestedAttribute") || strings.Contains(lap, "ServiceProviderMetadata") {
												okV = false
											}
										}
									default:
										okV = false
									}
								}
							}
						}
					}
				}
				r.Check(okV, rule, cons+" (literal at "+p.InstrPos(al)+")", p.InstrPos(in), "literal with a fresh Values slice", "the attribute's Values do not come from a fresh literal built here")
			}
		}
	}
	// nothing from the request except RemoteAddr -> Address and Request.ID / IssueInstant
	for _, b := range fn.Blocks {
		for _, in := range b.Instrs {
			fa, ok := in.(*ssa.FieldAddr)
			if !ok {
				continue
			}
			ap := fc.AP(fa)
			if strings.Contains(ap, "IdpAuthnRequest.Request.") {
				f := fieldName(fa.X.Type(), fa.Field)
				if f != "ID" && f != "IssueInstant" {
					r.Bad(rule, fmt.Sprintf("%s: reads %s", p.FnName(fn), ap), p.InstrPos(in), "the assertion is built from a request field other than the request ID / IssueInstant")
				}
			}
		}
	}

	// response
	mr := p.MustFunc("saml", "IdpAuthnRequest", "MakeResponse")
	fr := a.Ctx(mr)
	r.Fn(p.FnName(mr))
	expectAP(r, rule, mr, fr, modPath, "Response", "Destination", "IdpAuthnRequest.ACSEndpoint.Location", "the selected registered endpoint")
	expectAP(r, rule, mr, fr, modPath, "Response", "InResponseTo", "IdpAuthnRequest.Request.ID", "the request's ID")
	expectAP(r, rule, mr, fr, modPath, "Response", "IssueInstant", "IdpAuthnRequest.Now", "the moment of issuance")
	expectAP(r, rule, mr, fr, modPath, "Issuer", "Value", "IdpAuthnRequest.IDP.MetadataURL.String()", "the IdP's entity ID")
	md := p.MustFunc("saml", "IdentityProvider", "Metadata")
	fm := a.Ctx(md)
	expectAP(r, rule, md, fm, modPath, "EntityDescriptor", "EntityID", "IdentityProvider.MetadataURL.String()", "the entity ID the responses carry as issuer")
	// form
	pb := p.MustFunc("saml", "IdpAuthnRequest", "PostBinding")
	fp := a.Ctx(pb)
	r.Fn(p.FnName(pb))
	expectAP(r, rule, pb, fp, modPath, "IdpAuthnRequestForm", "URL", "IdpAuthnRequest.ACSEndpoint.Location", "the selected registered endpoint")
	expectAP(r, rule, pb, fp, modPath, "IdpAuthnRequestForm", "RelayState", "IdpAuthnRequest.RelayState", "the request's relay state")
}

// ---------------------------------------------------------------------------------------------

func methodCallsOn(fn *ssa.Function, full string) []*ssa.Call {
	var out []*ssa.Call
	for _, b := range fn.Blocks {
		for _, in := range b.Instrs {
			if c, ok := in.(*ssa.Call); ok && calleeIs(c, full) {
				out = append(out, c)
			}
		}
	}
	return out
}

func domOrSame(x, y ssa.Instruction) bool {
	if x.Block() == y.Block() {
		return instrBefore(x.Block(), x, y)
	}
	return x.Block().Dominates(y.Block())
}

// derivesFrom: v is obtained from src by field/index/extract/type-assert/method-on-it steps.
func derivesFrom(v, src ssa.Value, depth int) bool {
	if v == src {
		return true
	}
	if depth > 10 {
		return false
	}
	switch x := v.(type) {
	case *ssa.UnOp:
		return derivesFrom(x.X, src, depth+1)
	case *ssa.FieldAddr:
		return derivesFrom(x.X, src, depth+1)
	case *ssa.IndexAddr:
		return derivesFrom(x.X, src, depth+1)
	case *ssa.Index:
		return derivesFrom(x.X, src, depth+1)
	case *ssa.Extract:
		return derivesFrom(x.Tuple, src, depth+1)
	case *ssa.TypeAssert:
		return derivesFrom(x.X, src, depth+1)
	case *ssa.Call:
		if x.Call.StaticCallee() != nil && len(x.Call.Args) > 0 && x.Call.StaticCallee().Signature.Recv() != nil {
			return derivesFrom(x.Call.Args[0], src, depth+1)
		}
	case *ssa.MakeInterface:
		return derivesFrom(x.X, src, depth+1)
	case *ssa.ChangeInterface:
		return derivesFrom(x.X, src, depth+1)
	case *ssa.ChangeType:
		// the same value under a defined type (type endpointLocation string)
		return derivesFrom(x.X, src, depth+1)
	case *ssa.Convert:
		// between string types, and between a string type and bytes: the same text
		if isStringType(x.Type()) && isStringType(x.X.Type()) {
			return derivesFrom(x.X, src, depth+1)
		}
	}
	return false
}

type signedObj struct {
	fnPkg, fnRecv, fnName string
	objType               string // Assertion / Response
	outField              string // AssertionEl / ResponseEl
}

func checkC06Signed(r *Report, p *Prog) {
	rule := "C06.signed"
	emitters := map[string]*Region{} // emitted field -> the sign-then-emit function with its helpers
	for _, so := range []signedObj{
		{"saml", "IdpAuthnRequest", "MakeAssertionEl", "Assertion", "AssertionEl"},
		{"saml", "IdpAuthnRequest", "MakeResponse", "Response", "ResponseEl"},
	} {
		fn := p.MustFunc(so.fnPkg, so.fnRecv, so.fnName)
		a := NewAnalysis(p)
		B := a.B
		fc := a.Ctx(fn)
		fc.ensureConds()
		// the function and the helpers it is split into are one body
		rg := NewRegion(p, fn, 2)
		for _, f := range rg.Fns {
			r.Fn(p.FnName(f))
		}
		emitters[so.outField] = rg
		signs := rg.Calls("(*" + dsigPath + ".SigningContext).SignEnveloped")
		elems := rg.Calls("(*" + modPath + "." + so.objType + ").Element")
		cons := fmt.Sprintf("%s: %s signed, signature stored, tree rebuilt, then emitted", p.FnName(fn), so.objType)
		if len(signs) != 1 || len(elems) < 2 {
			r.Bad(rule, cons, p.Pos(fn.Pos()), fmt.Sprintf("%d SignEnveloped calls and %d Element() calls (expected one signing step between two builds)", len(signs), len(elems)))
			continue
		}
		sign := signs[0]
		signCall := sign.I.(*ssa.Call)
		// S1: signed tree is an Element() build (possibly with the assertion added for the response)
		s1 := false
		for _, e := range elems {
			if rg.DerivesFrom(RV{V: signCall.Call.Args[1], C: sign.C}, e) {
				s1 = true
			}
		}
		r.Check(s1, rule, fmt.Sprintf("%s: the tree signed is %s.Element()", p.FnName(fn), so.objType), p.InstrPos(sign.I), "SignEnveloped(Element())", "the signature is computed over something other than the object's own element tree")
		// S0: the tree that is signed carries no earlier signature. Element() re-embeds the stored Signature; an object
		// that outlives the call (req.Assertion: the function is exported and is entered again after a failed
		// encryption step) must have the field reset before the tree is built, a fresh local needs nothing
		for _, e := range elems {
			if !rg.DerivesFrom(RV{V: signCall.Call.Args[1], C: sign.C}, e) {
				continue
			}
			ec := e.I.(*ssa.Call)
			fresh := true
			recvOs := rg.Origins(RV{V: ec.Call.Args[0], C: e.C})
			for _, ro := range recvOs {
				if _, isAlloc := ro.V.(*ssa.Alloc); !isAlloc {
					fresh = false
				}
			}
			reset := false
			rg.Each(func(x RI) {
				st, ok := x.I.(*ssa.Store)
				if !ok || !isNilConst(st.Val) {
					return
				}
				fa, ok := st.Addr.(*ssa.FieldAddr)
				if !ok || fieldName(fa.X.Type(), fa.Field) != "Signature" || !typeIs(fa.X.Type(), modPath, so.objType) {
					return
				}
				ra := rg.Ctx(a, x.C).AP(fa.X)
				rb := rg.Ctx(a, e.C).AP(ec.Call.Args[0])
				if ra == rb && rg.Before(x, e) {
					reset = true
				}
			})
			r.Check(len(recvOs) > 0 && fresh || reset, rule, fmt.Sprintf("%s: the tree handed to SignEnveloped carries no earlier Signature", p.FnName(fn)), p.InstrPos(e.I), "fresh object, or Signature reset to nil before Element()", "the element tree is built from an object that may still hold the Signature of an earlier signing: Element() embeds it, the new signature digests it, and the emitted element (which carries only the new Signature) does not verify")
		}
		// S2: Signature field stored from the signed result under err == nil
		var sigStore RI
		rg.Each(func(x RI) {
			st, ok := x.I.(*ssa.Store)
			if !ok {
				return
			}
			if fa, ok := st.Addr.(*ssa.FieldAddr); ok && fieldName(fa.X.Type(), fa.Field) == "Signature" && typeIs(fa.X.Type(), modPath, so.objType) {
				if isNilConst(st.Val) {
					return // the reset before signing (S0)
				}
				sigStore = x
			}
		})
		if sigStore.I == nil {
			r.Bad(rule, fmt.Sprintf("%s: Signature stored on the %s", p.FnName(fn), so.objType), p.Pos(fn.Pos()), "the signature element is never stored on the object: the emitted tree is unsigned")
			continue
		}
		sst := sigStore.I.(*ssa.Store)
		// the store runs only after the signing step succeeded: in the function holding the store, the signing call
		// (or the call of the helper that contains it) returned a nil error
		sfc := a.Ctx(sst.Parent())
		sfc.ensureConds()
		s2 := false
		if via, ok := rg.SiteIn(sigStore.C, sign).(*ssa.Call); ok && via != nil {
			n := via.Call.Signature().Results().Len()
			errA := "isnil(" + sfc.AP(via) + fmt.Sprintf("#%d)", n-1)
			if n == 1 {
				errA = "isnil(" + sfc.AP(via) + ")"
			}
			s2 = rg.DerivesFrom(RV{V: sst.Val, C: sigStore.C}, sign) && B.HasVar(errA) && sfc.Implied(sst.Block(), B.Var(errA))
		}
		r.Check(s2, rule, fmt.Sprintf("%s: Signature <- element of the SignEnveloped result, under err == nil", p.FnName(fn)), p.InstrPos(sst), sfc.AP(sst.Val), "the stored Signature does not come from the signing result (or is stored although signing failed)")
		// S3: a rebuild after the store, S4: that rebuild (or its ciphertext) is what is emitted
		var rebuilt RI
		for _, e := range elems {
			if rg.Before(sigStore, e) {
				rebuilt = e
			}
		}
		if rebuilt.I == nil {
			r.Bad(rule, fmt.Sprintf("%s: element tree rebuilt after the Signature was stored", p.FnName(fn)), p.InstrPos(sst), "the emitted tree is the pre-signature build")
			continue
		}
		r.OK(rule, fmt.Sprintf("%s: element tree rebuilt after the Signature was stored", p.FnName(fn)), p.InstrPos(rebuilt.I), "Element() dominated by the Signature store")
		nOut := 0
		rg.Each(func(x RI) {
			st, ok := x.I.(*ssa.Store)
			if !ok {
				return
			}
			fa, ok := st.Addr.(*ssa.FieldAddr)
			if !ok || fieldName(fa.X.Type(), fa.Field) != so.outField || !typeIs(fa.X.Type(), modPath, "IdpAuthnRequest") {
				return
			}
			nOut++
			c2 := fmt.Sprintf("%s: %s <- the signed tree (or its ciphertext)", p.FnName(fn), so.outField)
			okOut := false
			why := "the element emitted is neither the rebuilt signed tree nor an EncryptedAssertion holding its ciphertext: " + a.Ctx(st.Parent()).AP(st.Val)
			if rg.IsFrom(RV{V: st.Val, C: x.C}, rebuilt) {
				okOut = true
			} else if so.outField == "AssertionEl" {
				okOut, why = encryptedFrom(rg, RV{V: st.Val, C: x.C}, rebuilt)
			}
			r.Check(okOut, rule, c2+" ["+p.InstrPos(st)+"]", p.InstrPos(st), "signed tree / ciphertext of the signed tree", why)
		})
		if nOut == 0 {
			r.Bad(rule, p.FnName(fn)+": "+so.outField+" written", p.Pos(fn.Pos()), "never written")
		}
		if so.objType == "Response" {
			// the assertion element is added to the rebuilt response tree
			added := false
			for _, x := range rg.Calls("(*" + etreePath + ".Element).AddChild") {
				c := x.I.(*ssa.Call)
				// (the added element as the function under test names it: a helper's parameter is what it was handed)
				addedOK := strings.HasSuffix(rg.Ctx(a, x.C).AP(c.Call.Args[1]), "IdpAuthnRequest.AssertionEl")
				for _, o := range rg.Origins(RV{V: c.Call.Args[1], C: x.C}) {
					if strings.HasSuffix(rg.Ctx(a, o.C).AP(o.V), "IdpAuthnRequest.AssertionEl") {
						addedOK = true
					}
				}
				if !addedOK {
					continue
				}
				if rg.IsFrom(RV{V: c.Call.Args[0], C: x.C}, rebuilt) {
					added = true
				}
				// the rebuilt tree stored into the request first and read back from it (req.ResponseEl = el;
				// req.ResponseEl.AddChild(...))
				if strings.HasSuffix(a.Ctx(c.Parent()).AP(c.Call.Args[0]), "IdpAuthnRequest."+so.outField) {
					rg.Each(func(y RI) {
						st, ok := y.I.(*ssa.Store)
						if !ok {
							return
						}
						fa, ok := st.Addr.(*ssa.FieldAddr)
						if ok && fieldName(fa.X.Type(), fa.Field) == so.outField && typeIs(fa.X.Type(), modPath, "IdpAuthnRequest") && rg.IsFrom(RV{V: st.Val, C: y.C}, rebuilt) && rg.Before(y, x) {
							added = true
						}
					})
				}
			}
			r.Check(added, rule, p.FnName(fn)+": the (signed/encrypted) assertion element is added to the signed response tree", p.InstrPos(rebuilt.I), "AddChild(req.AssertionEl)", "the emitted response tree does not contain req.AssertionEl")
		}
	}
	// who may write the emitted elements
	for _, fn := range p.modFns {
		if !p.InLibrary(fn) {
			continue
		}
		for _, b := range fn.Blocks {
			for _, in := range b.Instrs {
				st, ok := in.(*ssa.Store)
				if !ok {
					continue
				}
				fa, ok := st.Addr.(*ssa.FieldAddr)
				if !ok || !typeIs(fa.X.Type(), modPath, "IdpAuthnRequest") {
					continue
				}
				f := fieldName(fa.X.Type(), fa.Field)
				if rg := emitters[f]; rg != nil && !rg.in[fn] {
					r.Bad(rule, fmt.Sprintf("%s: writes IdpAuthnRequest.%s", p.FnName(fn), f), p.InstrPos(in), "the emitted element is written outside the sign-then-emit function")
				}
			}
		}
	}
	// builders re-embed the stored Signature
	for _, tn := range []string{"Assertion", "Response"} {
		fn := p.MustFunc("saml", tn, "Element")
		a := NewAnalysis(p)
		B := a.B
		fc := a.Ctx(fn)
		fc.ensureConds()
		ok := false
		rgE := NewRegion(p, fn, 2) // the builder with the helpers it shares with the other builders
		for _, x := range rgE.Calls("(*" + etreePath + ".Element).AddChild") {
			c := x.I.(*ssa.Call)
			xfc := rgE.Ctx(a, x.C)
			xfc.ensureConds()
			ap := xfc.AP(c.Call.Args[1])
			if strings.HasSuffix(ap, tn+".Signature") {
				nm := "isnil(" + ap + ")"
				if B.HasVar(nm) && B.Implies(xfc.AbsCond(c.Block()), B.Not(B.Var(nm))) {
					ok = true
				}
			}
		}
		_ = fc
		r.Check(ok, rule, p.FnName(fn)+": re-embeds the stored Signature when present", p.Pos(fn.Pos()), "AddChild(Signature) under Signature != nil", "the builder does not add the stored Signature element: the rebuilt tree is unsigned")
	}
}

// encryptedFrom: v is an element whose only added child is Encrypt(cert, bytes) with bytes the
// serialisation of a document rooted at signed (looked for across the region).
func encryptedFrom(rg *Region, v RV, signed RI) (bool, string) {
	p := rg.P
	// the element object(s) v stands for
	objs := rg.Origins(v)
	var adds []RI
	for _, x := range rg.Calls("(*" + etreePath + ".Element).AddChild") {
		c := x.I.(*ssa.Call)
		hit := false
		for _, o2 := range rg.Origins(RV{V: c.Call.Args[0], C: x.C}) {
			for _, o := range objs {
				if o2.V == o.V && o2.C == o.C {
					hit = true
				}
			}
		}
		if hit {
			adds = append(adds, x)
		}
	}
	if len(adds) != 1 {
		return false, fmt.Sprintf("the EncryptedAssertion element gets %d children (expected exactly the EncryptedData)", len(adds))
	}
	var enc RI
	for _, o := range rg.Origins(RV{V: adds[0].I.(*ssa.Call).Call.Args[1], C: adds[0].C}) {
		if ex, ok := o.V.(*ssa.Extract); ok {
			if c, ok := ex.Tuple.(*ssa.Call); ok && (c.Call.IsInvoke() && c.Call.Method.Name() == "Encrypt" || c.Call.StaticCallee() != nil && c.Call.StaticCallee().Name() == "Encrypt") {
				enc = RI{c, o.C}
			}
		}
	}
	if enc.I == nil {
		return false, "the child of the EncryptedAssertion is not the result of an Encrypt call"
	}
	// plaintext argument: bytes of a document whose root is the signed tree
	var pt ssa.Value
	for _, ar := range enc.I.(*ssa.Call).Call.Args {
		if strings.Contains(ar.Type().String(), "[]byte") && !isNilConst(ar) {
			pt = ar
			break
		}
	}
	if pt == nil {
		return false, "no plaintext argument found on the Encrypt call"
	}
	okRoot := false
	for _, o := range rg.Origins(RV{V: pt, C: enc.C}) {
		fn := enc.I.Parent()
		if o.C != nil {
			fn = o.C.fn
		}
		if el := serialisedElement(p, fn, o.V); el != nil && rg.IsFrom(RV{V: el, C: o.C}, signed) {
			okRoot = true
		}
	}
	if !okRoot {
		return false, "the plaintext handed to Encrypt is not the serialisation of the signed assertion tree"
	}
	return true, ""
}

func checkC06Post(r *Report, p *Prog) {
	rule := "C06.post"
	pb := p.MustFunc("saml", "IdpAuthnRequest", "PostBinding")
	a := NewAnalysis(p)
	B := a.B
	fc := a.Ctx(pb)
	fc.ensureConds()
	t := NewTable(r, a, pb)
	// binding gate
	var bind string
	for _, ai := range t.atomsIn() {
		if ai.Kind == "eq" && (strings.HasSuffix(ai.Args[0], "ACSEndpoint.Binding") || strings.HasSuffix(ai.Args[1], "ACSEndpoint.Binding")) && strings.Contains(ai.Name, "HTTP-POST") || ai.Kind == "eq" && strings.Contains(ai.Name, "ACSEndpoint.Binding") && strings.Contains(ai.Name, "HTTPPostBinding") {
			bind = ai.Name
		}
	}
	if bind == "" {
		t.Row(rule, "the selected endpoint is not an HTTP-POST endpoint", B.True, "ACSEndpoint.Binding == HTTPPostBinding")
	} else {
		t.Know(bind)
		t.Row(rule, "the selected endpoint is not an HTTP-POST endpoint", B.Not(t.V(bind)))
	}
	// SAMLResponse = base64(serialisation of req.ResponseEl)
	if st := oneField(r, rule, pb, fc, modPath, "IdpAuthnRequestForm", "SAMLResponse"); st != nil {
		ok := false
		detail := fc.AP(st.Val)
		// (the encoding may sit in a small helper and the text may wear a defined string type on the way:
		// string(encodeMessage(buf)))
		vfc, vv := fc, st.Val
		for i := 0; i < 4; i++ {
			_, peeled := throughParams(nil, vv)
			nfc, nv := vfc.valueOfPureCall(peeled)
			if nv == vv {
				break
			}
			vfc, vv = nfc, nv
		}
		if c, okc := vv.(*ssa.Call); okc && c.Call.StaticCallee() != nil && strings.HasSuffix(c.Call.StaticCallee().String(), "Encoding).EncodeToString") {
			_, buf := throughParams(vfc, c.Call.Args[1])
			// the bytes are the serialisation of a document rooted at req.ResponseEl (directly, or through a helper that
			// wraps its element argument in a fresh document)
			if el := serialisedElement(p, pb, buf); el != nil && strings.HasSuffix(fc.AP(el), "IdpAuthnRequest.ResponseEl") {
				ok = true
			}
			enc := vfc.AP(c.Call.Args[0])
			if !strings.Contains(enc, "StdEncoding") {
				ok = false
				detail += " (encoding " + enc + ")"
			}
		}
		r.Check(ok, rule, p.FnName(pb)+": SAMLResponse = base64 of the serialised signed response tree", p.InstrPos(st), detail, "the form field is not the standard base64 of the serialisation of req.ResponseEl: "+detail)
	}
	// ResponseEl nil => MakeResponse called and its error is a reject
	for _, c := range methodCallsOn(pb, "(*"+modPath+".IdpAuthnRequest).MakeResponse") {
		nm := "isnil(" + fc.AP(c) + ")"
		okE := B.HasVar(nm) && B.Implies(B.Not(B.Var(nm)), B.Or(t.Reject, B.Not(fc.Cond(c.Block()))))
		r.Check(okE, rule, p.FnName(pb)+": a failure to build the response is reported", p.InstrPos(c), "MakeResponse error => reject", "the form is produced although building/signing the response failed")
	}
	// WriteResponse: only the executed template is written (the function with the helpers it is split into)
	wr := p.MustFunc("saml", "IdpAuthnRequest", "WriteResponse")
	a2 := NewAnalysis(p)
	f2 := a2.Ctx(wr)
	f2.ensureConds()
	r.Fn(p.FnName(wr))
	n := 0
	rgw := NewRegion(p, wr, 2)
	rootW := ssa.Value(wr.Params[len(wr.Params)-1])
	execs := rgw.Calls("(*html/template.Template).Execute")
	rgw.Each(func(x RI) {
		c, ok := x.I.(*ssa.Call)
		if !ok {
			return
		}
		isW := func(v ssa.Value) bool {
			for _, o := range rgw.Origins(RV{V: rootIface(v), C: x.C}) {
				if rootIface(o.V) == rootW {
					return true
				}
			}
			return false
		}
		if !isReplyCall(&c.Call, isW) {
			return
		}
		n++
		ok2 := false
		if src := replySource(c); src != nil {
			// source buffer was filled by Template.Execute(buf, form) with form from PostBinding under err == nil
			fx := rgw.Ctx(a2, x.C)
			fx.ensureConds()
			for _, e := range execs {
				ex := e.I.(*ssa.Call)
				if e.C != x.C {
					continue
				}
				if !(derivesFrom(src, rootIface(ex.Call.Args[1]), 0) || rootIface(src) == rootIface(ex.Call.Args[1])) {
					continue
				}
				fromPB := false
				for _, o := range rgw.Origins(RV{V: ex.Call.Args[2], C: e.C}) {
					if strings.Contains(rgw.Ctx(a2, o.C).AP(o.V), "PostBinding") {
						fromPB = true
					}
				}
				nm := "isnil(" + fx.AP(ex) + ")"
				if fromPB && a2.B.HasVar(nm) && fx.Implied(x.I.Block(), a2.B.Var(nm)) {
					ok2 = true
				}
			}
		}
		r.Check(ok2, rule, p.FnName(wr)+": the reply body is the executed html/template over the PostBinding form", p.InstrPos(x.I), "io.Copy(w, buffer filled by Template.Execute)", "bytes other than the executed form template are written to the response")
	})
	if n == 0 {
		r.Bad(rule, p.FnName(wr)+": reply", p.Pos(wr.Pos()), "nothing is written to the response")
	}
}

// replySource: the buffer whose content a reply call writes as it is: io.Copy(w, buf), buf.WriteTo(w), w.Write(buf.Bytes()),
// fmt.Fprint(w, buf.String()) and fmt.Fprintf(w, "%s", buf.Bytes() or buf.String()).
func replySource(c *ssa.Call) ssa.Value {
	content := func(v ssa.Value) ssa.Value {
		v = rootIface(v)
		if cc, ok := v.(*ssa.Call); ok && (calleeIs(cc, "(*bytes.Buffer).Bytes") || calleeIs(cc, "(*bytes.Buffer).String")) {
			return cc.Call.Args[0]
		}
		return nil
	}
	variadic := func(v ssa.Value) []ssa.Value {
		if sl, ok := v.(*ssa.Slice); ok {
			if al, ok := sl.X.(*ssa.Alloc); ok && al.Comment == "varargs" {
				return arrayLiteralElems(al)
			}
		}
		return nil
	}
	switch {
	case calleeIs(c, "io.Copy"):
		return c.Call.Args[1]
	case calleeIs(c, "(*bytes.Buffer).WriteTo"):
		return c.Call.Args[0]
	case c.Call.IsInvoke() && c.Call.Method.Name() == "Write" && len(c.Call.Args) == 1:
		return content(c.Call.Args[0])
	case calleeIs(c, "fmt.Fprint") && len(c.Call.Args) == 2:
		if el := variadic(c.Call.Args[1]); len(el) == 1 {
			return content(el[0])
		}
	case calleeIs(c, "fmt.Fprintf") && len(c.Call.Args) == 3:
		if f, ok := constStr(c.Call.Args[1]); ok && f == "%s" {
			if el := variadic(c.Call.Args[2]); len(el) == 1 {
				return content(el[0])
			}
		}
	}
	return nil
}

func rootIface(v ssa.Value) ssa.Value {
	for i := 0; i < 4; i++ {
		switch x := v.(type) {
		case *ssa.MakeInterface:
			v = x.X
		case *ssa.ChangeInterface:
			v = x.X
		default:
			return v
		}
	}
	return v
}

func checkC06Ctx(r *Report, p *Prog) {
	rule := "C06.ctx"
	// role: the function that builds the IdP's signing context: the IdpAuthnRequest method that returns
	// (*dsig.SigningContext, error), or a plain function with that result that an IdpAuthnRequest method calls (then the
	// rule is read from that method, so that the IdP is still "req.IDP")
	var fn, root *ssa.Function
	for _, f := range p.modFns {
		if f.Signature.Recv() != nil && isMethodOf(f, "IdpAuthnRequest") && p.InLibrary(f) && f.Signature.Results().Len() == 2 && typeIs(f.Signature.Results().At(0).Type(), "github.com/russellhaering/goxmldsig", "SigningContext") {
			fn, root = f, f
		}
	}
	if fn == nil {
		var cands []*ssa.Function
		for _, f := range p.modFns {
			if !p.InLibrary(f) || f.Pkg == nil || f.Pkg.Pkg.Path() != modPath || f.Signature.Results().Len() != 2 || !typeIs(f.Signature.Results().At(0).Type(), "github.com/russellhaering/goxmldsig", "SigningContext") {
				continue
			}
			forIdP := false
			for _, prm := range f.Params {
				if typeIs(prm.Type(), modPath, "IdentityProvider") || typeIs(prm.Type(), modPath, "IdpAuthnRequest") {
					forIdP = true
				}
			}
			if forIdP {
				cands = append(cands, f)
			}
		}
		for _, cand := range cands {
			for _, mth := range sortedFns(p, fnSet(p.modFns)) {
				if root != nil || !p.InLibrary(mth) || mth.Signature.Recv() == nil || !isMethodOf(mth, "IdpAuthnRequest") {
					continue
				}
				for _, hf := range helperRegion(p, mth, 2) {
					if hf == cand {
						fn, root = cand, mth
					}
				}
			}
		}
	}
	if fn == nil {
		panic(unresolved{"IdpAuthnRequest method returning (*dsig.SigningContext, error)"})
	}
	a := NewAnalysis(p)
	B := a.B
	r.Fn(p.FnName(fn))
	// the construction may be split over helpers (an IdentityProvider method building the context): one body
	rg := NewRegion(p, root, 3)
	fc := a.Ctx(fn)
	for _, c := range rg.all {
		if c.fn == fn {
			fc = rg.Ctx(a, c)
			break
		}
	}
	fc.ensureConds()
	// key / signer
	okKey := false
	for _, x := range rg.Calls(dsigPath + ".NewSigningContext") {
		if strings.HasSuffix(rg.Ctx(a, x.C).AP(x.I.(*ssa.Call).Call.Args[0]), "IdpAuthnRequest.IDP.Signer") {
			okKey = true
		}
	}
	okPriv, okChain := false, false
	chainWhy := "the chain handed to the signing context does not start with the IdP's certificate"
	for _, c := range rg.all {
		cfc := rg.Ctx(a, c)
		r.Fn(p.FnName(c.fn))
		lf := litFields(c.fn, "crypto/tls", "Certificate")
		if len(lf["PrivateKey"]) == 1 && strings.HasSuffix(cfc.AP(lf["PrivateKey"][0].Val), "IdpAuthnRequest.IDP.Key") {
			okPriv = true
		}
		// chain starts with the IdP certificate
		for _, b := range c.fn.Blocks {
			for _, in := range b.Instrs {
				if st, ok := in.(*ssa.Store); ok {
					if ia, ok := st.Addr.(*ssa.IndexAddr); ok {
						if k, ok := constInt(ia.Index); ok && k == 0 && strings.HasSuffix(cfc.AP(st.Val), "IdpAuthnRequest.IDP.Certificate.Raw") {
							okChain = true
							if why := headOverwritten(p, ia.X, st); why != "" {
								okChain = false
								chainWhy = why
							}
						}
					}
				}
			}
		}
	}
	r.Check(okKey && okPriv, rule, p.FnName(fn)+": signs with the IdP's Signer, else the IdP's Key", p.Pos(fn.Pos()), "Signer / Key of req.IDP", "the signing key does not come from the IdP configuration")
	r.Check(okChain, rule, p.FnName(fn)+": certificate chain starts with the IdP certificate", p.Pos(fn.Pos()), "chain[0] = req.IDP.Certificate.Raw", chainWhy)
	// method
	for _, c := range methodCallsOn(fn, "(*"+dsigPath+".SigningContext).SetSignatureMethod") {
		var ls []string
		okM := true
		for _, lfv := range rootLeaves(c.Call.Args[1], map[ssa.Value]bool{}) {
			ap := fc.AP(lfv)
			ls = append(ls, ap)
			if !(strings.HasSuffix(ap, "IdpAuthnRequest.IDP.SignatureMethod") || strings.Contains(ap, "rsa-sha1")) {
				okM = false
			}
		}
		r.Check(okM, rule, p.FnName(fn)+": signature method is the configured one (RSA-SHA1 only as the default)", p.InstrPos(c), strings.Join(ls, " | "), "signature method comes from "+strings.Join(ls, " | "))
		nm := "isnil(" + fc.AP(c) + ")"
		okE := true
		for _, ret := range fc.Returns() {
			if isNilConst(Resolve(ret.Results[1])) {
				if !B.HasVar(nm) || !fc.Implied(ret.Block(), B.Var(nm)) {
					okE = false
				}
			}
		}
		r.Check(okE, rule, p.FnName(fn)+": an unsupported signature method is an error", p.InstrPos(c), "success return under SetSignatureMethod == nil", "a signing context is returned although the signature method was rejected")
	}
}

// checkRouting: the three places where the response's target is written use the selected registered
// endpoint (shared by C05: "never a location that appears only in the request").
func checkRouting(r *Report, p *Prog, rule string) {
	a := NewAnalysis(p)
	fn := assertionMakerFn(p)
	expectAP(r, rule, fn, a.Ctx(fn), modPath, "SubjectConfirmationData", "Recipient", "IdpAuthnRequest.ACSEndpoint.Location", "the selected registered endpoint")
	mr := p.MustFunc("saml", "IdpAuthnRequest", "MakeResponse")
	expectAP(r, rule, mr, a.Ctx(mr), modPath, "Response", "Destination", "IdpAuthnRequest.ACSEndpoint.Location", "the selected registered endpoint")
	pb := p.MustFunc("saml", "IdpAuthnRequest", "PostBinding")
	expectAP(r, rule, pb, a.Ctx(pb), modPath, "IdpAuthnRequestForm", "URL", "IdpAuthnRequest.ACSEndpoint.Location", "the selected registered endpoint")
}

// helperLitFields: assignments of typ.field inside library functions that fn calls and whose first result is (a pointer
// to) typ - a composite literal factored out into a constructor helper.
func helperLitFields(p *Prog, fn *ssa.Function, pkg, typ, field string) []*ssa.Store {
	var out []*ssa.Store
	seen := map[*ssa.Function]bool{}
	for _, b := range fn.Blocks {
		for _, in := range b.Instrs {
			c, ok := in.(*ssa.Call)
			if !ok || c.Call.StaticCallee() == nil {
				continue
			}
			h := c.Call.StaticCallee()
			if seen[h] || !p.InLibrary(h) || len(h.Blocks) == 0 || h.Signature.Results().Len() == 0 {
				continue
			}
			if !typeIs(h.Signature.Results().At(0).Type(), pkg, typ) {
				continue
			}
			seen[h] = true
			out = append(out, litFields(h, pkg, typ)[field]...)
		}
	}
	if len(out) == 0 {
		// a part (Issuer, Status) of an object that an unexported helper of the function builds
		for _, h := range helperRegion(p, fn, 2) {
			if h == fn || seen[h] || !p.InLibrary(h) {
				continue
			}
			seen[h] = true
			out = append(out, litFields(h, pkg, typ)[field]...)
		}
	}
	return out
}

// apInCaller: the access path of v, a value of a helper that fn calls (directly, at exactly one site), in fn's terms;
// in the helper's own terms when the call site cannot be identified.
func apInCaller(fc *FuncCtx, v ssa.Value, home *ssa.Function) string {
	if home == nil || home == fc.Fn {
		return fc.AP(v)
	}
	var site *ssa.Call
	n := 0
	for _, b := range fc.Fn.Blocks {
		for _, in := range b.Instrs {
			if c, ok := in.(*ssa.Call); ok && c.Call.StaticCallee() == home {
				site = c
				n++
			}
		}
	}
	if n == 1 {
		return fc.inlineCtx(home, site.Call.Args, site).AP(v)
	}
	return fc.A.Ctx(home).AP(v)
}

// headOverwritten: base is the array or slice whose element 0 the store first writes; reports another element store
// into it that may also land on index 0 (a second constant 0, or a computed index not of the form induction+k, k >= 1).
func headOverwritten(p *Prog, base ssa.Value, first *ssa.Store) string {
	if base.Referrers() == nil {
		return ""
	}
	for _, rf := range *base.Referrers() {
		ia, ok := rf.(*ssa.IndexAddr)
		if !ok || ia.X != base {
			continue
		}
		for _, r2 := range *ia.Referrers() {
			st, ok := r2.(*ssa.Store)
			if !ok || st.Addr != ssa.Value(ia) || st == first {
				continue
			}
			if k, ok := constInt(ia.Index); ok {
				if k == 0 {
					return "element 0 of the chain is written a second time at " + p.InstrPos(st)
				}
				continue
			}
			if bo, ok := ia.Index.(*ssa.BinOp); ok && bo.Op == token.ADD {
				if k, ok := constInt(bo.Y); ok && k >= 1 && nonNegInduction(bo.X) {
					continue
				}
				if k, ok := constInt(bo.X); ok && k >= 1 && nonNegInduction(bo.Y) {
					continue
				}
			}
			return "an element store at a computed index that may be 0 (" + p.InstrPos(st) + ") can overwrite the leaf certificate at the head of the chain"
		}
	}
	return ""
}

// literalWithoutField: the local struct is built field by field in its function (never assigned as a whole, address not
// passed on) and the named field is never stored: it is the zero value in every copy.
func literalWithoutField(al *ssa.Alloc, field string) bool {
	if al.Referrers() == nil {
		return false
	}
	for _, rf := range *al.Referrers() {
		switch u := rf.(type) {
		case *ssa.FieldAddr:
			for _, r2 := range *u.Referrers() {
				st, ok := r2.(*ssa.Store)
				if !ok {
					if _, isLoad := r2.(*ssa.UnOp); isLoad {
						continue
					}
					if _, isDbg := r2.(*ssa.DebugRef); isDbg {
						continue
					}
					return false
				}
				if st.Addr != ssa.Value(u) || fieldName(u.X.Type(), u.Field) == field {
					return false
				}
			}
		case *ssa.UnOp, *ssa.DebugRef:
		default:
			return false
		}
	}
	return true
}

// orderSensitiveLoop: the body of the loop over rg accumulates in iteration order: it appends, concatenates strings,
// writes to a buffer or adds to an etree element. (Stores into a map or into indexed positions do not depend on the order.)
func orderSensitiveLoop(rg *ssa.Range) string {
	var header *ssa.BasicBlock
	for _, ref := range *rg.Referrers() {
		if nx, ok := ref.(*ssa.Next); ok {
			header = nx.Block()
		}
	}
	if header == nil {
		return ""
	}
	for _, b := range header.Parent().Blocks {
		if !inNaturalLoop(header, b) {
			continue
		}
		for _, in := range b.Instrs {
			switch x := in.(type) {
			case *ssa.BinOp:
				if bt, ok := x.Type().Underlying().(*types.Basic); ok && bt.Info()&types.IsString != 0 && x.Op == token.ADD {
					return "string concatenation"
				}
			case ssa.CallInstruction:
				if bi, ok := x.Common().Value.(*ssa.Builtin); ok && bi.Name() == "append" {
					return "append"
				}
				if sc := x.Common().StaticCallee(); sc != nil {
					n := sc.String()
					if strings.Contains(n, etreePath+".") || strings.HasPrefix(n, "(*bytes.Buffer).Write") || strings.HasPrefix(n, "(*strings.Builder).Write") || strings.HasPrefix(n, "fmt.Fprint") {
						return n
					}
				}
			}
		}
	}
	return ""
}
