package main

import (
	"go/token"
	"sort"
	"strings"

	"golang.org/x/tools/go/ssa"
)

// localFieldDefs: when v is (a conversion of) a load from a field of a struct variable local to the function, the
// definitions of that field that reach the load, found by walking the flow graph backwards from the load: a store to the
// same field of the same variable (described by the access path of what is stored), a call that is handed the variable's
// address (a decoder filling it: "set by <callee>"), a store of a whole value into the variable ("whole value"), or the
// zero value at the function's entry. The access path of a field names the field, not the moment it is read: two reads
// of `user.Name`, one before and one after `user.Name = r.PathValue("id")`, are two different data. ok is false when v is
// not such a load.
func localFieldDefs(fc *FuncCtx, v ssa.Value) (defs []string, single ssa.Value, ok bool) {
	for i := 0; i < 8; i++ {
		switch x := v.(type) {
		case *ssa.MakeInterface:
			v = x.X
			continue
		case *ssa.ChangeType:
			v = x.X
			continue
		case *ssa.Convert:
			v = x.X
			continue
		}
		break
	}
	ld, isLd := v.(*ssa.UnOp)
	if !isLd || ld.Op != token.MUL {
		return nil, nil, false
	}
	fa, isFA := ld.X.(*ssa.FieldAddr)
	if !isFA {
		return nil, nil, false
	}
	al, isAl := fa.X.(*ssa.Alloc)
	if !isAl || al.Parent() != ld.Parent() {
		return nil, nil, false
	}
	sameField := func(addr ssa.Value) bool {
		o, isO := addr.(*ssa.FieldAddr)
		return isO && o.X == al && o.Field == fa.Field
	}
	handsAddr := func(c *ssa.CallCommon) bool {
		for _, arg := range c.Args {
			r := arg
			for i := 0; i < 4; i++ {
				switch y := r.(type) {
				case *ssa.MakeInterface:
					r = y.X
					continue
				case *ssa.ChangeType:
					r = y.X
					continue
				}
				break
			}
			if r == ssa.Value(al) {
				return true
			}
			if o, isO := r.(*ssa.FieldAddr); isO && o.X == al && o.Field == fa.Field {
				return true
			}
		}
		return false
	}
	set := map[string]bool{}
	var stores []ssa.Value
	seen := map[*ssa.BasicBlock]bool{}
	var walk func(b *ssa.BasicBlock, from int)
	walk = func(b *ssa.BasicBlock, from int) {
		for i := from; i >= 0; i-- {
			switch x := b.Instrs[i].(type) {
			case *ssa.Store:
				if sameField(x.Addr) {
					set["= "+fc.AP(x.Val)] = true
					stores = append(stores, x.Val)
					return
				}
				if x.Addr == ssa.Value(al) {
					set["whole value "+fc.AP(x.Val)] = true
					stores = append(stores, nil)
					return
				}
			case *ssa.Call:
				if handsAddr(&x.Call) {
					set["set by "+calleeName(&x.Call)] = true
					stores = append(stores, nil)
					return
				}
			case *ssa.Defer:
				if handsAddr(&x.Call) {
					continue // runs at exit
				}
			case *ssa.Go:
				if handsAddr(&x.Call) {
					set["set by goroutine "+calleeName(&x.Call)] = true
					stores = append(stores, nil)
					return
				}
			}
		}
		if len(b.Preds) == 0 {
			set["zero value"] = true
			stores = append(stores, nil)
			return
		}
		for _, pb := range b.Preds {
			if !seen[pb] {
				seen[pb] = true
				walk(pb, len(pb.Instrs)-1)
			}
		}
	}
	idx := -1
	for i, in := range ld.Block().Instrs {
		if in == ssa.Instruction(ld) {
			idx = i
		}
	}
	if idx < 0 {
		return nil, nil, false
	}
	walk(ld.Block(), idx-1)
	for d := range set {
		defs = append(defs, d)
	}
	sort.Strings(defs)
	if len(set) == 1 && len(stores) >= 1 && stores[0] != nil {
		single = stores[0]
		for _, s := range stores {
			if s != single {
				single = nil
			}
		}
	}
	return defs, single, true
}

// keyDatumAt: the description of the datum that fills a store key, as of the moment it is read.
func keyDatumAt(fc *FuncCtx, datum ssa.Value, ap string) string {
	defs, single, ok := localFieldDefs(fc, datum)
	if !ok {
		return ap
	}
	if single != nil {
		return fc.AP(single)
	}
	return ap + " «" + strings.Join(defs, " | ") + "»"
}
