package main

// Region: a function together with the unexported helpers of its package that it calls (transitively, bounded), seen
// as one body. Rules that order steps ("signed, then stored, then rebuilt, then emitted") or follow a value from one
// step to the next are stated over the region, so that moving a block of the function into a helper leaves them
// unchanged. Every helper that is called from exactly one site of the region has a position in its caller; a helper
// with several call sites is part of the region for searches but has no position (order questions about its
// instructions answer "unknown" = false).

import (
	"fmt"
	"go/token"
	"go/types"
	"os"
	"sort"

	"golang.org/x/tools/go/ssa"
)

// rctx is one activation of a function of the region: the chain of call sites from the root.
type rctx struct {
	fn     *ssa.Function
	site   ssa.CallInstruction // call site in parent.fn (nil for the root)
	parent *rctx
	kids   map[ssa.CallInstruction]*rctx
	depth  int
}

// RI / RV: an instruction / a value in one activation.
type RI struct {
	I ssa.Instruction
	C *rctx
}
type RV struct {
	V   ssa.Value
	C   *rctx
	Via []RB // blocks whose conditions select this alternative (predecessors of the phi edges it came through, and the blocks of the helper returns it came through)
}

// RB: a block in one activation.
type RB struct {
	B *ssa.BasicBlock
	C *rctx
}

type Region struct {
	P    *Prog
	Root *ssa.Function
	Fns  []*ssa.Function
	in   map[*ssa.Function]bool
	top  *rctx
	all  []*rctx
}

// NewRegion expands root and the unexported helpers of its package it calls (to the given depth) into a tree of
// activations: a helper called from two sites is two activations, so "the tree is built, signed, then built again" is
// seen as two builds even when both go through one helper.
func NewRegion(p *Prog, root *ssa.Function, depth int) *Region {
	r := &Region{P: p, Root: root, in: map[*ssa.Function]bool{}}
	r.Fns = helperRegion(p, root, depth)
	for _, f := range r.Fns {
		r.in[f] = true
	}
	r.top = &rctx{fn: root, kids: map[ssa.CallInstruction]*rctx{}}
	var expand func(c *rctx, onPath map[*ssa.Function]bool)
	expand = func(c *rctx, onPath map[*ssa.Function]bool) {
		r.all = append(r.all, c)
		if c.depth >= depth || len(r.all) > 256 {
			return
		}
		for _, b := range c.fn.Blocks {
			for _, in := range b.Instrs {
				ci, ok := in.(ssa.CallInstruction)
				if !ok {
					continue
				}
				sc, _ := calleeOf(ci.Common())
				if sc == nil || !r.in[sc] || sc == root || onPath[sc] {
					continue
				}
				k := &rctx{fn: sc, site: ci, parent: c, kids: map[ssa.CallInstruction]*rctx{}, depth: c.depth + 1}
				c.kids[ci] = k
				onPath[sc] = true
				expand(k, onPath)
				delete(onPath, sc)
			}
		}
	}
	expand(r.top, map[*ssa.Function]bool{root: true})
	return r
}

// Calls lists the executions, in the region, of calls whose callee has the given canonical name.
func (r *Region) Calls(full string) []RI {
	var out []RI
	for _, c := range r.all {
		for _, call := range methodCallsOn(c.fn, full) {
			out = append(out, RI{call, c})
		}
	}
	return out
}

// Each visits every instruction execution of the region.
func (r *Region) Each(visit func(x RI)) {
	for _, c := range r.all {
		for _, b := range c.fn.Blocks {
			for _, in := range b.Instrs {
				visit(RI{in, c})
			}
		}
	}
}

// pos: the call sites from the root down to the instruction.
func (x RI) pos() []ssa.Instruction {
	var rev []ssa.Instruction
	rev = append(rev, x.I)
	for c := x.C; c != nil && c.site != nil; c = c.parent {
		rev = append(rev, c.site.(ssa.Instruction))
	}
	for i, j := 0, len(rev)-1; i < j; i, j = i+1, j-1 {
		rev[i], rev[j] = rev[j], rev[i]
	}
	return rev
}

// Before: x is executed before y on every path that executes y (dominance, lifted through the call sites).
func (r *Region) Before(x, y RI) bool {
	px, py := x.pos(), y.pos()
	for k := 0; k < len(px) && k < len(py); k++ {
		if px[k] != py[k] {
			if px[k].Parent() != py[k].Parent() {
				return false
			}
			return domOrSame(px[k], py[k])
		}
	}
	return false
}

// SiteIn: the instruction of activation c through which x is executed (x.I itself if x belongs to c); nil if x is
// not executed inside c.
func (r *Region) SiteIn(c *rctx, x RI) ssa.Instruction {
	cur := x.I
	for cc := x.C; cc != nil; cc = cc.parent {
		if cc == c {
			return cur
		}
		if cc.site == nil {
			return nil
		}
		cur = cc.site.(ssa.Instruction)
	}
	return nil
}

// Origins: the values v can stand for, traced backwards through phis, loads of single-store locals, results of
// region helpers (their non-nil return values, in the helper's activation) and parameters (the argument at the
// activation's call site).
func (r *Region) Origins(v RV) []RV {
	type key struct {
		v ssa.Value
		c *rctx
	}
	seen := map[key]bool{}
	var out []RV
	var walk func(v ssa.Value, c *rctx, via []RB, d int)
	walk = func(v ssa.Value, c *rctx, via []RB, d int) {
		if v == nil || seen[key{v, c}] || d > 24 {
			return
		}
		seen[key{v, c}] = true
		switch x := v.(type) {
		case *ssa.Phi:
			for i, e := range x.Edges {
				nv := append(append([]RB{}, via...), RB{x.Block().Preds[i], c})
				walk(e, c, nv, d+1)
			}
			return
		case *ssa.MakeInterface:
			walk(x.X, c, via, d+1)
			return
		case *ssa.ChangeInterface:
			walk(x.X, c, via, d+1)
			return
		case *ssa.ChangeType:
			walk(x.X, c, via, d+1)
			return
		case *ssa.Convert:
			if isStringType(x.Type()) == isStringType(x.X.Type()) {
				walk(x.X, c, via, d+1)
				return
			}
		case *ssa.Field:
			// field of an element of a local table that a loop ranges over: the values the table holds in that field
			if vals := tableFieldValues(x.X, x.Field); len(vals) > 0 {
				for _, tv := range vals {
					walk(tv, c, via, d+1)
				}
				return
			}
			// field of a struct value that is a literal built elsewhere in the region (a helper's result, an argument)
			if r.walkLiteralField(RV{V: x.X, C: c}, x.Field, func(fv RV) { walk(fv.V, fv.C, append(append([]RB{}, via...), fv.Via...), d+1) }) {
				return
			}
		case *ssa.UnOp:
			if rv := Resolve(x); rv != ssa.Value(x) {
				walk(rv, c, via, d+1)
				return
			}
			if al, ok := x.X.(*ssa.Alloc); ok {
				if sv := wholeStore(al); sv != nil {
					walk(sv, c, via, d+1)
					return
				}
				// a variable that a function literal captures and nothing reassigns: the value it was given
				if sv := capturedSingleStore(al); sv != nil {
					if st := storeOf(al); st != nil && (st.Block() == x.Block() || st.Block().Dominates(x.Block())) {
						walk(sv, c, via, d+1)
						return
					}
				}
			}
			// inside a function literal called in place: a captured variable is what the declaring function gave it
			if fv, ok := x.X.(*ssa.FreeVar); ok && c != nil {
				if sv := capturedValue(x); sv != ssa.Value(x) && fv.Parent() != nil {
					pc := c.parent
					for pc != nil && pc.fn != fv.Parent().Parent() {
						pc = pc.parent
					}
					if pc != nil {
						walk(sv, pc, via, d+1)
						return
					}
				}
			}
			if ia, ok := x.X.(*ssa.IndexAddr); ok && isInduction(ia.Index) {
				// element, selected by a loop index, of a literal (or of a variadic parameter: the arguments of the call)
				handled, opaque := false, false
				for _, bo := range r.Origins(RV{V: ia.X, C: c}) {
					lit := false
					if sl, ok := bo.V.(*ssa.Slice); ok {
						if al, ok := sl.X.(*ssa.Alloc); ok && sl.Low == nil && sl.High == nil {
							if elems := arrayLiteralElems(al); len(elems) > 0 {
								for _, e := range elems {
									walk(e, bo.C, via, d+1)
								}
								handled, lit = true, true
							}
						}
					}
					if !lit {
						opaque = true
					}
				}
				if handled {
					if opaque {
						// some alternative of the list is not a literal (an append onto it, a computed slice): the element
						// read from it stays an origin of its own
						out = append(out, RV{V: v, C: c, Via: via})
					}
					return
				}
			}
			if fa, ok := x.X.(*ssa.FieldAddr); ok {
				// field of a struct parameter (spilled to a local): the field of the literal the caller passed
				if al, ok := fa.X.(*ssa.Alloc); ok {
					if sv := wholeStore(al); sv != nil {
						if _, isStruct := sv.Type().Underlying().(*types.Struct); isStruct {
							if r.walkLiteralField(RV{V: sv, C: c}, fa.Field, func(fv RV) { walk(fv.V, fv.C, append(append([]RB{}, via...), fv.Via...), d+1) }) {
								return
							}
						}
					}
				}
			}
			if fa, ok := x.X.(*ssa.FieldAddr); ok {
				if vals := tableFieldValues(fa.X, fa.Field); len(vals) > 0 {
					for _, tv := range vals {
						walk(tv, c, via, d+1)
					}
					return
				}
			}
		case *ssa.Parameter:
			if c != nil && c.site != nil {
				for i, q := range c.fn.Params {
					if q == x && i < len(c.site.Common().Args) {
						walk(c.site.Common().Args[i], c.parent, via, d+1)
						return
					}
				}
			}
		case *ssa.Extract:
			if call, ok := x.Tuple.(*ssa.Call); ok && c != nil {
				if k := c.kids[call]; k != nil && !r.opaque(k.fn) {
					for _, ret := range returnsOf(k.fn) {
						if x.Index < len(ret.Results) && !isNilConst(Resolve(ret.Results[x.Index])) {
							nv := append(append([]RB{}, via...), RB{ret.Block(), k})
							walk(ret.Results[x.Index], k, nv, d+1)
						}
					}
					return
				}
			}
		case *ssa.Call:
			if ops := cmpOrOperands(x); len(ops) >= 2 {
				for _, o := range ops {
					walk(o, c, via, d+1)
				}
				return
			}
			if c != nil {
				if k := c.kids[x]; k != nil && !r.opaque(k.fn) && x.Call.Signature().Results().Len() == 1 {
					for _, ret := range returnsOf(k.fn) {
						if len(ret.Results) == 1 && !isNilConst(Resolve(ret.Results[0])) {
							nv := append(append([]RB{}, via...), RB{ret.Block(), k})
							walk(ret.Results[0], k, nv, d+1)
						}
					}
					return
				}
			}
		}
		out = append(out, RV{V: v, C: c, Via: via})
	}
	walk(v.V, v.C, v.Via, 0)
	return out
}

var dbgRegion = os.Getenv("VERIF_DEBUG") == "region"
var os2 = os.Stderr

// walkLiteralField: sv is a struct value; for every origin of it that is a composite literal (a local assigned field by
// field) calls visit with what the literal stores into field fld; reports whether every origin was such a literal.
func (r *Region) walkLiteralField(sv RV, fld int, visit func(RV)) bool {
	os := r.Origins(sv)
	if dbgRegion {
		for _, o := range os {
			fmt.Fprintf(os2, "WLF %s fld=%d origin %T %s\n", sv.V.Name(), fld, o.V, o.V.String())
		}
	}
	if len(os) == 0 {
		return false
	}
	var vals []RV
	for _, o := range os {
		var al *ssa.Alloc
		switch y := o.V.(type) {
		case *ssa.Alloc:
			al = y
		case *ssa.UnOp:
			al, _ = y.X.(*ssa.Alloc)
		}
		if al == nil {
			return false
		}
		var st *ssa.Store
		n := 0
		for _, rf := range *al.Referrers() {
			if fa, ok := rf.(*ssa.FieldAddr); ok && fa.Field == fld {
				for _, r2 := range *fa.Referrers() {
					if s2, ok := r2.(*ssa.Store); ok && s2.Addr == ssa.Value(fa) {
						st = s2
						n++
					}
				}
			}
		}
		if n > 1 && onlyFieldAccess(al) {
			// a result struct filled in step by step (completion.uri = fallback; ...; completion.uri = tracked.URI): every
			// assignment of the field is an alternative, selected by the condition of its block
			for _, rf := range *al.Referrers() {
				if fa, ok := rf.(*ssa.FieldAddr); ok && fa.Field == fld {
					for _, r2 := range *fa.Referrers() {
						if s2, ok := r2.(*ssa.Store); ok && s2.Addr == ssa.Value(fa) {
							vals = append(vals, RV{V: s2.Val, C: o.C, Via: append(append([]RB{}, o.Via...), RB{s2.Block(), o.C})})
						}
					}
				}
			}
			continue
		}
		if n != 1 {
			return false
		}
		vals = append(vals, RV{V: st.Val, C: o.C, Via: o.Via})
	}
	for _, v := range vals {
		visit(v)
	}
	return true
}

// tableFieldValues: base is (the address of, or a copy of) an element, selected by a loop index, of an array or slice
// literal built in the same function; returns what the literal stores into field fld of its elements.
func tableFieldValues(base ssa.Value, fld int) []ssa.Value {
	// peel: copy of the element (load of &tbl[i]) or local holding that copy
	for i := 0; i < 4; i++ {
		switch x := base.(type) {
		case *ssa.UnOp:
			base = x.X
			continue
		case *ssa.Alloc:
			if sv := wholeStore(x); sv != nil {
				base = sv
				continue
			}
		}
		break
	}
	ia, ok := base.(*ssa.IndexAddr)
	if !ok || !isInduction(ia.Index) {
		return nil
	}
	var al *ssa.Alloc
	switch y := ia.X.(type) {
	case *ssa.Alloc:
		al = y
	case *ssa.Slice:
		al, _ = y.X.(*ssa.Alloc)
	}
	if al == nil {
		return nil
	}
	var out []ssa.Value
	for _, rf := range *al.Referrers() {
		ea, ok := rf.(*ssa.IndexAddr)
		if !ok {
			continue
		}
		if _, isConst := ea.Index.(*ssa.Const); !isConst {
			continue
		}
		for _, r2 := range *ea.Referrers() {
			if fa, ok := r2.(*ssa.FieldAddr); ok && fa.Field == fld {
				for _, r3 := range *fa.Referrers() {
					if st, ok := r3.(*ssa.Store); ok && st.Addr == ssa.Value(fa) {
						out = append(out, st.Val)
					}
				}
			}
		}
	}
	return out
}

// opaque: helpers that rules treat as one step (the module's serialisers): their results are origins themselves.
func (r *Region) opaque(fn *ssa.Function) bool {
	return serialisers(r.P)[fn] != nil || elementSerialiserParam(r.P, fn, 0) >= 0
}

// IsFrom: some origin of v is the result of the call execution src.
func (r *Region) IsFrom(v RV, src RI) bool {
	sv, ok := src.I.(ssa.Value)
	if !ok {
		return false
	}
	for _, o := range r.Origins(v) {
		if o.V == sv && o.C == src.C {
			return true
		}
	}
	return false
}

// DerivesFrom: v is obtained from the result of src by field/index/extract/type-assert/method steps, following
// values across the helpers of the region.
func (r *Region) DerivesFrom(v RV, src RI) bool {
	sv, ok := src.I.(ssa.Value)
	if !ok {
		return false
	}
	return r.derives(v, RV{V: sv, C: src.C}, 0)
}

func (r *Region) derives(v, src RV, depth int) bool {
	if depth > 10 {
		return false
	}
	for _, o := range r.Origins(v) {
		if o.V == src.V && o.C == src.C {
			return true
		}
		var next ssa.Value
		switch x := o.V.(type) {
		case *ssa.UnOp:
			next = x.X
		case *ssa.FieldAddr:
			next = x.X
		case *ssa.IndexAddr:
			next = x.X
		case *ssa.Index:
			next = x.X
		case *ssa.Extract:
			next = x.Tuple
		case *ssa.TypeAssert:
			next = x.X
		case *ssa.Call:
			if x.Call.StaticCallee() != nil && len(x.Call.Args) > 0 && x.Call.StaticCallee().Signature.Recv() != nil {
				next = x.Call.Args[0]
			}
		}
		if next != nil && r.derives(RV{V: next, C: o.C}, src, depth+1) {
			return true
		}
	}
	return false
}

func returnsOf(fn *ssa.Function) []*ssa.Return {
	var out []*ssa.Return
	for _, b := range fn.Blocks {
		if len(b.Instrs) == 0 || b == fn.Recover {
			continue
		}
		if r, ok := b.Instrs[len(b.Instrs)-1].(*ssa.Return); ok {
			out = append(out, r)
		}
	}
	return out
}

// serialisedElement: v is the serialisation (Document.WriteToBytes, directly or through the module's serialiser
// helpers) of a document whose root was set, in the same function, to the returned element; or the result of a helper
// that builds a fresh document around its element parameter and returns that serialisation (then the element is the
// argument). nil if v is not recognisably the serialisation of one element.
func serialisedElement(p *Prog, fn *ssa.Function, v ssa.Value) ssa.Value {
	for _, lf := range rootLeaves(v, map[ssa.Value]bool{}) {
		if isNilConst(lf) {
			continue
		}
		// bytes passed through a byte filter of the module (the attribute '>' escaper written out after the write): what
		// went in (the filter itself is judged by the escape rules)
		if fcall, ok := lf.(*ssa.Call); ok {
			if sc := fcall.Call.StaticCallee(); sc != nil && p.InLibrary(sc) && len(fcall.Call.Args) == 1 && sc.Signature.Recv() == nil &&
				types.TypeString(sc.Signature.Params().At(0).Type(), nil) == "[]byte" && sc.Signature.Results().Len() == 1 && types.TypeString(sc.Signature.Results().At(0).Type(), nil) == "[]byte" {
				return serialisedElement(p, fn, fcall.Call.Args[0])
			}
		}
		if doc, _, _ := serialisationOf(p, lf); doc != nil {
			for _, c := range methodCallsOn(fn, "(*"+etreePath+".Document).SetRoot") {
				if c.Call.Args[0] == doc {
					return c.Call.Args[1]
				}
			}
			return nil
		}
		if ex, ok := lf.(*ssa.Extract); ok && ex.Index == 0 {
			if c, ok := ex.Tuple.(*ssa.Call); ok {
				if sc := c.Call.StaticCallee(); sc != nil && p.InModule(sc) {
					if i := elementSerialiserParam(p, sc, 0); i >= 0 && i < len(c.Call.Args) {
						return c.Call.Args[i]
					}
				}
			}
		}
		return nil
	}
	return nil
}

// elementSerialiserParam: fn returns (bytes, error) where every non-nil bytes result is the serialisation of a document
// rooted at one and the same *etree.Element parameter; returns that parameter's index, or -1.
func elementSerialiserParam(p *Prog, fn *ssa.Function, depth int) int {
	if depth > 2 || len(fn.Blocks) == 0 || fn.Signature.Results().Len() != 2 || fn.Signature.Results().At(0).Type().String() != "[]byte" || errIndex(fn) != 1 {
		return -1
	}
	idx := -1
	n := 0
	for _, ret := range returnsOf(fn) {
		rv := Resolve(ret.Results[0])
		if isNilConst(rv) {
			continue
		}
		n++
		el := serialisedElementD(p, fn, rv, depth+1)
		prm, ok := el.(*ssa.Parameter)
		if !ok {
			return -1
		}
		for i, q := range fn.Params {
			if q == prm {
				if idx >= 0 && idx != i {
					return -1
				}
				idx = i
			}
		}
	}
	if n == 0 {
		return -1
	}
	return idx
}

func serialisedElementD(p *Prog, fn *ssa.Function, v ssa.Value, depth int) ssa.Value {
	for _, lf := range rootLeaves(v, map[ssa.Value]bool{}) {
		if isNilConst(lf) {
			continue
		}
		if doc, _, _ := serialisationOf(p, lf); doc != nil {
			for _, c := range methodCallsOn(fn, "(*"+etreePath+".Document).SetRoot") {
				if c.Call.Args[0] == doc {
					return c.Call.Args[1]
				}
			}
			return nil
		}
		if ex, ok := lf.(*ssa.Extract); ok && ex.Index == 0 {
			if c, ok := ex.Tuple.(*ssa.Call); ok {
				if sc := c.Call.StaticCallee(); sc != nil && p.InModule(sc) {
					if i := elementSerialiserParam(p, sc, depth); i >= 0 && i < len(c.Call.Args) {
						return c.Call.Args[i]
					}
				}
			}
		}
		return nil
	}
	return nil
}

// Ctx: the analysis context of activation c: the root's own context, and for a helper the context of the callee bound
// to the arguments of its call site (so access paths inside the helper are expressed over the root's values).
func (r *Region) Ctx(a *Analysis, c *rctx) *FuncCtx {
	if c == nil || c.parent == nil {
		return a.Ctx(r.Root)
	}
	call, ok := c.site.(*ssa.Call)
	if !ok {
		return a.Ctx(c.fn)
	}
	return r.Ctx(a, c.parent).inlineCtx(c.fn, call.Call.Args, call)
}

// concatSeqs: the alternatives of a string value as sequences of concatenated leaves (string + and phis), following
// the value through the helpers of the region; values for which atomic returns true are kept whole.
func (r *Region) concatSeqs(v RV, atomic func(RV) bool, depth int) [][]RV {
	if depth > 14 || (atomic != nil && atomic(v)) {
		return [][]RV{{v}}
	}
	switch x := v.V.(type) {
	case *ssa.BinOp:
		if x.Op == token.ADD && isStringType(x.Type()) {
			var out [][]RV
			for _, l := range r.concatSeqs(RV{V: x.X, C: v.C}, atomic, depth+1) {
				for _, rr := range r.concatSeqs(RV{V: x.Y, C: v.C}, atomic, depth+1) {
					out = append(out, append(append([]RV{}, l...), rr...))
				}
			}
			if len(out) > 64 {
				out = out[:64]
			}
			return out
		}
	case *ssa.Phi:
		var out [][]RV
		for _, e := range x.Edges {
			out = append(out, r.concatSeqs(RV{V: e, C: v.C}, atomic, depth+1)...)
		}
		return out
	case *ssa.Call:
		// the text of a local strings.Builder / bytes.Buffer at this read: what was written on each path to it
		if alts := builderSeqs(x); alts != nil {
			var out [][]RV
			for _, alt := range alts {
				out = append(out, r.concatParts(alt, v.C, atomic, depth)...)
				if len(out) > 64 {
					return out[:64]
				}
			}
			return out
		}
		// strings.Join(parts, "sep") over a slice assembled by appends
		if sc := x.Call.StaticCallee(); sc != nil && sc.String() == "strings.Join" && len(x.Call.Args) == 2 {
			if _, isC := x.Call.Args[1].(*ssa.Const); isC {
				if lists := sliceAlternatives(x.Call.Args[0], 0); lists != nil {
					var out [][]RV
					for _, l := range lists {
						var parts []ssa.Value
						for i, e := range l {
							if i > 0 {
								parts = append(parts, x.Call.Args[1])
							}
							parts = append(parts, e)
						}
						out = append(out, r.concatParts(parts, v.C, atomic, depth)...)
						if len(out) > 64 {
							return out[:64]
						}
					}
					return out
				}
			}
		}
	}
	os := r.Origins(RV{V: v.V, C: v.C})
	if len(os) == 1 && os[0].V == v.V && os[0].C == v.C {
		return [][]RV{{v}}
	}
	var out [][]RV
	for _, o := range os {
		if o.V == v.V && o.C == v.C {
			out = append(out, []RV{o})
			continue
		}
		out = append(out, r.concatSeqs(RV{V: o.V, C: o.C}, atomic, depth+1)...)
	}
	return out
}

// concatParts: the alternatives of the concatenation of parts (values of activation c), each part expanded in turn.
func (r *Region) concatParts(parts []ssa.Value, c *rctx, atomic func(RV) bool, depth int) [][]RV {
	out := [][]RV{{}}
	for _, pv := range parts {
		alts := r.concatSeqs(RV{V: pv, C: c}, atomic, depth+1)
		var next [][]RV
		for _, l := range out {
			for _, a := range alts {
				next = append(next, append(append([]RV{}, l...), a...))
				if len(next) > 64 {
					break
				}
			}
		}
		out = next
	}
	return out
}

// builderSeqs: c reads (String) a strings.Builder / bytes.Buffer that is a local of its function and is only written by
// WriteString/Write calls outside loops: the sequences of written values, one per distinct way of reaching c. nil if c is
// not such a read.
func builderSeqs(c *ssa.Call) [][]ssa.Value {
	sc := c.Call.StaticCallee()
	if sc == nil || len(c.Call.Args) != 1 {
		return nil
	}
	switch sc.String() {
	case "(*strings.Builder).String", "(*bytes.Buffer).String":
	default:
		return nil
	}
	al, ok := c.Call.Args[0].(*ssa.Alloc)
	if !ok || al.Referrers() == nil {
		return nil
	}
	writes := map[ssa.Instruction]ssa.Value{}
	for _, rf := range *al.Referrers() {
		switch u := rf.(type) {
		case *ssa.Call:
			usc := u.Call.StaticCallee()
			if usc == nil || len(u.Call.Args) < 1 || u.Call.Args[0] != ssa.Value(al) {
				return nil
			}
			switch usc.Name() {
			case "WriteString", "Write":
				if len(u.Call.Args) != 2 || blockReaches(u.Block(), u.Block()) {
					return nil
				}
				writes[u] = u.Call.Args[1]
			case "String", "Len", "Grow":
			default:
				return nil
			}
		case *ssa.DebugRef:
		case *ssa.Store:
			if u.Addr != ssa.Value(al) {
				return nil
			}
		default:
			return nil
		}
	}
	fn := c.Parent()
	type seqset map[string][]ssa.Value
	key := func(s []ssa.Value) string {
		k := ""
		for _, v := range s {
			k += fmt.Sprintf("%p,", v)
		}
		return k
	}
	in := map[*ssa.BasicBlock]seqset{}
	in[al.Block()] = seqset{"": nil}
	var result seqset
	// blocks in dominator-tree preorder are not a topological order of the acyclic CFG; iterate to a fixed point instead
	// (the sets only grow and are bounded)
	for round := 0; round < len(fn.Blocks)+2; round++ {
		changed := false
		for _, b := range fn.Blocks {
			cur := in[b]
			if cur == nil {
				continue
			}
			out := seqset{}
			for k, s := range cur {
				out[k] = s
			}
			for _, ins := range b.Instrs {
				if ins == ssa.Instruction(c) {
					result = seqset{}
					for k, s := range out {
						result[k] = s
					}
					break
				}
				if wv, ok := writes[ins]; ok {
					nxt := seqset{}
					for _, s := range out {
						ns := append(append([]ssa.Value{}, s...), wv)
						nxt[key(ns)] = ns
					}
					out = nxt
				}
			}
			for _, s := range b.Succs {
				if isBackEdge(b, s) {
					continue
				}
				if in[s] == nil {
					in[s] = seqset{}
				}
				for k, q := range out {
					if _, have := in[s][k]; !have && len(in[s]) < 64 {
						in[s][k] = q
						changed = true
					}
				}
			}
		}
		if !changed {
			break
		}
	}
	if len(result) == 0 {
		return nil
	}
	var keys []string
	for k := range result {
		keys = append(keys, k)
	}
	sort.Strings(keys)
	var out [][]ssa.Value
	for _, k := range keys {
		out = append(out, result[k])
	}
	return out
}

// sliceAlternatives: the element lists a slice value can hold when it is assembled by append calls from an empty slice
// (make([]T, 0, n), nil, a literal) along the paths that reach v; nil if it is anything else.
func sliceAlternatives(v ssa.Value, depth int) [][]ssa.Value {
	if depth > 8 {
		return nil
	}
	switch x := v.(type) {
	case *ssa.Const:
		if x.IsNil() {
			return [][]ssa.Value{{}}
		}
	case *ssa.MakeSlice:
		if isIntConst(x.Len, 0) {
			return [][]ssa.Value{{}}
		}
	case *ssa.Slice:
		if al, ok := x.X.(*ssa.Alloc); ok && x.Low == nil && x.High == nil {
			return [][]ssa.Value{arrayLiteralElems(al)}
		}
		// make([]T, 0, k) with constant k: a zero-length slice of a fresh array
		if al, ok := x.X.(*ssa.Alloc); ok && al.Comment == "makeslice" && x.Low == nil && x.High != nil && isIntConst(x.High, 0) {
			return [][]ssa.Value{{}}
		}
	case *ssa.Phi:
		var out [][]ssa.Value
		for _, e := range x.Edges {
			a := sliceAlternatives(e, depth+1)
			if a == nil {
				return nil
			}
			out = append(out, a...)
		}
		return out
	case *ssa.Call:
		bi, ok := x.Call.Value.(*ssa.Builtin)
		if !ok || bi.Name() != "append" || len(x.Call.Args) != 2 {
			return nil
		}
		base := sliceAlternatives(x.Call.Args[0], depth+1)
		if base == nil {
			return nil
		}
		var added []ssa.Value
		if sl, ok := x.Call.Args[1].(*ssa.Slice); ok {
			al, ok := sl.X.(*ssa.Alloc)
			if !ok || al.Comment != "varargs" {
				return nil
			}
			added = arrayLiteralElems(al)
		} else {
			return nil
		}
		var out [][]ssa.Value
		for _, b := range base {
			out = append(out, append(append([]ssa.Value{}, b...), added...))
		}
		return out
	}
	return nil
}
