package main

import (
	"fmt"
	"go/types"
	"sort"
	"strings"

	"golang.org/x/tools/go/ssa"
)

func init() {
	registry["C18"] = []func(*Report){ruleC18}
}

// ctxsOf: the context of fn and the contexts of the callees analysed as part of it.
func ctxsOf(a *Analysis, top *FuncCtx) []*FuncCtx {
	pfx := a.P.FnName(top.Fn) + "/"
	var out []*FuncCtx
	for _, fc := range a.ctxs {
		if fc == top || strings.HasPrefix(fc.prefix, pfx) {
			out = append(out, fc)
		}
	}
	sort.Slice(out, func(i, j int) bool { return out[i].prefix < out[j].prefix })
	return out
}

type siteCall struct {
	FC   *FuncCtx
	Call *ssa.Call
}

func callsAcross(ctxs []*FuncCtx, pred func(*ssa.Call) bool) []siteCall {
	var out []siteCall
	for _, fc := range ctxs {
		for _, b := range fc.Fn.Blocks {
			for _, in := range b.Instrs {
				if c, ok := in.(*ssa.Call); ok && pred(c) {
					out = append(out, siteCall{fc, c})
				}
			}
		}
	}
	return out
}

func nilAtomOf(sc siteCall) string {
	if sc.Call.Call.Signature().Results().Len() == 1 {
		return "isnil(" + sc.FC.AP(sc.Call) + ")"
	}
	return fmt.Sprintf("isnil(%s#%d)", sc.FC.AP(sc.Call), sc.Call.Call.Signature().Results().Len()-1)
}

func ruleC18(r *Report) {
	p := r.P
	sc := NewScope(p, r.Tier)
	sr := findSigRoles(p)
	r.Trusted("goxmldsig v1.4.0 (signature cryptography)", "etree v1.5.0", "xml-roundtrip-validator v0.1.0")
	r.NotDecided("signature cryptography; redirect-binding detached signatures (an enveloped signature is required, as the statement says)")
	r.Assume("guard atoms are treated as independent propositions; library helpers of the root package are analysed as part of the entry point (inlining bound 3)")
	r.Rule("C18.sig-required", "a logout response is reported valid only under the nil result of the signature validator applied to the root of the parsed document, which is the element that is unmarshalled (an absent signature is a non-nil error, hence a reject)", 3)
	r.Rule("C18.table", "field rows: Destination != SloURL => reject; now > IssueInstant + 1*MaxIssueDelay => reject; Issuer absent or different => reject; status != Success => reject — for both encodings", 5)
	r.Rule("C18.accept", "a signed response meeting all field conditions is reported valid", 1)
	r.Rule("C18.xrv", "the bytes parsed are the bytes the round-trip validator accepted; both encodings", 1)
	r.Rule("C18.inflate", "the redirect variant inflates only through the bounded reader", 1)
	r.Rule("C18.nil", "no dereference of an absent Issuer or a rootless document on the logout path", 1)
	r.Rule("C18.roots", "the signature validator the logout path relies on trusts only roots derived from SP configuration (shared with C01.roots: signing-use key descriptors, the fingerprint-matched certificate, the pinned certificate)", 3)
	safely(r, func() { checkRootsAs(r, &spModel{P: p, Sc: sc}, sr, "C18.roots") })
	// freshness is judged on the instant the text denotes: the parse obligations of C15.ms, borrowed
	r.Rule("C18.instants", "IssueInstant is read as the instant its text denotes: every parse arm of RelaxedTime stores Round(Millisecond) of what time.Parse returned, nothing else (C15.ms, borrowed) — a zone offset that is dropped or re-labelled shifts the freshness window", 3)
	r.borrow("C15.ms", "C18.instants", func() { checkRelaxedTime(r, p) })
	// ... and the decoder of the logout response supplies no instant of its own (a missing IssueInstant read as "now")
	safely(r, func() {
		checkDecodersPure(r, p, "C18.instants", func(tn string) bool { return tn == "LogoutResponse" || tn == "Status" || tn == "StatusCode" })
	})

	// the request-level entry point reports valid only what one of the two validators reported valid (a method it does not
	// serve must not fall through to "no error")
	r.Rule("C18.entry", "the request-level entry point returns nil only under the nil result of the form validator or of the redirect validator", 1)
	safely(r, func() { checkLogoutEntry(r, p, "C18.entry") })

	opaque := map[*ssa.Function]bool{}
	for _, v := range sr.Validators {
		opaque[v] = true
	}
	for f := range sr.Unmarshal {
		opaque[f] = true
	}
	for f := range sr.Finders {
		opaque[f] = true
	}
	for _, f := range p.FuncsCalling(decompressors...) {
		opaque[f] = true
	}
	policy := func(f *ssa.Function) bool {
		return p.InLibrary(f) && f.Pkg != nil && f.Pkg.Pkg.Path() == modPath && !opaque[f] && (errIndex(f) >= 0 || isPredicate(f) || returnsResultStruct(f))
	}
	entries := []*ssa.Function{
		p.MustFunc("saml", "ServiceProvider", "ValidateLogoutResponseForm"),
		p.MustFunc("saml", "ServiceProvider", "ValidateLogoutResponseRedirect"),
	}
	allFns := map[*ssa.Function]bool{}
	for _, fn := range entries {
		a := NewAnalysis(p)
		a.Inline = policy
		B := a.B
		t := NewTable(r, a, fn)
		accept := B.Not(t.Reject)
		ctxs := ctxsOf(a, t.FC)
		for _, fc := range ctxs {
			allFns[fc.Fn] = true
			r.Fn(p.FnName(fc.Fn))
		}
		isV := func(c *ssa.Call) bool {
			for _, v := range sr.Validators {
				if c.Call.StaticCallee() == v {
					return true
				}
			}
			return false
		}
		vcalls := callsAcross(ctxs, isV)
		ucalls := callsAcross(ctxs, func(c *ssa.Call) bool {
			_, target, isU := unmarshalSiteOf(p, sr, c)
			if !isU || target == nil {
				return false
			}
			if mi, ok := target.(*ssa.MakeInterface); ok {
				return typeIs(mi.X.Type(), modPath, "LogoutResponse")
			}
			return false
		})
		cons := t.name + ": valid only under a verified enveloped signature on the unmarshalled root"
		switch {
		case len(ucalls) != 1:
			r.Bad("C18.sig-required", cons, p.Pos(fn.Pos()), fmt.Sprintf("%d unmarshal sites of a LogoutResponse on this path (expected one)", len(ucalls)))
		default:
			u := ucalls[0]
			uel, _, _ := unmarshalSiteOf(p, sr, u.Call)
			if uel == nil {
				uel = u.Call.Call.Args[0]
			}
			elAP := u.FC.AP(uel)
			sig := B.False
			var seen []string
			for _, vc := range vcalls {
				ei := elementParam(vc.Call.Call.StaticCallee())
				if ei < 0 {
					continue
				}
				vap := vc.FC.AP(vc.Call.Call.Args[ei])
				seen = append(seen, vap)
				if vap == elAP && B.HasVar(nilAtomOf(vc)) {
					sig = B.Or(sig, B.Var(nilAtomOf(vc)))
				}
			}
			ok := sig != B.False && B.Implies(accept, sig)
			why := "a nil result is reachable without the signature validator having accepted the unmarshalled root"
			if sig == B.False {
				why = fmt.Sprintf("the signature validator is applied to %v, the element unmarshalled is %s", seen, elAP)
			} else if !ok {
				why += ": e.g. under " + firstCube(B, B.And(accept, B.Not(sig)))
			}
			r.Check(ok, "C18.sig-required", cons, p.InstrPos(u.Call), "accept => validator("+elAP+") == nil", why)
			r.Check(strings.HasSuffix(elAP, ".Root()") || isDocumentRoot(p, u.FC, u.Call.Call.Args[0], 0), "C18.sig-required", t.name+": the unmarshalled element is the document root", p.InstrPos(u.Call), elAP, "the element unmarshalled is "+elAP+", not the root of the parsed document")
			// the unmarshal itself must have succeeded
			ua := nilAtomOf(u)
			r.Check(B.HasVar(ua) && B.Implies(accept, B.Var(ua)), "C18.sig-required", t.name+": valid only if the response unmarshalled", p.InstrPos(u.Call), "accept => unmarshal == nil", "a response that failed to unmarshal can be reported valid")
		}

		// field rows
		dest := t.One("eq", sfx("LogoutResponse.Destination"), exact("ServiceProvider.SloURL.String()"))
		issNil := t.One("isnil", sfx("LogoutResponse.Issuer"))
		issEq := t.One("eq", sfx("LogoutResponse.Issuer.Value"), exact("ServiceProvider.IDPMetadata.EntityID"))
		status := t.One("eq", sfx("LogoutResponse.Status.StatusCode.Value"), has("StatusSuccess"))
		rw := func(what, atom, missing string, pos bool) {
			if atom == "" {
				t.Row("C18.table", what, B.True, missing)
				return
			}
			f := t.V(atom)
			if !pos {
				f = B.Not(f)
			}
			t.Row("C18.table", what, f)
		}
		rw("Destination differs from the SP's logout URL", dest, "Destination == SloURL.String()", false)
		rw("Issuer differs from the IdP entity ID", issEq, "Issuer.Value == IDPMetadata.EntityID", false)
		rw("Issuer absent", issNil, "Issuer == nil", true)
		rw("status is not Success", status, "Status.StatusCode.Value == StatusSuccess", false)
		tm := t.TimeRow("C18.table", "LogoutResponse.IssueInstant", +1, "MaxIssueDelay", 1, func(s string) bool {
			return strings.Contains(s, "time.Now#") || strings.Contains(s, "TimeNow") || s == "now"
		}, nil)
		for _, ai := range t.atomsIn() {
			if ai.Kind == "before" && !t.known[ai.Name] {
				r.Bad("C18.table", fmt.Sprintf("%s: extra time comparison %s", t.name, ai.Name), p.InstrPos(ai.Instr), "a time-dependent reject outside the documented window")
			}
		}
		good := map[string]bool{dest: true, issNil: false, issEq: true, status: true, tm: false}
		for _, ai := range t.atomsIn() {
			if ai.Kind == "isnil" && strings.HasSuffix(ai.Args[0], ".Root()") {
				good[ai.Name] = false
				t.Know(ai.Name)
			}
			if ai.Kind == "isnil" && strings.HasPrefix(ai.Args[0], "r:") {
				t.Know(ai.Name)
			}
		}
		t.Accept("C18.accept", "signed, parsed and all field conditions met", good, []string{".Destination", ".Issuer", ".StatusCode", "IssueInstant", "SloURL"})
		t.Unknown("C18.table", []string{".Destination", ".Issuer", ".StatusCode", "SloURL"})

		// xrv: accept => validator(bytes) == nil, and the bytes parsed are those bytes
		xcalls := callsAcross(ctxs, func(c *ssa.Call) bool {
			return calleeIs(c, "github.com/mattermost/xml-roundtrip-validator.Validate")
		})
		pcalls := callsAcross(ctxs, func(c *ssa.Call) bool {
			return calleeIs(c, "(*github.com/beevik/etree.Document).ReadFromBytes") || calleeIs(c, "(*github.com/beevik/etree.Document).ReadFromString")
		})
		xc := t.name + ": parsed bytes passed the round-trip validator"
		okX := false
		detail := fmt.Sprintf("%d validator calls, %d parse calls", len(xcalls), len(pcalls))
		if len(pcalls) == 1 {
			pb := pcalls[0].FC.AP(pcalls[0].Call.Call.Args[1])
			for _, x := range xcalls {
				if wb := readerBytes(x.Call.Call.Args[0]); wb != nil && x.FC.AP(wb) == pb {
					na := nilAtomOf(x)
					if B.HasVar(na) && B.Implies(accept, B.Var(na)) {
						okX = true
						detail = "accept => xrv.Validate(" + pb + ") == nil"
					}
				}
			}
			if !okX {
				detail = "the document is parsed from " + pb + " without that value having passed the round-trip validator on every accepting path"
			}
		}
		r.Check(okX, "C18.xrv", xc, p.Pos(fn.Pos()), detail, detail)
	}

	// inflate: no raw decompressor on the logout path; the redirect variant reads through the bounded reader
	for _, f := range sortedFns(p, allFns) {
		for _, ci := range callsTo(f, decompressors...) {
			// the bounded reader built in place (&saferReader{r: flate.NewReader(x)}): the raw reader's only use is the store
			// into the wrapper's field (the wrapper's Read guard is judged by C09.inflate)
			if w := wrappedDecompressor(p, ci.(ssa.Value)); w != nil {
				r.OK("C18.inflate", p.FnName(f)+": inflates through "+w.Obj().Name(), p.InstrPos(ci.(ssa.Instruction)), "raw reader stored only into the bounded wrapper")
				continue
			}
			r.Bad("C18.inflate", p.FnName(f)+": raw decompressing reader", p.InstrPos(ci.(ssa.Instruction)), "unbounded inflate of a peer-provided stream")
		}
		for _, ci := range callsTo(f, "io.ReadAll") {
			arg := ci.Common().Args[0]
			if mi, ok := arg.(*ssa.MakeInterface); ok {
				arg = mi.X
			}
			if ci2, ok := arg.(*ssa.ChangeInterface); ok {
				arg = ci2.X
			}
			if c, ok := arg.(*ssa.Call); ok {
				if scf := c.Call.StaticCallee(); scf != nil && p.InLibrary(scf) && len(callsTo(scf, decompressors...)) > 0 {
					r.OK("C18.inflate", p.FnName(f)+": inflates through "+shortFn(scf), p.InstrPos(ci.(ssa.Instruction)), "bounded inflater (its Read guard is judged by C09.inflate)")
				}
			}
		}
	}
	nr := NewNilRules(r, NewAnalysis(p), sc)
	nr.Check(sortedFns(p, allFns), "C18.nil", "C18.nil")
}

func calleeIs(c *ssa.Call, name string) bool {
	scf := c.Call.StaticCallee()
	return scf != nil && scf.String() == name
}

// isDocumentRoot: v is Document.Root() of a parsed document, possibly handed through a module helper that
// returns it or received as a parameter from callers that all pass it.
func isDocumentRoot(p *Prog, fc *FuncCtx, v ssa.Value, depth int) bool {
	if depth > 5 {
		return false
	}
	if ld, isLoad := v.(*ssa.UnOp); isLoad {
		if c, idx, ok := callComponent(ld); ok && idx < 0 {
			return isDocumentRootComponent(p, fc, c, idx, depth)
		}
	}
	switch x := Resolve(v).(type) {
	case *ssa.Call:
		scf := x.Call.StaticCallee()
		if scf == nil {
			return false
		}
		if scf.String() == "(*github.com/beevik/etree.Document).Root" {
			return true
		}
		if p.InModule(scf) && len(scf.Blocks) > 0 {
			sub := fc.A.Ctx(scf)
			n := 0
			for _, ret := range sub.Returns() {
				if len(ret.Results) == 0 {
					return false
				}
				rv := Resolve(ret.Results[0])
				if isNilConst(rv) {
					continue
				}
				n++
				if !isDocumentRoot(p, sub, rv, depth+1) {
					return false
				}
			}
			return n > 0
		}
	case *ssa.Field:
		// the element field of a helper's result struct
		if c, idx, ok := callComponent(x); ok {
			return isDocumentRootComponent(p, fc, c, idx, depth)
		}
	case *ssa.Extract:
		if x.Index == 0 {
			return isDocumentRoot(p, fc, x.Tuple, depth+1)
		}
	case *ssa.Phi:
		for _, e := range x.Edges {
			if !isDocumentRoot(p, fc, e, depth+1) {
				return false
			}
		}
		return len(x.Edges) > 0
	case *ssa.Parameter:
		idx := -1
		for i, q := range fc.Fn.Params {
			if q == x {
				idx = i
			}
		}
		sites := p.CallersOf(fc.Fn)
		if idx < 0 || len(sites) == 0 || (fc.Fn.Object() != nil && fc.Fn.Object().Exported()) {
			return false
		}
		for _, cs := range sites {
			arg := cs.Arg(idx)
			if arg == nil || !isDocumentRoot(p, fc.A.Ctx(cs.Caller), arg, depth+1) {
				return false
			}
		}
		return true
	}
	return false
}

// returnsResultStruct: the function returns one unexported struct with an error-typed field (a (value, err) pair written
// as a struct).
func returnsResultStruct(f *ssa.Function) bool {
	res := f.Signature.Results()
	if res.Len() != 1 {
		return false
	}
	st, ok := res.At(0).Type().Underlying().(*types.Struct)
	if !ok {
		return false
	}
	for k := 0; k < st.NumFields(); k++ {
		if types.TypeString(st.Field(k).Type(), nil) == "error" {
			return true
		}
	}
	return false
}

func isDocumentRootComponent(p *Prog, fc *FuncCtx, c *ssa.Call, idx int, depth int) bool {
	scf := c.Call.StaticCallee()
	if scf == nil || !p.InModule(scf) || len(scf.Blocks) == 0 {
		return false
	}
	sub := fc.A.Ctx(scf)
	n := 0
	for _, ret := range sub.Returns() {
		rc := retComponent(ret, idx)
		if rc == nil {
			return false
		}
		rv := Resolve(rc)
		if isNilConst(rv) {
			continue
		}
		n++
		if !isDocumentRoot(p, sub, rv, depth+1) {
			return false
		}
	}
	return n > 0
}

// wrappedDecompressor: every use of the decompressing reader v is a store into a field of one module struct type that has
// a Read method of its own: that type. nil otherwise (returned, passed on or read directly).
func wrappedDecompressor(p *Prog, v ssa.Value) *types.Named {
	var wrapper *types.Named
	vals := []ssa.Value{v}
	if tup, ok := v.Type().(*types.Tuple); ok && tup.Len() == 2 && v.Referrers() != nil {
		vals = nil
		for _, rf := range *v.Referrers() {
			if ex, ok := rf.(*ssa.Extract); ok && ex.Index == 0 {
				vals = append(vals, ex)
			}
		}
	}
	n := 0
	for len(vals) > 0 {
		cur := vals[0]
		vals = vals[1:]
		if cur.Referrers() == nil {
			return nil
		}
		for _, rf := range *cur.Referrers() {
			switch y := rf.(type) {
			case *ssa.Store:
				fa, ok := y.Addr.(*ssa.FieldAddr)
				if !ok || y.Val != cur {
					return nil
				}
				nm := namedOf(fa.X.Type())
				if nm == nil || nm.Obj().Pkg() == nil || !strings.HasPrefix(nm.Obj().Pkg().Path(), modPath) || wrapper != nil && wrapper != nm {
					return nil
				}
				wrapper = nm
				n++
			case *ssa.MakeInterface, *ssa.ChangeInterface:
				vals = append(vals, y.(ssa.Value))
			case *ssa.DebugRef, *ssa.Extract:
			default:
				return nil
			}
		}
	}
	if wrapper == nil || n == 0 {
		return nil
	}
	if read := p.SSA.LookupMethod(types.NewPointer(wrapper), wrapper.Obj().Pkg(), "Read"); read == nil || len(read.Blocks) == 0 {
		return nil
	}
	return wrapper
}

// checkLogoutEntry: ValidateLogoutResponseRequest (role: the exported ServiceProvider method taking *http.Request and
// returning only an error, that calls the form and redirect validators) succeeds only when a validator did.
func checkLogoutEntry(r *Report, p *Prog, rule string) {
	n := 0
	for _, fn := range p.modFns {
		if !p.InLibrary(fn) || fn.Signature.Recv() == nil || !typeIs(fn.Signature.Recv().Type(), modPath, "ServiceProvider") || fn.Object() == nil || !fn.Object().Exported() {
			continue
		}
		if fn.Signature.Params().Len() != 1 || types.TypeString(fn.Signature.Params().At(0).Type(), nil) != "*net/http.Request" || fn.Signature.Results().Len() != 1 || errIndex(fn) != 0 {
			continue
		}
		a := NewAnalysis(p)
		B := a.B
		fc := a.Ctx(fn)
		fc.ensureConds()
		validated := B.False
		k := 0
		for _, b := range fn.Blocks {
			for _, in := range b.Instrs {
				c, ok := in.(*ssa.Call)
				if !ok || c.Call.StaticCallee() == nil {
					continue
				}
				sc := c.Call.StaticCallee()
				if sc.Signature.Recv() == nil || !typeIs(sc.Signature.Recv().Type(), modPath, "ServiceProvider") || sc.Signature.Results().Len() != 1 || errIndex(sc) != 0 || !strings.Contains(sc.Name(), "LogoutResponse") {
					continue
				}
				k++
				validated = B.Or(validated, B.And(fc.Cond(b), B.Not(fc.NonNil(c))))
			}
		}
		if k == 0 {
			continue
		}
		n++
		r.Fn(p.FnName(fn))
		accept := B.Not(fc.NotAcceptFormula())
		cons := p.FnName(fn) + ": reports valid only what a validator reported valid"
		if B.Implies(accept, validated) {
			r.OK(rule, cons, p.Pos(fn.Pos()), fmt.Sprintf("every nil return lies under the nil result of one of %d validator calls", k))
		} else {
			r.Bad(rule, cons, p.Pos(fn.Pos()), "the entry point can return nil although neither validator accepted the response: e.g. under "+firstCube(B, B.And(accept, B.Not(validated))))
		}
	}
	if n == 0 {
		r.Undecided(rule, "request-level logout entry point", "-", "no exported ServiceProvider method of *http.Request that calls the logout-response validators found")
	}
}
