package main

import (
	"fmt"
	"strings"

	"golang.org/x/tools/go/ssa"
)

func init() {
	registry["C18"] = []func(*Report){ruleC18}
}

func ruleC18(r *Report) {
	p := r.P
	sc := NewScope(p, r.Tier)
	sr := findSigRoles(p)
	r.Trusted("goxmldsig v1.4.0 (signature cryptography)", "etree v1.5.0", "xml-roundtrip-validator v0.1.0")
	r.NotDecided("signature cryptography; redirect-binding detached signatures (an enveloped signature is required, as the statement says)")
	r.Assume("guard atoms are treated as independent propositions")
	r.Rule("C18.sig-required", "in both logout validators every nil return is dominated by the nil edge of the signature validator applied to the root of the document that is then unmarshalled (an absent signature is a non-nil error, hence a reject)", 2)
	r.Rule("C18.table", "field rows: Destination != SloURL => reject; now > IssueInstant + 1*MaxIssueDelay => reject; Issuer absent or different => reject; status != Success => reject; the field validator's verdict is returned unchanged", 6)
	r.Rule("C18.accept", "a response meeting all field conditions is not rejected by the field validator", 1)
	r.Rule("C18.siblings", "the POST and redirect variants pass the same gates in the same order: round-trip validation, parse, root check, signature, unmarshal, field validation (redirect additionally inflates through the bounded reader)", 8)
	r.Rule("C18.xrv", "the bytes parsed are the bytes validated by the round-trip validator", 2)
	r.Rule("C18.inflate", "the redirect variant inflates only through the bounded reader (no raw flate.NewReader on the logout path)", 1)
	r.Rule("C18.nil", "no dereference of an absent Issuer or a rootless document on the logout path", 3)

	entries := funcsUnmarshallingInto(p, "LogoutResponse")
	var fns []*ssa.Function
	for _, f := range entries {
		if f.Signature.Recv() != nil && typeIs(f.Signature.Recv().Type(), modPath, "ServiceProvider") && f.Object() != nil && f.Object().Exported() {
			fns = append(fns, f)
		}
	}
	if len(fns) != 2 {
		panic(unresolved{fmt.Sprintf("role logout-response validators (exported ServiceProvider methods unmarshalling a LogoutResponse): found %d", len(fns))})
	}
	inline := validatorInline(p, sc)
	var fieldValidator *ssa.Function
	gates := map[*ssa.Function][]string{}
	for _, fn := range fns {
		a := NewAnalysis(p)
		B := a.B
		fc := a.Ctx(fn)
		fc.ensureConds()
		r.Fn(p.FnName(fn))
		vcs := validatorCalls(fc, sr)
		// the unmarshal call and its element
		var um *ssa.Call
		for _, b := range fn.Blocks {
			for _, in := range b.Instrs {
				if c, ok := in.(*ssa.Call); ok {
					if scf := c.Call.StaticCallee(); scf != nil && sr.Unmarshal[scf] {
						um = c
					}
				}
			}
		}
		if um == nil {
			r.Undecided("C18.sig-required", p.FnName(fn)+": unmarshal call", p.Pos(fn.Pos()), "not found")
			continue
		}
		elAP := fc.AP(um.Call.Args[0])
		// every nil return
		nRet := 0
		for _, ret := range fc.Returns() {
			ev := Resolve(ret.Results[0])
			cons := fmt.Sprintf("%s: return %s only after the signature on %s verified", p.FnName(fn), fc.AP(ev), elAP)
			// which returns can be nil? constant nil, or the field validator's result
			mayNil := isNilConst(ev)
			var fvCall *ssa.Call
			if c, ok := ev.(*ssa.Call); ok {
				if scf := c.Call.StaticCallee(); scf != nil && inline(scf) {
					mayNil = true
					fvCall = c
					fieldValidator = scf
				}
			}
			if !mayNil {
				// must be provably non-nil
				if fc.NonNil(ev) != B.True && !(B.Implies(fc.Cond(ret.Block()), fc.NonNil(ev))) {
					r.Bad("C18.sig-required", cons, p.InstrPos(ret), "an error value that may be nil is returned before the signature check")
				}
				continue
			}
			nRet++
			if isNilConst(ev) {
				// a literal nil result must lie under the nil edge of the field validator
				okF := false
				for _, b2 := range fn.Blocks {
					for _, in2 := range b2.Instrs {
						if c2, ok := in2.(*ssa.Call); ok {
							if scf := c2.Call.StaticCallee(); scf != nil && inline(scf) {
								nm := "isnil(" + fc.AP(c2) + ")"
								if B.HasVar(nm) && fc.Implied(ret.Block(), B.Var(nm)) {
									okF = true
								}
							}
						}
					}
				}
				r.Check(okF, "C18.table", fmt.Sprintf("%s: literal nil result only after the field validator accepted", p.FnName(fn)), p.InstrPos(ret),
					"dominated by field validator == nil", "nil is returned without (or regardless of) the field validator's verdict")
			}
			ok := false
			for _, vc := range vcs {
				if vc.ElAP == elAP && B.HasVar(vc.Atom) && fc.Implied(ret.Block(), B.Var(vc.Atom)) {
					ok = true
				}
			}
			r.Check(ok, "C18.sig-required", cons, p.InstrPos(ret), "dominated by validator("+elAP+") == nil", "a nil result is reachable without a verified enveloped signature on the unmarshalled root")
			if fvCall != nil {
				// the validated object is the one unmarshalled
				tgt := um.Call.Args[1]
				if mi, ok := tgt.(*ssa.MakeInterface); ok {
					tgt = mi.X
				}
				same := len(fvCall.Call.Args) >= 2 && fvCall.Call.Args[1] == tgt
				r.Check(same, "C18.table", fmt.Sprintf("%s: field validator applied to the unmarshalled response, verdict returned unchanged", p.FnName(fn)), p.InstrPos(ret),
					"return validator(&resp)", "the field validator is applied to a different object than the one unmarshalled")
			}
		}
		if nRet == 0 {
			r.Bad("C18.sig-required", p.FnName(fn)+": success exits", p.Pos(fn.Pos()), "no return that can be nil was recognised")
		}
		// sibling gates in dominance order
		var seq []string
		type gate struct {
			name string
			call func(c *ssa.Call) bool
		}
		order := []gate{
			{"base64", func(c *ssa.Call) bool { return calleeIs(c, "(*encoding/base64.Encoding).DecodeString") }},
			{"xrv", func(c *ssa.Call) bool { return calleeIs(c, "github.com/mattermost/xml-roundtrip-validator.Validate") }},
			{"parse", func(c *ssa.Call) bool { return calleeIs(c, "(*github.com/beevik/etree.Document).ReadFromBytes") }},
			{"signature", func(c *ssa.Call) bool {
				for _, v := range sr.Validators {
					if c.Call.StaticCallee() == v {
						return true
					}
				}
				return false
			}},
			{"unmarshal", func(c *ssa.Call) bool { scf := c.Call.StaticCallee(); return scf != nil && sr.Unmarshal[scf] }},
			{"fields", func(c *ssa.Call) bool { scf := c.Call.StaticCallee(); return scf != nil && inline(scf) }},
		}
		var prev *ssa.Call
		for _, g := range order {
			var found *ssa.Call
			for _, b := range fn.Blocks {
				for _, in := range b.Instrs {
					if c, ok := in.(*ssa.Call); ok && g.call(c) {
						found = c
					}
				}
			}
			cons := fmt.Sprintf("%s: gate %s present and ordered", p.FnName(fn), g.name)
			if found == nil {
				r.Bad("C18.siblings", cons, p.Pos(fn.Pos()), "gate missing")
				continue
			}
			okOrder := prev == nil || prev.Block() == found.Block() || prev.Block().Dominates(found.Block())
			// each earlier gate's failure must be a reject before this gate: the nil edge of prev dominates found
			if prev != nil && okOrder {
				var nm string
				if prev.Call.Signature().Results().Len() == 1 {
					nm = "isnil(" + fc.AP(prev) + ")"
				} else {
					nm = "isnil(" + fc.AP(prev) + "#1)"
				}
				if B.HasVar(nm) && !fc.Implied(found.Block(), B.Var(nm)) {
					okOrder = false
				}
			}
			r.Check(okOrder, "C18.siblings", cons, p.InstrPos(found), "dominated by the success of the previous gate", "gate is reachable although the previous gate failed or was skipped")
			seq = append(seq, g.name)
			prev = found
		}
		gates[fn] = seq
	}
	if len(fns) == 2 {
		r.Check(strings.Join(gates[fns[0]], ",") == strings.Join(gates[fns[1]], ","), "C18.siblings", "both variants pass the same gate sequence", "-",
			strings.Join(gates[fns[0]], " -> "), fmt.Sprintf("%v vs %v", gates[fns[0]], gates[fns[1]]))
	}

	// field table
	if fieldValidator == nil {
		panic(unresolved{"role logout field validator (error-only function with a *LogoutResponse parameter)"})
	}
	a := NewAnalysis(p)
	B := a.B
	t := NewTable(r, a, fieldValidator)
	dest := t.One("eq", sfx("LogoutResponse.Destination"), exact("ServiceProvider.SloURL.String()"))
	issNil := t.One("isnil", sfx("LogoutResponse.Issuer"))
	issEq := t.One("eq", sfx("LogoutResponse.Issuer.Value"), exact("ServiceProvider.IDPMetadata.EntityID"))
	status := t.One("eq", sfx("LogoutResponse.Status.StatusCode.Value"), has("StatusSuccess"))
	if dest == "" {
		t.Row("C18.table", "Destination differs from the SP's logout URL", B.True, "Destination == SloURL.String()")
	} else {
		t.Row("C18.table", "Destination differs from the SP's logout URL", B.Not(t.V(dest)))
	}
	if issEq == "" {
		t.Row("C18.table", "Issuer differs from the IdP entity ID", B.True, "Issuer.Value == IDPMetadata.EntityID")
	} else {
		t.Row("C18.table", "Issuer differs from the IdP entity ID", B.Not(t.V(issEq)))
	}
	if issNil == "" {
		t.Row("C18.table", "Issuer absent", B.True, "Issuer == nil")
	} else {
		t.Row("C18.table", "Issuer absent", t.V(issNil))
	}
	if status == "" {
		t.Row("C18.table", "status is not Success", B.True, "Status.StatusCode.Value == StatusSuccess")
	} else {
		t.Row("C18.table", "status is not Success", B.Not(t.V(status)))
	}
	tm := t.TimeRow("C18.table", "LogoutResponse.IssueInstant", +1, "MaxIssueDelay", 1, func(s string) bool {
		return strings.Contains(s, "time.Now#") || strings.Contains(s, "TimeNow") || s == "now"
	}, nil)
	for _, ai := range t.atomsIn() {
		if ai.Kind == "before" && !t.known[ai.Name] {
			r.Bad("C18.table", fmt.Sprintf("%s: extra time comparison %s", t.name, ai.Name), p.InstrPos(ai.Instr), "a time-dependent reject outside the documented window")
		}
	}
	good := map[string]bool{dest: true, issNil: false, issEq: true, status: true, tm: false}
	t.Accept("C18.accept", "all field conditions are met", good, []string{".Destination", ".Issuer", ".StatusCode", "IssueInstant", "SloURL"})
	t.Unknown("C18.table", []string{".Destination", ".Issuer", ".StatusCode", "SloURL"})

	// shared rules restricted to the logout path
	logoutFns := map[*ssa.Function]bool{fieldValidator: true}
	for _, f := range fns {
		logoutFns[f] = true
	}
	checkXRV(r, sc, "C18.xrv", sortedFns(p, logoutFns))
	nInfl := 0
	for _, f := range sortedFns(p, logoutFns) {
		for _, ci := range callsTo(f, "compress/flate.NewReader") {
			r.Bad("C18.inflate", p.FnName(f)+": raw flate.NewReader", p.InstrPos(ci.(ssa.Instruction)), "unbounded inflate of a peer-provided stream")
		}
		for _, ci := range callsTo(f, "io.ReadAll") {
			arg := ci.Common().Args[0]
			if mi, ok := arg.(*ssa.MakeInterface); ok {
				arg = mi.X
			}
			if ci2, ok := arg.(*ssa.ChangeInterface); ok {
				arg = ci2.X
			}
			if c, ok := arg.(*ssa.Call); ok {
				if scf := c.Call.StaticCallee(); scf != nil && p.InLibrary(scf) && len(callsTo(scf, "compress/flate.NewReader")) > 0 {
					nInfl++
					r.OK("C18.inflate", p.FnName(f)+": inflates through "+shortFn(scf), p.InstrPos(ci.(ssa.Instruction)), "bounded inflater (its Read guard is judged by C09.inflate)")
				}
			}
		}
	}
	_ = nInfl
	nr := NewNilRules(r, NewAnalysis(p), sc)
	nr.Check(sortedFns(p, logoutFns), "C18.nil", "C18.nil")
}

func calleeIs(c *ssa.Call, name string) bool {
	scf := c.Call.StaticCallee()
	return scf != nil && scf.String() == name
}
