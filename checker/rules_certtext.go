package main

import (
	"fmt"
	"strings"

	"golang.org/x/tools/go/ssa"
)

// checkCertText: C07.cert-text. Metadata documents wrap and indent the base64 text of a certificate; the standard
// decoder skips CR and LF only. In the encryption-certificate selector (with its helpers) the text handed to the base64
// decoder whose result is parsed as the certificate has had all white space removed: regexp `\s` replaced by "",
// strings.Fields joined with "", or a module helper that does one of these. Trimming the ends only refuses certificates
// that are indented or contain blanks, i.e. registered SPs the IdP can then not answer.
func checkCertText(r *Report, p *Prog, rule string) {
	sel, _ := encCertSelector(p)
	a := NewAnalysis(p)
	n := 0
	for _, fn := range helperRegion(p, sel, 2) {
		fc := a.Ctx(fn)
		for _, b := range fn.Blocks {
			for _, in := range b.Instrs {
				c, ok := in.(*ssa.Call)
				if !ok || c.Call.StaticCallee() == nil || c.Call.StaticCallee().String() != "(*encoding/base64.Encoding).DecodeString" {
					continue
				}
				// only the decode that feeds the certificate parser
				feeds := false
				for _, rf := range *c.Referrers() {
					if ex, ok := rf.(*ssa.Extract); ok && ex.Index == 0 {
						for _, r2 := range *ex.Referrers() {
							if pc, ok := r2.(*ssa.Call); ok && pc.Call.StaticCallee() != nil {
								callee := pc.Call.StaticCallee()
								if strings.HasPrefix(callee.String(), "crypto/x509.ParseCertificate") {
									feeds = true
								}
								// (... or a module helper that parses the bytes it is handed)
								if p.InLibrary(callee) && len(callsTo(callee, "crypto/x509.ParseCertificate", "crypto/x509.ParseCertificates")) > 0 {
									feeds = true
								}
							}
							// (the decode sits in a helper of the selector that hands the bytes back)
							if _, isRet := r2.(*ssa.Return); isRet && fn != sel {
								feeds = true
							}
						}
					}
				}
				if !feeds {
					continue
				}
				n++
				r.Fn(p.FnName(fn))
				okS, how := stripsAllSpace(p, c.Call.Args[1], 0)
				r.Check(okS, rule, fmt.Sprintf("%s: certificate text decoded after all white space is removed", p.FnName(fn)), p.InstrPos(in), how,
					"the base64 text of the certificate is decoded as "+fc.AP(c.Call.Args[1])+" ("+how+"): blanks and tabs inside the text (an indented, wrapped certificate) make the decoder fail, and the IdP cannot answer that registered SP")
			}
		}
	}
	if n == 0 {
		r.Undecided(rule, p.FnName(sel)+": base64 decode of the certificate", p.Pos(sel.Pos()), "no base64 decode feeding x509.ParseCertificate found in the selector")
	}
}

// stripsAllSpace: v is a string from which every white-space character has been removed.
func stripsAllSpace(p *Prog, v ssa.Value, depth int) (bool, string) {
	if depth > 4 {
		return false, "too deep"
	}
	v = Resolve(v)
	switch x := v.(type) {
	case *ssa.Phi:
		for _, e := range x.Edges {
			if ok, how := stripsAllSpace(p, e, depth+1); !ok {
				return false, how
			}
		}
		return len(x.Edges) > 0, "every alternative stripped"
	case *ssa.Convert:
		return stripsAllSpace(p, x.X, depth+1)
	case *ssa.ChangeType:
		return stripsAllSpace(p, x.X, depth+1)
	case *ssa.Const:
		return true, "constant"
	case *ssa.Call:
		sc := x.Call.StaticCallee()
		if sc == nil {
			return false, "a dynamic call"
		}
		switch sc.String() {
		case "(*regexp.Regexp).ReplaceAllString", "(*regexp.Regexp).ReplaceAllLiteralString":
			pat := regexpPattern(x.Call.Args[0])
			repl, okR := constStr(x.Call.Args[2])
			if okR && repl == "" && (pat == `\s+` || pat == `\s` || pat == `\s*` || pat == `[\s]+` || pat == `[[:space:]]+` || pat == `\p{Z}|\s`) {
				return true, "regexp " + pat + " replaced by the empty string"
			}
			return false, "regexp " + pat + " replaced by " + repl
		case "strings.Join":
			if sep, ok := constStr(x.Call.Args[1]); ok && sep == "" {
				if fc, ok := Resolve(x.Call.Args[0]).(*ssa.Call); ok && calleeIs(fc, "strings.Fields") {
					return true, "strings.Fields joined without separator"
				}
			}
			return false, "strings.Join of something other than strings.Fields with \"\""
		case "strings.Map":
			return true, "strings.Map (assumed to drop white space)"
		case "strings.TrimSpace", "strings.Trim", "strings.TrimRight", "strings.TrimLeft":
			return false, "only the ends are trimmed (" + sc.Name() + ")"
		}
		if p.InModule(sc) && len(sc.Blocks) > 0 {
			if ret := singleReturn(sc); ret != nil && len(ret.Results) >= 1 {
				return stripsAllSpace(p, ret.Results[0], depth+1)
			}
			// several returns: each must strip
			rets := returnsOf(sc)
			for _, rt := range rets {
				if len(rt.Results) == 0 {
					return false, "helper without result"
				}
				if ok, how := stripsAllSpace(p, rt.Results[0], depth+1); !ok {
					return false, how
				}
			}
			return len(rets) > 0, "module helper " + shortFn(sc)
		}
		return false, "result of " + shortFn(sc)
	}
	return false, fmt.Sprintf("the text as found (%T)", v)
}

// regexpPattern: the constant pattern of the *regexp.Regexp value v (regexp.MustCompile / Compile of a constant, directly
// or through a package-level variable initialised that way).
func regexpPattern(v ssa.Value) string {
	v = Resolve(v)
	if ex, ok := v.(*ssa.Extract); ok {
		v = ex.Tuple
	}
	if c, ok := v.(*ssa.Call); ok && c.Call.StaticCallee() != nil && (calleeIs(c, "regexp.MustCompile") || calleeIs(c, "regexp.Compile")) {
		s, _ := constStr(c.Call.Args[0])
		return s
	}
	if ld, ok := v.(*ssa.UnOp); ok {
		if g, ok := ld.X.(*ssa.Global); ok && g.Pkg != nil {
			if init := g.Pkg.Func("init"); init != nil {
				for _, b := range init.Blocks {
					for _, in := range b.Instrs {
						if st, ok := in.(*ssa.Store); ok && st.Addr == ssa.Value(g) {
							return regexpPattern(st.Val)
						}
					}
				}
			}
		}
	}
	return "?"
}
