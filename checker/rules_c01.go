package main

import (
	"fmt"
	"go/constant"
	"go/types"
	"os"
	"regexp"
	"sort"
	"strings"

	"golang.org/x/tools/go/ssa"
)

func init() {
	registry["C01"] = []func(*Report){ruleC01}
}

const dsigPath = "github.com/russellhaering/goxmldsig"

type sigRoles struct {
	Validators     []*ssa.Function        // functions calling (*dsig.ValidationContext).Validate (the outermost function of such a chain)
	ValidatorParts map[*ssa.Function]bool // helpers the validator was split into (analysed as part of it)
	Finders        map[*ssa.Function]bool
	Unmarshal      map[*ssa.Function]bool // module helpers forwarding to xml.Unmarshal
	Decrypt        map[*ssa.Function]bool // SP decrypt step (returns an element parsed from decrypted bytes)
}

func findSigRoles(p *Prog) *sigRoles {
	sr := &sigRoles{Finders: map[*ssa.Function]bool{}, Unmarshal: map[*ssa.Function]bool{}, Decrypt: map[*ssa.Function]bool{}}
	for _, fn := range p.FuncsCalling("(*" + dsigPath + ".ValidationContext).Validate") {
		if p.InLibrary(fn) {
			sr.Validators = append(sr.Validators, fn)
		}
	}
	if len(sr.Validators) == 0 {
		panic(unresolved{"role signature validator (function calling dsig.ValidationContext.Validate)"})
	}
	// the validator is the outermost function of its chain: when the function that calls Validate is an unexported
	// helper with a single library caller that also takes the element and returns the helper's error (the second half
	// of the validator moved into a function of its own), the caller is the validator and the helper a part of it
	sr.ValidatorParts = map[*ssa.Function]bool{}
	for i, v := range sr.Validators {
		for round := 0; round < 2; round++ {
			if v.Object() != nil && v.Object().Exported() {
				break
			}
			var callers []*ssa.Function
			for _, cs := range p.StaticCallersOf(v) {
				if p.InLibrary(cs.Caller) && (len(callers) == 0 || callers[len(callers)-1] != cs.Caller) {
					callers = append(callers, cs.Caller)
				}
			}
			if len(callers) != 1 || callers[0].Pkg != v.Pkg || errIndex(callers[0]) < 0 {
				break
			}
			w := callers[0]
			takesEl := false
			for _, q := range w.Params {
				if typeIs(q.Type(), "github.com/beevik/etree", "Element") {
					takesEl = true
				}
			}
			if !takesEl || errIndex(w) != w.Signature.Results().Len()-1 || w.Signature.Results().Len() != v.Signature.Results().Len() {
				break
			}
			sr.ValidatorParts[v] = true
			v = w
		}
		sr.Validators[i] = v
	}
	// namespace-aware finders: call NSContext.LookupPrefix and return elements; plus their thin wrappers
	for _, fn := range p.FuncsCalling("(" + dsigPath + "/etreeutils.NSContext).LookupPrefix") {
		if p.InLibrary(fn) && returnsElements(fn) {
			sr.Finders[fn] = true
		}
	}
	if len(sr.Finders) == 0 {
		panic(unresolved{"role namespace-aware finder (function calling NSContext.LookupPrefix and returning elements)"})
	}
	changed := true
	for changed {
		changed = false
		for _, fn := range p.modFns {
			if sr.Finders[fn] || !p.InLibrary(fn) || !returnsElements(fn) || fn.Signature.Recv() != nil {
				continue
			}
			for f := range sr.Finders {
				// a thin wrapper: it hands its own element parameter to the finder (the name may arrive as two strings
				// or as one value)
				for _, ci := range callsTo(fn, f.String()) {
					if args := ci.Common().Args; len(args) > 0 {
						if prm, ok := args[0].(*ssa.Parameter); ok && prm.Parent() == fn && !sr.Finders[fn] {
							sr.Finders[fn] = true
							changed = true
						}
					}
				}
			}
		}
	}
	for _, fn := range p.modFns {
		for _, ci := range callsTo(fn, "encoding/xml.Unmarshal") {
			if _, ok := ci.Common().Args[1].(*ssa.Parameter); ok && p.InLibrary(fn) {
				sr.Unmarshal[fn] = true
			}
		}
	}
	// a helper that hands its own target parameter on to such a helper (after preparing the element) is one too
	for round := 0; round < 3; round++ {
		for _, fn := range p.modFns {
			if sr.Unmarshal[fn] || !p.InLibrary(fn) {
				continue
			}
			hasEl := false
			for _, q := range fn.Params {
				if typeIs(q.Type(), "github.com/beevik/etree", "Element") {
					hasEl = true
				}
			}
			if !hasEl {
				continue
			}
			for _, b := range fn.Blocks {
				for _, in := range b.Instrs {
					ci, ok := in.(ssa.CallInstruction)
					if !ok || ci.Common().StaticCallee() == nil || !sr.Unmarshal[ci.Common().StaticCallee()] {
						continue
					}
					for _, a := range ci.Common().Args {
						if q, ok := a.(*ssa.Parameter); ok && types.IsInterface(q.Type()) {
							sr.Unmarshal[fn] = true
						}
					}
				}
			}
		}
	}
	for _, fn := range p.FuncsCalling(modPath + "/xmlenc.Decrypt") {
		if !p.InLibrary(fn) || fn.Pkg == nil || fn.Pkg.Pkg.Path() != modPath {
			continue
		}
		// the decrypt step is the function that hands back the plaintext *element*; the call of xmlenc.Decrypt may sit
		// in an unexported helper of it that returns the plaintext bytes
		level := []*ssa.Function{fn}
		for d := 0; d < 3 && len(level) > 0; d++ {
			var next []*ssa.Function
			for _, f := range level {
				if returnsElements(f) {
					sr.Decrypt[f] = true
					continue
				}
				if f.Object() != nil && f.Object().Exported() {
					continue
				}
				for _, cs := range p.StaticCallersOf(f) {
					if p.InLibrary(cs.Caller) && cs.Caller.Pkg == f.Pkg {
						next = append(next, cs.Caller)
					}
				}
			}
			level = next
		}
	}
	return sr
}

func returnsElements(fn *ssa.Function) bool {
	res := fn.Signature.Results()
	if res.Len() == 0 {
		return false
	}
	t := res.At(0).Type()
	if s, ok := t.Underlying().(*types.Slice); ok {
		t = s.Elem()
	}
	return typeIs(t, "github.com/beevik/etree", "Element")
}

func isSigReqType(t types.Type) bool {
	n, ok := t.(*types.Named)
	if !ok || n.Obj().Pkg() == nil || n.Obj().Pkg().Path() != modPath {
		return false
	}
	b, ok := n.Underlying().(*types.Basic)
	return ok && b.Info()&types.IsInteger != 0 && strings.Contains(strings.ToLower(n.Obj().Name()), "signature")
}

func elementParam(fn *ssa.Function) int {
	for i, prm := range fn.Params {
		if typeIs(prm.Type(), "github.com/beevik/etree", "Element") {
			return i
		}
	}
	return -1
}

func ruleC01(r *Report) {
	p := r.P
	m := buildSPModel(r)
	sc := m.Sc
	sr := findSigRoles(p)
	r.Trusted("goxmldsig v1.4.0 (Validate recomputes the digest over exactly the element passed; canonicalisation; reference resolution)", "etree v1.5.0", "xml-roundtrip-validator v0.1.0", "encoding/xml")
	r.NotDecided("that goxmldsig's Validate is correct; parser differentials not caught by the round-trip validator; that the configured certificates are the IdP's")
	r.Rule("C01.sigtoken", "the 'signature not required' token is introduced only under the nil edge of the signature validator applied to an enclosing element, forwarded unchanged otherwise, and the assertion is unmarshalled only under (token == required => validator(el) == nil) for the very element that is unmarshalled", 4)
	r.Rule("C01.sameel", "elements handed to an unmarshal helper are the verified element itself, results of the namespace-aware finders, Root() of a validated document, or the decrypt step's result — never etree path queries", 3)
	r.Rule("C01.validate-result", "the signature validator succeeds only under the nil edge of dsig Validate (or by delegating to the configured SignatureVerifier hook); 'not present' is returned only when no Signature child exists", 1)
	r.Rule("C01.roots", "trusted roots derive only from SP configuration: signing-use (or unspecified-use) KeyDescriptors of IDPMetadata, the fingerprint-matched certificate, or the pinned certificate", 3)
	r.Rule("C01.nsmatch", "the namespace-aware finder returns a child only if both its tag and its resolved namespace equal the requested ones", 1)
	r.Rule("C01.xrv", "every parse of peer-provided bytes on the consuming paths is dominated by the nil edge of the round-trip validator on the same bytes (own serialisations exempt by provenance)", 4)
	r.Rule("C01.samepath", "decrypted assertions reach the same assertion parser with the caller's own request IDs, time and signature token", 1)

	// "re-encryption ... by a party that lacks the IdP key": what the decrypt step hands to the parser is a function of
	// the ciphertext in this message - it consults nothing the library remembers from earlier messages (anyone can
	// encrypt to the SP's public certificate, so a remembered plaintext is attacker-chosen)
	r.Rule("C01.decrypt-stateless", "the SP's decrypt step (every root-package function that calls xmlenc.Decrypt, with its helpers) reads no package-level variable that library code writes at run time", 1)
	for _, fn := range sortedFnList(p, p.FuncsCalling(modPath+"/xmlenc.Decrypt")) {
		if p.InLibrary(fn) && fn.Pkg != nil && fn.Pkg.Pkg.Path() == modPath {
			r.Fn(p.FnName(fn))
			checkNoProcessStateFor(r, p, fn, "C01.decrypt-stateless", "the plaintext handed on is that of this message's ciphertext",
				"the decrypt step consults", "the assertion that is parsed is then not (only) the plaintext of the EncryptedData the verified signature covers: a plaintext remembered from an earlier, refused message is returned under a genuine signature")
		}
	}
	checkSigToken(r, m, sr)
	checkSameEl(r, m, sr)
	safely(r, func() { checkUnmarshalBytes(r, p, sr, "C01.sameel") })
	checkValidateResult(r, m, sr)
	checkRoots(r, m, sr)
	checkNSMatch(r, m, sr)
	checkXRV(r, sc, "C01.xrv", sortedFns(p, sc.Consume))
	checkSamePath(r, m, sr)
	checkReturned(r, m, "C01.sigtoken")
	r.Rule("C01.unmodified", "what is returned is what was unmarshalled from the verified element: on the consuming paths the SP stores nothing into a field of an Assertion (or of a structure inside one) that came out of an unmarshal step or out of the assertion list; composite literals of such types built for outgoing messages are fresh values and not concerned", 1)
	safely(r, func() { checkAssertionUnmodified(r, p, sc, sr, "C01.unmodified") })
	r.Rule("C01.decoder", "UnmarshalXML methods of schema types decode only through Decoder.DecodeElement into an alias struct (no hand-written token loops: encoding/xml itself joins character data across comments, a token loop need not)", 7)
	checkDecoderDiscipline(r, sc, "C01.decoder")
}

// checkDecoderDiscipline: comment/CDATA injection changes what a hand-rolled token loop sees; the
// schema types must leave character-data accumulation to encoding/xml.
func checkDecoderDiscipline(r *Report, sc *Scope, rule string) {
	p := sc.P
	for _, fn := range p.modFns {
		if fn.Name() != "UnmarshalXML" || fn.Signature.Recv() == nil || !p.InLibrary(fn) {
			continue
		}
		if fn.Pkg == nil || fn.Pkg.Pkg.Path() != modPath {
			continue
		}
		r.Fn(p.FnName(fn))
		cons := fmt.Sprintf("%s: decodes through DecodeElement only", p.FnName(fn))
		bad := ""
		nDecode := 0
		for _, b := range fn.Blocks {
			for _, in := range b.Instrs {
				ci, ok := in.(ssa.CallInstruction)
				if !ok {
					continue
				}
				scf := ci.Common().StaticCallee()
				if scf == nil {
					continue
				}
				switch scf.String() {
				case "(*encoding/xml.Decoder).DecodeElement", "(*encoding/xml.Decoder).Decode":
					nDecode++
				case "(*encoding/xml.Decoder).Token", "(*encoding/xml.Decoder).RawToken", "(*encoding/xml.Decoder).Skip":
					bad = shortFn(scf)
				}
			}
		}
		switch {
		case bad != "":
			r.Bad(rule, cons, p.Pos(fn.Pos()), "hand-written token handling ("+bad+"): character data split by a comment or CDATA section is no longer joined the way the signature's canonical form joins it")
		case nDecode == 0:
			r.Bad(rule, cons, p.Pos(fn.Pos()), "the method does not decode the element through encoding/xml")
		default:
			r.OK(rule, cons, p.Pos(fn.Pos()), "DecodeElement on an alias struct")
		}
	}
}

// validatorCallAtoms: for calls in fn to a signature validator, map call -> (element AP, isnil atom name).
type vcall struct {
	Call *ssa.Call
	ElAP string
	Atom string
}

func validatorCalls(fc *FuncCtx, sr *sigRoles) []vcall {
	var out []vcall
	isV := map[*ssa.Function]bool{}
	for _, v := range sr.Validators {
		isV[v] = true
	}
	for _, b := range fc.Fn.Blocks {
		for _, in := range b.Instrs {
			c, ok := in.(*ssa.Call)
			if !ok {
				continue
			}
			scf := c.Call.StaticCallee()
			if scf == nil || !isV[scf] {
				continue
			}
			ei := elementParam(scf)
			if ei < 0 || ei >= len(c.Call.Args) {
				continue
			}
			out = append(out, vcall{Call: c, ElAP: fc.AP(c.Call.Args[ei]), Atom: "isnil(" + fc.AP(c) + ")"})
		}
	}
	return out
}

// derivedFrom: is the element value v the element with access path root, or obtained from it by the
// namespace-aware finders / the decrypt step?
func derivedFrom(fc *FuncCtx, v ssa.Value, root string, sr *sigRoles, depth int) bool {
	if depth > 6 {
		return false
	}
	if fc.AP(v) == root {
		return true
	}
	switch x := v.(type) {
	case *ssa.UnOp:
		return derivedFrom(fc, x.X, root, sr, depth+1)
	case *ssa.IndexAddr:
		return derivedFrom(fc, x.X, root, sr, depth+1)
	case *ssa.Index:
		return derivedFrom(fc, x.X, root, sr, depth+1)
	case *ssa.Extract:
		return derivedFrom(fc, x.Tuple, root, sr, depth+1)
	case *ssa.Phi:
		n := 0
		for _, e := range x.Edges {
			if isNilConst(Resolve(e)) {
				continue // declared ahead of the step that fills it: nil is no other element
			}
			n++
			if !derivedFrom(fc, e, root, sr, depth+1) {
				return false
			}
		}
		return n > 0
	case *ssa.Call:
		scf := x.Call.StaticCallee()
		if scf == nil {
			return false
		}
		if sr.Finders[scf] || sr.Decrypt[scf] {
			for _, a := range x.Call.Args {
				if typeIs(a.Type(), "github.com/beevik/etree", "Element") {
					return derivedFrom(fc, a, root, sr, depth+1)
				}
			}
		}
	}
	return false
}

func checkSigToken(r *Report, m *spModel, sr *sigRoles) {
	p := m.P
	rule := "C01.sigtoken"
	a := NewAnalysis(p) // no inlining: validator results are atoms
	B := a.B
	// (1) consumer: the assertion parser
	fn := m.AssertFn
	fc := a.Ctx(fn)
	fc.ensureConds()
	r.Fn(p.FnName(fn))
	// the token: a parameter, or a field of a parameter object
	var par ssa.Value
	if slot, ok := slotOf(fn, isSigReqType); ok {
		par = slotValueIn(fn, slot)
	}
	vcs := validatorCalls(fc, sr)
	for _, b := range fn.Blocks {
		for _, in := range b.Instrs {
			c, ok := in.(*ssa.Call)
			if !ok {
				continue
			}
			el, _, isU := unmarshalSiteOf(p, sr, c)
			if !isU || el == nil {
				continue
			}
			cons := fmt.Sprintf("%s: unmarshal of %s gated by its signature", p.FnName(fn), fc.AP(el))
			ok2 := false
			why := "no call of the signature validator on this element dominates the unmarshal"
			for _, vc := range vcs {
				if vc.ElAP != fc.AP(el) {
					why = "the signature validator is applied to " + vc.ElAP + ", the element unmarshalled is " + fc.AP(el)
					continue
				}
				need := B.Var(vc.Atom)
				if par != nil {
					req := fc.eqFormula(c, par, ssaConstLike(par, 0))
					need = B.Or(B.Not(req), need)
				}
				if B.HasVar(vc.Atom) && fc.Implied(b, need) {
					ok2 = true
				} else {
					why = "the unmarshal is reachable with the token 'required' although the validator did not return nil"
				}
			}
			r.Check(ok2, rule, cons, p.InstrPos(in), "path condition implies (token == required => validator(el) == nil) for the same element", why)
		}
	}
	// (2) producers: every call that passes a signature token. A helper that only wraps the signature validator (verify
	// and report the outcome) is analysed as part of the producer, so that the validator's result is the same atom whether
	// the call sits in the producer or in the wrapper.
	isVal := map[*ssa.Function]bool{}
	for _, v := range sr.Validators {
		isVal[v] = true
	}
	a2 := NewAnalysis(p)
	a2.Inline = func(f *ssa.Function) bool {
		if !p.InLibrary(f) || f.Pkg == nil || f.Pkg.Pkg.Path() != modPath || isVal[f] || sr.Unmarshal[f] || (f.Object() != nil && f.Object().Exported()) {
			return false
		}
		if _, takesToken := slotOf(f, isSigReqType); takesToken && sr.Unmarshal != nil {
			// a wrapper may take the token to decide whether to verify; the assertion parsers (which unmarshal) are consumers
			for _, b := range f.Blocks {
				for _, in := range b.Instrs {
					if c, ok := in.(*ssa.Call); ok && c.Call.StaticCallee() != nil && sr.Unmarshal[c.Call.StaticCallee()] {
						return false
					}
				}
			}
		}
		for _, b := range f.Blocks {
			for _, in := range b.Instrs {
				if c, ok := in.(*ssa.Call); ok && c.Call.StaticCallee() != nil && isVal[c.Call.StaticCallee()] {
					return true
				}
			}
		}
		return false
	}
	B = a2.B
	for _, caller := range sortedFns(p, m.Sc.Consume) {
		cfc := a2.Ctx(caller)
		for _, b := range caller.Blocks {
			for _, in := range b.Instrs {
				c, ok := in.(*ssa.Call)
				if !ok {
					continue
				}
				scf := c.Call.StaticCallee()
				if scf == nil {
					continue
				}
				tslot, okSlot := slotOf(scf, isSigReqType)
				if !okSlot || tslot.Param >= len(c.Call.Args) {
					continue
				}
				tok, forwarded := slotArgAt(callSite{Caller: caller, Instr: c}, tslot)
				if forwarded {
					r.Fn(p.FnName(caller))
					r.OK(rule, fmt.Sprintf("%s: signature token passed to %s", p.FnName(caller), p.FnName(scf)), p.InstrPos(in), "the caller's own context object is handed on unchanged")
					continue
				}
				if tok == nil {
					r.Fn(p.FnName(caller))
					r.Undecided(rule, fmt.Sprintf("%s: signature token passed to %s", p.FnName(caller), p.FnName(scf)), p.InstrPos(in), "the token field of the context object passed here could not be resolved to one value")
					continue
				}
				cfc.ensureConds()
				r.Fn(p.FnName(caller))
				cons := fmt.Sprintf("%s: signature token passed to %s", p.FnName(caller), p.FnName(scf))
				required := cfc.eqFormula(c, tok, ssaConstLike(tok, 0))
				notReq := B.And(cfc.Cond(b), B.Not(required))
				if notReq == B.False {
					r.OK(rule, cons, p.InstrPos(in), "the token is always 'required' at this call")
					continue
				}
				// justifications: own parameter already 'not required' (forward), or validated here
				just := B.False
				if oslot, ok := slotOf(caller, isSigReqType); ok {
					if own := slotValueIn(caller, oslot); own != nil {
						just = B.Or(just, B.Not(cfc.eqFormula(c, own, ssaConstLike(own, 0))))
					}
				}
				ei := elementParam(scf)
				var elArg ssa.Value
				if ei >= 0 && ei < len(c.Call.Args) {
					elArg = c.Call.Args[ei]
				}
				elOK := false
				var vcs2 []vcall
				for _, xc := range ctxsOf(a2, cfc) {
					vcs2 = append(vcs2, validatorCalls(xc, sr)...)
				}
				for _, vc := range vcs2 {
					if !B.HasVar(vc.Atom) {
						continue
					}
					if elArg != nil && derivedFrom(cfc, elArg, vc.ElAP, sr, 0) {
						just = B.Or(just, B.Var(vc.Atom))
						elOK = true
					}
				}
				if B.Implies(notReq, just) {
					r.OK(rule, cons, p.InstrPos(in), "'not required' is passed only when forwarded from the caller's own token or under validator(enclosing element) == nil")
				} else {
					why := "'signature not required' can be passed although no enclosing element was verified: e.g. under " + firstCube(B, B.And(notReq, B.Not(just)))
					if !elOK {
						why += " (the element handed on is not derived from a verified element)"
					}
					r.Bad(rule, cons, p.InstrPos(in), why)
				}
			}
		}
	}
}

// ssaConstLike builds a constant of v's type with integer value n (for comparison formulas).
func ssaConstLike(v ssa.Value, n int64) ssa.Value {
	return ssa.NewConst(constantInt(n), v.Type())
}

func checkSameEl(r *Report, m *spModel, sr *sigRoles) {
	p := m.P
	rule := "C01.sameel"
	a := NewAnalysis(p)
	for _, fn := range sortedFns(p, m.Sc.Consume) {
		fc := a.Ctx(fn)
		for _, b := range fn.Blocks {
			for _, in := range b.Instrs {
				c, ok := in.(*ssa.Call)
				if !ok {
					continue
				}
				scf := c.Call.StaticCallee()
				// the ciphertext handed to the decrypt step is itself part of what was verified: found by the
				// namespace-aware finders below the verified element, not by an etree path (which may start at the
				// document root and pick up an element outside the signed subtree)
				if scf != nil && sr.Decrypt[scf] && !sr.Decrypt[fn] {
					for _, arg := range c.Call.Args {
						if !typeIs(arg.Type(), "github.com/beevik/etree", "Element") {
							continue
						}
						r.Fn(p.FnName(fn))
						cons := fmt.Sprintf("%s: encrypted element %s handed to the decrypt step", p.FnName(fn), fc.AP(arg))
						src, okD := elementSource(p, fc, arg, sr, 0)
						r.Check(okD, rule, cons, p.InstrPos(in), src, "the element that is decrypted comes from "+src+": an etree path query ignores namespaces and document position, so content outside the verified element can become part of the returned assertion")
					}
				}
				el, _, isU := unmarshalSiteOf(p, sr, c)
				if !isU || el == nil || sr.Unmarshal[fn] {
					continue
				}
				if !typeIs(el.Type(), "github.com/beevik/etree", "Element") {
					continue
				}
				r.Fn(p.FnName(fn))
				cons := fmt.Sprintf("%s: element %s handed to the unmarshal helper", p.FnName(fn), fc.AP(el))
				src, ok2 := elementSource(p, fc, el, sr, 0)
				r.Check(ok2, rule, cons, p.InstrPos(in), src, "the element comes from "+src+" (an etree path query ignores namespaces and document position)")
				// where a signature validator is called in the same function it must see the same element
				for _, vc := range validatorCalls(fc, sr) {
					c2 := fmt.Sprintf("%s: validator and unmarshal see the same element", p.FnName(fn))
					r.Check(vc.ElAP == fc.AP(el), rule, c2, p.InstrPos(vc.Call), "both use "+vc.ElAP, "validator sees "+vc.ElAP+", unmarshal sees "+fc.AP(el))
				}
			}
		}
	}
}

// elementSource classifies where an element value comes from.
func elementSource(p *Prog, fc *FuncCtx, v ssa.Value, sr *sigRoles, depth int) (string, bool) {
	if depth > 6 {
		return "too deep", false
	}
	if ld, isLoad := v.(*ssa.UnOp); isLoad {
		if _, idx, ok := callComponent(ld); ok && idx < 0 {
			return elementSourceOfComponent(p, fc, ld, sr, depth)
		}
	}
	switch x := v.(type) {
	case *ssa.Parameter:
		// all call sites must supply an allowed element
		fn := fc.Fn
		idx := -1
		for i, prm := range fn.Params {
			if prm == x {
				idx = i
			}
		}
		sites := p.CallersOf(fn)
		if len(sites) == 0 {
			return "parameter of an entry point", fn.Object() != nil && !fn.Object().Exported()
		}
		for _, cs := range sites {
			if !p.InLibrary(cs.Caller) {
				continue
			}
			cfc := fc.A.Ctx(cs.Caller)
			arg := cs.Arg(idx)
			if arg == nil {
				return "unresolved argument (via " + p.FnName(cs.Caller) + ")", false
			}
			s, ok := elementSource(p, cfc, arg, sr, depth+1)
			if !ok {
				return s + " (via " + p.FnName(cs.Caller) + ")", false
			}
		}
		return "parameter: every caller passes an allowed element", true
	case *ssa.Call:
		scf := x.Call.StaticCallee()
		if scf == nil {
			return "dynamic call", false
		}
		switch {
		case scf.String() == "(*github.com/beevik/etree.Document).Root":
			return "Root() of the parsed document", true
		case sr.Finders[scf]:
			return "result of the namespace-aware finder " + shortFn(scf), true
		case sr.Decrypt[scf]:
			return "result of the decrypt step " + shortFn(scf), true
		}
		// a module helper that hands back an element: every element it returns must be an allowed one
		if p.InModule(scf) && len(scf.Blocks) > 0 && scf.Signature.Results().Len() >= 1 && typeIs(scf.Signature.Results().At(0).Type(), "github.com/beevik/etree", "Element") {
			sub := fc.A.Ctx(scf)
			n := 0
			for _, ret := range sub.Returns() {
				rv := Resolve(ret.Results[0])
				if isNilConst(rv) {
					continue
				}
				n++
				if s, ok := elementSource(p, sub, rv, sr, depth+1); !ok {
					return "result of " + shortFn(scf) + ": " + s, false
				}
			}
			if n > 0 {
				return "result of " + shortFn(scf) + " (returns only allowed elements)", true
			}
		}
		return "result of " + shortFn(scf), false
	case *ssa.Field:
		return elementSourceOfComponent(p, fc, x, sr, depth)
	case *ssa.Extract:
		return elementSource(p, fc, x.Tuple, sr, depth+1)
	case *ssa.UnOp:
		if cv := capturedValue(x); cv != ssa.Value(x) {
			if fv, ok := x.X.(*ssa.FreeVar); ok && fv.Parent().Parent() != nil {
				return elementSource(p, fc.A.Ctx(fv.Parent().Parent()), cv, sr, depth+1)
			}
		}
		return elementSource(p, fc, x.X, sr, depth+1)
	case *ssa.Alloc:
		// the spill slot of a value captured by a function literal (assigned once)
		if sv := capturedSingleStore(x); sv != nil {
			return elementSource(p, fc, sv, sr, depth+1)
		}
		if sv := wholeStore(x); sv != nil {
			return elementSource(p, fc, sv, sr, depth+1)
		}
	case *ssa.IndexAddr:
		return elementSource(p, fc, x.X, sr, depth+1)
	case *ssa.Index:
		return elementSource(p, fc, x.X, sr, depth+1)
	case *ssa.Phi:
		n := 0
		for _, e := range x.Edges {
			// "no element (yet)": a variable declared ahead of the step that fills it; nil is no other element
			// (the returns of a helper are read the same way above; a nil dereference is C09's business)
			if isNilConst(Resolve(e)) {
				continue
			}
			n++
			if s, ok := elementSource(p, fc, e, sr, depth+1); !ok {
				return s, false
			}
		}
		if n == 0 {
			return "nil", false
		}
		return "phi of allowed elements", true
	}
	return fc.AP(v), false
}

func checkValidateResult(r *Report, m *spModel, sr *sigRoles) {
	p := m.P
	rule := "C01.validate-result"
	for _, fn := range sr.Validators {
		a := NewAnalysis(p)
		a.Inline = func(f *ssa.Function) bool { return sr.ValidatorParts[f] }
		B := a.B
		fc := a.Ctx(fn)
		fc.ensureConds()
		r.Fn(p.FnName(fn))
		rej := fc.RejectFormula()
		var validateNil, hookNil, hookRes, notFound string
		finderResults := map[string]bool{}
		for name, ai := range a.Atoms {
			switch {
			case ai.Kind == "isnil" && strings.Contains(name, "ValidationContext).Validate#") && strings.HasSuffix(name, "#1)"):
				validateNil = name
			case ai.Kind == "isnil" && strings.HasSuffix(ai.Args[0], ".SignatureVerifier"):
				hookNil = name
			case ai.Kind == "isnil" && strings.Contains(name, "r:VerifySignature#"):
				hookRes = name
			}
		}
		// signature child lookup result
		for _, b := range fn.Blocks {
			for _, in := range b.Instrs {
				if c, ok := in.(*ssa.Call); ok {
					if scf := c.Call.StaticCallee(); scf != nil && sr.Finders[scf] {
						notFound = "isnil(" + fc.AP(c) + "#0)"
						if _, isSlice := scf.Signature.Results().At(0).Type().Underlying().(*types.Slice); isSlice {
							finderResults[fc.AP(c)+"#0"] = true
						}
					}
				}
			}
		}
		cons := fmt.Sprintf("%s: success only under dsig Validate == nil (or the configured verifier hook)", p.FnName(fn))
		if validateNil == "" {
			r.Bad(rule, cons, p.Pos(fn.Pos()), "the error of dsig Validate is never tested")
		} else {
			succ := B.Not(rej)
			if hookNil != "" {
				succ = B.And(succ, B.Var(hookNil))
			}
			ok := B.Implies(succ, B.Var(validateNil))
			_ = hookRes
			r.Check(ok, rule, cons, p.Pos(fn.Pos()), "every nil return without hook lies under the nil edge of Validate", "a nil return is reachable although Validate failed or was not called: "+firstCube(B, B.And(succ, B.Not(B.Var(validateNil)))))
		}
		// errSignatureElementNotPresent only when the Signature child is absent
		c2 := fmt.Sprintf("%s: 'signature not present' only when no Signature child was found", p.FnName(fn))
		found := false
		okNP := true
		for _, ret := range fc.Returns() {
			ev := Resolve(ret.Results[len(ret.Results)-1])
			if ld, ok := ev.(*ssa.UnOp); ok {
				if g, ok := ld.X.(*ssa.Global); ok && strings.Contains(g.Name(), "NotPresent") {
					found = true
					if notFound == "" || !B.HasVar(notFound) || !fc.Implied(ret.Block(), B.Var(notFound)) {
						// a finder that hands back all matching children: "none" is the empty result
						okE := false
						for _, nm := range B.Support(fc.Cond(ret.Block())) {
							ai := a.Atoms[nm]
							if ai == nil || len(ai.Args) == 0 || !fc.Implied(ret.Block(), B.Var(nm)) {
								continue
							}
							if os.Getenv("SAMLVERIF_DEBUG") != "" {
								fmt.Printf("DEBUG notpresent atom %s kind=%s args=%v\n", nm, ai.Kind, ai.Args)
							}
							for res := range finderResults {
								if ai.Kind == "empty" && ai.Args[0] == res || ai.Kind == "eq" && len(ai.Args) == 2 && ai.Args[0] == "len("+res+")" && ai.Args[1] == "c:0" {
									okE = true
								}
							}
						}
						if !okE {
							okNP = false
						}
					}
				}
			}
		}
		if found {
			r.Check(okNP, rule, c2, p.Pos(fn.Pos()), "returned only under finder result == nil", "errSignatureElementNotPresent is returned on a path where a Signature child may exist (an invalid signature would be treated as absent)")
		} else {
			r.Bad(rule, c2, p.Pos(fn.Pos()), "the validator never reports an absent signature distinctly")
		}
	}
}

func checkRoots(r *Report, m *spModel, sr *sigRoles) { checkRootsAs(r, m, sr, "C01.roots") }

func checkRootsAs(r *Report, m *spModel, sr *sigRoles, rule string) {
	p := m.P
	a := NewAnalysis(p)
	isCertSlice := func(t types.Type) bool {
		return types.TypeString(t, nil) == "[]*crypto/x509.Certificate"
	}
	// delegates: a module function whose returned certificates come from other module functions (a selector that
	// picks one of the configured sources) is looked through; the functions it delegates to are the sources
	// the configuration modes are alternatives: where each source is consulted, for the exclusivity obligation below
	type srcUse struct {
		kind string
		fn   *ssa.Function
		call *ssa.Call
	}
	var uses []srcUse
	var judge func(fn *ssa.Function, lf ssa.Value, at ssa.Instruction, depth int)
	judge = func(fn *ssa.Function, lf ssa.Value, at ssa.Instruction, depth int) {
		fc := a.Ctx(fn)
		cons := fmt.Sprintf("%s: trusted root source %s", p.FnName(fn), fc.AP(lf))
		if depth > 4 {
			r.Bad(rule, cons, p.InstrPos(at), "trusted roots could not be traced to a configuration-derived certificate function (call chain too deep)")
			return
		}
		switch x := lf.(type) {
		case *ssa.Const:
			r.Trivial(rule, cons, p.InstrPos(at), "nil")
		case *ssa.Parameter:
			// the store sits in a helper that is handed the certificates: every caller's argument is judged
			idx := -1
			for i, q := range fn.Params {
				if q == x {
					idx = i
				}
			}
			sites := p.CallersOf(fn)
			if idx < 0 || len(sites) == 0 || (fn.Object() != nil && fn.Object().Exported()) {
				r.Bad(rule, cons, p.InstrPos(at), "trusted roots are a parameter of an entry point")
				return
			}
			for _, cs := range sites {
				arg := cs.Arg(idx)
				if arg == nil {
					r.Bad(rule, cons, p.InstrPos(at), "trusted roots are passed through a call that could not be resolved")
					continue
				}
				r.Fn(p.FnName(cs.Caller))
				for _, l2 := range rootLeaves(arg, map[ssa.Value]bool{}) {
					judge(cs.Caller, l2, cs.Instr.(ssa.Instruction), depth+1)
				}
			}
		case *ssa.Extract:
			call, _ := x.Tuple.(*ssa.Call)
			if call == nil || call.Call.StaticCallee() == nil {
				r.Bad(rule, cons, p.InstrPos(at), "root certificates come from a dynamic call")
				return
			}
			src := call.Call.StaticCallee()
			if p.InModule(src) && len(src.Blocks) > 0 {
				// a selector: its results come from other module functions returning certificates
				var sub []ssa.Value
				delegates := false
				for _, ret := range a.Ctx(src).Returns() {
					if x.Index >= len(ret.Results) {
						continue
					}
					for _, l2 := range rootLeaves(Resolve(ret.Results[x.Index]), map[ssa.Value]bool{}) {
						// `return fail(err)`: a helper (also a local function literal) that hands back no certificates at all
						if alwaysNilResult(l2) {
							continue
						}
						sub = append(sub, l2)
						if ex, ok := l2.(*ssa.Extract); ok {
							if c2, ok := ex.Tuple.(*ssa.Call); ok {
								if s2 := c2.Call.StaticCallee(); s2 != nil && p.InModule(s2) && s2.Signature.Results().Len() > ex.Index && isCertSlice(s2.Signature.Results().At(ex.Index).Type()) && isCertSlice(x.Type()) {
									delegates = true
								}
							}
						}
					}
				}
				if delegates {
					r.Fn(p.FnName(src))
					for _, l2 := range sub {
						judge(src, l2, call, depth+1)
					}
					return
				}
			}
			kind := classifyCertSource(p, src)
			if kind == "" || kind == "parse" {
				// the selector as a plain function that is handed the configured fingerprint instead of reading it
				for _, arg := range call.Call.Args {
					if strings.HasSuffix(fc.AP(arg), "ServiceProvider.IDPCertificateFingerprint") && p.InLibrary(src) {
						kind = "fingerprint"
					}
				}
			}
			uses = append(uses, srcUse{kind, fn, call})
			switch kind {
			case "metadata":
				r.OK(rule, cons, p.InstrPos(call), "IdP metadata key descriptors ("+shortFn(src)+")")
				checkMetadataCerts(r, p, src, rule, a.Ctx(fn).inlineCtx(src, call.Call.Args, call))
				checkNoProcessState(r, p, src, rule)
			case "fingerprint":
				r.OK(rule, cons, p.InstrPos(call), "certificate matched against the configured fingerprint ("+shortFn(src)+")")
				checkFingerprint(r, p, src, rule, a.Ctx(fn).inlineCtx(src, call.Call.Args, call))
				checkNoProcessState(r, p, src, rule)
			case "parse":
				// argument must be the pinned certificate from configuration
				arg := call.Call.Args[0]
				ap := fc.AP(arg)
				r.Check(strings.HasSuffix(ap, "ServiceProvider.IDPCertificate"), rule, cons, p.InstrPos(call), "parsed from the pinned sp.IDPCertificate", "a certificate parsed from "+ap+" (not SP configuration) becomes a trusted root")
			default:
				r.Bad(rule, cons, p.InstrPos(call), "trusted roots come from "+shortFn(src)+", which is none of the three configuration-derived sources")
			}
		default:
			r.Bad(rule, cons, p.InstrPos(at), "trusted roots have a source that is not a configuration-derived certificate function")
		}
	}
	for _, v := range sr.Validators {
		checkNoProcessState(r, p, v, rule)
		// the Roots field store: in the validator or in a helper it calls (bound 2)
		region := []*ssa.Function{v}
		seen := map[*ssa.Function]bool{v: true}
		for i := 0; i < len(region) && i < 32; i++ {
			for _, b := range region[i].Blocks {
				for _, in := range b.Instrs {
					if ci, ok := in.(ssa.CallInstruction); ok {
						if sc := ci.Common().StaticCallee(); sc != nil && p.InModule(sc) && !seen[sc] && len(sc.Blocks) > 0 && (sc.Object() == nil || !sc.Object().Exported()) && sc.Pkg == v.Pkg {
							seen[sc] = true
							region = append(region, sc)
						}
					}
				}
			}
		}
		n := 0
		for _, fn := range region {
			for _, b := range fn.Blocks {
				for _, in := range b.Instrs {
					st, ok := in.(*ssa.Store)
					if !ok {
						continue
					}
					fa, ok := st.Addr.(*ssa.FieldAddr)
					if !ok || !typeIs(fa.X.Type(), dsigPath, "MemoryX509CertificateStore") || fieldName(fa.X.Type(), fa.Field) != "Roots" {
						continue
					}
					n++
					r.Fn(p.FnName(fn))
					for _, lf := range rootLeaves(st.Val, map[ssa.Value]bool{}) {
						judge(fn, lf, st, 0)
					}
				}
			}
		}
		if n == 0 {
			r.Undecided(rule, p.FnName(v)+": Roots of the certificate store", p.Pos(v.Pos()), "no store to MemoryX509CertificateStore.Roots found")
		}
	}
	checkConfigReadOnly(r, p, rule, "saml", "ServiceProvider")
	// the three trust configurations (metadata keys, fingerprint, pinned certificate) are alternatives: no path consults
	// two different sources, so that a pinned (or fingerprinted) deployment trusts that certificate only
	done := map[[2]*ssa.Call]bool{}
	for i, u1 := range uses {
		for _, u2 := range uses[i+1:] {
			if u1.kind == u2.kind || u1.fn != u2.fn || u1.call == u2.call || done[[2]*ssa.Call{u1.call, u2.call}] {
				continue
			}
			done[[2]*ssa.Call{u1.call, u2.call}] = true
			fc := a.Ctx(u1.fn)
			fc.ensureConds()
			both := a.B.And(fc.Cond(u1.call.Block()), fc.Cond(u2.call.Block()))
			cons := fmt.Sprintf("%s: the %s source and the %s source of trusted roots are alternatives", p.FnName(u1.fn), u1.kind, u2.kind)
			if both == a.B.False {
				r.OK(rule, cons, p.InstrPos(u2.call), "their conditions exclude each other")
			} else {
				r.Bad(rule, cons, p.InstrPos(u2.call), "both sources are consulted on one path (e.g. under "+firstCube(a.B, both)+"): a deployment that pins a certificate (or a fingerprint) then also trusts every other source's certificates")
			}
		}
	}
}

// rootLeaves: backward slice through phi / append / slice literals.
func rootLeaves(v ssa.Value, seen map[ssa.Value]bool) []ssa.Value {
	if seen[v] {
		return nil
	}
	seen[v] = true
	switch x := v.(type) {
	case *ssa.Phi:
		var out []ssa.Value
		for _, e := range x.Edges {
			out = append(out, rootLeaves(e, seen)...)
		}
		return out
	case *ssa.ChangeType:
		// the same slice under a defined type (type requestIDs []string)
		if _, isSlice := x.Type().Underlying().(*types.Slice); isSlice {
			return rootLeaves(x.X, seen)
		}
	case *ssa.Call:
		if bi, ok := x.Call.Value.(*ssa.Builtin); ok && bi.Name() == "append" {
			out := rootLeaves(x.Call.Args[0], seen)
			if av := appendedValue(x); av != nil {
				out = append(out, rootLeaves(av, seen)...)
			}
			return out
		}
	case *ssa.Slice:
		if al, ok := x.X.(*ssa.Alloc); ok {
			var out []ssa.Value
			// a literal (stores through the array) or make([]T, k) filled by index (stores through the slice)
			for _, base := range []ssa.Value{al, x} {
				if base.Referrers() == nil {
					continue
				}
				for _, rf := range *base.Referrers() {
					if ia, ok := rf.(*ssa.IndexAddr); ok {
						for _, r2 := range *ia.Referrers() {
							if st, ok := r2.(*ssa.Store); ok {
								out = append(out, rootLeaves(st.Val, seen)...)
							}
						}
					}
				}
			}
			return out
		}
	case *ssa.MakeSlice:
		var out []ssa.Value
		if x.Referrers() != nil {
			for _, rf := range *x.Referrers() {
				if ia, ok := rf.(*ssa.IndexAddr); ok {
					for _, r2 := range *ia.Referrers() {
						if st, ok := r2.(*ssa.Store); ok {
							out = append(out, rootLeaves(st.Val, seen)...)
						}
					}
				}
			}
		}
		if len(out) > 0 {
			return out
		}
	}
	return []ssa.Value{v}
}

// classifyCertSource: which of the three configuration-derived sources is this function?
func classifyCertSource(p *Prog, fn *ssa.Function) string {
	if !p.InLibrary(fn) {
		return ""
	}
	readsKD, readsFP := false, false
	for _, f := range helperRegion(p, fn, 2) {
		for _, b := range f.Blocks {
			for _, in := range b.Instrs {
				if fa, ok := in.(*ssa.FieldAddr); ok {
					switch fieldName(fa.X.Type(), fa.Field) {
					case "KeyDescriptors":
						readsKD = true
					case "IDPCertificateFingerprint":
						readsFP = true
					}
				}
			}
		}
	}
	switch {
	case readsKD:
		return "metadata"
	case readsFP:
		return "fingerprint"
	}
	if len(callsTo(fn, "crypto/x509.ParseCertificate")) > 0 && fn.Signature.Params().Len() == 1 {
		return "parse"
	}
	return ""
}

// checkMetadataCerts: every append to the certificate-string accumulator is under Use in {"", "signing"},
// and the strings come from X509Certificates of KeyDescriptors of IDPSSODescriptors of sp.IDPMetadata.
func checkMetadataCerts(r *Report, p *Prog, top *ssa.Function, rule string, topCtx *FuncCtx) {
	a := topCtx.A
	B := a.B
	n := 0
	// the strings may be collected by an unexported helper of the source function
	for _, fn := range helperRegion(p, top, 2) {
		fc := a.Ctx(fn)
		if fn == top {
			// (seen from its call: a selector that is handed the metadata instead of reading it from the SP names it as
			// what the caller passed)
			fc = topCtx
		}
		fc.ensureConds()
		r.Fn(p.FnName(fn))
		for _, b := range fn.Blocks {
			for _, in := range b.Instrs {
				c, ok := in.(*ssa.Call)
				if !ok {
					continue
				}
				bi, ok := c.Call.Value.(*ssa.Builtin)
				// (a list of strings, possibly under a defined type: type certBase64 string)
				if !ok || bi.Name() != "append" || sliceElem(c.Type()) == nil || !isStringType(sliceElem(c.Type())) {
					continue
				}
				n++
				av := appendedValue(c)
				ap := ""
				if av != nil {
					ap = fc.AP(av)
				}
				cons := fmt.Sprintf("%s: certificate string appended (%s)", p.FnName(fn), ap)
				// Use guard
				var useEmpty, useSigning string
				other := []string{}
				for _, name := range B.Support(fc.Cond(b)) {
					ai := a.Atoms[name]
					if ai == nil {
						continue
					}
					if ai.Kind == "empty" && strings.HasSuffix(ai.Args[0], ".Use") {
						useEmpty = name
					}
					if ai.Kind == "eq" && (strings.HasSuffix(ai.Args[0], ".Use") || strings.HasSuffix(ai.Args[1], ".Use")) {
						if strings.Contains(name, `c:"signing"`) {
							useSigning = name
						} else {
							other = append(other, name)
						}
					}
				}
				allowed := B.False
				if useEmpty != "" {
					allowed = B.Or(allowed, B.Var(useEmpty))
				}
				if useSigning != "" {
					allowed = B.Or(allowed, B.Var(useSigning))
				}
				okUse := allowed != B.False && fc.Implied(b, allowed)
				okSrc := strings.Contains(ap, "ServiceProvider.IDPMetadata.IDPSSODescriptors[*]") && strings.Contains(ap, "KeyDescriptors[*].KeyInfo.X509Data.X509Certificates[*].Data")
				switch {
				case !okUse:
					r.Bad(rule, cons, p.InstrPos(in), fmt.Sprintf("a key descriptor's certificate becomes a trusted signing root although its use is not restricted to \"\"/\"signing\" (other use comparisons on the path: %v)", other))
				case !okSrc:
					r.Bad(rule, cons, p.InstrPos(in), "the certificate string does not come from X509Certificates of a KeyDescriptor of the configured IdP metadata")
				default:
					r.OK(rule, cons, p.InstrPos(in), "under use == \"\" or use == \"signing\"; from the configured IdP metadata")
				}
			}
		}
	}
	if n == 0 {
		r.Undecided(rule, p.FnName(top)+": accumulator", p.Pos(top.Pos()), "no append of certificate strings found")
	}
}

// helperRegion: fn and the unexported functions of its package that it calls statically, to the given depth
// (a block of fn moved into a helper stays inside the region).
func helperRegion(p *Prog, fn *ssa.Function, depth int) []*ssa.Function {
	out := []*ssa.Function{fn}
	seen := map[*ssa.Function]bool{fn: true}
	level := []*ssa.Function{fn}
	for d := 0; d < depth; d++ {
		var next []*ssa.Function
		for _, f := range level {
			for _, b := range f.Blocks {
				for _, in := range b.Instrs {
					ci, ok := in.(ssa.CallInstruction)
					if !ok {
						continue
					}
					sc, _ := calleeOf(ci.Common())
					if sc == nil || seen[sc] || !p.InModule(sc) || len(sc.Blocks) == 0 {
						continue
					}
					// an unexported function of the same package, or a helper moved into an internal package of the module
					// (exported there because it is called across packages; only the library can import it)
					internal := sc.Pkg != nil && strings.HasPrefix(sc.Pkg.Pkg.Path(), modPath+"/internal/")
					if !internal && (sc.Pkg != fn.Pkg && !(fn.Pkg != nil && strings.HasPrefix(fn.Pkg.Pkg.Path(), modPath+"/internal/") && sc.Pkg == fn.Pkg) || sc.Object() != nil && sc.Object().Exported()) {
						continue
					}
					seen[sc] = true
					out = append(out, sc)
					next = append(next, sc)
				}
			}
		}
		level = next
	}
	return out
}

// checkFingerprint: success return under *sp.IDPCertificateFingerprint == fingerprint(cert, ...) for the returned cert.
func checkFingerprint(r *Report, p *Prog, fn *ssa.Function, rule string, fc *FuncCtx) {
	a := fc.A
	B := a.B
	fc.ensureConds()
	r.Fn(p.FnName(fn))
	for _, ret := range fc.Returns() {
		if !isNilConst(Resolve(ret.Results[len(ret.Results)-1])) {
			continue
		}
		cons := fmt.Sprintf("%s: certificate returned only under fingerprint equality", p.FnName(fn))
		ok := false
		for _, name := range B.Support(fc.Cond(ret.Block())) {
			ai := a.Atoms[name]
			if ai == nil || ai.Kind != "eq" {
				continue
			}
			if strings.Contains(name, "IDPCertificateFingerprint") && strings.Contains(name, "fingerprint") && fc.Implied(ret.Block(), B.Var(name)) {
				// the fingerprint is computed over the certificate that is returned
				for _, v := range ai.Vals {
					// (the comparison may sit in a method of a defined string type: finP.matches(configured))
					_, v = throughParams(ai.Ctx, v)
					if ex, okx := v.(*ssa.Extract); okx {
						if call, okc := ex.Tuple.(*ssa.Call); okc && len(call.Call.Args) > 0 {
							// (the certificate operand of the fingerprint function, wherever it stands among its arguments)
							for _, arg := range operandsOfType(call, func(t types.Type) bool { return typeIs(t, "crypto/x509", "Certificate") }) {
								certAP := fc.AP(arg)
								leaves := rootLeaves(Resolve(ret.Results[0]), map[ssa.Value]bool{})
								for _, lf := range leaves {
									if fc.AP(lf) == certAP {
										ok = true
									}
								}
							}
						}
					}
				}
			}
		}
		r.Check(ok, rule, cons, p.InstrPos(ret), "success return dominated by configured fingerprint == fingerprint(returned certificate)", "a certificate taken from the message is trusted without matching the configured fingerprint")
	}
}

func checkNSMatch(r *Report, m *spModel, sr *sigRoles) {
	p := m.P
	rule := "C01.nsmatch"
	for _, fn := range sortedFns(p, sr.Finders) {
		if len(callsTo(fn, "("+dsigPath+"/etreeutils.NSContext).LookupPrefix")) == 0 {
			continue
		}
		a := NewAnalysis(p)
		B := a.B
		fc := a.Ctx(fn)
		fc.ensureConds()
		r.Fn(p.FnName(fn))
		for _, b := range fn.Blocks {
			for _, in := range b.Instrs {
				c, ok := in.(*ssa.Call)
				if !ok {
					continue
				}
				bi, ok := c.Call.Value.(*ssa.Builtin)
				if !ok || bi.Name() != "append" {
					continue
				}
				cons := fmt.Sprintf("%s: child appended only if tag and namespace match", p.FnName(fn))
				tagOK, nsOK := false, false
				for _, name := range B.Support(fc.Cond(b)) {
					ai := a.Atoms[name]
					if ai == nil || ai.Kind != "eq" || !fc.Implied(b, B.Var(name)) {
						continue
					}
					j := strings.Join(ai.Args, " ")
					rooted := paramRooted(fn, ai.Args)
					for _, ov := range ai.Vals {
						// the requested name may arrive as a field of a small struct parameter
						if _, path, ok := fieldChainOf(fn, ov); ok && len(path) > 0 && isStringType(ov.Type()) {
							rooted = true
						}
					}
					if strings.Contains(j, ".Tag") && rooted {
						tagOK = true
					}
					if strings.Contains(j, "LookupPrefix") && rooted {
						nsOK = true
					}
				}
				switch {
				case !tagOK:
					r.Bad(rule, cons, p.InstrPos(in), "a child is returned without comparing its tag with the requested tag")
				case !nsOK:
					r.Bad(rule, cons, p.InstrPos(in), "a child is returned without comparing its resolved namespace with the requested namespace (local-name-only matching)")
				default:
					r.OK(rule, cons, p.InstrPos(in), "append dominated by tag equality and namespace equality")
				}
			}
		}
	}
}

// paramRooted: one of the atom's operands is a string parameter of fn (the requested tag / namespace).
func paramRooted(fn *ssa.Function, args []string) bool {
	for _, prm := range fn.Params {
		for _, a := range args {
			if a == "p:"+prm.Name() {
				return true
			}
		}
	}
	return false
}

func checkSamePath(r *Report, m *spModel, sr *sigRoles) {
	p := m.P
	rule := "C01.samepath"
	a := NewAnalysis(p)
	n := 0
	for _, cs := range p.CallersOf(m.AssertFn) {
		caller := cs.Caller
		if !p.InLibrary(caller) {
			continue
		}
		n++
		fc := a.Ctx(caller)
		cons := fmt.Sprintf("%s: context passed to the assertion parser", p.FnName(caller))
		ok := true
		var why []string
		for _, cv := range []struct {
			pred     func(types.Type) bool
			what, ts string
		}{{isStringSlice, "request IDs", "[]string"}, {isTimeType, "validation time", "time.Time"}} {
			slot, okSlot := slotOf(m.AssertFn, cv.pred)
			if !okSlot {
				continue
			}
			arg, forwarded := slotArgAt(cs, slot)
			if forwarded {
				continue // the caller's own context object handed on unchanged
			}
			what, ts := cv.what, cv.ts
			if arg == nil {
				ok = false
				why = append(why, what+" could not be resolved at this call")
				continue
			}
			// inside a function literal of the caller the caller's parameter is a captured variable
			if cpt := capturedValue(arg); cpt != arg {
				arg = cpt
			}
			if ld, isLd := arg.(*ssa.UnOp); isLd {
				if al, isAl := ld.X.(*ssa.Alloc); isAl {
					if sv := capturedSingleStore(al); sv != nil {
						arg = sv
					} else if sv := wholeStore(al); sv != nil {
						arg = sv
					}
				}
			}
			pa, isParam := arg.(*ssa.Parameter)
			// ... or a field of the caller's own context object (a parameter object that groups what used to be parameters)
			if !isParam && types.TypeString(arg.Type(), nil) == ts {
				if q, path, okc := fieldChainOf(caller, arg); okc && len(path) > 0 && unexportedStruct(derefType(q.Type())) != nil {
					continue
				}
				if par := caller.Parent(); par != nil {
					if q, path, okc := fieldChainOf(par, arg); okc && len(path) > 0 && unexportedStruct(derefType(q.Type())) != nil {
						continue
					}
				}
			}
			if !isParam || types.TypeString(pa.Type(), nil) != ts {
				ok = false
				why = append(why, fmt.Sprintf("%s is %s, not the caller's own parameter", what, fc.AP(arg)))
			}
		}
		r.Check(ok, rule, cons, p.InstrPos(cs.Instr.(ssa.Instruction)), "request IDs and validation time forwarded unchanged", strings.Join(why, "; "))
	}
	if n < 2 {
		r.Undecided(rule, "callers of the assertion parser", "-", fmt.Sprintf("expected the plaintext and the decrypted branch, found %d", n))
	}
}

// ------------------------------------------------------------------------------------------ xrv

var parseCalls = map[string]int{ // callee -> index of the bytes argument
	"(*github.com/beevik/etree.Document).ReadFromBytes":  1,
	"(*github.com/beevik/etree.Document).ReadFromString": 1,
	"encoding/xml.Unmarshal":                             0,
}

func checkXRV(r *Report, sc *Scope, rule string, fns []*ssa.Function) {
	p := sc.P
	a := NewAnalysis(p)
	B := a.B
	n := 0
	for _, fn := range fns {
		fc := a.Ctx(fn)
		for _, b := range fn.Blocks {
			for _, in := range b.Instrs {
				c, ok := in.(*ssa.Call)
				if !ok {
					continue
				}
				scf := c.Call.StaticCallee()
				if scf == nil {
					continue
				}
				idx, ok := parseCalls[scf.String()]
				if !ok {
					if scf.String() == "encoding/xml.NewDecoder" || scf.String() == "(*github.com/beevik/etree.Document).ReadFrom" {
						r.Bad(rule, fmt.Sprintf("%s: streaming parse %s", p.FnName(fn), shortFn(scf)), p.InstrPos(in), "a reader is parsed directly; the round-trip validator cannot have seen the same bytes")
					}
					continue
				}
				fc.ensureConds()
				r.Fn(p.FnName(fn))
				n++
				bytesV := c.Call.Args[idx]
				bap := fc.AP(bytesV)
				cons := fmt.Sprintf("%s: %s(%s)", p.FnName(fn), shortFn(scf), bap)
				if why := ownSerialisation(p, bytesV, 0); why != "" {
					r.Trivial(rule, cons, p.InstrPos(in), "own serialisation: "+why)
					continue
				}
				ok2 := false
				for _, name := range B.Support(fc.Cond(b)) {
					ai := a.AtomIn(fn, name)
					if ai == nil || ai.Kind != "isnil" || !strings.Contains(name, "xml-roundtrip-validator.Validate#") && !strings.Contains(name, "xrv.Validate#") {
						continue
					}
					if !fc.Implied(b, B.Var(name)) {
						continue
					}
					// the validated reader wraps the same bytes
					if call, okc := ai.Vals[0].(*ssa.Call); okc && len(call.Call.Args) == 1 {
						if wrapped := readerBytes(call.Call.Args[0]); wrapped != nil && fc.AP(wrapped) == bap {
							ok2 = true
						}
					}
				}
				if !ok2 {
					// a helper of an unexported function: every caller validated the bytes it passes
					if prm, isP := bytesV.(*ssa.Parameter); isP && (fn.Object() == nil || !fn.Object().Exported()) && fn.Parent() == nil {
						if callersValidated(p, a, fn, prm) {
							r.OK(rule, cons, p.InstrPos(in), "every caller passes bytes it has put through the round-trip validator (nil edge) first")
							continue
						}
					}
				}
				r.Check(ok2, rule, cons, p.InstrPos(in), "dominated by the nil edge of the round-trip validator on the same bytes", "peer bytes are parsed without (or not under the success of) round-trip validation of the same bytes")
			}
		}
	}
	_ = n
}

// readerBytes: bytes.NewReader(b) / bytes.NewBuffer(b) / strings.NewReader(s) wrapped in an interface.
func readerBytes(v ssa.Value) ssa.Value {
	if mi, ok := v.(*ssa.MakeInterface); ok {
		v = mi.X
	}
	c, ok := v.(*ssa.Call)
	if !ok {
		return nil
	}
	scf := c.Call.StaticCallee()
	if scf == nil {
		return nil
	}
	switch scf.String() {
	case "bytes.NewReader", "bytes.NewBuffer", "strings.NewReader", "bytes.NewBufferString":
		return c.Call.Args[0]
	}
	return nil
}

// ownSerialisation: the bytes are the library's own rendering of an in-memory tree.
func ownSerialisation(p *Prog, v ssa.Value, depth int) string {
	if depth > 3 {
		return ""
	}
	if c, ok := v.(*ssa.Call); ok && len(c.Call.Args) == 1 && emitsGT(p, c.Call.StaticCallee()) {
		// the module's attribute '>' escaper applied to own output is still own output
		return ownSerialisation(p, c.Call.Args[0], depth+1)
	}
	if ex, ok := v.(*ssa.Extract); ok && ex.Index == 0 {
		if c, ok := ex.Tuple.(*ssa.Call); ok {
			scf := c.Call.StaticCallee()
			if scf == nil {
				return ""
			}
			if scf.String() == "(*github.com/beevik/etree.Document).WriteToBytes" {
				return "Document.WriteToBytes in this function"
			}
			if info := serialisers(p)[scf]; info != nil {
				return "result of " + shortFn(scf) + " (Document.WriteToBytes of its argument)"
			}
			if p.InLibrary(scf) {
				all := true
				n := 0
				for _, b := range scf.Blocks {
					if len(b.Instrs) == 0 {
						continue
					}
					if ret, ok := b.Instrs[len(b.Instrs)-1].(*ssa.Return); ok && b != scf.Recover {
						n++
						if isNilConst(ret.Results[0]) {
							continue
						}
						if ownSerialisation(p, ret.Results[0], depth+1) == "" {
							all = false
						}
					}
				}
				if all && n > 0 {
					return "result of " + shortFn(scf) + " (returns Document.WriteToBytes)"
				}
			}
		}
	}
	return ""
}

var _ = sort.Strings

func constantInt(n int64) constant.Value { return constant.MakeInt64(n) }

// callersValidated: at every static call site of fn the argument bound to prm was validated by the
// round-trip validator (nil edge implied at the call).
func callersValidated(p *Prog, a *Analysis, fn *ssa.Function, prm *ssa.Parameter) bool {
	return callersValidatedN(p, a, fn, prm, 0)
}

func callersValidatedN(p *Prog, a *Analysis, fn *ssa.Function, prm *ssa.Parameter, depth int) bool {
	idx := -1
	for i, q := range fn.Params {
		if q == prm {
			idx = i
		}
	}
	sites := p.StaticCallersOf(fn)
	if idx < 0 || len(sites) == 0 {
		return false
	}
	B := a.B
	for _, cs := range sites {
		cfc := a.Ctx(cs.Caller)
		cfc.ensureConds()
		blk := cs.Instr.(ssa.Instruction).Block()
		arg := cs.Instr.Common().Args[idx]
		want := cfc.AP(arg)
		ok := false
		for _, name := range B.Support(cfc.Cond(blk)) {
			ai := a.AtomIn(cs.Caller, name)
			if ai == nil || ai.Kind != "isnil" || !strings.Contains(name, "xrv.Validate#") || !cfc.Implied(blk, B.Var(name)) {
				continue
			}
			if call, okc := ai.Vals[0].(*ssa.Call); okc && len(call.Call.Args) == 1 {
				if wrapped := readerBytes(call.Call.Args[0]); wrapped != nil && cfc.AP(wrapped) == want {
					ok = true
				}
			}
		}
		if !ok {
			// the caller is itself an unexported helper handed the bytes: its own callers validated them
			if pa, isPar := arg.(*ssa.Parameter); isPar && depth < 3 && (cs.Caller.Object() == nil || !cs.Caller.Object().Exported()) {
				ok = callersValidatedN(p, a, cs.Caller, pa, depth+1)
			}
		}
		if !ok {
			return false
		}
	}
	return true
}

// elementSourceOfComponent: v is the element field of a result struct of a module helper: every value the helper puts
// there must be an allowed element.
func elementSourceOfComponent(p *Prog, fc *FuncCtx, v ssa.Value, sr *sigRoles, depth int) (string, bool) {
	if c, idx, ok := callComponent(v); ok {
		if scf := c.Call.StaticCallee(); scf != nil && p.InModule(scf) && len(scf.Blocks) > 0 {
			sub := fc.A.Ctx(scf)
			n := 0
			for _, ret := range sub.Returns() {
				rc := retComponent(ret, idx)
				if rc == nil {
					return "result field of " + shortFn(scf) + " (not a literal)", false
				}
				rv := Resolve(rc)
				if isNilConst(rv) {
					continue
				}
				n++
				if s, ok := elementSource(p, sub, rv, sr, depth+1); !ok {
					return "result of " + shortFn(scf) + ": " + s, false
				}
			}
			if n > 0 {
				return "result of " + shortFn(scf) + " (returns only allowed elements)", true
			}
		}
	}
	return fc.AP(v), false
}

// moduleWrittenGlobals: package-level variables of the module that library code modifies after initialisation: a store
// to the variable (or to memory reached through it), a map update or delete on it, or a call of a mutating method of a
// synchronised container (sync.Map, sync.Pool, atomic.Value) on it. Application-set configuration variables (TimeNow,
// Clock, MaxIssueDelay, RandReader) are written by no library function and are not in the set.
func moduleWrittenGlobals(p *Prog) map[*ssa.Global]string { return globalsWrittenBy(p, nil) }

// globalsWrittenBy: the package-level variables of the module written by the given functions (by all library functions
// when only is nil), with the position of a write.
func globalsWrittenBy(p *Prog, only []*ssa.Function) map[*ssa.Global]string {
	out := map[*ssa.Global]string{}
	mutating := map[string]bool{"Store": true, "LoadOrStore": true, "LoadAndDelete": true, "Delete": true, "Swap": true, "CompareAndSwap": true, "CompareAndDelete": true, "Put": true, "Clear": true}
	globalOf := func(v ssa.Value) *ssa.Global {
		for i := 0; i < 8; i++ {
			switch x := v.(type) {
			case *ssa.Global:
				return x
			case *ssa.FieldAddr:
				v = x.X
			case *ssa.IndexAddr:
				v = x.X
			case *ssa.UnOp:
				v = x.X
			default:
				return nil
			}
		}
		return nil
	}
	fns := p.modFns
	if only != nil {
		fns = only
	}
	for _, fn := range fns {
		if !p.InLibrary(fn) || fn.Name() == "init" || strings.HasPrefix(fn.Name(), "init#") {
			continue
		}
		for _, b := range fn.Blocks {
			for _, in := range b.Instrs {
				switch x := in.(type) {
				case *ssa.Store:
					if g := globalOf(x.Addr); g != nil && p.InModule(fn) && g.Pkg != nil && strings.HasPrefix(g.Pkg.Pkg.Path(), modPath) {
						out[g] = p.InstrPos(in)
					}
				case *ssa.MapUpdate:
					if g := globalOf(x.Map); g != nil && g.Pkg != nil && strings.HasPrefix(g.Pkg.Pkg.Path(), modPath) {
						out[g] = p.InstrPos(in)
					}
				case ssa.CallInstruction: // (a call, or a deferred / spawned one: defer pool.Put(buf))
					cc := x.Common()
					if bi, ok := cc.Value.(*ssa.Builtin); ok && bi.Name() == "delete" && len(cc.Args) == 2 {
						if g := globalOf(cc.Args[0]); g != nil && g.Pkg != nil && strings.HasPrefix(g.Pkg.Pkg.Path(), modPath) {
							out[g] = p.InstrPos(in)
						}
					}
					// a module function (typically a method) handed the variable - a pointer to a struct with a map or
					// other state in it - that writes through that parameter: cache.put(k, v) on `var cache = &table{...}`
					if sc := cc.StaticCallee(); sc != nil && p.InModule(sc) && len(sc.Blocks) > 0 {
						for i, arg := range cc.Args {
							if i >= len(sc.Params) {
								break
							}
							if g := globalOf(arg); g != nil && g.Pkg != nil && strings.HasPrefix(g.Pkg.Pkg.Path(), modPath) && mutatesThrough(p, sc, sc.Params[i], 0) {
								out[g] = p.InstrPos(in)
							}
						}
					}
					if sc := cc.StaticCallee(); sc != nil && sc.Signature.Recv() != nil && mutating[sc.Name()] && len(cc.Args) > 0 {
						rt := types.TypeString(sc.Signature.Recv().Type(), nil)
						if strings.HasPrefix(rt, "*sync.") || strings.HasPrefix(rt, "*sync/atomic.") {
							if g := globalOf(cc.Args[0]); g != nil && g.Pkg != nil && strings.HasPrefix(g.Pkg.Pkg.Path(), modPath) {
								out[g] = p.InstrPos(in)
							}
						}
					}
				}
			}
		}
	}
	return out
}

// checkNoProcessState: the functions on the trust path (fn and the unexported helpers it calls) consult no package-level
// variable that the library itself modifies at run time (a cache, a registry): the trusted roots are derived, on every
// validation, from what the SP configuration holds at that moment.
func checkNoProcessState(r *Report, p *Prog, fn *ssa.Function, rule string) {
	checkNoProcessStateFor(r, p, fn, rule, "trusted roots do not depend on state the library keeps between calls",
		"the trust decision consults", "a certificate that was valid for an earlier message stays trusted after the configuration it came from has changed")
}

// checkNoProcessStateFor: fn and the helpers it is split into read no package-level variable that library code modifies
// at run time (a cache, a registry): their answer is a function of the configuration they are handed now.
func checkNoProcessStateFor(r *Report, p *Prog, fn *ssa.Function, rule, what, verb, consequence string) {
	written := moduleWrittenGlobals(p)
	for _, f := range helperRegion(p, fn, 2) {
		for _, b := range f.Blocks {
			for _, in := range b.Instrs {
				for _, op := range in.Operands(nil) {
					if op == nil || *op == nil {
						continue
					}
					g, ok := (*op).(*ssa.Global)
					if !ok {
						continue
					}
					if at, isW := written[g]; isW {
						r.Bad(rule, fmt.Sprintf("%s: %s", p.FnName(f), what), p.InstrPos(in),
							fmt.Sprintf("%s the package-level variable %s, which the library modifies at run time (%s): %s", verb, g.Name(), at, consequence))
						return
					}
				}
			}
		}
	}
	r.OK(rule, fmt.Sprintf("%s: %s", p.FnName(fn), what), p.Pos(fn.Pos()), "no library-written package-level variable is read on this path")
}

// checkConfigReadOnly: the application's configuration objects (the named struct types given) are inputs: library code
// stores into none of their fields (directly, by map update, by a mutating sync/atomic method on a field), except on an
// object a constructor is still building (a fresh local). A field the library writes at run time is a memo of an earlier
// configuration: what was derived from the key, certificate, metadata or clock then is used after the application has
// replaced them.
func checkConfigReadOnly(r *Report, p *Prog, rule string, pkg string, typeNames ...string) {
	mutating := map[string]bool{"Store": true, "LoadOrStore": true, "LoadAndDelete": true, "Delete": true, "Swap": true, "CompareAndSwap": true, "CompareAndDelete": true, "Put": true, "Clear": true, "Do": true}
	path := modPath
	if pkg != "" && pkg != "saml" {
		path = modPath + "/" + pkg
	}
	// the config object a written address belongs to (type name), or ""
	owner := func(v ssa.Value) (string, ssa.Value) {
		for i := 0; i < 8; i++ {
			switch x := v.(type) {
			case *ssa.FieldAddr:
				for _, tn := range typeNames {
					if typeIs(x.X.Type(), path, tn) {
						return tn + "." + fieldName(x.X.Type(), x.Field), x.X
					}
				}
				v = x.X
			case *ssa.IndexAddr:
				v = x.X
			case *ssa.UnOp:
				v = x.X
			default:
				return "", nil
			}
		}
		return "", nil
	}
	first := map[string]string{}
	note := func(v ssa.Value, in ssa.Instruction) {
		if f, obj := owner(v); f != "" && !isFreshLocal(obj) {
			tn := strings.SplitN(f, ".", 2)[0]
			if first[tn] == "" {
				first[tn] = f + " at " + p.InstrPos(in)
			}
		}
	}
	for _, fn := range p.modFns {
		if !p.InLibrary(fn) || fn.Name() == "init" || strings.HasPrefix(fn.Name(), "init#") {
			continue
		}
		for _, b := range fn.Blocks {
			for _, in := range b.Instrs {
				switch x := in.(type) {
				case *ssa.Store:
					note(x.Addr, in)
				case *ssa.MapUpdate:
					note(x.Map, in)
				case ssa.CallInstruction:
					cc := x.Common()
					if sc := cc.StaticCallee(); sc != nil && sc.Signature.Recv() != nil && mutating[sc.Name()] && len(cc.Args) > 0 {
						rt := types.TypeString(sc.Signature.Recv().Type(), nil)
						if strings.HasPrefix(rt, "*sync.") || strings.HasPrefix(rt, "*sync/atomic.") {
							note(cc.Args[0], in)
						}
					}
				}
			}
		}
	}
	for _, tn := range typeNames {
		cons := fmt.Sprintf("%s.%s: configuration is read, never written, by the library", pkg, tn)
		r.Check(first[tn] == "", rule, cons, "-", "no library store into a field of the type outside its constructors", "the library stores into "+first[tn]+": the object remembers something derived from an earlier state of its own configuration (key, certificate, metadata), which keeps being used after the application changes them")
	}
}

// unmarshalSiteOf: c is a step "unmarshal this element into that object": a call of an unmarshal helper of the module
// (func(el, v) forwarding to xml.Unmarshal), or xml.Unmarshal itself applied to the bytes a module serialiser made of an
// element (the helper written out in place: buf, err := elementToBytes(el); xml.Unmarshal(buf, v)). el is nil when the
// bytes do not come from an element.
func unmarshalSiteOf(p *Prog, sr *sigRoles, c *ssa.Call) (el, target ssa.Value, ok bool) {
	scf := c.Call.StaticCallee()
	if scf == nil {
		return nil, nil, false
	}
	if sr.Unmarshal[scf] {
		for _, a := range c.Call.Args {
			switch {
			case typeIs(a.Type(), "github.com/beevik/etree", "Element") && el == nil:
				el = a
			case types.IsInterface(a.Type()) && target == nil:
				target = a
			}
		}
		if el == nil && len(c.Call.Args) > 0 {
			el = c.Call.Args[0]
		}
		return el, target, true
	}
	if scf.String() != "encoding/xml.Unmarshal" || sr.Unmarshal[c.Parent()] || !p.InLibrary(c.Parent()) {
		return nil, nil, false
	}
	target = c.Call.Args[1]
	buf := Resolve(c.Call.Args[0])
	if ex, isEx := buf.(*ssa.Extract); isEx {
		buf = ex.Tuple
	}
	if bc, isCall := buf.(*ssa.Call); isCall {
		if h := bc.Call.StaticCallee(); h != nil && p.InLibrary(h) {
			for _, a := range bc.Call.Args {
				if typeIs(a.Type(), "github.com/beevik/etree", "Element") {
					return a, target, true
				}
			}
		}
	}
	return nil, target, true
}

// checkUnmarshalBytes: what the SP unmarshals is the element it verified, serialised as it is. The functions between the
// verified element and xml.Unmarshal (the unmarshal helpers and the module serialisers they hand the element to) copy the
// element, re-declare namespaces on the copy and write it; they call nothing of etree that changes content — no
// Unindent/Indent (which delete white-space-only text, i.e. whole values that consist of blanks), no Remove*, no
// SetText/SetTail/CreateText, no added or moved children.
func checkUnmarshalBytes(r *Report, p *Prog, sr *sigRoles, rule string) {
	deny := regexp.MustCompile(`^(Unindent|Indent|IndentTabs|IndentWithSettings|Remove.*|SetText|SetCData|SetTail|CreateText|CreateCData|CreateCharData|CreateComment|CreateElement|CreateDirective|CreateProcInst|AddChild|InsertChild|InsertChildAt|SortAttrs)$`)
	region := map[*ssa.Function]bool{}
	add := func(f *ssa.Function) {
		for _, g := range helperRegion(p, f, 2) {
			if p.InLibrary(g) {
				region[g] = true
			}
		}
	}
	for f := range sr.Unmarshal {
		add(f)
	}
	// an unmarshal written out in place: the module function that turned the element into the bytes
	for _, fn := range p.modFns {
		if !p.InLibrary(fn) || sr.Unmarshal[fn] {
			continue
		}
		for _, b := range fn.Blocks {
			for _, in := range b.Instrs {
				c, ok := in.(*ssa.Call)
				if !ok || !calleeIs(c, "encoding/xml.Unmarshal") {
					continue
				}
				buf := Resolve(c.Call.Args[0])
				if ex, isEx := buf.(*ssa.Extract); isEx {
					buf = ex.Tuple
				}
				if bc, isCall := buf.(*ssa.Call); isCall {
					if h := bc.Call.StaticCallee(); h != nil && p.InLibrary(h) {
						for _, a := range bc.Call.Args {
							if typeIs(a.Type(), "github.com/beevik/etree", "Element") {
								add(h)
							}
						}
					}
				}
			}
		}
	}
	bad := ""
	n := 0
	for _, f := range sortedFns(p, region) {
		// (the document serialiser itself is shared with the emitting side and judged there)
		n++
		for _, b := range f.Blocks {
			for _, in := range b.Instrs {
				c, ok := in.(ssa.CallInstruction)
				if !ok || c.Common().StaticCallee() == nil {
					continue
				}
				sc := c.Common().StaticCallee()
				if sc.Pkg != nil && sc.Pkg.Pkg.Path() == etreePath && deny.MatchString(sc.Name()) {
					bad = firstNonEmpty(bad, p.FnName(f)+" calls "+sc.Name()+" at "+p.InstrPos(in))
				}
			}
		}
	}
	r.Check(n >= 1 && bad == "", rule, "the bytes unmarshalled are the verified element, copied and serialised unchanged", "-", fmt.Sprintf("%d functions between the verified element and xml.Unmarshal; none edits the copy's content", n), "the copy that is serialised for xml.Unmarshal is edited first ("+bad+"): the object returned is then not the content that was signed (a value made of white space only is deleted by Unindent/Indent, for instance)")
}

// alwaysNilResult: v is result k of a call of a module function every return of which yields the nil constant for
// result k (an error-wrapping helper of the form func(err error) (T, error) { return nil, wrap(err) }).
func alwaysNilResult(v ssa.Value) bool {
	ex, ok := v.(*ssa.Extract)
	if !ok {
		return false
	}
	c, ok := ex.Tuple.(*ssa.Call)
	if !ok {
		return false
	}
	sc := c.Call.StaticCallee()
	if sc == nil || len(sc.Blocks) == 0 {
		return false
	}
	n := 0
	for _, ret := range returnsOf(sc) {
		if ex.Index >= len(ret.Results) || !isNilConst(Resolve(ret.Results[ex.Index])) {
			return false
		}
		n++
	}
	return n > 0
}

// sortedFnList: fns sorted by name (deterministic reports).
func sortedFnList(p *Prog, fns []*ssa.Function) []*ssa.Function {
	out := append([]*ssa.Function{}, fns...)
	sort.Slice(out, func(i, j int) bool { return p.FnName(out[i]) < p.FnName(out[j]) })
	return out
}

// mutatesThrough: fn writes memory reached from its parameter prm: a store, a map update or a delete whose target is
// rooted at prm (through field selections and loads), or a call that hands such memory to a module function that does.
func mutatesThrough(p *Prog, fn *ssa.Function, prm *ssa.Parameter, depth int) bool {
	if depth > 2 {
		return false
	}
	rooted := func(v ssa.Value) bool {
		for i := 0; i < 8; i++ {
			if v == ssa.Value(prm) {
				return true
			}
			switch x := v.(type) {
			case *ssa.FieldAddr:
				v = x.X
			case *ssa.IndexAddr:
				v = x.X
			case *ssa.UnOp:
				v = x.X
			case *ssa.Field:
				v = x.X
			default:
				return false
			}
		}
		return false
	}
	for _, b := range fn.Blocks {
		for _, in := range b.Instrs {
			switch x := in.(type) {
			case *ssa.Store:
				if _, isAlloc := x.Addr.(*ssa.Alloc); !isAlloc && rooted(x.Addr) {
					return true
				}
			case *ssa.MapUpdate:
				if rooted(x.Map) {
					return true
				}
			case ssa.CallInstruction:
				cc := x.Common()
				if bi, ok := cc.Value.(*ssa.Builtin); ok && bi.Name() == "delete" && len(cc.Args) == 2 && rooted(cc.Args[0]) {
					return true
				}
				if sc := cc.StaticCallee(); sc != nil && p.InModule(sc) && len(sc.Blocks) > 0 {
					for i, a := range cc.Args {
						if i < len(sc.Params) && rooted(a) && isPointerLike(a.Type()) && mutatesThrough(p, sc, sc.Params[i], depth+1) {
							return true
						}
					}
				}
			}
		}
	}
	return false
}

// throughParams: v seen from the function that supplied it: conversions between string types and changes of defined
// type are peeled, and a parameter of a helper analysed as part of its caller is replaced by the argument (in the
// caller's context), repeatedly.
func throughParams(fc *FuncCtx, v ssa.Value) (*FuncCtx, ssa.Value) {
	for i := 0; i < 6; i++ {
		switch x := v.(type) {
		case *ssa.ChangeType:
			v = x.X
			continue
		case *ssa.Convert:
			if isStringType(x.X.Type()) && isStringType(x.Type()) {
				v = x.X
				continue
			}
		case *ssa.Parameter:
			if fc != nil && fc.parent != nil && fc.argVal[x] != nil {
				v = fc.argVal[x]
				fc = fc.parent
				continue
			}
		}
		break
	}
	return fc, v
}

// checkAssertionUnmodified: see C01.unmodified.
func checkAssertionUnmodified(r *Report, p *Prog, sc *Scope, sr *sigRoles, rule string) {
	at := p.NamedType("saml", "Assertion")
	if at == nil {
		panic(unresolved{"type saml.Assertion"})
	}
	// struct types of the root package reachable from Assertion
	inside := map[*types.Named]bool{}
	var add func(t types.Type)
	add = func(t types.Type) {
		switch x := t.(type) {
		case *types.Pointer:
			add(x.Elem())
		case *types.Slice:
			add(x.Elem())
		case *types.Named:
			if inside[x] || x.Obj().Pkg() == nil || x.Obj().Pkg().Path() != modPath {
				return
			}
			st, ok := x.Underlying().(*types.Struct)
			if !ok {
				return
			}
			inside[x] = true
			for i := 0; i < st.NumFields(); i++ {
				add(st.Field(i).Type())
			}
		}
	}
	add(at)
	// a local that an unmarshal step fills is the parsed value, not a fresh literal
	filled := func(al *ssa.Alloc) bool {
		for _, rf := range *al.Referrers() {
			mi, ok := rf.(*ssa.MakeInterface)
			if !ok {
				continue
			}
			for _, r2 := range *mi.Referrers() {
				if c, ok := r2.(*ssa.Call); ok && c.Call.StaticCallee() != nil && (sr.Unmarshal[c.Call.StaticCallee()] || c.Call.StaticCallee().String() == "encoding/xml.Unmarshal") {
					return true
				}
			}
		}
		return false
	}
	n := 0
	bad := ""
	for _, fn := range sortedFns(p, sc.Consume) {
		if fn.Pkg == nil || fn.Pkg.Pkg.Path() != modPath {
			continue
		}
		// the decoders themselves (encoding/xml's and encoding's unmarshaler methods) fill their receiver: that is the
		// unmarshal step (judged by C01.decoder and C15.alias-pairs)
		if fn.Signature.Recv() != nil && strings.HasPrefix(fn.Name(), "Unmarshal") {
			continue
		}
		for _, b := range fn.Blocks {
			for _, in := range b.Instrs {
				st, ok := in.(*ssa.Store)
				if !ok {
					continue
				}
				// the address: a field (of a field ...) of a value of one of these types
				var owner *types.Named
				cur := st.Addr
				for i := 0; i < 8; i++ {
					switch x := cur.(type) {
					case *ssa.FieldAddr:
						if nm := namedOf(derefType(x.X.Type())); nm != nil && inside[nm] {
							owner = nm
						}
						cur = x.X
						continue
					case *ssa.IndexAddr:
						cur = x.X
						continue
					case *ssa.UnOp:
						cur = x.X
						continue
					}
					break
				}
				if owner == nil {
					continue
				}
				n++
				if al, isAl := cur.(*ssa.Alloc); isAl && !filled(al) {
					continue // a literal under construction (an outgoing message, an error value)
				}
				if bad == "" {
					bad = fmt.Sprintf("%s stores into a field of %s at %s", p.FnName(fn), owner.Obj().Name(), p.InstrPos(st))
				}
			}
		}
	}
	r.Check(bad == "", rule, "the consuming paths leave parsed assertions as they were unmarshalled", "-", fmt.Sprintf("%d stores into assertion-typed structures on the consuming paths, all into literals under construction", n), "a parsed assertion is modified after it was verified ("+bad+"): the content returned is not the content the signature covered")
}
