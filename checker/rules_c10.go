package main

import (
	"fmt"
	"go/token"
	"go/types"
	"regexp"
	"sort"
	"strconv"
	"strings"

	"golang.org/x/tools/go/ssa"
)

func init() {
	registry["C10"] = []func(*Report){ruleC10}
}

const xmlencPath = modPath + "/xmlenc"

// W3C XML Encryption algorithm table (xmlenc-core 1.0/1.1): identifier -> (cipher constructor, key bytes).
var w3cBlock = map[string]struct {
	ctor string
	key  int64
}{
	"http://www.w3.org/2001/04/xmlenc#aes128-cbc":    {"crypto/aes.NewCipher", 16},
	"http://www.w3.org/2001/04/xmlenc#aes192-cbc":    {"crypto/aes.NewCipher", 24},
	"http://www.w3.org/2001/04/xmlenc#aes256-cbc":    {"crypto/aes.NewCipher", 32},
	"http://www.w3.org/2001/04/xmlenc#tripledes-cbc": {"crypto/des.NewTripleDESCipher", 24},
	"http://www.w3.org/2009/xmlenc11#aes128-gcm":     {"crypto/aes.NewCipher", 16},
	"http://www.w3.org/2009/xmlenc11#aes192-gcm":     {"crypto/aes.NewCipher", 24},
	"http://www.w3.org/2009/xmlenc11#aes256-gcm":     {"crypto/aes.NewCipher", 32},
}

// cryptoHashCtor: the constructor each crypto.Hash identifier stands for.
var cryptoHashCtor = map[int64]string{3: "crypto/sha1.New", 4: "crypto/sha256.New224", 5: "crypto/sha256.New", 6: "crypto/sha512.New384", 7: "crypto/sha512.New", 9: "golang.org/x/crypto/ripemd160.New"}

var w3cDigest = map[string]string{
	"http://www.w3.org/2000/09/xmldsig#sha1":        "crypto/sha1.New",
	"http://www.w3.org/2000/09/xmldsig#sha256":      "crypto/sha256.New", // (the identifier this library uses; xmlenc#sha256 in the standard)
	"http://www.w3.org/2001/04/xmlenc#sha256":       "crypto/sha256.New",
	"http://www.w3.org/2000/09/xmldsig#sha512":      "crypto/sha512.New",
	"http://www.w3.org/2001/04/xmlenc#sha512":       "crypto/sha512.New",
	"http://www.w3.org/2001/04/xmldsig-more#sha384": "crypto/sha512.New384",
	"http://www.w3.org/2000/09/xmldsig#ripemd160":   "golang.org/x/crypto/ripemd160.New",
	"http://www.w3.org/2001/04/xmlenc#ripemd160":    "golang.org/x/crypto/ripemd160.New",
}

var w3cKeyTransport = map[string][2]string{
	"http://www.w3.org/2001/04/xmlenc#rsa-oaep-mgf1p": {"crypto/rsa.EncryptOAEP", "crypto/rsa.DecryptOAEP"},
	"http://www.w3.org/2009/xmlenc11#rsa-oaep":        {"crypto/rsa.EncryptOAEP", "crypto/rsa.DecryptOAEP"},
	"http://www.w3.org/2001/04/xmlenc#rsa-1_5":        {"crypto/rsa.EncryptPKCS1v15", "crypto/rsa.DecryptPKCS1v15"},
}

// compositeFields: field name -> stored value for a struct object (alloc or global) initialised in fn.
func compositeFields(fn *ssa.Function, obj ssa.Value) map[string]ssa.Value {
	out := map[string]ssa.Value{}
	for _, b := range fn.Blocks {
		for _, in := range b.Instrs {
			st, ok := in.(*ssa.Store)
			if !ok {
				continue
			}
			fa, ok := st.Addr.(*ssa.FieldAddr)
			if !ok || fa.X != obj {
				continue
			}
			out[fieldName(fa.X.Type(), fa.Field)] = st.Val
			// the rules name the fields by their role; a renamed unexported field keeps its role through its type
			if role := algoFieldRole(fa.X.Type(), fa.Field, st.Val); role != "" {
				if _, taken := out[role]; !taken || fieldName(fa.X.Type(), fa.Field) == role {
					out[role] = st.Val
				}
			}
		}
	}
	return out
}

// algoFieldRole: the role of field idx of an algorithm value of package xmlenc, read from its type: the identifier (a
// string), the key size (an int), the block-cipher constructor (func([]byte) (cipher.Block, error)), the digest
// constructor (func() hash.Hash or a crypto.Hash) and the two RSA key operations (by the key type they take).
func algoFieldRole(owner types.Type, idx int, val ssa.Value) string {
	st, ok := derefType(owner).Underlying().(*types.Struct)
	if !ok || idx >= st.NumFields() {
		return ""
	}
	ft := st.Field(idx).Type()
	ts := types.TypeString(ft.Underlying(), nil)
	switch {
	case ts == "string":
		if s, ok := constStr(val); ok && strings.HasPrefix(s, "http://www.w3.org/") {
			return "algorithm"
		}
	case ts == "int":
		return "keySize"
	case ts == "func([]byte) (crypto/cipher.Block, error)":
		return "cipher"
	case ts == "func() hash.Hash" || strings.HasSuffix(types.TypeString(ft, nil), "crypto.Hash"):
		return "hash"
	case strings.HasPrefix(ts, "func(") && strings.Contains(ts, "*crypto/rsa.PublicKey"):
		return "keyEncrypter"
	case strings.HasPrefix(ts, "func(") && strings.Contains(ts, "*crypto/rsa.PrivateKey"):
		return "keyDecrypter"
	}
	return ""
}

type algoValue struct {
	Name   string // exported variable / constructor name
	Kind   string // CBC GCM RSA digestMethod
	Fields map[string]ssa.Value
	Pos    ssa.Instruction
	Fn     *ssa.Function
}

// exportedAlgorithms: package-level values and constructor functions of xmlenc that carry an `algorithm` field.
func exportedAlgorithms(p *Prog) []algoValue {
	var out []algoValue
	pk := p.SPkg[xmlencPath]
	if pk == nil {
		panic(unresolved{"package xmlenc"})
	}
	initFn := pk.Func("init")
	// globals
	for name, mem := range pk.Members {
		g, ok := mem.(*ssa.Global)
		if !ok || !token.IsExported(name) {
			continue
		}
		// direct struct global (digest methods)
		if f := compositeFields(initFn, g); len(f) > 0 && f["algorithm"] != nil {
			out = append(out, algoValue{Name: name, Kind: namedOf(g.Type()).Obj().Name(), Fields: f, Fn: initFn})
			continue
		}
		// interface global initialised from a composite
		for _, b := range initFn.Blocks {
			for _, in := range b.Instrs {
				st, ok := in.(*ssa.Store)
				if !ok || st.Addr != ssa.Value(g) {
					continue
				}
				if mi, ok := st.Val.(*ssa.MakeInterface); ok {
					if ld, ok := mi.X.(*ssa.UnOp); ok {
						if al, ok := ld.X.(*ssa.Alloc); ok {
							if f := compositeFields(initFn, al); f["algorithm"] != nil {
								out = append(out, algoValue{Name: name, Kind: namedOf(al.Type()).Obj().Name(), Fields: f, Pos: st, Fn: initFn})
							}
						}
					}
				}
			}
		}
	}
	// constructors returning a composite with an algorithm field
	for name, mem := range pk.Members {
		fn, ok := mem.(*ssa.Function)
		if !ok || !token.IsExported(name) || fn.Signature.Params().Len() != 0 || fn.Signature.Results().Len() != 1 {
			continue
		}
		found := false
		for _, b := range fn.Blocks {
			for _, in := range b.Instrs {
				if al, ok := in.(*ssa.Alloc); ok {
					if f := compositeFields(fn, al); f["algorithm"] != nil {
						out = append(out, algoValue{Name: name + "()", Kind: namedOf(al.Type()).Obj().Name(), Fields: f, Pos: al, Fn: fn})
						found = true
					}
				}
			}
		}
		if found {
			continue
		}
		// a constructor that delegates to a package helper building the composite: take the helper's fields with the
		// helper's parameters replaced by this constructor's arguments
		for _, b := range fn.Blocks {
			rt, ok := b.Instrs[len(b.Instrs)-1].(*ssa.Return)
			if !ok || len(rt.Results) != 1 {
				continue
			}
			c, ok := rt.Results[0].(*ssa.Call)
			if !ok || c.Call.StaticCallee() == nil || c.Call.StaticCallee().Pkg != pk || len(c.Call.StaticCallee().Blocks) == 0 {
				continue
			}
			h := c.Call.StaticCallee()
			for _, hb := range h.Blocks {
				for _, in := range hb.Instrs {
					al, ok := in.(*ssa.Alloc)
					if !ok {
						continue
					}
					f := compositeFields(h, al)
					if f["algorithm"] == nil {
						continue
					}
					sub := map[string]ssa.Value{}
					for k, v := range f {
						sub[k] = v
						for i, prm := range h.Params {
							if v == ssa.Value(prm) && i < len(c.Call.Args) {
								sub[k] = c.Call.Args[i]
							}
							// an interface conversion of the parameter
							if mi, ok := v.(*ssa.MakeInterface); ok && mi.X == ssa.Value(prm) && i < len(c.Call.Args) {
								sub[k] = c.Call.Args[i]
							}
						}
					}
					out = append(out, algoValue{Name: name + "()", Kind: namedOf(al.Type()).Obj().Name(), Fields: sub, Pos: al, Fn: h})
				}
			}
		}
	}
	sort.Slice(out, func(i, j int) bool { return out[i].Name < out[j].Name })
	return out
}

func funcValueName(v ssa.Value) string {
	switch x := v.(type) {
	case *ssa.Function:
		return forwardedTo(x).String()
	case *ssa.MakeClosure:
		return forwardedTo(x.Fn.(*ssa.Function)).String()
	case *ssa.ChangeType:
		return funcValueName(x.X)
	}
	return ""
}

// forwardedTo: fn does nothing but hand its own parameters, in order, to one statically known function and return
// that function's results (a function literal written around a function value, the thunk of a method expression):
// that function; otherwise fn itself.
func forwardedTo(fn *ssa.Function) *ssa.Function {
	for i := 0; i < 3; i++ {
		if fn == nil || len(fn.Blocks) != 1 || len(fn.FreeVars) != 0 {
			return fn
		}
		var call *ssa.Call
		okShape := true
		for _, in := range fn.Blocks[0].Instrs {
			switch x := in.(type) {
			case *ssa.Call:
				if call != nil {
					okShape = false
				}
				call = x
			case *ssa.Extract, *ssa.Return, *ssa.DebugRef:
			case *ssa.Alloc, *ssa.Store, *ssa.UnOp:
				// the spill of a value receiver the thunk hands on
			default:
				okShape = false
			}
		}
		if !okShape || call == nil || call.Call.StaticCallee() == nil || len(call.Call.Args) > len(fn.Params) {
			return fn
		}
		// every argument is one of fn's own parameters, each used once, in their order (an unused receiver may be dropped)
		next := 0
		for _, a := range call.Call.Args {
			found := false
			for k := next; k < len(fn.Params); k++ {
				q := fn.Params[k]
				isQ := Resolve(a) == ssa.Value(q) || a == ssa.Value(q)
				if ld, ok := a.(*ssa.UnOp); ok && !isQ {
					isQ = isParamOrSpill(ld.X, q)
				}
				if isQ {
					found, next = true, k+1
					break
				}
			}
			if !found {
				return fn
			}
		}
		fn = call.Call.StaticCallee()
	}
	return fn
}

// registeredSources: the exported values (variable or constructor names) a registration argument can denote: the
// value itself, or each element of the literal or package-level table a registration loop ranges over.
func registeredSources(p *Prog, arg ssa.Value, depth int) []string {
	if depth > 4 {
		return nil
	}
	switch x := arg.(type) {
	case *ssa.MakeInterface:
		return registeredSources(p, x.X, depth+1)
	case *ssa.ChangeInterface:
		return registeredSources(p, x.X, depth+1)
	case *ssa.Call:
		if sc := x.Call.StaticCallee(); sc != nil {
			return []string{sc.Name()}
		}
	case *ssa.Phi:
		var out []string
		for _, e := range x.Edges {
			out = append(out, registeredSources(p, e, depth+1)...)
		}
		return out
	case *ssa.UnOp:
		if x.Op != token.MUL {
			return nil
		}
		switch y := x.X.(type) {
		case *ssa.Global:
			return []string{y.Name()}
		case *ssa.IndexAddr:
			// element of a table that a loop ranges over
			var elems []ssa.Value
			switch base := y.X.(type) {
			case *ssa.Alloc:
				elems = arrayLiteralElems(base)
			case *ssa.Slice:
				if al, ok := base.X.(*ssa.Alloc); ok {
					elems = arrayLiteralElems(al)
				}
			case *ssa.UnOp:
				if g, ok := base.X.(*ssa.Global); ok && base.Op == token.MUL {
					elems, _ = p.globalSliceElems(g)
				}
			}
			var out []string
			for _, e := range elems {
				out = append(out, registeredSources(p, e, depth+1)...)
			}
			return out
		}
	}
	return nil
}

func ruleC10(r *Report) {
	p := r.P
	sc := NewScope(p, r.Tier)
	r.Trusted("crypto/aes, crypto/des, crypto/cipher, crypto/rsa (primitive correctness)", "W3C xmlenc-core identifiers as transcribed in the checker's table", "go/ssa of golang.org/x/tools v0.29.0")
	r.NotDecided("Decrypt(Encrypt(p)) = p for all plaintexts and keys; interoperability with an independent implementation; OAEP label/MGF details")
	r.Rule("C10.registry", "every algorithm identifier the package offers for encryption (exported cipher values and key-transport constructors, digest values) is registered for decryption, and no two registered values share an identifier", 10)
	r.Rule("C10.params", "each offered identifier uses the cipher constructor and key size (block ciphers), hash constructor (digests) and RSA primitive pair (key transport) that the W3C table prescribes", 8)
	r.Rule("C10.framing", "per cipher type Encrypt and Decrypt agree on framing: the prefix Decrypt strips is the prefix Encrypt prepends, padding added on one side is removed on the other", 2)
	r.Rule("C10.flow", "in every block-cipher Encrypt the plaintext parameter flows (by value, not only by length) into the data operand of the cipher call whose output becomes the CipherValue, and the nonce/IV operand is the freshly generated buffer", 1)
	r.Rule("C10.padding", "stripPadding rejects len<1, pad<1, pad>len and accepts a full block of padding (the empty plaintext)", 1)
	r.Rule("C10.aead-plain", "the AEAD (GCM) decrypter returns the bytes Open produced, whole: the W3C GCM identifiers define no padding or other framing inside the authenticated plaintext", 1)
	r.Rule("C10.digest", "RSA key decryption takes its hash from the element's DigestMethod (registry lookup, miss => error) and uses SHA-1 only when the element has none", 2)

	algos := exportedAlgorithms(p)
	pk := p.SPkg[xmlencPath]
	initFns := []*ssa.Function{}
	for _, mem := range pk.Members {
		if fn, ok := mem.(*ssa.Function); ok && strings.HasPrefix(fn.Name(), "init") {
			initFns = append(initFns, fn)
		}
	}
	// registered identifiers
	regDec := map[string][]string{}
	regDig := map[string][]string{}
	byName := map[string]algoValue{}
	for _, a := range algos {
		byName[strings.TrimSuffix(a.Name, "()")] = a
	}
	for _, fn := range p.modFns {
		if !inPkg(fn, xmlencPath) {
			continue
		}
		for _, b := range fn.Blocks {
			for _, in := range b.Instrs {
				c, ok := in.(*ssa.Call)
				if !ok || c.Call.StaticCallee() == nil {
					continue
				}
				nm := c.Call.StaticCallee().Name()
				if nm != "RegisterDecrypter" && nm != "RegisterDigestMethod" {
					continue
				}
				srcs := registeredSources(p, c.Call.Args[0], 0)
				if len(srcs) == 0 {
					srcs = []string{""}
				}
				for _, src := range srcs {
					av, ok := byName[src]
					if !ok {
						r.Undecided("C10.registry", fmt.Sprintf("registration at %s", p.InstrPos(in)), p.InstrPos(in), "the registered value could not be resolved to an exported algorithm value: "+src)
						continue
					}
					uri, _ := constStr(av.Fields["algorithm"])
					if nm == "RegisterDecrypter" {
						regDec[uri] = append(regDec[uri], av.Name)
					} else {
						regDig[uri] = append(regDig[uri], av.Name)
					}
				}
			}
		}
	}
	for _, a := range algos {
		uri, _ := constStr(a.Fields["algorithm"])
		cons := fmt.Sprintf("%s (%s) is registered for decryption", a.Name, uri)
		reg := regDec
		if a.Kind == "digestMethod" {
			reg = regDig
		}
		r.Check(len(reg[uri]) > 0, "C10.registry", cons, posOf(p, a), "registered by "+strings.Join(reg[uri], ","), "the package offers "+uri+" for encryption but registers no decrypter/digest for it: its own output cannot be decrypted")
	}
	for _, reg := range []map[string][]string{regDec, regDig} {
		for uri, names := range reg {
			// two different values under one identifier: the later registration silently replaces the earlier one.
			// (constructors that differ only in defaults, like OAEP_SHA256/OAEP_SHA512, are one decrypter)
			kinds := map[string]bool{}
			for _, n := range names {
				a := byName[strings.TrimSuffix(n, "()")]
				kinds[valueSignature(a)] = true
			}
			r.Check(len(kinds) == 1, "C10.registry", fmt.Sprintf("identifier %s names one algorithm", uri), "-", strings.Join(names, ","), "values with different parameters are registered under the same identifier: "+strings.Join(names, ", "))
		}
	}

	// parameters against the W3C table
	for _, a := range algos {
		uri, _ := constStr(a.Fields["algorithm"])
		cons := fmt.Sprintf("%s: parameters of %s", a.Name, uri)
		switch a.Kind {
		case "CBC", "GCM":
			want, ok := w3cBlock[uri]
			if !ok {
				r.Bad("C10.params", cons, posOf(p, a), "identifier is not in the W3C block-cipher table")
				continue
			}
			ks, _ := constInt(a.Fields["keySize"])
			ctor := funcValueName(a.Fields["cipher"])
			mode := strings.Contains(uri, "-cbc") == (a.Kind == "CBC")
			r.Check(ks == want.key && ctor == want.ctor && mode, "C10.params", cons, posOf(p, a), fmt.Sprintf("%s, %d-byte key", ctor, ks),
				fmt.Sprintf("built from %s with a %d-byte key in %s mode; the identifier denotes %s with %d bytes", ctor, ks, a.Kind, want.ctor, want.key))
		case "digestMethod":
			want, ok := w3cDigest[uri]
			h := funcValueName(a.Fields["hash"])
			if k, isConst := a.Fields["hash"].(*ssa.Const); isConst && k.Value != nil && strings.HasSuffix(k.Type().String(), "crypto.Hash") {
				// a crypto.Hash identifier: the constructor (crypto.Hash).New resolves it to (C11.hash-linked: and it is linked)
				h = cryptoHashCtor[k.Int64()]
			}
			r.Check(ok && h == want, "C10.params", cons, posOf(p, a), h, fmt.Sprintf("hash constructor %s under identifier %s (table: %s)", h, uri, want))
		case "RSA":
			want, ok := w3cKeyTransport[uri]
			if !ok {
				r.Bad("C10.params", cons, posOf(p, a), "identifier is not in the W3C key-transport table")
				continue
			}
			for i, fld := range []string{"keyEncrypter", "keyDecrypter"} {
				fv := a.Fields[fld]
				for {
					// a literal converted to a named function type
					if ct, ok := fv.(*ssa.ChangeType); ok {
						fv = ct.X
						continue
					}
					break
				}
				cl, _ := fv.(*ssa.MakeClosure)
				var fn *ssa.Function
				if cl != nil {
					fn = cl.Fn.(*ssa.Function)
				} else if f, ok := fv.(*ssa.Function); ok {
					fn = f
				}
				fn = forwardedTo(fn)
				c2 := fmt.Sprintf("%s: %s of %s", a.Name, fld, uri)
				if fn == nil {
					r.Bad("C10.params", c2, posOf(p, a), "not a function literal")
					continue
				}
				prim := ""
				hashOK := true
				other := ""
				for _, b := range fn.Blocks {
					for _, in := range b.Instrs {
						// every use of crypto/rsa in the function is the prescribed primitive: a second one on some path (the
						// generic (*rsa.PrivateKey).Decrypt with options built here, another padding as a fallback) wraps or
						// unwraps with parameters the identifier does not denote
						if c, ok := in.(*ssa.Call); ok && c.Call.StaticCallee() != nil && strings.Contains(c.Call.StaticCallee().String(), "crypto/rsa.") && !strings.HasPrefix(c.Call.StaticCallee().String(), "crypto/rsa.") {
							other = c.Call.StaticCallee().String() + " at " + p.InstrPos(c)
						}
						if c, ok := in.(*ssa.Call); ok && c.Call.StaticCallee() != nil && strings.HasPrefix(c.Call.StaticCallee().String(), "crypto/rsa.") {
							if prim != "" && prim != c.Call.StaticCallee().String() {
								other = c.Call.StaticCallee().String() + " at " + p.InstrPos(c)
							}
							prim = c.Call.StaticCallee().String()
							if strings.HasSuffix(prim, "OAEP") {
								an := NewAnalysis(p)
								hap := an.Ctx(fn).AP(c.Call.Args[0])
								if !strings.HasSuffix(hap, ".DigestMethod.Hash()") && !digestParamHash(p, fn, fld, c.Call.Args[0]) {
									hashOK = false
								}
							}
						}
					}
				}
				r.Check(prim == want[i] && hashOK, "C10.params", c2, p.Pos(fn.Pos()), prim, fmt.Sprintf("uses %s (hash from DigestMethod: %v); the identifier prescribes %s with the configured digest", prim, hashOK, want[i]))
				r.Check(other == "", "C10.params", c2+" (no other RSA operation)", p.Pos(fn.Pos()), "the prescribed primitive is the only crypto/rsa call", "besides "+want[i]+" the function also calls "+other+": on that path the key is (un)wrapped with parameters the identifier does not denote (the two sides of the package, and other implementations, then disagree)")
			}
		}
	}

	checkC10Framing(r, p)
	safely(r, func() { checkLengthGates(r, p, "C10.framing") })
	safely(r, func() { checkWrappedKeyLength(r, p, "C10.framing") })
	safely(r, func() { checkPadding(r, NewAnalysis(p), sc, "C10.padding", true) })
	checkC10Digest(r, p)
	safely(r, func() { checkDigestAdvertised(r, p, "C10.digest") })
	safely(r, func() { checkUnprefixedPaths(r, p, "C10.digest") })
	safely(r, func() { checkAEADPlain(r, p, sc, "C10.aead-plain") })
	// what an algorithm value produces depends on its arguments only: no cache or other package-level state the library
	// writes at run time on the encrypt/decrypt paths (a key schedule remembered under the key bytes is the schedule of
	// whichever algorithm used those bytes first)
	r.Rule("C10.stateless", "the Encrypt and Decrypt methods of the package's algorithm types, with the helpers they are split into, read no package-level variable that these paths themselves write", 3)
	safely(r, func() { checkCipherStateless(r, p, "C10.stateless") })
}

// checkAEADPlain: in the function under xmlenc.Decrypt that calls AEAD.Open, every value returned as plaintext is the
// first result of Open itself (followed through the unexported helpers the function hands it to).
func checkAEADPlain(r *Report, p *Prog, sc *Scope, rule string) {
	n := 0
	for _, fn := range sortedFns(p, sc.Decrypt) {
		opens := callsTo(fn, "(crypto/cipher.AEAD).Open")
		if len(opens) == 0 || fn.Signature.Results().Len() != 2 {
			continue
		}
		r.Fn(p.FnName(fn))
		rg := NewRegion(p, fn, 2)
		for _, ret := range returnsOf(fn) {
			if len(ret.Results) != 2 || isNilConst(Resolve(ret.Results[0])) {
				continue
			}
			os := rg.Origins(RV{V: ret.Results[0], C: rg.top})
			if len(os) == 0 {
				continue // every alternative is nil (`return fail(err)` with a helper that hands back no plaintext)
			}
			n++
			cons := fmt.Sprintf("%s: returned plaintext is Open's result", p.FnName(fn))
			bad := ""
			for _, o := range os {
				if isNilConst(Resolve(o.V)) {
					continue
				}
				okO := false
				if ex, ok := o.V.(*ssa.Extract); ok && ex.Index == 0 {
					for _, op := range opens {
						okO = okO || ex.Tuple == op.(ssa.Value)
					}
				}
				if !okO {
					bad = o.V.String()
					if in, ok := o.V.(ssa.Instruction); ok {
						bad += " at " + p.InstrPos(in)
					}
				}
			}
			r.Check(len(os) > 0 && bad == "", rule, cons, p.InstrPos(ret), "the value returned is the first result of Open", "the plaintext handed back is not what Open produced: "+bad)
		}
	}
	if n == 0 {
		panic(unresolved{"role AEAD decrypter (function under xmlenc.Decrypt calling AEAD.Open and returning its plaintext)"})
	}
}

func valueSignature(a algoValue) string {
	var parts []string
	for _, k := range []string{"keySize", "cipher", "hash", "keyEncrypter", "keyDecrypter"} {
		if v, ok := a.Fields[k]; ok {
			s := funcValueName(v)
			if s == "" {
				if c, ok := v.(*ssa.Const); ok {
					s = c.String()
				}
			}
			// closures of distinct constructors with identical primitives count as the same algorithm
			if cl, ok := v.(*ssa.MakeClosure); ok {
				s = closurePrimitive(cl.Fn.(*ssa.Function))
			}
			parts = append(parts, k+"="+s)
		}
	}
	return a.Kind + "{" + strings.Join(parts, ",") + "}"
}

func closurePrimitive(fn *ssa.Function) string {
	for _, b := range fn.Blocks {
		for _, in := range b.Instrs {
			if c, ok := in.(*ssa.Call); ok && c.Call.StaticCallee() != nil && strings.HasPrefix(c.Call.StaticCallee().String(), "crypto/") {
				return c.Call.StaticCallee().String()
			}
		}
	}
	return fn.String()
}

func posOf(p *Prog, a algoValue) string {
	if a.Pos != nil {
		return p.InstrPos(a.Pos)
	}
	if v, ok := a.Fields["algorithm"]; ok {
		if in, ok := v.(ssa.Instruction); ok {
			return p.InstrPos(in)
		}
	}
	return p.Pos(a.Fn.Pos())
}

// flowsByValue: does src reach dst through value-carrying uses (not through len/cap)?
func flowsByValue(src, dst ssa.Value) bool {
	seen := map[ssa.Value]bool{}
	var walk func(v ssa.Value, d int) bool
	walk = func(v ssa.Value, d int) bool {
		if v == dst {
			return true
		}
		if seen[v] || d > 12 {
			return false
		}
		seen[v] = true
		refs := v.Referrers()
		if refs == nil {
			return false
		}
		for _, rf := range *refs {
			switch y := rf.(type) {
			case *ssa.Call:
				if bi, ok := y.Call.Value.(*ssa.Builtin); ok {
					if bi.Name() == "len" || bi.Name() == "cap" {
						continue
					}
					if (bi.Name() == "append" || bi.Name() == "copy") && walk(y, d+1) {
						return true
					}
					continue
				}
				if walk(y, d+1) {
					return true
				}
				// handed to a function of the module: continues from that function's parameter
				if sc := y.Call.StaticCallee(); sc != nil && len(sc.Blocks) > 0 && sc.Pkg != nil && strings.HasPrefix(sc.Pkg.Pkg.Path(), modPath) {
					for i, a := range y.Call.Args {
						if a == v && i < len(sc.Params) && walk(sc.Params[i], d+1) {
							return true
						}
					}
				}
			case *ssa.Slice, *ssa.Phi, *ssa.MakeInterface, *ssa.ChangeType, *ssa.Convert, *ssa.Extract:
				if walk(y.(ssa.Value), d+1) {
					return true
				}
			}
		}
		return false
	}
	return walk(src, 0)
}

func checkC10Framing(r *Report, p *Prog) {
	for _, tn := range []string{"CBC", "GCM"} {
		enc := p.Worker("xmlenc", tn, "Encrypt")
		dec := p.Worker("xmlenc", tn, "Decrypt")
		ae, ad := NewAnalysis(p), NewAnalysis(p)
		fe := ae.Ctx(enc)
		r.Fn(p.FnName(enc))
		r.Fn(p.FnName(dec))
		// the cipher call on each side
		var encData, encNonce ssa.Value
		var encCall *ssa.Call
		// (in Encrypt itself or in the unexported helpers it is split into)
		for _, f := range helperRegion(p, enc, 2) {
			for _, b := range f.Blocks {
				for _, in := range b.Instrs {
					c, ok := in.(*ssa.Call)
					if !ok {
						continue
					}
					switch calleeName(&c.Call) {
					case "(crypto/cipher.BlockMode).CryptBlocks":
						encCall, encData = c, c.Call.Args[1]
					case "(crypto/cipher.AEAD).Seal":
						encCall, encData, encNonce = c, c.Call.Args[2], c.Call.Args[1]
					}
				}
			}
		}
		plain := enc.Params[2]
		cons := fmt.Sprintf("%s: plaintext reaches the cipher's data operand", p.FnName(enc))
		if encCall == nil {
			r.Bad("C10.flow", cons, p.Pos(enc.Pos()), "no cipher call found")
		} else {
			r.Check(flowsByValue(plain, encData), "C10.flow", cons, p.InstrPos(encCall), "def-use path from the plaintext parameter to "+fe.AP(encData), "the data operand of the cipher call ("+fe.AP(encData)+") does not depend on the plaintext's content: the output does not encrypt the plaintext")
			if encNonce != nil && encCall.Parent() == enc {
				// on every path the nonce operand is a buffer of NonceSize (fresh or the caller's), never the nil parameter
				okN := true
				for _, lf := range rootLeaves(encNonce, map[ssa.Value]bool{}) {
					if prm, ok := lf.(*ssa.Parameter); ok {
						// the parameter itself reaches Seal also on the path where it is nil?
						an := NewAnalysis(p)
						fc := an.Ctx(enc)
						fc.ensureConds()
						nm := "isnil(" + fc.AP(prm) + ")"
						if !(an.B.HasVar(nm) && an.B.Implies(fc.Cond(encCall.Block()), an.B.Not(an.B.Var(nm)))) {
							okN = false
						}
					}
				}
				r.Check(okN, "C10.flow", fmt.Sprintf("%s: nonce operand of Seal is never the nil parameter", p.FnName(enc)), p.InstrPos(encCall), "generated buffer on the nil path", "when the caller passes no nonce, the nil slice itself is handed to Seal (the generated nonce is assigned to a shadowed variable)")
			}
		}
		// framing: what Decrypt strips vs what Encrypt prepends. Decrypt side: the IV/nonce operand of the cipher is a
		// prefix x[:S] of the received bytes. Encrypt side: the emitted buffer starts with the IV/nonce of size S, in
		// one of the forms append(iv, out...), iv = buf[:S] with the cipher writing to buf[S:], or copy(buf, iv) with
		// the cipher writing to buf[S:].
		var stripped []string
		for _, f := range helperRegion(p, dec, 2) {
			fx := ad.Ctx(f)
			for _, b := range f.Blocks {
				for _, in := range b.Instrs {
					c, ok := in.(*ssa.Call)
					if !ok {
						continue
					}
					var ivOp ssa.Value
					switch calleeName(&c.Call) {
					case "crypto/cipher.NewCBCDecrypter":
						ivOp = c.Call.Args[1]
					case "(crypto/cipher.AEAD).Open":
						ivOp = c.Call.Args[1]
					}
					if ivOp == nil {
						continue
					}
					if _, isMake := ivOp.(*ssa.MakeSlice); isMake {
						continue
					}
					if sz := sliceLenAP(fx, ivOp); sz != "" {
						stripped = append(stripped, sizeSuffix(sz))
					}
				}
			}
		}
		var prepended []string
		for _, f := range helperRegion(p, enc, 2) {
			fx := ae.Ctx(f)
			var ivOp, dst ssa.Value
			for _, b := range f.Blocks {
				for _, in := range b.Instrs {
					c, ok := in.(*ssa.Call)
					if !ok {
						continue
					}
					switch calleeName(&c.Call) {
					case "crypto/cipher.NewCBCEncrypter":
						ivOp = c.Call.Args[1]
					case "(crypto/cipher.BlockMode).CryptBlocks":
						dst = c.Call.Args[0]
					case "(crypto/cipher.AEAD).Seal":
						ivOp, dst = c.Call.Args[1], c.Call.Args[0]
					}
				}
			}
			if ivOp == nil {
				continue
			}
			// form 1: append(iv, out...)
			for _, b := range f.Blocks {
				for _, in := range b.Instrs {
					c, ok := in.(*ssa.Call)
					if !ok {
						continue
					}
					if sc := c.Call.StaticCallee(); sc != nil && strings.HasPrefix(sc.String(), "slices.Concat") && len(c.Call.Args) == 1 {
						// form 1b: slices.Concat(iv, out)
						if sl, ok := c.Call.Args[0].(*ssa.Slice); ok {
							if al, ok := sl.X.(*ssa.Alloc); ok {
								if el := arrayLiteralElems(al); len(el) > 0 && (el[0] == ivOp || fx.AP(el[0]) == fx.AP(ivOp)) {
									if sz := sliceLenAP(fx, ivOp); sz != "" {
										prepended = append(prepended, sizeSuffix(sz))
									}
								}
							}
						}
						continue
					}
					bi, ok := c.Call.Value.(*ssa.Builtin)
					if !ok {
						continue
					}
					if bi.Name() == "append" && (c.Call.Args[0] == ivOp || fx.AP(c.Call.Args[0]) == fx.AP(ivOp)) {
						if sz := sliceLenAP(fx, ivOp); sz != "" {
							prepended = append(prepended, sizeSuffix(sz))
						}
					}
				}
			}
			// form 4: the output is collected in a fresh bytes.Buffer whose first Write is the IV
			{
				first := map[ssa.Value]*ssa.Call{}
				for _, b := range f.Blocks {
					for _, in := range b.Instrs {
						c, ok := in.(*ssa.Call)
						if !ok || !calleeIs(c, "(*bytes.Buffer).Write") {
							continue
						}
						buf := c.Call.Args[0]
						if _, isLocal := buf.(*ssa.Alloc); !isLocal {
							continue
						}
						if prev := first[buf]; prev == nil || c.Block() != prev.Block() && c.Block().Dominates(prev.Block()) {
							first[buf] = c
						}
					}
				}
				for _, c := range first {
					if c.Call.Args[1] == ivOp || fx.AP(c.Call.Args[1]) == fx.AP(ivOp) {
						if sz := sliceLenAP(fx, ivOp); sz != "" {
							prepended = append(prepended, sizeSuffix(sz))
						}
					}
				}
			}
			// forms 2 and 3: the cipher writes to buf[S:] and the first S bytes of buf are the IV
			if sl, ok := dst.(*ssa.Slice); ok && sl.Low != nil && sl.High == nil {
				buf, off := fx.AP(sl.X), fx.AP(sl.Low)
				// an offset written as len(iv) is the size iv was made with
				offAlt := ""
				if la := lenArg(sl.Low); la != nil {
					if s := sliceLenAP(fx, la); s != "" && fx.AP(la) == fx.AP(ivOp) {
						offAlt = s
					}
				}
				filled := fx.AP(ivOp) == buf+"[:"+off+"]"
				for _, b := range f.Blocks {
					for _, in := range b.Instrs {
						c, ok := in.(*ssa.Call)
						if !ok {
							continue
						}
						if bi, ok := c.Call.Value.(*ssa.Builtin); ok && bi.Name() == "copy" {
							to, from := fx.AP(c.Call.Args[0]), fx.AP(c.Call.Args[1])
							if (to == buf || to == buf+"[:"+off+"]") && from == fx.AP(ivOp) && (sliceLenAP(fx, ivOp) == off || offAlt != "") {
								filled = true
							}
						}
					}
				}
				if filled {
					if offAlt != "" {
						off = offAlt
					}
					prepended = append(prepended, sizeSuffix(off))
				}
			}
		}
		c2 := fmt.Sprintf("xmlenc.%s: prefix stripped by Decrypt = prefix prepended by Encrypt", tn)
		okF := len(stripped) > 0 && len(prepended) > 0 && stripped[0] == prepended[0]
		if len(stripped) == 0 && len(prepended) == 0 {
			okF = true
		}
		r.Check(okF, "C10.framing", c2, p.Pos(dec.Pos()), fmt.Sprintf("strip %v / prepend %v", stripped, prepended), fmt.Sprintf("Decrypt strips a prefix of %v but Encrypt prepends %v: what Encrypt produces is not what Decrypt expects", stripped, prepended))
		// padding symmetry
		pads := false
		for _, f := range helperRegion(p, enc, 2) {
			pads = pads || callsModuleHelper(p, f, func(h *ssa.Function) bool { return paddingHelperOK(h) && h.Signature.Params().Len() == 2 })
		}
		// the stripping (x[:len(x)-int(x[len(x)-1])]) in Decrypt itself or in a helper it calls, whatever the helper's shape
		strips := false
		for _, f := range helperRegion(p, dec, 2) {
			if _, ok := padStripBuf(NewAnalysis(p).Ctx(f)); ok {
				strips = true
			}
		}
		// padding must not depend on the plaintext (Decrypt strips unconditionally)
		if pads && strips {
			an := NewAnalysis(p)
			fcx := an.Ctx(enc)
			fcx.ensureConds()
			pAP := fcx.AP(plain)
			for _, b := range enc.Blocks {
				for _, in := range b.Instrs {
					if c, ok := in.(*ssa.Call); ok && c.Call.StaticCallee() != nil && p.InLibrary(c.Call.StaticCallee()) && paddingHelperOK(c.Call.StaticCallee()) && c.Call.StaticCallee().Signature.Recv() == nil {
						r.Check(!mentions(an.B, fcx.Cond(b), pAP), "C10.framing", fmt.Sprintf("xmlenc.%s: padding is applied to every plaintext", tn), p.InstrPos(in), "unconditional", "padding is skipped for some plaintexts although Decrypt always strips padding")
					}
				}
			}
		}
		c3 := fmt.Sprintf("xmlenc.%s: padding added by Encrypt is removed by Decrypt", tn)
		r.Check(pads == strips, "C10.framing", c3, p.Pos(dec.Pos()), fmt.Sprintf("pad=%v strip=%v", pads, strips), fmt.Sprintf("Encrypt pads: %v, Decrypt strips padding: %v", pads, strips))
	}
}

func sizeSuffix(ap string) string {
	if i := strings.LastIndex(ap, "."); i >= 0 && strings.HasSuffix(ap, "()") {
		return ap[i+1:]
	}
	return ap
}

func callsModuleHelper(p *Prog, fn *ssa.Function, pred func(*ssa.Function) bool) bool {
	for _, b := range fn.Blocks {
		for _, in := range b.Instrs {
			if c, ok := in.(*ssa.Call); ok && c.Call.StaticCallee() != nil && p.InLibrary(c.Call.StaticCallee()) && c.Call.StaticCallee().Signature.Recv() == nil && pred(c.Call.StaticCallee()) {
				return true
			}
		}
	}
	return false
}

func checkC10Digest(r *Report, p *Prog) {
	rule := "C10.digest"
	fn := p.Worker("xmlenc", "RSA", "Decrypt")
	a := NewAnalysis(p)
	// helpers of the package are analysed as part of Decrypt (the digest choice may be factored out)
	a.Inline = func(f *ssa.Function) bool {
		return f.Pkg == fn.Pkg && f != fn && (f.Object() == nil || !f.Object().Exported())
	}
	B := a.B
	fc := a.Ctx(fn)
	fc.ensureConds()
	r.Fn(p.FnName(fn))
	rej := fc.NotAcceptFormula()
	// the values e.DigestMethod can hold when the key decrypter runs: every store to the field, under the condition
	// that it executes and no later store does; a value computed by a helper is split over the helper's returns
	type storeAt struct {
		st  *ssa.Store
		blk *ssa.BasicBlock
		idx int
	}
	var stores []storeAt
	for _, b := range fn.Blocks {
		for i, in := range b.Instrs {
			st, ok := in.(*ssa.Store)
			if !ok {
				continue
			}
			fa, ok := st.Addr.(*ssa.FieldAddr)
			if !ok || fieldName(fa.X.Type(), fa.Field) != "DigestMethod" {
				continue
			}
			stores = append(stores, storeAt{st, b, i})
		}
	}
	later := func(x, y storeAt) bool { // y executes after x on some path
		if x.blk == y.blk {
			return y.idx > x.idx
		}
		return blockReaches(x.blk, y.blk)
	}
	type leaf struct {
		cnd *bddNode
		ctx *FuncCtx
		v   ssa.Value
		at  ssa.Instruction
	}
	var leaves []leaf
	for _, s1 := range stores {
		cnd := fc.Cond(s1.blk)
		for _, s2 := range stores {
			if s2.st != s1.st && later(s1, s2) {
				cnd = B.And(cnd, B.Not(fc.Cond(s2.blk)))
			}
		}
		if cnd == B.False {
			continue
		}
		val := s1.st.Val
		var call *ssa.Call
		idx := 0
		switch x := val.(type) {
		case *ssa.Call:
			call = x
		case *ssa.Extract:
			if c, ok := x.Tuple.(*ssa.Call); ok {
				call, idx = c, x.Index
			}
		}
		if call != nil {
			if sc := call.Call.StaticCallee(); sc != nil && a.Inline(sc) && len(sc.Blocks) > 0 {
				sub := fc.inlineCtx(sc, call.Call.Args, call)
				sub.ensureConds()
				r.Fn(p.FnName(sc))
				ei := errIndex(sc)
				for _, ret := range sub.Returns() {
					if idx >= len(ret.Results) || (ei >= 0 && !isNilConst(Resolve(ret.Results[ei]))) {
						continue
					}
					leaves = append(leaves, leaf{B.And(cnd, sub.Cond(ret.Block())), sub, Resolve(ret.Results[idx]), ret})
				}
				continue
			}
		}
		// a value chosen on two branches and assigned once (digest := SHA1 / digest = registered; e.DigestMethod = digest)
		if ph, isPhi := val.(*ssa.Phi); isPhi {
			for i, e := range ph.Edges {
				pred := ph.Block().Preds[i]
				leaves = append(leaves, leaf{B.And(cnd, B.And(fc.Cond(pred), fc.edgeCond(pred, ph.Block()))), fc, e, s1.st})
			}
			continue
		}
		leaves = append(leaves, leaf{cnd, fc, val, s1.st})
	}
	var elNil, lookOK string
	for _, name := range sortedKeys(a.Atoms) {
		if strings.HasPrefix(name, "isnil(") && strings.Contains(name, "FindElement") && atomLooksUp(a.Atoms[name], "DigestMethod") {
			elNil = name
		}
		if strings.HasPrefix(name, "ok:") && strings.Contains(name, "digestMethods") {
			lookOK = name
		}
	}
	// the use: the call of the key decrypter (a call through a func value that is handed the receiver)
	useCond := B.True
	for _, b := range fn.Blocks {
		for _, in := range b.Instrs {
			if c, ok := in.(*ssa.Call); ok && c.Call.StaticCallee() == nil && !c.Call.IsInvoke() && handedReceiver(fc, c) != nil {
				useCond = fc.Cond(b)
			}
		}
	}
	n := 0
	shaCond := B.False
	for _, lf := range leaves {
		lf.cnd = B.And(lf.cnd, useCond)
		if lf.cnd == B.False {
			continue
		}
		n++
		ap := lf.ctx.AP(lf.v)
		if strings.Contains(ap, "xmlenc.SHA1") {
			shaCond = B.Or(shaCond, lf.cnd)
		}
		switch {
		case strings.Contains(ap, "xmlenc.SHA1"):
			okS := elNil != "" && B.Implies(lf.cnd, B.Var(elNil))
			r.Check(okS, rule, p.FnName(fn)+": SHA-1 used only when the element has no DigestMethod", p.InstrPos(lf.at), "under DigestMethod element == nil", "SHA-1 is used although the element names a digest method (the named digest is ignored)")
		case strings.Contains(ap, "digestMethods["):
			okL := lookOK != "" && B.Implies(lf.cnd, B.Var(lookOK)) && strings.Contains(ap, `SelectAttrValue(c:"Algorithm"`)
			r.Check(okL, rule, p.FnName(fn)+": digest taken from the registry entry of the element's Algorithm attribute", p.InstrPos(lf.at), ap, "the digest does not come from the registry lookup of DigestMethod/@Algorithm under ok: "+ap)
		default:
			r.Bad(rule, p.FnName(fn)+": digest source "+ap, p.InstrPos(lf.at), "the hash handed to the key decrypter has an unexpected source")
		}
	}
	if n < 2 {
		r.Bad(rule, p.FnName(fn)+": digest selection", p.Pos(fn.Pos()), fmt.Sprintf("%d values of the digest method (expected the default and the looked-up one)", n))
	}
	// and the converse: an element that names no digest is decrypted with SHA-1 whatever the decrypter value was built
	// with (the registered decrypters carry the digest they encrypt with; the W3C default for an absent DigestMethod is
	// SHA-1, and that is what a peer that omits the element wrapped the key with)
	if elNil != "" {
		r.Check(B.Implies(B.And(B.Var(elNil), useCond), shaCond), rule, p.FnName(fn)+": an element without DigestMethod is decrypted with SHA-1", p.Pos(fn.Pos()), "DigestMethod element == nil => the digest is SHA-1", "an element that names no digest method can reach the key decrypter with another digest than SHA-1 (the value the decrypter was configured with): a key wrapped by a peer that relies on the default is refused")
	}
	if lookOK != "" {
		miss := B.Not(B.Var(lookOK))
		if elNil != "" {
			miss = B.And(miss, B.Not(B.Var(elNil)))
		}
		r.Check(B.Implies(miss, rej), rule, p.FnName(fn)+": an unknown digest identifier is an error", p.Pos(fn.Pos()), "!ok => reject", "an unknown DigestMethod identifier does not stop decryption")
	}
	// the decrypter is invoked with the receiver that carries the chosen digest
	for _, ret := range fc.Returns() {
		v := Resolve(ret.Results[0])
		if ex, ok := v.(*ssa.Extract); ok {
			if c, ok := ex.Tuple.(*ssa.Call); ok && c.Call.StaticCallee() == nil && !c.Call.IsInvoke() {
				hv := handedReceiver(fc, c)
				got := "-"
				if hv != nil {
					got = fc.AP(hv)
				}
				r.Check(hv != nil, rule, p.FnName(fn)+": key decrypter runs with the chosen digest", p.InstrPos(c), got, "the key decrypter is not invoked on the value whose DigestMethod was selected")
			}
		}
	}
}

// digestParamHash: the hash handed to the RSA primitive is dm.Hash() for a DigestMethod parameter dm of the key-transport
// function fn, and every call through the field fld (e.keyEncrypter(...)) in the package passes the value's own
// DigestMethod for that parameter.
func digestParamHash(p *Prog, fn *ssa.Function, fld string, hash ssa.Value) bool {
	hc, ok := hash.(*ssa.Call)
	if !ok || !hc.Call.IsInvoke() || hc.Call.Method.Name() != "Hash" {
		return false
	}
	prm, ok := hc.Call.Value.(*ssa.Parameter)
	if !ok || prm.Parent() != fn || !typeIs(prm.Type(), xmlencPath, "DigestMethod") {
		return false
	}
	idx := paramIndex(fn, prm)
	n := 0
	for _, f := range p.modFns {
		if f.Pkg == nil || f.Pkg.Pkg.Path() != xmlencPath || !p.InLibrary(f) {
			continue
		}
		fc := NewAnalysis(p).Ctx(f)
		for _, b := range f.Blocks {
			for _, in := range b.Instrs {
				c, ok := in.(*ssa.Call)
				if !ok || c.Call.IsInvoke() || c.Call.StaticCallee() != nil {
					continue
				}
				ld, ok := c.Call.Value.(*ssa.UnOp)
				if !ok {
					continue
				}
				fa, ok := ld.X.(*ssa.FieldAddr)
				if !ok || fieldName(fa.X.Type(), fa.Field) != fld {
					continue
				}
				n++
				if idx >= len(c.Call.Args) || !strings.HasSuffix(fc.AP(c.Call.Args[idx]), ".DigestMethod") {
					return false
				}
			}
		}
	}
	return n > 0
}

// checkLengthGates: C10.framing, length part. One Decrypt implementation serves every block cipher of its mode (AES and
// 3DES share CBC), so a condition that rejects on the cipher value's length has to be stated in the cipher's own block
// (or nonce) size. A length of the cipher value compared with, or reduced modulo, a numeric constant greater than one is
// a gate that is right for at most one of the ciphers behind the type: conforming ciphertexts of the others are refused.
func checkLengthGates(r *Report, p *Prog, rule string) {
	for _, tn := range []string{"CBC", "GCM"} {
		dec := p.Worker("xmlenc", tn, "Decrypt")
		for _, f := range helperRegion(p, dec, 2) {
			a := NewAnalysis(p)
			fc := a.Ctx(f)
			fc.ensureConds()
			rej := fc.NotAcceptFormula()
			var bad []string
			for _, nm := range a.B.Support(rej) {
				ai := a.Atoms[nm]
				if ai == nil || ai.Fn != f || (ai.Kind != "lt" && ai.Kind != "eq") {
					continue
				}
				onLen, fixed := false, false
				for _, arg := range ai.Args {
					if strings.Contains(arg, "len(") && (strings.Contains(arg, "getCiphertext") || strings.Contains(arg, "CipherValue") || strings.Contains(arg, "DecodeString")) {
						onLen = true
					}
					for _, m := range constTokenRe.FindAllStringSubmatch(arg, -1) {
						if k, err := strconv.Atoi(m[1]); err == nil && k > 1 {
							fixed = true
						}
					}
				}
				if onLen && fixed {
					bad = append(bad, nm)
				}
			}
			sort.Strings(bad)
			cons := fmt.Sprintf("%s: length conditions on the cipher value are stated in the cipher's block/nonce size", p.FnName(f))
			r.Check(len(bad) == 0, rule, cons, p.Pos(f.Pos()), "no reject condition compares the cipher value's length with a numeric constant", "the cipher value's length is tested against a fixed number ("+strings.Join(bad, ", ")+"): the same code decrypts ciphers with 8- and 16-byte blocks, so conforming short ciphertexts of one of them are refused")
		}
	}
}

var constTokenRe = regexp.MustCompile(`c:(\d+)`)

// checkWrappedKeyLength: C10.framing, key-transport part. How long a wrapped key is follows from the recipient's modulus
// (ceil(bits/8) bytes, whatever the bit length) and is judged by crypto/rsa; a reject condition of (RSA).Decrypt or its
// helpers that compares the length of a byte string with anything but zero refuses conforming wrapped keys for some key
// sizes or some content-key sizes.
func checkWrappedKeyLength(r *Report, p *Prog, rule string) {
	dec := p.Worker("xmlenc", "RSA", "Decrypt")
	for _, f := range helperRegion(p, dec, 3) {
		a := NewAnalysis(p)
		fc := a.Ctx(f)
		fc.ensureConds()
		rej := fc.NotAcceptFormula()
		var bad []string
		for _, nm := range a.B.Support(rej) {
			ai := a.Atoms[nm]
			if ai == nil || ai.Fn != f || (ai.Kind != "lt" && ai.Kind != "eq") || len(ai.Vals) != 2 {
				continue
			}
			onLen, zero := false, false
			for _, v := range ai.Vals {
				if k, ok := constInt(v); ok && k == 0 {
					zero = true
				}
				if mentionsByteLen(v, 0) {
					onLen = true
				}
			}
			if onLen && !zero {
				bad = append(bad, nm)
			}
		}
		sort.Strings(bad)
		cons := fmt.Sprintf("%s: the wrapped key's length is left to crypto/rsa", p.FnName(f))
		r.Check(len(bad) == 0, rule, cons, p.Pos(f.Pos()), "no reject condition compares the length of a byte string with anything but zero", "a reject condition compares the length of a byte string ("+strings.Join(bad, ", ")+"): wrapped keys are ceil(bits/8) bytes for any modulus size and carry content keys of several sizes, so conforming input is refused for some of them")
	}
}

// mentionsByteLen: v is computed from len(x) for a byte slice or string x.
func mentionsByteLen(v ssa.Value, depth int) bool {
	if depth > 4 {
		return false
	}
	switch x := v.(type) {
	case *ssa.Call:
		if la := lenArg(x); la != nil {
			switch t := la.Type().Underlying().(type) {
			case *types.Slice:
				bt, ok := t.Elem().Underlying().(*types.Basic)
				return ok && bt.Kind() == types.Uint8
			case *types.Basic:
				return t.Info()&types.IsString != 0
			}
		}
	case *ssa.BinOp:
		return mentionsByteLen(x.X, depth+1) || mentionsByteLen(x.Y, depth+1)
	case *ssa.Convert:
		return mentionsByteLen(x.X, depth+1)
	case *ssa.ChangeType:
		return mentionsByteLen(x.X, depth+1)
	}
	return false
}

// checkDigestAdvertised: C10.digest, encrypt side (writer/reader agreement with the decrypter's "SHA-1 only when the
// element names no digest"). RSA.Encrypt names the digest it wrapped the key with: the ds:DigestMethod element is
// created under no condition but e.DigestMethod != nil, and its Algorithm attribute is e.DigestMethod.Algorithm().
func checkDigestAdvertised(r *Report, p *Prog, rule string) {
	fn := p.Worker("xmlenc", "RSA", "Encrypt")
	r.Fn(p.FnName(fn))
	rg := NewRegion(p, fn, 2)
	a := NewAnalysis(p)
	n := 0
	rg.Each(func(x RI) {
		c, ok := x.I.(*ssa.Call)
		if !ok || !calleeIs(c, "(*"+etreePath+".Element).CreateElement") {
			return
		}
		if s, ok := constStr(c.Call.Args[1]); !ok || !strings.HasSuffix(s, "DigestMethod") {
			return
		}
		n++
		fc := rg.Ctx(a, x.C)
		fc.ensureConds()
		var foreign []string
		for _, nm := range a.B.Support(fc.AbsCond(c.Block())) {
			ai := a.Atoms[nm]
			if ai != nil && ai.Kind == "isnil" && len(ai.Args) == 1 && strings.HasSuffix(ai.Args[0], "RSA.DigestMethod") {
				continue
			}
			if ai != nil && ai.Kind == "isnil" && strings.HasPrefix(ai.Args[0], "r:") {
				continue // an earlier step's error
			}
			if ai != nil && (ai.Kind == "typeis" || ai.Kind == "eq" && strings.Contains(nm, "len(")) {
				continue // the certificate argument's type, key sizes
			}
			foreign = append(foreign, nm)
		}
		sort.Strings(foreign)
		if len(foreign) > 0 {
			// a gate that refuses the whole operation is not a condition on the element: what matters is that every
			// successful return with a configured digest has passed through the write
			top := rg.Ctx(a, rg.top)
			top.ensureConds()
			B := a.B
			configured := B.True
			for _, nm := range B.names {
				if ai := a.Atoms[nm]; ai != nil && ai.Kind == "isnil" && len(ai.Args) == 1 && strings.HasSuffix(ai.Args[0], "RSA.DigestMethod") {
					configured = B.And(configured, B.Not(B.Var(nm)))
				}
			}
			created := fc.AbsCond(c.Block())
			all, nRet := true, 0
			for _, ret := range top.Returns() {
				if len(ret.Results) != 2 || !isNilConst(Resolve(ret.Results[1])) {
					continue
				}
				nRet++
				all = all && B.Implies(B.And(top.Cond(ret.Block()), configured), created)
			}
			if all && nRet > 0 {
				foreign = nil
			}
		}
		r.Check(len(foreign) == 0, rule, p.FnName(fn)+": the digest used to wrap the key is named in the EncryptedKey", p.InstrPos(c), "ds:DigestMethod is written whenever a digest is configured", "ds:DigestMethod is written only under "+strings.Join(foreign, ", ")+": a key wrapped with a configured digest is emitted without naming it, and every decrypter (this package's too) then assumes SHA-1")
	})
	if n == 0 {
		r.Bad(rule, p.FnName(fn)+": the digest used to wrap the key is named in the EncryptedKey", p.Pos(fn.Pos()), "RSA.Encrypt never writes a ds:DigestMethod element")
	}
}

// checkUnprefixedPaths: the decrypt side of xmlenc finds the parts of a received element by local name. An etree path
// matches a "prefix:" in a segment against the literal prefix text of the document, not the namespace it is bound to,
// so "./EncryptionMethod/ds:DigestMethod" misses the same element written with a default namespace or another prefix
// (and the digest silently falls back to SHA-1). Every constant path handed to Find*/Select* in package xmlenc outside
// the Encrypt functions is free of prefixes.
func checkUnprefixedPaths(r *Report, p *Prog, rule string) {
	n := 0
	bad := ""
	for _, fn := range p.modFns {
		if !p.InLibrary(fn) || fn.Pkg == nil || fn.Pkg.Pkg.Path() != xmlencPath {
			continue
		}
		for _, b := range fn.Blocks {
			for _, in := range b.Instrs {
				c, ok := in.(*ssa.Call)
				if !ok || c.Call.StaticCallee() == nil || c.Call.StaticCallee().Pkg == nil || c.Call.StaticCallee().Pkg.Pkg.Path() != etreePath {
					continue
				}
				nm := c.Call.StaticCallee().Name()
				if !(strings.HasPrefix(nm, "Find") || strings.HasPrefix(nm, "Select")) || len(c.Call.Args) < 2 {
					continue
				}
				path, ok := etreePathConst(c.Call.Args[1])
				if !ok {
					continue
				}
				n++
				for _, seg := range strings.Split(path, "/") {
					if i := strings.IndexAny(seg, "[@"); i >= 0 {
						seg = seg[:i]
					}
					if strings.Contains(seg, ":") {
						bad = firstNonEmpty(bad, fmt.Sprintf("%s looks up %q at %s", p.FnName(fn), path, p.InstrPos(in)))
					}
				}
			}
		}
	}
	r.Check(n >= 4 && bad == "", rule, "received elements are searched by local name (no namespace prefix in an etree path)", "-", fmt.Sprintf("%d constant lookup paths in package xmlenc, none with a prefix", n), "a lookup path names a namespace prefix ("+bad+"): etree compares it with the prefix text the sender happened to use, so the same element bound through a default namespace or another prefix is not found")
}

// checkCipherStateless: every Encrypt/Decrypt method of a type of package xmlenc.
func checkCipherStateless(r *Report, p *Prog, rule string) {
	for _, fn := range p.modFns {
		if !p.InLibrary(fn) || fn.Pkg == nil || fn.Pkg.Pkg.Path() != xmlencPath || fn.Signature.Recv() == nil {
			continue
		}
		if fn.Name() != "Encrypt" && fn.Name() != "Decrypt" {
			continue
		}
		r.Fn(p.FnName(fn))
		// (the registries - written by the exported Register* functions and the initialiser, never on an encrypt/decrypt
		// path - are configuration; state is what these paths themselves write)
		region := helperRegion(p, fn, 3)
		written := globalsWrittenBy(p, region)
		cons := p.FnName(fn) + ": the result depends on the arguments only (no package-level state written on this path)"
		bad := ""
		for _, f := range region {
			for _, b := range f.Blocks {
				for _, in := range b.Instrs {
					for _, op := range in.Operands(nil) {
						if op == nil || *op == nil {
							continue
						}
						if g, ok := (*op).(*ssa.Global); ok {
							if at, isW := written[g]; isW {
								bad = firstNonEmpty(bad, fmt.Sprintf("%s uses the package-level variable %s, which this path itself writes (%s)", p.FnName(f), g.Name(), at))
							}
						}
					}
				}
			}
		}
		r.Check(bad == "", rule, cons, p.Pos(fn.Pos()), "no package-level variable is both read and written on this path", bad+": what one algorithm value remembered is handed to another (two algorithms that share a key length produce each other's ciphertext under their own identifier)")
	}
}

// handedReceiver: the argument of call c that is the method's own receiver value (access path rooted at the receiver's
// type), given directly or as a field of a parameter object built for the call.
func handedReceiver(fc *FuncCtx, c *ssa.Call) ssa.Value {
	recv := fc.Fn.Signature.Recv()
	if recv == nil {
		return nil
	}
	rn := namedOf(recv.Type())
	if rn == nil {
		return nil
	}
	// (the receiver itself, or a field read from it: e.keyDecrypter(e.DigestMethod, ...))
	is := func(v ssa.Value) bool {
		ap := fc.AP(v)
		return ap == rn.Obj().Name() || strings.HasPrefix(ap, rn.Obj().Name()+".") || strings.HasPrefix(ap, rn.Obj().Name()+"#")
	}
	for _, a := range c.Call.Args {
		if is(a) {
			return a
		}
		st := unexportedStruct(a.Type())
		ld, isLd := a.(*ssa.UnOp)
		if st == nil || !isLd {
			continue
		}
		for f := 0; f < st.NumFields(); f++ {
			if v := literalFieldValue(ld.X, []int{f}, 0); v != nil && is(v) {
				return v
			}
		}
	}
	return nil
}
