package main

// Nil-dereference guards (rule kinds K11/K1): every dereference of
//   (a) an optional (pointer-typed) field of a schema type filled from peer XML,
//   (b) the result of a "maybe nil" lookup (Document.Root, FindElement, SelectAttr, module finders that
//       return (nil, nil)),
// must be implied non-nil by the path condition of the dereferencing block, by the facts all callers
// establish (unexported helpers), or by construction (composite literal with the field set).

import (
	"fmt"
	"go/token"
	"go/types"
	"strings"

	"golang.org/x/tools/go/ssa"
)

type NilRules struct {
	R       *Report
	A       *Analysis
	S       *Scope
	need    map[string]int // fn|idx -> 0 unknown,1 no,2 yes
	mayNilF map[*ssa.Function]int
	inl     *Analysis // the callers seen with their unexported error-returning helpers inlined (callersImply)
}

func NewNilRules(r *Report, a *Analysis, s *Scope) *NilRules {
	return &NilRules{R: r, A: a, S: s, need: map[string]int{}, mayNilF: map[*ssa.Function]int{}}
}

var maybeNilDeps = map[string]bool{
	"(*github.com/beevik/etree.Document).Root":           true,
	"(*github.com/beevik/etree.Element).FindElement":     true,
	"(*github.com/beevik/etree.Element).SelectElement":   true,
	"(*github.com/beevik/etree.Element).SelectAttr":      true,
	"(*github.com/beevik/etree.Document).FindElement":    true,
	"(*github.com/beevik/etree.Document).SelectElement":  true,
	"(*github.com/beevik/etree.Element).FindElementPath": true,
	"(*github.com/beevik/etree.Element).Parent":          true,
	"encoding/pem.Decode":                                true,
}

// moduleMayReturnNilNil: module function (T*, error) with a return of (nil, nil).
func (n *NilRules) moduleMayReturnNilNil(fn *ssa.Function) bool {
	if v, ok := n.mayNilF[fn]; ok {
		return v == 2
	}
	n.mayNilF[fn] = 1
	res := fn.Signature.Results()
	if !n.A.P.InModule(fn) || res.Len() != 2 || errIndex(fn) != 1 || !nillable(res.At(0).Type()) {
		return false
	}
	if _, ok := res.At(0).Type().Underlying().(*types.Pointer); !ok {
		return false
	}
	for _, b := range fn.Blocks {
		if len(b.Instrs) == 0 {
			continue
		}
		if r, ok := b.Instrs[len(b.Instrs)-1].(*ssa.Return); ok && len(r.Results) == 2 {
			if isNilConst(r.Results[0]) && isNilConst(r.Results[1]) {
				n.mayNilF[fn] = 2
				return true
			}
		}
	}
	return false
}

// maybeNilValue classifies v: "" if not a tracked maybe-nil pointer, else a description.
func (n *NilRules) maybeNilValue(v ssa.Value) string {
	switch x := v.(type) {
	case *ssa.Call:
		sc := x.Call.StaticCallee()
		if sc == nil {
			return ""
		}
		if maybeNilDeps[sc.String()] {
			return "result of " + shortFn(sc)
		}
	case *ssa.TypeAssert:
		if !x.CommaOk {
			if d := suppliedPointer(x); d != "" {
				return d
			}
		}
	case *ssa.Extract:
		if ta, ok := x.Tuple.(*ssa.TypeAssert); ok && x.Index == 0 {
			if d := suppliedPointer(ta); d != "" {
				return d
			}
		}
		if c, ok := x.Tuple.(*ssa.Call); ok && x.Index == 0 {
			if sc := c.Call.StaticCallee(); sc != nil {
				if maybeNilDeps[sc.String()] {
					return "result of " + shortFn(sc)
				}
				if n.moduleMayReturnNilNil(sc) {
					return "result of " + shortFn(sc) + " (returns nil, nil)"
				}
			}
		}
	case *ssa.UnOp:
		if x.Op != token.MUL {
			return ""
		}
		if fa, ok := x.X.(*ssa.FieldAddr); ok {
			// a pointer-typed field of a caller-supplied key object (its zero value has nil fields)
			if _, isPtr := x.Type().Underlying().(*types.Pointer); isPtr {
				base := fa.X
				for {
					// fields of embedded structs (rsa.PrivateKey embeds PublicKey)
					inner, ok := base.(*ssa.FieldAddr)
					if !ok {
						break
					}
					base = inner.X
				}
				if ex, ok := base.(*ssa.Extract); ok {
					if ta, ok := ex.Tuple.(*ssa.TypeAssert); ok && ex.Index == 0 && suppliedPointer(ta) != "" {
						return "field " + fieldName(fa.X.Type(), fa.Field) + " of the caller-supplied key (nil in a zero-valued key)"
					}
				}
				if ta, ok := base.(*ssa.TypeAssert); ok && suppliedPointer(ta) != "" {
					return "field " + fieldName(fa.X.Type(), fa.Field) + " of the caller-supplied key (nil in a zero-valued key)"
				}
			}
			return n.optField(fa.X.Type(), fa.Field, x.Type())
		}
	case *ssa.Field:
		return n.optField(x.X.Type(), x.Field, x.Type())
	}
	return ""
}

// suppliedPointer: ta asserts a caller-supplied interface value (a parameter of interface type) to a pointer type: an
// interface holding a nil pointer of that type passes the assertion.
func suppliedPointer(ta *ssa.TypeAssert) string {
	if _, isPtr := ta.AssertedType.Underlying().(*types.Pointer); !isPtr {
		return ""
	}
	prm, ok := ta.X.(*ssa.Parameter)
	if !ok {
		return ""
	}
	if _, isIface := prm.Type().Underlying().(*types.Interface); !isIface {
		return ""
	}
	return "caller-supplied " + prm.Name() + " asserted to " + types.TypeString(ta.AssertedType, func(p *types.Package) string { return p.Name() }) + " (a nil pointer of that type passes the assertion)"
}

func (n *NilRules) optField(owner types.Type, idx int, ft types.Type) string {
	if _, ok := ft.Underlying().(*types.Pointer); !ok {
		return ""
	}
	on := namedOf(owner)
	if on == nil || !n.S.Schema[on] {
		return ""
	}
	return "optional field " + on.Obj().Name() + "." + fieldName(owner, idx)
}

// derefOperands: pointer values the instruction dereferences.
func (n *NilRules) derefOperands(in ssa.Instruction) []ssa.Value {
	var out []ssa.Value
	isPtr := func(v ssa.Value) bool {
		_, ok := v.Type().Underlying().(*types.Pointer)
		return ok
	}
	switch x := in.(type) {
	case *ssa.FieldAddr:
		out = append(out, x.X)
	case *ssa.IndexAddr:
		if isPtr(x.X) {
			out = append(out, x.X)
		}
	case *ssa.UnOp:
		if x.Op == token.MUL {
			out = append(out, x.X)
		}
	case *ssa.Store:
		out = append(out, x.Addr)
	case *ssa.Slice:
		if isPtr(x.X) {
			out = append(out, x.X)
		}
	}
	if ci, ok := in.(ssa.CallInstruction); ok {
		c := ci.Common()
		if sc := c.StaticCallee(); sc != nil {
			for i, a := range c.Args {
				if !isPtr(a) {
					continue
				}
				if n.A.P.InModule(sc) {
					if n.needsNonNil(sc, i) {
						out = append(out, a)
					}
				} else if i == 0 && sc.Signature.Recv() != nil {
					out = append(out, a) // dependency method on a nil receiver: assume it dereferences
				}
			}
		}
	}
	return out
}

// needsNonNil: does the module function dereference its idx-th parameter without checking it?
func (n *NilRules) needsNonNil(fn *ssa.Function, idx int) bool {
	key := fmt.Sprintf("%p|%d", fn, idx)
	switch n.need[key] {
	case 1:
		return false
	case 2:
		return true
	}
	n.need[key] = 1 // recursion guard: assume no
	if idx >= len(fn.Params) || len(fn.Blocks) == 0 {
		return false
	}
	par := fn.Params[idx]
	fc := n.A.Ctx(fn)
	fc.ensureConds()
	atom := "isnil(" + fc.AP(par) + ")"
	for _, b := range fn.Blocks {
		for _, in := range b.Instrs {
			for _, v := range n.derefOperands(in) {
				if v != ssa.Value(par) {
					continue
				}
				if n.A.B.HasVar(atom) && fc.Implied(b, n.A.B.Not(n.A.B.Var(atom))) {
					continue
				}
				n.need[key] = 2
				return true
			}
		}
	}
	return false
}

// impliedNonNil: is "ap != nil" established at block b of fc (locally, by all callers, or by construction)?
func (n *NilRules) impliedNonNil(fc *FuncCtx, b *ssa.BasicBlock, v ssa.Value, depth int) (bool, string) {
	B := n.A.B
	ap := fc.AP(v)
	atom := "isnil(" + ap + ")"
	fc.ensureConds()
	if B.HasVar(atom) && fc.Implied(b, B.Not(B.Var(atom))) {
		return true, "guarded: path condition implies " + ap + " != nil"
	}
	if fc.Cond(b) == B.False {
		return true, "unreachable block"
	}
	// by construction: composite literal in this function with the field stored non-nil
	if why := constructedNonNil(fc, v, b); why != "" {
		return true, why
	}
	// by construction: Root() of a document whose root was set in this function at a dominating point
	if c, ok := v.(*ssa.Call); ok {
		if scf := c.Call.StaticCallee(); scf != nil && scf.String() == "(*github.com/beevik/etree.Document).Root" {
			doc := fc.AP(c.Call.Args[0])
			for _, bb := range fc.Fn.Blocks {
				for _, in := range bb.Instrs {
					if ci, ok := in.(*ssa.Call); ok {
						if s2 := ci.Call.StaticCallee(); s2 != nil && s2.String() == "(*github.com/beevik/etree.Document).SetRoot" && fc.AP(ci.Call.Args[0]) == doc {
							if bb == b || bb.Dominates(b) {
								return true, "by construction: SetRoot was called on this document at a dominating point"
							}
						}
					}
				}
			}
		}
	}
	// facts established by every static caller (unexported functions only)
	if depth < 3 {
		if ok, why := n.callersImply(fc, ap, depth); ok {
			return true, why
		}
	}
	return false, ""
}

func constructedNonNil(fc *FuncCtx, v ssa.Value, at *ssa.BasicBlock) string {
	ld, ok := v.(*ssa.UnOp)
	if !ok {
		return ""
	}
	fa, ok := ld.X.(*ssa.FieldAddr)
	if !ok {
		return ""
	}
	root := rootOfAddr(fa.X)
	al, ok := root.(*ssa.Alloc)
	if !ok {
		return ""
	}
	want := fc.AP(fa)
	for _, b := range fc.Fn.Blocks {
		for _, in := range b.Instrs {
			st, ok := in.(*ssa.Store)
			if !ok {
				continue
			}
			if rootOfAddr(st.Addr) != ssa.Value(al) || fc.AP(st.Addr) != want {
				continue
			}
			if fc.NonNil(st.Val) == fc.A.B.True && (b == at || b.Dominates(at)) {
				return "by construction: field set to a non-nil value in this function"
			}
		}
	}
	return ""
}

func (n *NilRules) callersImply(fc *FuncCtx, ap string, depth int) (bool, string) {
	fn := fc.Fn
	if fn.Parent() != nil {
		return false, ""
	}
	if fn.Object() != nil && fn.Object().Exported() {
		return false, ""
	}
	// which parameter roots the access path?
	var par *ssa.Parameter
	var rest string
	for _, p := range fn.Params {
		root := fc.AP(p)
		if ap == root || strings.HasPrefix(ap, root+".") {
			par = p
			rest = strings.TrimPrefix(ap, root)
			break
		}
	}
	if par == nil {
		return false, ""
	}
	idx := -1
	for i, p := range fn.Params {
		if p == par {
			idx = i
		}
	}
	sites := n.A.P.CallersOf(fn)
	if len(sites) == 0 {
		return false, ""
	}
	B := n.A.B
	for _, cs := range sites {
		cfc := n.A.Ctx(cs.Caller)
		arg := cs.Arg(idx)
		if arg == nil {
			return false, ""
		}
		cap := cfc.AP(arg) + rest
		atom := "isnil(" + cap + ")"
		cfc.ensureConds()
		blk := cs.Instr.(ssa.Instruction).Block()
		if B.HasVar(atom) && cfc.Implied(blk, B.Not(B.Var(atom))) {
			continue
		}
		if ok, _ := n.callersImply(cfc, cap, depth+1); ok && depth < 3 {
			continue
		}
		// ... or by a step the caller ran before (doc, err := read(buf); if err != nil { return }; verify(doc)): the
		// caller seen with its unexported error-returning helpers inlined
		if n.inl == nil {
			n.inl = NewAnalysis(n.A.P)
			n.inl.Inline = func(f *ssa.Function) bool {
				return n.A.P.InLibrary(f) && (f.Object() == nil || !f.Object().Exported()) && errIndex(f) >= 0 && len(f.Blocks) > 0
			}
		}
		ifc := n.inl.Ctx(cs.Caller)
		ifc.ensureConds()
		iatom := "isnil(" + ifc.AP(arg) + rest + ")"
		if n.inl.B.HasVar(iatom) && ifc.Implied(blk, n.inl.B.Not(n.inl.B.Var(iatom))) {
			continue
		}
		return false, ""
	}
	return true, fmt.Sprintf("established by all %d call sites of this unexported function", len(sites))
}

// Check runs the nil rules over the functions of the scope. ruleField / ruleSrc are the rule ids
// for optional-field dereferences and maybe-nil lookups respectively.
func (n *NilRules) Check(fns []*ssa.Function, ruleField, ruleSrc string) {
	p := n.A.P
	for _, fn := range fns {
		if len(fn.Blocks) == 0 {
			continue
		}
		n.R.Fn(p.FnName(fn))
		fc := n.A.Ctx(fn)
		fc.ensureConds()
		for _, b := range fn.Blocks {
			for _, in := range b.Instrs {
				for _, v := range n.derefOperands(in) {
					desc := n.maybeNilValue(v)
					if desc == "" {
						continue
					}
					rule := ruleSrc
					if strings.HasPrefix(desc, "optional field") {
						rule = ruleField
					}
					if rule == "" {
						continue
					}
					cons := fmt.Sprintf("%s: dereference of %s (%s)", p.FnName(fn), fc.AP(v), desc)
					ok, why := n.impliedNonNil(fc, b, v, 0)
					if ok {
						n.R.OK(rule, cons, p.InstrPos(in), why)
					} else {
						why := "no nil check on this path: " + desc + " may be nil for a well-formed message that omits it"
						if strings.Contains(desc, "caller-supplied") {
							why = "no nil check on this path: " + desc + "; the dereference panics for such a key"
						}
						n.R.Bad(rule, cons, p.InstrPos(in), why)
					}
				}
				// a pointer that a dependency hands back together with an error is nil when the error is not: a deferred
				// closure that dereferences it must be registered after the error was tested (registered before, it runs
				// on the error return as well)
				if df, ok := in.(*ssa.Defer); ok && ruleSrc != "" {
					if mc, ok := df.Call.Value.(*ssa.MakeClosure); ok {
						cl, _ := mc.Fn.(*ssa.Function)
						for bi, bind := range mc.Bindings {
							call := errPairedSource(bind)
							if call == nil || cl == nil || bi >= len(cl.FreeVars) || !closureDerefs(cl.FreeVars[bi]) {
								continue
							}
							k := call.Call.Signature().Results().Len() - 1
							nm := fmt.Sprintf("isnil(%s#%d)", fc.AP(call), k)
							cons := fmt.Sprintf("%s: deferred use of the result of %s", p.FnName(fn), calleeName(&call.Call))
							okD := n.A.B.HasVar(nm) && fc.Implied(b, n.A.B.Var(nm))
							n.R.Check(okD, ruleSrc, cons, p.InstrPos(in), "registered under the nil error of that call", "the deferred function dereferences a result that is nil when the call failed, and it is registered before the error is tested: on the failure path it runs with a nil pointer and panics")
						}
					}
				}
				// returning a maybe-nil lookup as the success value
				if ret, ok := in.(*ssa.Return); ok && ruleSrc != "" && len(ret.Results) == 2 && errIndex(fn) == 1 && isNilConst(ret.Results[1]) {
					v := ret.Results[0]
					if desc := n.maybeNilValue(v); desc != "" && !strings.HasPrefix(desc, "optional field") {
						cons := fmt.Sprintf("%s: returns %s (%s) as success value", p.FnName(fn), fc.AP(v), desc)
						ok, why := n.impliedNonNil(fc, b, v, 0)
						if ok {
							n.R.OK(ruleSrc, cons, p.InstrPos(in), why)
						} else {
							n.R.Bad(ruleSrc, cons, p.InstrPos(in), "a possibly-nil lookup result is returned with a nil error; callers dereference it")
						}
					}
				}
			}
		}
	}
}

// errPairedSource: v is (the variable holding) result #0, a pointer, of a call into a dependency whose last result is an
// error; gives that call.
func errPairedSource(v ssa.Value) *ssa.Call {
	if al, ok := v.(*ssa.Alloc); ok {
		var st ssa.Value
		n := 0
		for _, rf := range *al.Referrers() {
			if s, ok := rf.(*ssa.Store); ok && s.Addr == ssa.Value(al) {
				st = s.Val
				n++
			}
		}
		if n != 1 {
			return nil
		}
		v = st
	}
	ex, ok := v.(*ssa.Extract)
	if !ok || ex.Index != 0 {
		return nil
	}
	c, ok := ex.Tuple.(*ssa.Call)
	if !ok {
		return nil
	}
	res := c.Call.Signature().Results()
	if res.Len() < 2 || types.TypeString(res.At(res.Len()-1).Type(), nil) != "error" {
		return nil
	}
	if _, isPtr := res.At(0).Type().Underlying().(*types.Pointer); !isPtr {
		return nil
	}
	if sc := c.Call.StaticCallee(); sc != nil && strings.HasPrefix(sc.String(), "(*"+modPath) || sc != nil && strings.HasPrefix(sc.String(), modPath) {
		return nil // module functions are judged by their own returns
	}
	return c
}

// closureDerefs: the function literal reads through its captured variable fv (a field, a method call on the pointee).
func closureDerefs(fv *ssa.FreeVar) bool {
	for _, rf := range *fv.Referrers() {
		ld, ok := rf.(*ssa.UnOp)
		if !ok {
			if _, isFA := rf.(*ssa.FieldAddr); isFA {
				return true
			}
			continue
		}
		for _, r2 := range *ld.Referrers() {
			switch y := r2.(type) {
			case *ssa.FieldAddr, *ssa.Field:
				return true
			case *ssa.Call:
				if len(y.Call.Args) > 0 && y.Call.Args[0] == ssa.Value(ld) && y.Call.StaticCallee() != nil && y.Call.StaticCallee().Signature.Recv() != nil {
					return true
				}
			}
		}
	}
	return false
}
