package main

// Context slots: a validator receives its context values (validation time, outstanding request IDs, the signature
// token) either as parameters or as fields of one struct parameter (a "parameter object"), possibly of a struct nested
// or embedded in it. Rules that speak about "the time parameter" or "the token passed at this call" address the value
// through a slot, so that grouping the parameters into a struct does not change what they see.

import (
	"go/token"
	"go/types"

	"golang.org/x/tools/go/ssa"
)

type ctxSlot struct {
	Param int   // index into fn.Params
	Path  []int // nil: the parameter itself; otherwise the field path inside the struct parameter
}

func (s ctxSlot) isParam() bool { return len(s.Path) == 0 }

// unexportedStruct: t is an unexported named struct type of the module (a parameter object).
func unexportedStruct(t types.Type) *types.Struct {
	st, ok := t.Underlying().(*types.Struct)
	if !ok {
		return nil
	}
	if n := namedOf(t); n == nil || n.Obj().Exported() {
		return nil
	}
	return st
}

// slotOf: where fn receives a value whose type satisfies pred.
func slotOf(fn *ssa.Function, pred func(types.Type) bool) (ctxSlot, bool) {
	for i, prm := range fn.Params {
		if pred(prm.Type()) {
			return ctxSlot{i, nil}, true
		}
	}
	for i, prm := range fn.Params {
		st := unexportedStruct(prm.Type())
		if st == nil {
			continue
		}
		for f := 0; f < st.NumFields(); f++ {
			if pred(st.Field(f).Type()) {
				return ctxSlot{i, []int{f}}, true
			}
		}
		// one level of nesting (a context struct embedded in another)
		for f := 0; f < st.NumFields(); f++ {
			inner := unexportedStruct(st.Field(f).Type())
			if inner == nil {
				continue
			}
			for g := 0; g < inner.NumFields(); g++ {
				if pred(inner.Field(g).Type()) {
					return ctxSlot{i, []int{f, g}}, true
				}
			}
		}
	}
	return ctxSlot{}, false
}

// isParamOrSpill: v is the parameter itself or the local it is spilled to.
func isParamOrSpill(v ssa.Value, prm *ssa.Parameter) bool {
	if v == ssa.Value(prm) {
		return true
	}
	switch x := v.(type) {
	case *ssa.Alloc:
		return wholeStore(x) == ssa.Value(prm) || capturedSingleStore(x) == ssa.Value(prm) || initStore(x) == ssa.Value(prm)
	case *ssa.UnOp:
		if x.Op == token.MUL {
			return isParamOrSpill(x.X, prm)
		}
	}
	return false
}

// fieldChainOf: v reads (or addresses) the field path of a parameter of fn: the parameter and the path (outermost field
// first). A plain parameter (or its spill slot) has the empty path.
func fieldChainOf(fn *ssa.Function, v ssa.Value) (*ssa.Parameter, []int, bool) {
	var rev []int
	cur := v
	for i := 0; i < 8; i++ {
		for _, q := range fn.Params {
			if isParamOrSpill(cur, q) {
				path := make([]int, len(rev))
				for k := range rev {
					path[k] = rev[len(rev)-1-k]
				}
				return q, path, true
			}
		}
		switch x := cur.(type) {
		case *ssa.Field:
			rev = append(rev, x.Field)
			cur = x.X
		case *ssa.FieldAddr:
			rev = append(rev, x.Field)
			cur = x.X
		case *ssa.UnOp:
			if x.Op != token.MUL {
				return nil, nil, false
			}
			// a local copy of a nested struct (ac := rc.assertionContext)
			if al, ok := x.X.(*ssa.Alloc); ok {
				if sv := initStore(al); sv != nil {
					cur = sv
					continue
				}
			}
			cur = x.X
		case *ssa.Alloc:
			sv := initStore(x)
			if sv == nil {
				return nil, nil, false
			}
			cur = sv
		default:
			return nil, nil, false
		}
	}
	return nil, nil, false
}

func samePath(a, b []int) bool {
	if len(a) != len(b) {
		return false
	}
	for i := range a {
		if a[i] != b[i] {
			return false
		}
	}
	return true
}

// slotValueIn: a value inside fn that is the slot's content (the parameter, or a read of the struct parameter's field).
func slotValueIn(fn *ssa.Function, s ctxSlot) ssa.Value {
	if s.Param >= len(fn.Params) {
		return nil
	}
	prm := fn.Params[s.Param]
	if s.isParam() {
		return prm
	}
	for _, b := range fn.Blocks {
		for _, in := range b.Instrs {
			var v ssa.Value
			switch x := in.(type) {
			case *ssa.Field:
				v = x
			case *ssa.UnOp:
				if _, ok := x.X.(*ssa.FieldAddr); ok && x.Op == token.MUL {
					v = x
				}
			}
			if v == nil {
				continue
			}
			if q, path, ok := fieldChainOf(fn, v); ok && q == prm && samePath(path, s.Path) {
				return v
			}
		}
	}
	return nil
}

// literalFieldValue: the value a struct literal under construction at address base (a local, or the address of a nested
// struct field) holds at the field path: the single store into that field; an inner struct may be built in place or
// assigned whole from another literal.
func literalFieldValue(base ssa.Value, path []int, depth int) ssa.Value {
	if len(path) == 0 || depth > 4 || base.Referrers() == nil {
		return nil
	}
	var val ssa.Value
	n := 0
	for _, rf := range *base.Referrers() {
		fa, ok := rf.(*ssa.FieldAddr)
		if !ok || fa.Field != path[0] || fa.X != base {
			continue
		}
		if len(path) == 1 {
			for _, r2 := range *fa.Referrers() {
				if st, ok := r2.(*ssa.Store); ok && st.Addr == ssa.Value(fa) {
					val = st.Val
					n++
				}
			}
			continue
		}
		// nested: built in place through the field's address ...
		if v := literalFieldValue(fa, path[1:], depth+1); v != nil {
			val = v
			n++
			continue
		}
		// ... or assigned whole from another literal
		for _, r2 := range *fa.Referrers() {
			if st, ok := r2.(*ssa.Store); ok && st.Addr == ssa.Value(fa) {
				if ld, ok := st.Val.(*ssa.UnOp); ok && ld.Op == token.MUL {
					if v := literalFieldValue(ld.X, path[1:], depth+1); v != nil {
						val = v
						n++
					}
				}
			}
		}
	}
	if n == 0 && len(path) == 1 {
		// a field the literal does not mention: its zero value
		if al, ok := base.(*ssa.Alloc); ok {
			if st, ok := al.Type().(*types.Pointer).Elem().Underlying().(*types.Struct); ok && path[0] < st.NumFields() && onlyFieldAccess(al) {
				return zeroConst(st.Field(path[0]).Type())
			}
		}
	}
	if n != 1 {
		return nil
	}
	return val
}

// onlyFieldAccess: the local is only read, as a whole or field by field, and written field by field (its address is not
// passed on and it is not assigned as a whole).
func onlyFieldAccess(al *ssa.Alloc) bool {
	if al.Referrers() == nil {
		return false
	}
	for _, rf := range *al.Referrers() {
		switch u := rf.(type) {
		case *ssa.FieldAddr:
			for _, r2 := range *u.Referrers() {
				switch w := r2.(type) {
				case *ssa.Store:
					if w.Addr != ssa.Value(u) {
						return false
					}
				case *ssa.UnOp, *ssa.DebugRef:
				default:
					return false
				}
			}
		case *ssa.UnOp, *ssa.DebugRef:
		case *ssa.Store:
			// "return x" of a named result stores the variable to itself first: not an assignment
			if sl, ok := u.Val.(*ssa.UnOp); ok && u.Addr == ssa.Value(al) && sl.Op == token.MUL && sl.X == ssa.Value(al) {
				continue
			}
			return false
		default:
			return false
		}
	}
	return true
}

// slotArgAt: what the call site passes for the slot: the argument; for a field slot, the value the struct literal
// passed stores into the field; forwarded is true when the caller passes (a field of) its own struct parameter through
// unchanged (then the value is the caller's own slot content).
func slotArgAt(cs callSite, s ctxSlot) (v ssa.Value, forwarded bool) {
	arg := cs.Arg(s.Param)
	if arg == nil {
		return nil, false
	}
	if s.isParam() {
		return arg, false
	}
	// (a field of) the caller's own parameter object handed on
	if cslot, ok := callerSlot(cs, s); ok {
		return slotValueIn(cs.Caller, cslot), true
	}
	// a literal built by the caller
	var base ssa.Value
	switch y := arg.(type) {
	case *ssa.UnOp:
		if y.Op == token.MUL {
			base = y.X
		}
	case *ssa.Alloc:
		base = y
	}
	if base == nil {
		return nil, false
	}
	return literalFieldValue(base, s.Path, 0), false
}

// callerSlot: the call site passes (a struct field of) one of the caller's own parameters for the slot's parameter: the
// caller's slot that holds the same value.
func callerSlot(cs callSite, s ctxSlot) (ctxSlot, bool) {
	arg := cs.Arg(s.Param)
	if arg == nil || s.isParam() {
		return ctxSlot{}, false
	}
	q, path, ok := fieldChainOf(cs.Caller, arg)
	if !ok || unexportedStruct(arg.Type()) == nil {
		return ctxSlot{}, false
	}
	full := append(append([]int{}, path...), s.Path...)
	return ctxSlot{paramIndex(cs.Caller, q), full}, true
}

func paramIndex(fn *ssa.Function, p *ssa.Parameter) int {
	for i, q := range fn.Params {
		if q == p {
			return i
		}
	}
	return -1
}

func isTimeType(t types.Type) bool    { return types.TypeString(t, nil) == "time.Time" }
func isStringSlice(t types.Type) bool { return types.TypeString(t, nil) == "[]string" }

// operandsOfType: the operands of call whose type satisfies pred, wherever they stand among its arguments, and the
// fields of that type of a parameter object (an unexported struct literal) built for the call.
func operandsOfType(call *ssa.Call, pred func(types.Type) bool) []ssa.Value {
	var out []ssa.Value
	for _, arg := range call.Call.Args {
		if pred(arg.Type()) {
			out = append(out, arg)
			continue
		}
		st := unexportedStruct(arg.Type())
		ld, isLd := arg.(*ssa.UnOp)
		if st == nil || !isLd || ld.Op != token.MUL {
			continue
		}
		for f := 0; f < st.NumFields(); f++ {
			if !pred(st.Field(f).Type()) {
				continue
			}
			if v := literalFieldValue(ld.X, []int{f}, 0); v != nil {
				out = append(out, v)
			}
		}
	}
	return out
}
