package main

// Context slots: a validator receives its context values (validation time, outstanding request IDs, the signature
// token) either as parameters or as fields of one struct parameter (a "parameter object"). Rules that speak about
// "the time parameter" or "the token passed at this call" address the value through a slot, so that grouping the
// parameters into a struct does not change what they see.

import (
	"go/token"
	"go/types"

	"golang.org/x/tools/go/ssa"
)

type ctxSlot struct {
	Param int // index into fn.Params
	Field int // -1: the parameter itself; otherwise the field of the struct parameter
}

// slotOf: where fn receives a value whose type satisfies pred.
func slotOf(fn *ssa.Function, pred func(types.Type) bool) (ctxSlot, bool) {
	for i, prm := range fn.Params {
		if pred(prm.Type()) {
			return ctxSlot{i, -1}, true
		}
	}
	for i, prm := range fn.Params {
		st, ok := prm.Type().Underlying().(*types.Struct)
		if !ok {
			continue
		}
		if n := namedOf(prm.Type()); n == nil || n.Obj().Exported() {
			continue // only unexported parameter objects of the module
		}
		for f := 0; f < st.NumFields(); f++ {
			if pred(st.Field(f).Type()) {
				return ctxSlot{i, f}, true
			}
		}
	}
	return ctxSlot{}, false
}

// isParamOrSpill: v is the parameter itself or the local it is spilled to.
func isParamOrSpill(v ssa.Value, prm *ssa.Parameter) bool {
	if v == ssa.Value(prm) {
		return true
	}
	switch x := v.(type) {
	case *ssa.Alloc:
		return wholeStore(x) == ssa.Value(prm) || capturedSingleStore(x) == ssa.Value(prm) || initStore(x) == ssa.Value(prm)
	case *ssa.UnOp:
		if x.Op == token.MUL {
			return isParamOrSpill(x.X, prm)
		}
	}
	return false
}

// slotValueIn: a value inside fn that is the slot's content (the parameter, or a read of the struct parameter's field).
func slotValueIn(fn *ssa.Function, s ctxSlot) ssa.Value {
	if s.Param >= len(fn.Params) {
		return nil
	}
	prm := fn.Params[s.Param]
	if s.Field < 0 {
		return prm
	}
	for _, b := range fn.Blocks {
		for _, in := range b.Instrs {
			switch x := in.(type) {
			case *ssa.Field:
				if x.Field == s.Field && isParamOrSpill(x.X, prm) {
					return x
				}
			case *ssa.UnOp:
				if fa, ok := x.X.(*ssa.FieldAddr); ok && x.Op == token.MUL && fa.Field == s.Field && isParamOrSpill(fa.X, prm) {
					return x
				}
			}
		}
	}
	return nil
}

// slotArgAt: what the call site passes for the slot: the argument; for a field slot, the value the struct literal
// passed stores into the field; forwarded is true when the caller passes its own struct parameter of the same type
// through unchanged (then the value is the caller's own slot content).
func slotArgAt(cs callSite, s ctxSlot) (v ssa.Value, forwarded bool) {
	arg := cs.Arg(s.Param)
	if arg == nil {
		return nil, false
	}
	if s.Field < 0 {
		return arg, false
	}
	// the caller's own parameter object handed on
	for _, q := range cs.Caller.Params {
		if isParamOrSpill(arg, q) && types.Identical(q.Type(), arg.Type()) {
			return slotValueIn(cs.Caller, ctxSlot{paramIndex(cs.Caller, q), s.Field}), true
		}
	}
	// a literal built by the caller
	var al *ssa.Alloc
	switch y := arg.(type) {
	case *ssa.UnOp:
		al, _ = y.X.(*ssa.Alloc)
	case *ssa.Alloc:
		al = y
	}
	if al == nil {
		return nil, false
	}
	var val ssa.Value
	n := 0
	for _, rf := range *al.Referrers() {
		if fa, ok := rf.(*ssa.FieldAddr); ok && fa.Field == s.Field {
			for _, r2 := range *fa.Referrers() {
				if st, ok := r2.(*ssa.Store); ok && st.Addr == ssa.Value(fa) {
					val = st.Val
					n++
				}
			}
		}
	}
	if n != 1 {
		return nil, false
	}
	return val, false
}

func paramIndex(fn *ssa.Function, p *ssa.Parameter) int {
	for i, q := range fn.Params {
		if q == p {
			return i
		}
	}
	return -1
}

func isTimeType(t types.Type) bool    { return types.TypeString(t, nil) == "time.Time" }
func isStringSlice(t types.Type) bool { return types.TypeString(t, nil) == "[]string" }
