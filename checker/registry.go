package main

var registry = map[string][]func(*Report){}

func runThoroughExtras(r *Report, rules []func(*Report), repo string) {}
