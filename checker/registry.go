package main

import "fmt"

var registry = map[string][]func(*Report){}

// runThoroughExtras: second configuration of the thorough tier — the tree is loaded again under
// GOARCH=386 (covers files behind build constraints) and the same rules are applied; anything that
// is not discharged there is added to the report.
func runThoroughExtras(r *Report, rules []func(*Report), repo string) {
	p2 := Load(repo, "386")
	r2 := NewReport(r.Prop, r.Tier, p2, &Known{})
	runRules(r2, rules)
	n := 0
	for _, o := range r2.Obls {
		n++
		if o.Verdict == "violated" || o.Verdict == "undecided" {
			o2 := *o
			r.add(&o2)
		}
	}
	r.Extra("second_configuration", fmt.Sprintf("GOARCH=386: %d packages, %d obligations re-examined", len(p2.Pkgs), n))
}
