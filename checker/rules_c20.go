package main

import (
	"fmt"
	"go/token"
	"go/types"
	"sort"
	"strings"

	"golang.org/x/tools/go/ssa"
)

func init() {
	registry["C20"] = []func(*Report){ruleC20}
}

// guardedTable: struct types of the module that carry exactly one mutex field; their map-typed
// fields are guarded by that mutex (maps are not safe for concurrent use). On the pinned tree this
// yields MemoryStore.data -> MemoryStore.mu and Server.serviceProviders -> Server.idpConfigMu, the two
// state anchors of the property, without naming them.
type guardEntry struct {
	Type, Field, Mutex string
	RW                 bool
}

func guardedTable(p *Prog, pkgPath string) []guardEntry {
	var out []guardEntry
	pk := p.ByPath[pkgPath]
	if pk == nil {
		return nil
	}
	sc := pk.Types.Scope()
	for _, name := range sc.Names() {
		tn, ok := sc.Lookup(name).(*types.TypeName)
		if !ok {
			continue
		}
		st, ok := tn.Type().Underlying().(*types.Struct)
		if !ok {
			continue
		}
		var mus []*types.Var
		for i := 0; i < st.NumFields(); i++ {
			if isMutexType(st.Field(i).Type()) {
				if _, isPtr := st.Field(i).Type().(*types.Pointer); !isPtr {
					mus = append(mus, st.Field(i))
				}
			}
		}
		if len(mus) != 1 {
			continue
		}
		for i := 0; i < st.NumFields(); i++ {
			if _, ok := st.Field(i).Type().Underlying().(*types.Map); ok {
				out = append(out, guardEntry{Type: tn.Name(), Field: st.Field(i).Name(), Mutex: tn.Name() + "." + mus[0].Name(), RW: typeIs(mus[0].Type(), "sync", "RWMutex")})
			}
		}
	}
	return out
}

// rootOfAddr walks FieldAddr/IndexAddr/loads back to the root value of an address expression.
func rootOfAddr(v ssa.Value) ssa.Value {
	for i := 0; i < 32; i++ {
		switch x := v.(type) {
		case *ssa.FieldAddr:
			v = x.X
		case *ssa.IndexAddr:
			v = x.X
		case *ssa.Field:
			v = x.X
		case *ssa.UnOp:
			if x.Op == token.MUL {
				v = x.X
			} else {
				return v
			}
		case *ssa.ChangeType:
			v = x.X
		default:
			return v
		}
	}
	return v
}

// isFreshLocal: the root is an allocation made in this function (constructor literal that has not
// been published yet at this point is the intended exemption).
func isFreshLocal(v ssa.Value) bool {
	_, ok := rootOfAddr(v).(*ssa.Alloc)
	return ok
}

// accessKind classifies the use of a guarded map field address.
// guardedEscapes: Return instructions that hand a guarded map itself (not a copy, not an element) back to the caller.
var guardedEscapes = map[ssa.Instruction]bool{}

func fieldAccesses(fa *ssa.FieldAddr) (reads, writes []ssa.Instruction) {
	for _, r := range *fa.Referrers() {
		switch x := r.(type) {
		case *ssa.Store:
			if x.Addr == fa {
				writes = append(writes, x)
			}
		case *ssa.UnOp:
			// load of the map value: look at what is done with it
			any := false
			for _, rr := range *x.Referrers() {
				switch y := rr.(type) {
				case *ssa.MapUpdate:
					if y.Map == x {
						writes = append(writes, y)
						any = true
					}
				case *ssa.Lookup, *ssa.Range:
					reads = append(reads, y.(ssa.Instruction))
					any = true
				case *ssa.Call:
					if bi, ok := y.Call.Value.(*ssa.Builtin); ok {
						switch bi.Name() {
						case "delete", "clear":
							writes = append(writes, y)
						default:
							reads = append(reads, y)
						}
						any = true
					} else {
						// the map escapes into a call: treat as read+write
						writes = append(writes, y)
						any = true
					}
				case *ssa.BinOp:
					reads = append(reads, y)
					any = true
				case *ssa.DebugRef:
				case *ssa.Return:
					// the live map handed back to the caller: whatever the caller does with it happens after the unlock
					guardedEscapes[y] = true
					reads = append(reads, y)
					any = true
				case *ssa.Store:
					// ... also through the result slot a deferred unlock makes the compiler spill the result to
					if al, ok := y.Addr.(*ssa.Alloc); ok && y.Val == ssa.Value(x) && al.Referrers() != nil {
						for _, r3 := range *al.Referrers() {
							if ld, ok := r3.(*ssa.UnOp); ok && ld.Referrers() != nil {
								for _, r4 := range *ld.Referrers() {
									if _, isRet := r4.(*ssa.Return); isRet {
										guardedEscapes[y] = true
									}
								}
							}
						}
					}
					reads = append(reads, y)
					any = true
				default:
					reads = append(reads, rr)
					any = true
				}
			}
			if !any {
				reads = append(reads, x)
			}
		}
	}
	return
}

func ruleC20(r *Report) {
	p := r.P
	cgKind := "cha"
	if r.Tier == "thorough" {
		cgKind = "vta"
	}
	la := NewLockAnalysis(p, cgKind)
	idpPkg := modPath + "/samlidp"

	r.Rule("C20.guarded", "every read of a mutex-guarded map field happens with the mutex held (R or W), every write with it held in W mode; guarded-by table derived from struct shapes (one mutex + map fields)", 5)
	r.Rule("C20.pairing", "every lock acquisition is released on all paths to every exit (explicitly or by a deferred unlock)", 4)
	r.Rule("C20.reentry", "no call made while a lock is held can re-acquire the same lock (any mode) when some module function takes it in write mode (RWMutex read locks are not re-entrant behind a waiting writer)", 1)
	r.Rule("C20.order", "the acquired-while-holding graph over abstract locks is acyclic", 1)
	r.Rule("C20.atomic", "within one function, all accesses to a guarded map lie in one critical section: the guard is not released between two accesses (no check-then-act across an unlock)", 3)
	r.Rule("C20.shared-state", "request-time functions of the bundled server do not store to package-level variables or to fields of shared objects outside a critical section; no goroutines/channels in samlidp", 1)
	r.Trusted("go/ssa, go/callgraph (CHA/VTA) of golang.org/x/tools v0.29.0", "sync.RWMutex / sync.Mutex semantics as documented")
	r.Assume("abstract lock identity = (struct type, field): one instance of each per server")
	r.Assume("a helper only ever called statically from the module inherits the locks held at all of its call sites")
	r.NotDecided("linearizability as a property of histories; sequential correctness of each store operation; data races inside dependencies; liveness beyond lock re-entry/order")

	table := guardedTable(p, idpPkg)
	guard := map[string]guardEntry{}
	var tdesc []string
	for _, g := range table {
		guard[g.Type+"."+g.Field] = g
		tdesc = append(tdesc, g.Type+"."+g.Field+" guarded by "+g.Mutex)
	}
	sort.Strings(tdesc)
	r.Extra("guarded_by_table", tdesc)
	if len(table) < 2 {
		r.Undecided("C20.guarded", "guarded-by table", "-", fmt.Sprintf("expected the store map and the service registry, derived %v", tdesc))
	}

	// which locks are ever taken in W mode
	wTaken := map[string]bool{}
	var idpFns []*ssa.Function
	for _, fn := range p.modFns {
		pk := fn.Pkg
		if pk == nil && fn.Parent() != nil {
			pk = fn.Parent().Pkg
		}
		if pk == nil || pk.Pkg.Path() != idpPkg {
			continue
		}
		idpFns = append(idpFns, fn)
		for k, m := range la.Facts(fn).direct {
			if m == modeW {
				wTaken[k] = true
			}
		}
	}

	checkAtomicSections(r, p, idpFns, guard)
	checkStaleWriteBack(r, p, idpFns, guard)
	safely(r, func() { checkStoreOpsAtomic(r, p, la, idpFns, guard) })
	safely(r, func() { checkCompanionState(r, p, la, idpFns, table) })
	order := map[string]map[string]string{} // held -> acquired -> where
	for _, fn := range idpFns {
		f := la.Facts(fn)
		r.Fn(p.FnName(fn))
		fname := p.FnName(fn)
		for _, b := range fn.Blocks {
			for _, in := range b.Instrs {
				// guarded accesses
				if fa, ok := in.(*ssa.FieldAddr); ok {
					n := namedOf(fa.X.Type())
					if n != nil {
						key := n.Obj().Name() + "." + fieldName(fa.X.Type(), fa.Field)
						if g, ok := guard[key]; ok {
							reads, writes := fieldAccesses(fa)
							fresh := isFreshLocal(fa.X)
							for _, acc := range reads {
								c := fmt.Sprintf("%s: read of %s", fname, key)
								must := f.mustAt[acc]
								if fresh {
									r.Trivial("C20.guarded", c, p.InstrPos(acc), "object allocated in this function (not yet shared)")
								} else if guardedEscapes[acc] {
									r.Bad("C20.guarded", fmt.Sprintf("%s: the guarded map %s stays inside its critical section", fname, key), p.InstrPos(acc), fmt.Sprintf("the function returns %s itself: the caller indexes or ranges over the live map after %s has been released, concurrently with the writers", key, g.Mutex))
								} else {
									r.Check(must[g.Mutex] >= modeR, "C20.guarded", c, p.InstrPos(acc),
										"held "+stateString(must), fmt.Sprintf("%s is read without holding %s (held: %s)", key, g.Mutex, stateString(must)))
								}
							}
							for _, acc := range writes {
								c := fmt.Sprintf("%s: write of %s", fname, key)
								must := f.mustAt[acc]
								if fresh {
									r.Trivial("C20.guarded", c, p.InstrPos(acc), "object allocated in this function (not yet shared)")
								} else {
									r.Check(must[g.Mutex] == modeW, "C20.guarded", c, p.InstrPos(acc),
										"held "+stateString(must), fmt.Sprintf("%s is written without holding %s in write mode (held: %s)", key, g.Mutex, stateString(must)))
								}
							}
						}
					}
				}
				// in-place mutation of an object that is published through a guarded map of pointers: readers
				// obtain the pointer under the lock and use it after releasing it, so writing through it races
				// with them even when the writer holds the lock
				if st, ok := in.(*ssa.Store); ok {
					root := rootOfAddr(st.Addr)
					if ex, ok := root.(*ssa.Extract); ok {
						root = ex.Tuple
					}
					if lk, ok := root.(*ssa.Lookup); ok {
						if ld, ok := lk.X.(*ssa.UnOp); ok {
							if fa, ok := ld.X.(*ssa.FieldAddr); ok {
								if n := namedOf(fa.X.Type()); n != nil {
									key := n.Obj().Name() + "." + fieldName(fa.X.Type(), fa.Field)
									if _, guarded := guard[key]; guarded {
										r.Bad("C20.guarded", fmt.Sprintf("%s: write through a pointer taken from %s", fname, key), p.InstrPos(in),
											"the object is shared with readers that obtained the same pointer from the map and use it outside the critical section; it must be replaced, not mutated in place")
									}
								}
							}
						}
					}
				}
				// ... and the same for a slice published through a guarded map: appending into a re-slice of the stored value, or
				// copying into it, overwrites the backing array that a reader took out of the map and decodes after unlocking
				if c, ok := in.(*ssa.Call); ok {
					if bi, ok := c.Call.Value.(*ssa.Builtin); ok && (bi.Name() == "append" || bi.Name() == "copy") && len(c.Call.Args) > 0 {
						dst := c.Call.Args[0]
						resliced := false
						for {
							if sl, ok := dst.(*ssa.Slice); ok {
								dst = sl.X
								resliced = true
								continue
							}
							break
						}
						if ex, ok := dst.(*ssa.Extract); ok {
							dst = ex.Tuple
						}
						if lk, ok := dst.(*ssa.Lookup); ok && (resliced || bi.Name() == "copy") {
							if ld, ok := lk.X.(*ssa.UnOp); ok {
								if fa, ok := ld.X.(*ssa.FieldAddr); ok {
									if n := namedOf(fa.X.Type()); n != nil {
										key := n.Obj().Name() + "." + fieldName(fa.X.Type(), fa.Field)
										if _, guarded := guard[key]; guarded {
											r.Bad("C20.guarded", fmt.Sprintf("%s: write into the backing array of a slice taken from %s", fname, key), p.InstrPos(in),
												"the stored slice is reused in place ("+bi.Name()+" into a re-slice of the map's value): a reader that took the same slice out of the map reads it outside the critical section, so it sees a blend of the old and the new record; the value must be replaced by a fresh slice")
										}
									}
								}
							}
						}
					}
				}
				// calls while holding locks
				ci, ok := in.(ssa.CallInstruction)
				if !ok {
					continue
				}
				if _, isDefer := in.(*ssa.Defer); isDefer {
					continue
				}
				may := f.mayAt[in]
				if op, ok := lockOpOf(ci.Common()); ok {
					if op.Acquire {
						for held := range may {
							if held == op.Lock {
								c := fmt.Sprintf("%s: %s re-acquired directly while held", fname, held)
								r.Bad("C20.reentry", c, p.InstrPos(in), "the same abstract lock is acquired while it may already be held")
								continue
							}
							if order[held] == nil {
								order[held] = map[string]string{}
							}
							order[held][op.Lock] = fname
						}
					}
					continue
				}
				if len(may) == 0 {
					continue
				}
				for _, callee := range la.Callees(ci) {
					if !p.InModule(callee) {
						continue
					}
					sum := la.Summary(callee)
					for held, hm := range may {
						if am, ok := sum[held]; ok {
							c := fmt.Sprintf("%s: call to %s while holding %s", fname, p.FnName(callee), held)
							if hm == modeW || am == modeW || wTaken[held] {
								r.Bad("C20.reentry", c, p.InstrPos(in),
									fmt.Sprintf("%s is held in mode %s and the callee may acquire it again in mode %s; a writer elsewhere takes it in W mode, so the second acquisition can block forever", held, modeName(hm), modeName(am)))
							} else {
								r.OK("C20.reentry", c, p.InstrPos(in), "read-only lock, never taken in write mode anywhere")
							}
						}
						for acq := range sum {
							if acq != held {
								if order[held] == nil {
									order[held] = map[string]string{}
								}
								order[held][acq] = fname + " -> " + p.FnName(callee)
							}
						}
					}
					// a call under a lock that cannot re-acquire it: discharged instance
					for held := range may {
						if _, ok := sum[held]; !ok {
							r.OK("C20.reentry", fmt.Sprintf("%s: call to %s while holding %s", fname, p.FnName(callee), held), p.InstrPos(in), "callee summary does not acquire "+held)
						}
					}
				}
			}
		}
		// pairing at exits
		for ret, may := range f.exitMay {
			for l := range may {
				c := fmt.Sprintf("%s: %s released on exit", fname, l)
				if _, inh := la.entryMust(fn)[l]; inh {
					continue // lock belongs to the caller
				}
				r.Check(f.deferred[l], "C20.pairing", c, p.InstrPos(ret), "deferred unlock", fmt.Sprintf("%s may still be held at this return and no deferred unlock exists", l))
			}
		}
		for l := range f.direct {
			if !f.deferred[l] {
				// explicit unlock style: every return must have an empty may-set for l (checked above: absence
				// from exitMay means released) — record the discharged instance
				held := false
				for _, may := range f.exitMay {
					if _, ok := may[l]; ok {
						held = true
					}
				}
				if !held {
					r.OK("C20.pairing", fmt.Sprintf("%s: %s released on exit", fname, l), p.Pos(fn.Pos()), "explicitly released on every path to every return")
				}
			}
		}
		// a panic exit with a lock held and no deferred unlock
		for _, b := range fn.Blocks {
			if len(b.Instrs) == 0 {
				continue
			}
			if pn, ok := b.Instrs[len(b.Instrs)-1].(*ssa.Panic); ok {
				for l := range f.mayAt[pn] {
					if !f.deferred[l] {
						r.Bad("C20.pairing", fmt.Sprintf("%s: %s released on panic exit", fname, l), p.InstrPos(pn), "explicit panic while the lock is held without deferred unlock")
					}
				}
			}
		}
	}

	// lock-order graph
	var edges []string
	for a, m := range order {
		for b, w := range m {
			edges = append(edges, fmt.Sprintf("%s -> %s (%s)", a, b, w))
		}
	}
	sort.Strings(edges)
	r.Extra("lock_order_edges", edges)
	cyc := findCycle(order)
	if cyc != "" {
		r.Bad("C20.order", "lock-order graph", "-", "cycle: "+cyc)
	} else {
		r.OK("C20.order", "lock-order graph", "-", fmt.Sprintf("acyclic; edges: %s", strings.Join(edges, "; ")))
	}

	ruleC20Shared(r, la, idpFns)
}

func findCycle(g map[string]map[string]string) string {
	color := map[string]int{}
	var path []string
	var res string
	var dfs func(n string) bool
	dfs = func(n string) bool {
		color[n] = 1
		path = append(path, n)
		for m := range g[n] {
			if color[m] == 1 {
				res = strings.Join(append(path, m), " -> ")
				return true
			}
			if color[m] == 0 && dfs(m) {
				return true
			}
		}
		path = path[:len(path)-1]
		color[n] = 2
		return false
	}
	var keys []string
	for k := range g {
		keys = append(keys, k)
	}
	sort.Strings(keys)
	for _, k := range keys {
		if color[k] == 0 && dfs(k) {
			return res
		}
	}
	return ""
}

// request-time functions: HTTP-handler shaped functions and implementations of the IdP's provider
// interfaces in samlidp, plus everything they reach inside the module.
func ruleC20Shared(r *Report, la *LockAnalysis, idpFns []*ssa.Function) {
	p := r.P
	var roots []*ssa.Function
	for _, fn := range idpFns {
		if isHandlerShaped(fn) || implementsProviderIface(fn) {
			roots = append(roots, fn)
		}
	}
	reach := p.ReachableModuleOnly(la.cgKindName(), roots...)
	var names []string
	for fn := range reach {
		names = append(names, p.FnName(fn))
	}
	sort.Strings(names)
	nStores := 0
	// shared objects the request-time code mutates through a method (a sync.Pool, sync.Map, atomic value kept in a
	// package-level variable) are shared state just as a stored variable is: outside the guarded-by table, nothing orders
	// the requests that use them (a buffer handed back to a pool while its bytes are still being written to a client)
	written := moduleWrittenGlobals(p)
	for fn := range reach {
		for _, b := range fn.Blocks {
			for _, in := range b.Instrs {
				for _, op := range in.Operands(nil) {
					if op == nil || *op == nil {
						continue
					}
					g, ok := (*op).(*ssa.Global)
					if !ok || g.Pkg == nil || g.Pkg.Pkg.Path() != modPath+"/samlidp" {
						continue
					}
					if at, isW := written[g]; isW {
						nStores++
						r.Bad("C20.shared-state", fmt.Sprintf("%s: use of the package-level object %s", p.FnName(fn), g.Name()), p.InstrPos(in), "request-time code uses "+g.Name()+", which the library modifies at run time ("+at+") without any lock of the guarded-by table: concurrent requests share it unordered")
					}
				}
			}
		}
	}
	for fn := range reach {
		pk := fn.Pkg
		if pk == nil && fn.Parent() != nil {
			pk = fn.Parent().Pkg
		}
		if pk == nil || pk.Pkg.Path() != modPath+"/samlidp" {
			continue
		}
		f := la.Facts(fn)
		for _, b := range fn.Blocks {
			for _, in := range b.Instrs {
				switch x := in.(type) {
				case *ssa.Go:
					r.Bad("C20.shared-state", p.FnName(fn)+": go statement", p.InstrPos(in), "request-time code starts a goroutine; the lock discipline rules do not cover it")
				case *ssa.Send, *ssa.Select:
					r.Bad("C20.shared-state", p.FnName(fn)+": channel operation", p.InstrPos(in), "channel synchronisation is outside the analysed discipline")
				case *ssa.Store:
					root := rootOfAddr(x.Addr)
					switch rv := root.(type) {
					case *ssa.Global:
						nStores++
						r.Bad("C20.shared-state", fmt.Sprintf("%s: store to package variable %s", p.FnName(fn), rv.Name()), p.InstrPos(in), "request-time store to a package-level variable")
					case *ssa.Parameter, *ssa.FreeVar:
						if _, isFA := x.Addr.(*ssa.FieldAddr); !isFA {
							continue
						}
						n := namedOf(rv.Type())
						if n == nil || !sharedType(n) {
							continue
						}
						nStores++
						must := f.mustAt[in]
						c := fmt.Sprintf("%s: store to field of shared %s (%s)", p.FnName(fn), n.Obj().Name(), addrPath(x.Addr))
						ok := false
						for _, m := range must {
							if m == modeW {
								ok = true
							}
						}
						r.Check(ok, "C20.shared-state", c, p.InstrPos(in), "under write lock "+stateString(must), "field of a shared object is assigned at request time without a write lock")
					}
				}
			}
		}
	}
	r.OK("C20.shared-state", "request-time functions scanned", "-", fmt.Sprintf("%d functions reachable from %d handler/provider roots; %d stores to shared state examined", len(reach), len(roots), nStores))
}

func (la *LockAnalysis) cgKindName() string { return la.P.cgKind }

func addrPath(v ssa.Value) string {
	var parts []string
	for i := 0; i < 16; i++ {
		switch x := v.(type) {
		case *ssa.FieldAddr:
			parts = append([]string{fieldName(x.X.Type(), x.Field)}, parts...)
			v = x.X
			continue
		case *ssa.UnOp:
			v = x.X
			continue
		}
		break
	}
	return strings.Join(parts, ".")
}

func sharedType(n *types.Named) bool {
	st, ok := n.Underlying().(*types.Struct)
	if !ok {
		return false
	}
	for i := 0; i < st.NumFields(); i++ {
		if isMutexType(st.Field(i).Type()) {
			return true
		}
	}
	return false
}

func isHandlerShaped(fn *ssa.Function) bool {
	ps := fn.Signature.Params()
	if ps.Len() < 2 {
		return false
	}
	return types.TypeString(ps.At(0).Type(), nil) == "net/http.ResponseWriter" && types.TypeString(ps.At(1).Type(), nil) == "*net/http.Request"
}

func implementsProviderIface(fn *ssa.Function) bool {
	if fn.Signature.Recv() == nil || fn.Object() == nil || !fn.Object().Exported() {
		return false
	}
	switch fn.Name() {
	case "Get", "Put", "Delete", "List", "GetServiceProvider", "GetSession":
		return true
	}
	return false
}

// checkAtomicSections: C20.atomic. For each function, no explicit release of a guard mutex lies on a path between
// two accesses to a map it guards.
func checkAtomicSections(r *Report, p *Prog, fns []*ssa.Function, guard map[string]guardEntry) {
	rule := "C20.atomic"
	for _, fn := range fns {
		type acc struct {
			in  ssa.Instruction
			key string
		}
		var accs []acc
		var unlocks []ssa.Instruction
		unlockOf := map[ssa.Instruction]string{}
		for _, b := range fn.Blocks {
			for _, in := range b.Instrs {
				if fa, ok := in.(*ssa.FieldAddr); ok {
					if n := namedOf(fa.X.Type()); n != nil {
						key := n.Obj().Name() + "." + fieldName(fa.X.Type(), fa.Field)
						if _, ok := guard[key]; ok && !isFreshLocal(fa.X) {
							reads, writes := fieldAccesses(fa)
							for _, a := range append(reads, writes...) {
								accs = append(accs, acc{a, key})
							}
						}
					}
				}
				if c, ok := in.(*ssa.Call); ok { // explicit (non-deferred) releases only
					if op, ok := lockOpOf(&c.Call); ok && !op.Acquire {
						unlocks = append(unlocks, in)
						unlockOf[in] = op.Lock
					}
				}
			}
		}
		if len(accs) == 0 {
			continue
		}
		// forward reachability between instructions, back edges ignored
		reach := func(x, y ssa.Instruction) bool {
			if x.Block() == y.Block() {
				return instrBefore(x.Block(), x, y)
			}
			seen := map[*ssa.BasicBlock]bool{}
			var dfs func(b *ssa.BasicBlock) bool
			dfs = func(b *ssa.BasicBlock) bool {
				if b == y.Block() {
					return true
				}
				if seen[b] {
					return false
				}
				seen[b] = true
				for _, s := range b.Succs {
					if isBackEdge(b, s) {
						continue
					}
					if dfs(s) {
						return true
					}
				}
				return false
			}
			for _, s := range x.Block().Succs {
				if !isBackEdge(x.Block(), s) && dfs(s) {
					return true
				}
			}
			return false
		}
		keys := map[string]bool{}
		for _, a := range accs {
			keys[a.key] = true
		}
		for key := range keys {
			g := guard[key]
			split := ""
			for _, u := range unlocks {
				if unlockOf[u] != g.Mutex {
					continue
				}
				before, after := false, false
				for _, a := range accs {
					if a.key != key {
						continue
					}
					if reach(a.in, u) {
						before = true
					}
					if reach(u, a.in) {
						after = true
					}
				}
				if before && after {
					split = p.InstrPos(u)
				}
			}
			r.Check(split == "", rule, fmt.Sprintf("%s: accesses to %s form one critical section", p.FnName(fn), key), p.Pos(fn.Pos()), "no release of "+g.Mutex+" between two accesses", fmt.Sprintf("%s is released at %s between two accesses to %s: the operation is a check-then-act over two critical sections and another request can interleave", g.Mutex, split, key))
		}
	}
}

// checkStaleWriteBack (C20.atomic): what is stored into a guarded field under its write lock does not derive from a read
// of that same field made in an earlier critical section (before the lock was taken, or inside a helper that takes and
// releases the lock itself): such a write installs a stale copy and loses the updates made in between.
func checkStaleWriteBack(r *Report, p *Prog, fns []*ssa.Function, guard map[string]guardEntry) {
	rule := "C20.atomic"
	keyOf := func(fa *ssa.FieldAddr) string {
		if n := namedOf(fa.X.Type()); n != nil {
			return n.Obj().Name() + "." + fieldName(fa.X.Type(), fa.Field)
		}
		return ""
	}
	dominatesInstr := func(x, y ssa.Instruction) bool {
		if x.Block() == y.Block() {
			return instrBefore(x.Block(), x, y)
		}
		return x.Block().Dominates(y.Block())
	}
	for _, fn := range fns {
		var rg *Region
		for _, b := range fn.Blocks {
			for _, in := range b.Instrs {
				st, ok := in.(*ssa.Store)
				if !ok {
					continue
				}
				fa, ok := st.Addr.(*ssa.FieldAddr)
				if !ok || isFreshLocal(fa.X) {
					continue
				}
				key := keyOf(fa)
				g, ok := guard[key]
				if !ok {
					continue
				}
				// the acquisition that opens the critical section of this store
				var acq ssa.Instruction
				for _, b2 := range fn.Blocks {
					for _, i2 := range b2.Instrs {
						if c, ok := i2.(*ssa.Call); ok {
							if op, ok := lockOpOf(&c.Call); ok && op.Acquire && op.Lock == g.Mutex && dominatesInstr(i2, in) {
								if acq == nil || dominatesInstr(acq, i2) {
									acq = i2
								}
							}
						}
					}
				}
				if acq == nil {
					continue // (an unguarded write is C20.guarded's finding)
				}
				if rg == nil {
					rg = NewRegion(p, fn, 2)
				}
				stale := ""
				for _, o := range rg.Origins(RV{V: st.Val, C: rg.top}) {
					ld, ok := o.V.(*ssa.UnOp)
					if !ok || ld.Op != token.MUL {
						continue
					}
					lfa, ok := ld.X.(*ssa.FieldAddr)
					if !ok || keyOf(lfa) != key {
						continue
					}
					site := rg.SiteIn(rg.top, RI{ld, o.C})
					if site == nil || !dominatesInstr(acq, site) {
						at := p.InstrPos(ld)
						if site != nil {
							at = p.InstrPos(site)
						}
						stale = at
					}
				}
				cons := fmt.Sprintf("%s: what is written to %s was not read from it in an earlier critical section", p.FnName(fn), key)
				r.Check(stale == "", rule, cons, p.InstrPos(in), "the stored value does not derive from a read of the field outside this critical section", fmt.Sprintf("the value stored into %s derives from a read of %s made at %s, before %s was acquired for this write: two requests that both read the old value each install their own copy and one update is lost", key, key, stale, g.Mutex))
			}
		}
	}
}

// checkStoreOpsAtomic (C20.atomic): every method that implements the bundled Store interface is one critical section
// over the store's guard: on no path does it acquire a guard mutex twice (directly or through a callee that takes and
// releases it itself), and it acquires none inside a loop. A List that visits lock-striped partitions one lock at a
// time returns a view no single instant ever had; a Put that checks under one acquisition and writes under another is a
// check-then-act.
func checkStoreOpsAtomic(r *Report, p *Prog, la *LockAnalysis, fns []*ssa.Function, guard map[string]guardEntry) {
	rule := "C20.atomic"
	guardLocks := map[string]bool{}
	for _, g := range guard {
		guardLocks[g.Mutex] = true
	}
	storeIface := p.NamedType("samlidp", "Store")
	if storeIface == nil {
		panic(unresolved{"type samlidp.Store"})
	}
	it, _ := storeIface.Underlying().(*types.Interface)
	if it == nil {
		panic(unresolved{"samlidp.Store is not an interface"})
	}
	n := 0
	for _, fn := range fns {
		if fn.Signature.Recv() == nil || !p.InLibrary(fn) || fn.Object() == nil {
			continue
		}
		isOp := false
		for i := 0; i < it.NumMethods(); i++ {
			if it.Method(i).Name() == fn.Name() && types.Implements(fn.Signature.Recv().Type(), it) {
				isOp = true
			}
		}
		if !isOp {
			continue
		}
		// acquisition sites of guard mutexes: direct Lock/RLock calls and calls of functions that acquire one themselves
		type site struct {
			in   ssa.Instruction
			lock string
		}
		var sites []site
		for _, b := range fn.Blocks {
			for _, in := range b.Instrs {
				ci, ok := in.(ssa.CallInstruction)
				if !ok {
					continue
				}
				if _, isDefer := in.(*ssa.Defer); isDefer {
					continue
				}
				if op, ok := lockOpOf(ci.Common()); ok {
					if op.Acquire && guardLocks[op.Lock] {
						sites = append(sites, site{in, op.Lock})
					}
					continue
				}
				for _, callee := range la.Callees(ci) {
					for l := range la.Summary(callee) {
						if guardLocks[l] {
							sites = append(sites, site{in, l})
						}
					}
				}
			}
		}
		if len(sites) == 0 {
			continue
		}
		n++
		r.Fn(p.FnName(fn))
		cons := fmt.Sprintf("%s: the store operation is one critical section", p.FnName(fn))
		bad := ""
		for i, s1 := range sites {
			if inCycle(s1.in.Block()) {
				bad = "the guard " + s1.lock + " is acquired inside a loop (" + p.InstrPos(s1.in) + "): the operation is a sequence of critical sections, and its result mixes states of different instants"
			}
			for _, s2 := range sites[i+1:] {
				if s1.lock == s2.lock && s1.in != s2.in && (s1.in.Block() == s2.in.Block() || blockReaches(s1.in.Block(), s2.in.Block()) || blockReaches(s2.in.Block(), s1.in.Block())) {
					bad = firstNonEmpty(bad, "the guard "+s1.lock+" is acquired at "+p.InstrPos(s1.in)+" and again at "+p.InstrPos(s2.in)+" on one path: another request can run between the two critical sections")
				}
			}
		}
		r.Check(bad == "", rule, cons, p.Pos(fn.Pos()), fmt.Sprintf("%d acquisition site(s), none in a loop, no two on one path", len(sites)), bad)
	}
	if n == 0 {
		panic(unresolved{"role: Store implementation methods that take a guard mutex"})
	}
}

// inCycle: the block lies on a cycle of the control-flow graph.
func inCycle(b *ssa.BasicBlock) bool { return blockReaches(b, b) }

// checkCompanionState: C20.guarded for the other fields of a struct that guards a map with its mutex. A field that
// request-time code changes (a plain store, or a mutating sync/atomic method) and whose value decides a branch or a
// result is part of the same state as the map (an emptiness flag, a counter of entries, a version): every access to it
// holds the mutex, in write mode for changes. An atomic flag read before the lock is taken and written on either side
// of it makes the pair (flag, map) observable in states no sequential history of the map produces.
func checkCompanionState(r *Report, p *Prog, la *LockAnalysis, idpFns []*ssa.Function, table []guardEntry) {
	mutating := map[string]bool{"Store": true, "Swap": true, "CompareAndSwap": true, "Add": true, "And": true, "Or": true}
	type acc struct {
		fn    *ssa.Function
		in    ssa.Instruction
		write bool
	}
	byType := map[string]guardEntry{}
	guardedField := map[string]bool{}
	for _, g := range table {
		byType[g.Type] = g
		guardedField[g.Type+"."+g.Field] = true
	}
	accs := map[string][]acc{}
	mutated := map[string]bool{}
	decides := map[string]bool{}
	feedsDecision := func(v ssa.Value) bool {
		seen := map[ssa.Value]bool{}
		var walk func(v ssa.Value, d int) bool
		walk = func(v ssa.Value, d int) bool {
			if d > 3 || seen[v] || v.Referrers() == nil {
				return false
			}
			seen[v] = true
			for _, rf := range *v.Referrers() {
				switch x := rf.(type) {
				case *ssa.If, *ssa.Return:
					return true
				case *ssa.BinOp:
					if walk(x, d+1) {
						return true
					}
				case *ssa.UnOp:
					if walk(x, d+1) {
						return true
					}
				case *ssa.Phi:
					if walk(x, d+1) {
						return true
					}
				}
			}
			return false
		}
		return walk(v, 0)
	}
	for _, fn := range idpFns {
		for _, b := range fn.Blocks {
			for _, in := range b.Instrs {
				fa, ok := in.(*ssa.FieldAddr)
				if !ok {
					continue
				}
				n := namedOf(fa.X.Type())
				if n == nil {
					continue
				}
				g, ok := byType[n.Obj().Name()]
				if !ok {
					continue
				}
				fname := fieldName(fa.X.Type(), fa.Field)
				key := n.Obj().Name() + "." + fname
				if guardedField[key] || key == g.Mutex || isMutexType(derefType(fa.Type())) || isFreshLocal(fa.X) {
					continue
				}
				for _, rf := range *fa.Referrers() {
					switch x := rf.(type) {
					case *ssa.Store:
						if x.Addr == ssa.Value(fa) {
							accs[key] = append(accs[key], acc{fn, x, true})
							mutated[key] = true
						}
					case *ssa.UnOp:
						accs[key] = append(accs[key], acc{fn, x, false})
						if feedsDecision(x) {
							decides[key] = true
						}
					case ssa.CallInstruction:
						sc := x.Common().StaticCallee()
						if sc == nil || len(x.Common().Args) == 0 || x.Common().Args[0] != ssa.Value(fa) || sc.Pkg == nil || sc.Pkg.Pkg.Path() != "sync/atomic" {
							continue
						}
						w := mutating[sc.Name()]
						accs[key] = append(accs[key], acc{fn, x, w})
						if w {
							mutated[key] = true
						}
						if v, isVal := x.(ssa.Value); isVal && feedsDecision(v) {
							decides[key] = true
						}
					}
				}
			}
		}
	}
	var keys []string
	for k := range accs {
		if mutated[k] && decides[k] {
			keys = append(keys, k)
		}
	}
	sort.Strings(keys)
	for _, key := range keys {
		g := byType[strings.SplitN(key, ".", 2)[0]]
		for _, a := range accs[key] {
			must := la.Facts(a.fn).mustAt[a.in]
			kind, need := "read", modeR
			if a.write {
				kind, need = "change", modeW
			}
			r.Check(must[g.Mutex] >= need, "C20.guarded", fmt.Sprintf("%s: %s of %s, which request-time code changes and branches on", p.FnName(a.fn), kind, key), p.InstrPos(a.in),
				"held "+stateString(must), fmt.Sprintf("%s is part of the state %s guards, and this %s does not hold it (held: %s): the field and the map are seen in combinations that no order of the store operations produces", key, g.Mutex, kind, stateString(must)))
		}
	}
}
